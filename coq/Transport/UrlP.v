(* Transport/UrlP.v — proofs about Transport/Url.v *)
From Coq Require Import Lia ZifyN ZifyNat ZifyBool.
From Verif Require Import Base.Bytes Transport.Url.
Open Scope N_scope.

Definition noslash (s : bytes) : Prop := Forall (fun b => b <> SLASH) s.

(* ---------- upper ---------- *)
Lemma to_upper_slash b : to_upper b = SLASH <-> b = SLASH.
Proof.
  unfold to_upper, is_lower, SLASH.
  destruct ((97 <=? b) && (b <=? 122)) eqn:E; split; intros H; lia.
Qed.

Lemma upper_noslash s : noslash s -> noslash (upper s).
Proof.
  unfold noslash, upper. intros H. apply Forall_map.
  eapply Forall_impl; [|exact H]. intros b Hb Hc. apply (proj1 (to_upper_slash b)) in Hc. exact (Hb Hc).
Qed.

Lemma upper_app a b : upper (a ++ b) = upper a ++ upper b.
Proof. apply map_app. Qed.

Lemma upper_join ds : upper (join_with SLASH ds) = join_with SLASH (map upper ds).
Proof.
  induction ds as [|d r IH]; [reflexivity|].
  destruct r as [|d2 r']; [reflexivity|].
  change (join_with SLASH (d :: d2 :: r')) with (d ++ SLASH :: join_with SLASH (d2 :: r')).
  rewrite upper_app.
  change (upper (SLASH :: join_with SLASH (d2 :: r'))) with (SLASH :: upper (join_with SLASH (d2 :: r'))).
  rewrite IH. reflexivity.
Qed.

Lemma upper_compose digis target :
  upper (compose_path digis target) = compose_path (map upper digis) (upper target).
Proof.
  unfold compose_path.
  change (upper (SLASH :: join_with SLASH (digis ++ [target]))) with (SLASH :: upper (join_with SLASH (digis ++ [target]))).
  rewrite upper_join, map_app. reflexivity.
Qed.

(* ---------- path.Split ---------- *)
Lemma split_last_slash_rev_spec t pre acc :
  noslash t ->
  split_last_slash_rev (rev t ++ SLASH :: pre) acc = (rev (SLASH :: pre), t ++ acc).
Proof.
  intros Ht. revert acc. induction t as [|x t IH] using rev_ind; intros acc.
  - cbn. reflexivity.
  - rewrite rev_app_distr. cbn [rev app].
    apply Forall_app in Ht. destruct Ht as [Ht Hx]. inversion Hx as [|? ? Hx1 _]; subst.
    cbn [split_last_slash_rev]. destruct (x =? SLASH) eqn:E; [apply N.eqb_eq in E; contradiction|].
    rewrite IH by assumption. rewrite <- app_assoc. reflexivity.
Qed.

Lemma path_split_spec pre t :
  noslash t -> path_split (pre ++ SLASH :: t) = (pre ++ [SLASH], t).
Proof.
  intros Ht. unfold path_split. rewrite rev_app_distr. cbn [rev]. rewrite <- app_assoc. cbn [app].
  rewrite split_last_slash_rev_spec by assumption. cbn [rev]. rewrite rev_involutive, app_nil_r.
  reflexivity.
Qed.

(* ---------- join / split ---------- *)
Lemma join_snoc c ds t :
  join_with c (ds ++ [t]) = match ds with [] => t | _ => join_with c ds ++ c :: t end.
Proof.
  induction ds as [|d r IH]; [reflexivity|].
  destruct r as [|d2 r'].
  - reflexivity.
  - change ((d :: d2 :: r') ++ [t]) with (d :: (d2 :: r') ++ [t]).
    change (join_with c (d :: (d2 :: r') ++ [t])) with (d ++ c :: join_with c ((d2 :: r') ++ [t])).
    rewrite IH. change (join_with c (d :: d2 :: r')) with (d ++ c :: join_with c (d2 :: r')).
    rewrite <- app_assoc. reflexivity.
Qed.

Lemma split_on_nosep c s : Forall (fun b => b <> c) s -> split_on c s = [s].
Proof.
  induction s as [|x s IH]; intros H; [reflexivity|].
  inversion H as [|? ? Hx Hs]; subst. cbn [split_on]. rewrite IH by assumption.
  destruct (x =? c) eqn:E; [apply N.eqb_eq in E; contradiction|reflexivity].
Qed.

Lemma split_on_app_sep c a b :
  Forall (fun x => x <> c) a -> split_on c (a ++ c :: b) = a :: split_on c b.
Proof.
  induction a as [|x a IH]; intros H.
  - cbn [app split_on]. rewrite N.eqb_refl. destruct (split_on c b) eqn:E; [|reflexivity].
    destruct b; cbn in E; [discriminate|]. destruct (split_on c b); destruct (n =? c); discriminate.
  - inversion H as [|? ? Hx Ha]; subst. cbn [app split_on]. rewrite IH by assumption.
    destruct (x =? c) eqn:E; [apply N.eqb_eq in E; contradiction|reflexivity].
Qed.

Lemma split_join c ds :
  ds <> [] -> Forall (fun d => Forall (fun x => x <> c) d) ds ->
  split_on c (join_with c ds) = ds.
Proof.
  induction ds as [|d r IH]; intros Hne H; [congruence|].
  inversion H as [|? ? Hd Hr]; subst.
  destruct r as [|d2 r'].
  - cbn [join_with]. apply split_on_nosep. assumption.
  - change (join_with c (d :: d2 :: r')) with (d ++ c :: join_with c (d2 :: r')).
    rewrite split_on_app_sep by assumption. rewrite IH; [reflexivity|discriminate|assumption].
Qed.

(* ---------- trim ---------- *)
Lemma trim_left_id c s : hd c s <> c -> trim_left c s = s.
Proof.
  destruct s as [|x s]; [reflexivity|]. cbn [hd trim_left]. intros H.
  destruct (x =? c) eqn:E; [apply N.eqb_eq in E; contradiction|reflexivity].
Qed.

Lemma hd_rev_last (d : N) j : hd d (rev j) = last j d.
Proof.
  induction j as [|a j IH]; [reflexivity|].
  cbn [rev]. destruct j as [|b j'].
  - reflexivity.
  - change (last (a :: b :: j') d) with (last (b :: j') d). rewrite <- IH.
    cbn [rev]. destruct (rev j' ++ [b]) eqn:E; [destruct (rev j'); discriminate|reflexivity].
Qed.

Lemma trim_both c j :
  j <> [] -> hd c j <> c -> last j c <> c -> trim c (c :: j ++ [c]) = j.
Proof.
  intros Hne Hh Hl. unfold trim. cbn [trim_left]. rewrite N.eqb_refl.
  destruct j as [|x j']; [congruence|]. cbn [hd] in Hh.
  cbn [app trim_left]. destruct (x =? c) eqn:E; [apply N.eqb_eq in E; contradiction|].
  change (x :: j' ++ [c]) with ((x :: j') ++ [c]). rewrite rev_app_distr. cbn [rev app trim_left].
  rewrite N.eqb_refl. change (rev j' ++ [x]) with (rev (x :: j')).
  rewrite trim_left_id by (rewrite hd_rev_last; exact Hl).
  apply rev_involutive.
Qed.

Lemma last_app_nonempty (a j : bytes) d : j <> [] -> last (a ++ j) d = last j d.
Proof.
  intros Hj. induction a as [|x a IH]; [reflexivity|].
  cbn [app]. destruct (a ++ j) eqn:E.
  - destruct a; [cbn in E; congruence|discriminate].
  - rewrite <- IH. reflexivity.
Qed.

Definition component (d : bytes) : Prop := d <> [] /\ noslash d.

Lemma join_hd_last ds :
  ds <> [] -> Forall component ds ->
  let j := join_with SLASH ds in j <> [] /\ hd SLASH j <> SLASH /\ last j SLASH <> SLASH.
Proof.
  induction ds as [|d r IH]; intros Hne H; [congruence|].
  inversion H as [|? ? [Hd1 Hd2] Hr]; subst.
  destruct r as [|d2 r'].
  - cbn [join_with]. destruct d as [|x d']; [congruence|]. split; [discriminate|]. split.
    + cbn [hd]. inversion Hd2; assumption.
    + assert (Hin : In (last (x :: d') SLASH) (x :: d')).
      { clear. revert x. induction d' as [|y d' IH]; intros x; [left; reflexivity|].
        right. apply IH. }
      unfold noslash in Hd2. rewrite Forall_forall in Hd2. apply Hd2. exact Hin.
  - specialize (IH ltac:(discriminate) Hr). destruct IH as [I1 [I2 I3]].
    change (join_with SLASH (d :: d2 :: r')) with (d ++ SLASH :: join_with SLASH (d2 :: r')).
    set (j := join_with SLASH (d2 :: r')) in *.
    destruct d as [|x d']; [congruence|]. split; [discriminate|]. split.
    + cbn [app hd]. inversion Hd2; assumption.
    + change ((x :: d') ++ SLASH :: j) with ((x :: d') ++ (SLASH :: j)).
      rewrite last_app_nonempty by discriminate.
      destruct j as [|y j']; [congruence|]. exact I3.
Qed.

(* ---------- components ---------- *)
Lemma component_upper d : component d -> component (upper d).
Proof.
  intros [H1 H2]. split; [|apply upper_noslash; exact H2].
  destruct d; [congruence|discriminate].
Qed.

Lemma length_upper s : length (upper s) = length s.
Proof. apply map_length. Qed.

Theorem parse_url_components scheme host hostparam digis target :
  Forall component digis -> noslash target -> (3 <= length target)%nat ->
  let u := {| u_scheme := scheme;
              u_host := match hostparam with [] => host | h => h end;
              u_target := upper target;
              u_digis := map upper digis |} in
  parse_url {| pu_scheme := scheme; pu_host := host;
               pu_path := compose_path digis target; pu_host_param := hostparam |}
  = match digis with
    | [] => UrlOk u
    | _ :: _ => if beq_bytes scheme str_ardop || beq_bytes scheme str_telnet
                then UrlDigisUnsupported u else UrlOk u
    end.
Proof.
  intros Hd Ht Hl u. unfold parse_url. cbn [pu_path pu_scheme pu_host pu_host_param].
  rewrite upper_compose.
  set (D := map upper digis). set (T := upper target).
  assert (HT : noslash T) by (apply upper_noslash; exact Ht).
  assert (HD : Forall component D).
  { unfold D. apply Forall_map. eapply Forall_impl; [|exact Hd]. apply component_upper. }
  assert (HlT : (length T <? 3)%nat = false).
  { apply Nat.ltb_ge. unfold T. rewrite length_upper. exact Hl. }
  unfold compose_path. rewrite join_snoc.
  destruct D as [|d0 D'] eqn:ED.
  - (* no digis *)
    change (SLASH :: T) with ([] ++ SLASH :: T). rewrite path_split_spec by exact HT.
    rewrite HlT. cbn.
    destruct digis; [destruct hostparam; reflexivity|unfold D in ED; discriminate ED].
  - change (SLASH :: join_with SLASH (d0 :: D') ++ SLASH :: T)
      with ((SLASH :: join_with SLASH (d0 :: D')) ++ SLASH :: T).
    rewrite path_split_spec by exact HT. rewrite HlT.
    destruct (join_hd_last (d0 :: D') ltac:(discriminate) HD) as [J1 [J2 J3]].
    change ((SLASH :: join_with SLASH (d0 :: D')) ++ [SLASH])
      with (SLASH :: join_with SLASH (d0 :: D') ++ [SLASH]).
    rewrite trim_both by assumption.
    rewrite split_join; [|discriminate|].
    2:{ eapply Forall_impl; [|exact HD]. intros a [_ Ha]. exact Ha. }
    destruct digis as [|g gs]; [discriminate|].
    assert (Hne : forall (x : bytes) l, match x :: l with [[]] => @nil bytes | _ => x :: l end = x :: l
                                  \/ (x = [] /\ l = [])).
    { intros x l. destruct x; [destruct l; [right; split; reflexivity|left; reflexivity]|left; reflexivity]. }
    inversion HD as [|? ? [Hd0 _] _]; subst.
    destruct d0 as [|y d0']; [congruence|].
    unfold u. fold D. rewrite ED. destruct hostparam; reflexivity.
Qed.

Theorem parse_url_short_target p :
  (length (snd (path_split (upper (pu_path p)))) < 3)%nat -> parse_url p = UrlInvalidTarget.
Proof.
  intros H. unfold parse_url. destruct (path_split (upper (pu_path p))) as [via target].
  cbn [snd] in H. apply Nat.ltb_lt in H. rewrite H. reflexivity.
Qed.

(* ---------- registry refines "last registered" ---------- *)
Lemma beq_bytes_refl a : beq_bytes a a = true.
Proof. induction a as [|x a IH]; [reflexivity|]. cbn. rewrite N.eqb_refl, IH. reflexivity. Qed.

Lemma beq_bytes_eq a b : beq_bytes a b = true -> a = b.
Proof.
  revert b. induction a as [|x a IH]; intros [|y b] H; try reflexivity; try discriminate.
  cbn in H. apply andb_true_iff in H. destruct H as [H1 H2].
  apply N.eqb_eq in H1. subst. f_equal. apply IH. exact H2.
Qed.

Lemma lookup_remove_same r s : reg_lookup (reg_remove r s) s = None.
Proof.
  induction r as [|[k v] r IH]; [reflexivity|]. cbn [reg_remove].
  destruct (beq_bytes k s) eqn:E; [exact IH|]. cbn [reg_lookup]. rewrite E. exact IH.
Qed.

Lemma lookup_remove_other r s t :
  beq_bytes s t = false -> reg_lookup (reg_remove r s) t = reg_lookup r t.
Proof.
  intros Hst. induction r as [|[k v] r IH]; [reflexivity|]. cbn [reg_remove].
  destruct (beq_bytes k s) eqn:E.
  - apply beq_bytes_eq in E. subst k. cbn [reg_lookup]. rewrite Hst. exact IH.
  - cbn [reg_lookup]. destruct (beq_bytes k t); [reflexivity|exact IH].
Qed.

Definition abs_ok (r : registry) (h : list reg_op) : Prop :=
  forall s, reg_lookup r s = last_registered h s.

Lemma reg_step_abs r h o : abs_ok r h -> abs_ok (fst (reg_step r o)) (o :: h).
Proof.
  intros H s. destruct o as [k d|k|k]; cbn [reg_step fst last_registered].
  - cbn [reg_lookup]. destruct (beq_bytes k s) eqn:E; [reflexivity|].
    rewrite lookup_remove_other by exact E. apply H.
  - destruct (beq_bytes k s) eqn:E.
    + apply beq_bytes_eq in E. subst. apply lookup_remove_same.
    + rewrite lookup_remove_other by exact E. apply H.
  - apply H.
Qed.

Theorem reg_run_refines r h ops : abs_ok r h -> reg_run r ops = spec_run h ops.
Proof.
  revert r h. induction ops as [|o ops IH]; intros r h H; [reflexivity|].
  pose proof (reg_step_abs r h o H) as H'.
  destruct o as [k d|k|k]; cbn [reg_run reg_step spec_run] in *.
  - apply IH. exact H'.
  - apply IH. exact H'.
  - rewrite (H k). f_equal. apply IH. exact H'.
Qed.

Theorem reg_run_spec ops : reg_run [] ops = spec_run [] ops.
Proof. apply reg_run_refines. intros s. reflexivity. Qed.
