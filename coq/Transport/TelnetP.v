(* Transport/TelnetP.v — proofs about the telnet login model. *)
From Coq Require Import List NArith Bool Lia ZifyN ZifyNat ZifyBool.
From Verif Require Import Base.Bytes Base.Utf8 Transport.Ardop Transport.ArdopP Transport.Telnet.
Import ListNotations.
Open Scope N_scope.

(* ---------- TrimSpace leaves a string alone when its first and last bytes are ASCII non-space ---------- *)
Definition plain_byte (b : N) : Prop := b < 128 /\ is_space_rune b = false.
Definition no_outer_space (s : bytes) : Prop :=
  (forall a r, s = a :: r -> plain_byte a) /\ (forall i z, s = i ++ [z] -> plain_byte z).

Lemma rev'_rev {A} (l : list A) : rev' l = rev l.
Proof. unfold rev'. symmetry. apply rev_alt. Qed.

Lemma trim_left_plain a r fuel : plain_byte a -> trim_left_space fuel (a :: r) = a :: r.
Proof.
  intros [Ha Hs]. destruct fuel; [reflexivity|]. cbn [trim_left_space]. unfold decode_rune.
  apply N.ltb_lt in Ha. rewrite Ha, Hs. reflexivity.
Qed.

Lemma trim_right_plain z r fuel : plain_byte z -> trim_right_space_rev fuel (z :: r) = z :: r.
Proof.
  intros [Hz Hs]. destruct fuel; [reflexivity|]. cbn [trim_right_space_rev]. unfold decode_last_rune.
  apply N.ltb_lt in Hz. rewrite Hz, Hs. reflexivity.
Qed.

Theorem trim_space_plain s : no_outer_space s -> trim_space_go s = s.
Proof.
  intros [Hf Hl]. unfold trim_space_go. destruct s as [|a r]; [reflexivity|].
  rewrite trim_left_plain by (eapply Hf; reflexivity).
  destruct (exists_last (l := a :: r)) as [i [z E]]; [discriminate|].
  rewrite E. rewrite !rev'_rev, rev_app_distr. cbn [rev app].
  rewrite trim_right_plain by (eapply Hl; exact E).
  change (z :: rev i) with (rev [z] ++ rev i). rewrite <- rev_app_distr, rev_involutive. reflexivity.
Qed.

(* ---------- the server ---------- *)
Theorem server_accepts call pass payload : ~ In 13 call -> ~ In 13 pass ->
  telnet_server (call ++ [13] ++ pass ++ [13] ++ payload) = Accepted (trim_space_go call) payload.
Proof.
  intros Hc Hp. unfold telnet_server. cbn [app].
  rewrite split_at_app by exact Hc. rewrite split_at_app by exact Hp. reflexivity.
Qed.

Theorem server_reports_callsign call pass payload : ~ In 13 call -> ~ In 13 pass -> no_outer_space call ->
  telnet_server (call ++ [13] ++ pass ++ [13] ++ payload) = Accepted call payload.
Proof. intros Hc Hp Hn. rewrite server_accepts by assumption. rewrite trim_space_plain by exact Hn. reflexivity. Qed.

(* ---------- the client ---------- *)
Inductive lclass := LCall | LPass | LOther.
Definition classify (line : bytes) : lclass :=
  let l := trim_space_go (lower_ascii line) in
  if prefixb s_callsign l then LCall else if prefixb s_password l then LPass else LOther.

Lemma client_line k mycall pass line rest : ~ In 13 line ->
  client_login (S k) mycall pass (line ++ 13 :: rest) =
  match classify line with
  | LCall => let '(sent, r) := client_login k mycall pass rest in ((mycall ++ [13]) :: sent, r)
  | LPass => ([pass ++ [13]], Some rest)
  | LOther => client_login k mycall pass rest
  end.
Proof.
  intros Hn. cbn [client_login]. rewrite split_at_app by exact Hn. unfold classify.
  destruct (prefixb s_callsign _); [reflexivity|]. destruct (prefixb s_password _); reflexivity.
Qed.

Definition frame_lines (ls : list bytes) : bytes := concat (map (fun l => l ++ [13]) ls).
Definition other_line (l : bytes) : Prop := ~ In 13 l /\ classify l = LOther.

Lemma client_skips ls : Forall other_line ls -> forall k mycall pass rest,
  client_login (length ls + k) mycall pass (frame_lines ls ++ rest) = client_login k mycall pass rest.
Proof.
  induction ls as [|l r IH]; intros Hs k mycall pass rest; [reflexivity|].
  inversion Hs as [|? ? [H1 H2] H3]; subst. unfold frame_lines. cbn [map concat length Nat.add].
  rewrite <- !app_assoc. cbn [app]. rewrite client_line by exact H1. rewrite H2. apply IH. exact H3.
Qed.

Lemma classify_prompts : classify (removelast prompt_callsign) = LCall /\ classify (removelast prompt_password) = LPass.
Proof. vm_compute. split; reflexivity. Qed.

(* any server script made of ignorable lines, the callsign prompt, ignorable lines, the password
   prompt, then anything: the client answers callsign then password, and what follows the
   password prompt is exactly what is left for Read *)
Theorem client_logs_in pre mid mycall pass payload k :
  Forall other_line pre -> Forall other_line mid ->
  client_login (length pre + S (length mid + S k)) mycall pass
    (frame_lines pre ++ prompt_callsign ++ frame_lines mid ++ prompt_password ++ payload)
  = ([mycall ++ [13]; pass ++ [13]], Some payload).
Proof.
  intros Hp Hm. rewrite client_skips by exact Hp.
  change prompt_callsign with (removelast prompt_callsign ++ [13]). rewrite <- app_assoc. cbn [app].
  rewrite client_line by (vm_compute; intuition discriminate).
  rewrite (proj1 classify_prompts). rewrite client_skips by exact Hm.
  change prompt_password with (removelast prompt_password ++ [13]). rewrite <- app_assoc. cbn [app].
  rewrite client_line by (vm_compute; intuition discriminate).
  rewrite (proj2 classify_prompts). reflexivity.
Qed.

(* fuel: more fuel never changes a finished login *)
Lemma client_login_S k mycall pass s :
  client_login (S k) mycall pass s =
  match split_at 13 s with
  | (_, None) => ([], None)
  | (line, Some rest) =>
      let l := trim_space_go (lower_ascii line) in
      if prefixb s_callsign l then
        let '(sent, r) := client_login k mycall pass rest in ((mycall ++ [13]) :: sent, r)
      else if prefixb s_password l then ([pass ++ [13]], Some rest)
      else client_login k mycall pass rest
  end.
Proof. reflexivity. Qed.

Lemma client_fuel_mono k mycall pass : forall s sent rest,
  client_login k mycall pass s = (sent, Some rest) -> client_login (S k) mycall pass s = (sent, Some rest).
Proof.
  induction k as [|k IH]; intros s sent rest H; [cbn in H; discriminate|].
  rewrite client_login_S in H. rewrite (client_login_S (S k)).
  destruct (split_at 13 s) as [line [r|]]; [|discriminate]. cbv zeta in *.
  destruct (prefixb s_callsign _).
  - destruct (client_login k mycall pass r) as [sent' [r'|]] eqn:E.
    + rewrite (IH _ _ _ E). exact H.
    + inversion H.
  - destruct (prefixb s_password _); [exact H|]. apply IH. exact H.
Qed.

Lemma client_fuel_ge k mycall pass s sent rest n :
  client_login k mycall pass s = (sent, Some rest) -> client_login (n + k) mycall pass s = (sent, Some rest).
Proof. intros H. induction n as [|n IH]; [exact H|]. cbn [Nat.add]. apply client_fuel_mono. exact IH. Qed.

Lemma frame_lines_length ls : (length ls <= length (frame_lines ls))%nat.
Proof.
  induction ls as [|l r IH]; [cbn; lia|]. unfold frame_lines in *. cbn [map concat length].
  rewrite !app_length. cbn [length]. lia.
Qed.

Theorem telnet_client_logs_in pre mid mycall pass payload :
  Forall other_line pre -> Forall other_line mid ->
  telnet_client mycall pass (frame_lines pre ++ prompt_callsign ++ frame_lines mid ++ prompt_password ++ payload)
  = ([mycall ++ [13]; pass ++ [13]], Some payload).
Proof.
  intros Hp Hm. unfold telnet_client.
  set (s := frame_lines pre ++ prompt_callsign ++ frame_lines mid ++ prompt_password ++ payload).
  pose proof (client_logs_in pre mid mycall pass payload 0 Hp Hm) as H. fold s in H.
  assert (Hlen : (length pre + S (length mid + 1) <= S (length s))%nat).
  { unfold s. rewrite !app_length. pose proof (frame_lines_length pre). pose proof (frame_lines_length mid).
    change (length prompt_callsign) with 11%nat. change (length prompt_password) with 11%nat. lia. }
  replace (S (length s)) with ((S (length s) - (length pre + S (length mid + 1))) + (length pre + S (length mid + 1)))%nat by lia.
  apply client_fuel_ge. exact H.
Qed.

(* ---------- the two sides together: each side's Read continues with the other side's payload ---------- *)
Theorem login_hands_over_clean_streams mycall pass payload_c payload_s :
  ~ In 13 mycall -> ~ In 13 pass -> no_outer_space mycall ->
  telnet_client mycall pass (prompt_callsign ++ prompt_password ++ payload_s) = ([mycall ++ [13]; pass ++ [13]], Some payload_s) /\
  telnet_server (concat [mycall ++ [13]; pass ++ [13]] ++ payload_c) = Accepted mycall payload_c.
Proof.
  intros Hc Hp Hn. split.
  - apply (telnet_client_logs_in [] [] mycall pass payload_s); constructor.
  - cbn [concat]. rewrite app_nil_r, <- !app_assoc. apply server_reports_callsign; assumption.
Qed.

(* ---------- the deadline ---------- *)
Theorem dial_returns_by_deadline deadline mycall pass arrivals : forall buf,
  dial_time (dial_run deadline mycall pass buf arrivals) <= deadline.
Proof.
  induction arrivals as [|[t ev] r IH]; intros buf; cbn [dial_run dial_time]; [lia|].
  destruct (deadline <=? t) eqn:E; [cbn [dial_time]; lia|]. apply N.leb_gt in E.
  destruct ev as [b|]; [|cbn [dial_time]; lia].
  destruct (logged_in mycall pass (buf ++ b)); [cbn [dial_time]; lia|apply IH].
Qed.

Theorem dial_ok_means_logged_in deadline mycall pass arrivals : forall buf t,
  dial_run deadline mycall pass buf arrivals = DialOk t ->
  t < deadline /\ exists seen, logged_in mycall pass (buf ++ seen) = true.
Proof.
  induction arrivals as [|[t' ev] r IH]; intros buf t H; cbn [dial_run] in H; [discriminate|].
  destruct (deadline <=? t') eqn:E; [discriminate|]. apply N.leb_gt in E.
  destruct ev as [b|]; [|discriminate].
  destruct (logged_in mycall pass (buf ++ b)) eqn:L.
  - inversion H; subst. split; [exact E|]. exists b. exact L.
  - destruct (IH _ _ H) as [H1 [seen H2]]. split; [exact H1|]. exists (b ++ seen). rewrite app_assoc. exact H2.
Qed.
