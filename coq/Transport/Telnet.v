(* Transport/Telnet.v — model of the Winlink telnet login of transport/telnet:
   dial.go (DialContext's login loop on a buffered reader, context plumbing) and listen.go
   (Accept's prompt/read sequence).  A side is a function of the whole byte stream it receives
   (the buffered reader hides how the stream was segmented); what it returns as "rest" is what
   the connection's Read must deliver next.  Definitions only. *)
From Coq Require Import List NArith Bool.
From Verif Require Import Base.Bytes Base.Utf8.
Import ListNotations.
Open Scope N_scope.

Definition lower_ascii (s : bytes) : bytes := map to_lower s.
Definition s_callsign : bytes := [99; 97; 108; 108; 115; 105; 103; 110].
Definition s_password : bytes := [112; 97; 115; 115; 119; 111; 114; 100].
Definition prompt_callsign : bytes := [67; 97; 108; 108; 115; 105; 103; 110; 32; 58; 13].   (* "Callsign :\r" *)
Definition prompt_password : bytes := [80; 97; 115; 115; 119; 111; 114; 100; 32; 58; 13].   (* "Password :\r" *)

(* the client: lines up to CR; "callsign..." is answered with the callsign, "password..." with
   the password and ends the login.  Result: what was sent, and Some rest when logged in. *)
Fixpoint client_login (fuel : nat) (mycall pass s : bytes) : list bytes * option bytes :=
  match fuel with
  | O => ([], None)
  | S k =>
      match split_at 13 s with
      | (_, None) => ([], None)                       (* the stream ended (or stalled) inside a line *)
      | (line, Some rest) =>
          let l := trim_space_go (lower_ascii line) in
          if prefixb s_callsign l then
            let '(sent, r) := client_login k mycall pass rest in ((mycall ++ [13]) :: sent, r)
          else if prefixb s_password l then ([pass ++ [13]], Some rest)
          else client_login k mycall pass rest
      end
  end.

Definition telnet_client (mycall pass s : bytes) := client_login (S (length s)) mycall pass s.

(* the server: prompt, first line = callsign (white space trimmed), prompt, second line discarded *)
Inductive accepted := Accepted (call rest : bytes) | AcceptErr (prompts : nat).
Definition telnet_server (s : bytes) : accepted :=
  match split_at 13 s with
  | (_, None) => AcceptErr 1
  | (call, Some r1) =>
      match split_at 13 r1 with
      | (_, None) => AcceptErr 2
      | (_, Some rest) => Accepted (trim_space_go call) rest
      end
  end.

(* ---------- the dial deadline as decision logic ----------
   The login reads the server's bytes as they arrive; arrivals are (time, bytes) in order.
   Every blocking read ends at the arrival that completes it or at the deadline, whichever is
   first (the connection's deadline is set from the context). *)
Inductive dial_end := DialOk (t : N) | DialErr (t : N).

Definition logged_in (mycall pass buf : bytes) : bool :=
  match snd (telnet_client mycall pass buf) with Some _ => true | None => false end.

Fixpoint dial_run (deadline : N) (mycall pass : bytes) (buf : bytes) (arrivals : list (N * option bytes)) : dial_end :=
  match arrivals with
  | [] => DialErr deadline                              (* nothing more arrives: the read ends at the deadline *)
  | (t, ev) :: r =>
      if deadline <=? t then DialErr deadline
      else match ev with
           | None => DialErr t                          (* the server closed the connection *)
           | Some b => if logged_in mycall pass (buf ++ b) then DialOk t
                       else dial_run deadline mycall pass (buf ++ b) r
           end
  end.

Definition dial_time (e : dial_end) : N := match e with DialOk t => t | DialErr t => t end.
