(* Transport/Ardop.v — model of the ARDOP host interface of transport/ardop:
   crc16.go (crc16Sum), frame.go (writeCtrlFrame, readFrameOfType, decodeTNCStream),
   command.go (parseCtrlMsg; the case lists and the state map are regenerated from source),
   conn.go (Write incl. the CRCFAULT retry loop, Read) and the dispatch of tnc.go's control
   loop (ARQ data, PTT, BUFFER, NEWSTATE, DISCONNECTED).  Definitions only. *)
From Coq Require Import List NArith ZArith Bool Lia.
From Verif Require Import Base.Bytes Base.Utf8 gen.Tables Transport.Agwpe.
Import ListNotations.
Open Scope N_scope.

(* ---------- crc16Sum ---------- *)
Definition crc_step (sum : N) (bit : bool) : N :=
  let divisible := N.testbit sum 15 in
  let s1 := (sum * 2) mod 65536 in
  let s2 := if bit then (s1 + 1) mod 65536 else s1 in          (* uint16 arithmetic *)
  if divisible then (N.lxor s2 ardop_polynomial) mod 65536 else s2.

Definition crc_byte (sum b : N) : N :=
  fold_left (fun s i => crc_step s (N.testbit b i)) [7; 6; 5; 4; 3; 2; 1; 0] sum.

Definition ardop_crc16 (data : bytes) : N := fold_left crc_byte data 65535.

(* ---------- host -> TNC ---------- *)
Definition pfx (isTCP : bool) (p : bytes) : bytes := if isTCP then [] else p.

Definition host_cmd (isTCP : bool) (s : bytes) : bytes :=
  pfx isTCP [67; 58] ++ s ++ [13] ++ pfx isTCP (be16 (ardop_crc16 (s ++ [13]))).

Definition host_data (isTCP : bool) (p : bytes) : bytes :=
  let body := be16 (N.of_nat (length p)) ++ p in
  pfx isTCP [68; 58] ++ body ++ pfx isTCP (be16 (ardop_crc16 body)).

Definition max_write : nat := N.to_nat 65535.

(* Conn.Write: one data frame carrying at most 65535 bytes; the count returned *)
Definition ardop_write (isTCP : bool) (p : bytes) : bytes * nat :=
  let q := firstn max_write p in (host_data isTCP q, length q).

(* the CRCFAULT retry loop of Write: what goes on the wire and how Write ends *)
Inductive awresp := ARBuffer | ARCrcFault | AREof.
Inductive awresult := AWOk (n : nat) | AWCrcFail | AWEOF (n : nat) | AWBlocked.

Fixpoint write_try (left : nat) (frame : bytes) (n : nat) (resps : list awresp) : list bytes * awresult :=
  match left with
  | O => ([], AWCrcFail)
  | S l =>
      match resps with
      | [] => ([frame], AWBlocked)
      | ARBuffer :: _ => ([frame], AWOk n)
      | AREof :: _ => ([frame], AWEOF n)
      | ARCrcFault :: r => let '(fs, res) := write_try l frame n r in (frame :: fs, res)
      end
  end.

Definition ardop_write_faults (isTCP : bool) (p : bytes) (resps : list awresp) : list bytes * awresult :=
  let '(f, n) := ardop_write isTCP p in write_try 3 f n resps.

(* the TNC's view: it parses one frame per transmission and keeps it unless it answered CRCFAULT *)
Fixpoint tnc_kept (sent : list bytes) (resps : list awresp) : list bytes :=
  match sent, resps with
  | f :: fs, ARCrcFault :: r => tnc_kept fs r
  | f :: fs, ARBuffer :: r => f :: tnc_kept fs r
  | _, _ => []
  end.

(* the reference reading of a host data frame (what a TNC does with it) *)
Definition tnc_parse_data (isTCP : bool) (s : bytes) : option bytes :=
  let s1 := if isTCP then Some s else
              match s with 68 :: 58 :: r => Some r | _ => None end in
  match s1 with
  | Some (a :: b :: r) =>
      let n := N.to_nat (be_to_N [a; b]) in
      let p := firstn n r in
      let rest := skipn n r in
      if negb (Nat.eqb (length p) n) then None
      else if isTCP then (match rest with [] => Some p | _ => None end)
      else match rest with
           | [c; d] => if ardop_crc16 (a :: b :: p) =? be_to_N [c; d] then Some p else None
           | _ => None
           end
  | _ => None
  end.

(* ---------- TNC -> host ---------- *)
Definition tnc_cmd (isTCP : bool) (s : bytes) : bytes :=
  pfx isTCP [99; 58] ++ s ++ [13] ++ pfx isTCP (be16 (ardop_crc16 (s ++ [13]))).

Definition tnc_data (isTCP : bool) (typ p : bytes) : bytes :=
  let body := be16 (N.of_nat (length (typ ++ p))) ++ typ ++ p in
  pfx isTCP [100; 58] ++ body ++ pfx isTCP (be16 (ardop_crc16 body)).

Inductive afr := AFCmd (s : bytes) | AFData (typ p : bytes).
Inductive aerr := AEEOF | AEType (t : N) | AEShortData | AEChecksum.
Inductive ares := AFrame (f : afr) (rest : bytes) | AErr (e : aerr) (rest : bytes).

Definition take_crc (isTCP : bool) (data rest : bytes) (f : afr) : ares :=
  if isTCP then AFrame f rest else
  match rest with
  | a :: b :: rest' => if ardop_crc16 data =? be_to_N [a; b] then AFrame f rest' else AErr AEChecksum rest'
  | _ => AErr AEEOF []
  end.

Definition read_body (ftype : N) (isTCP : bool) (s : bytes) : ares :=
  if ftype =? 99 then
    match split_at 13 s with
    | (_, None) => AErr AEEOF []
    | (line, Some rest) => take_crc isTCP (line ++ [13]) rest (AFCmd line)
    end
  else if ftype =? 100 then
    match s with
    | a :: b :: _ =>
        let n := (N.to_nat (be_to_N [a; b]) + 2)%nat in
        if (length s <? n)%nat then AErr AEEOF []
        else
          let data := firstn n s in
          let rest := skipn n s in
          if (n <? 5)%nat then AErr AEShortData rest
          else take_crc isTCP data rest (AFData (firstn 3 (skipn 2 data)) (skipn 5 data))
    | _ => AErr AEEOF []
    end
  else AErr (AEType ftype) s.

(* readFrameOfType: '*' (serial) reads the type byte, discards the separator and dispatches *)
Fixpoint read_frame (fuel : nat) (ftype : N) (isTCP : bool) (s : bytes) : ares :=
  if ftype =? 42 then
    match fuel with
    | O => AErr AEEOF []
    | S k =>
        match s with
        | [] => AErr AEEOF []
        | t :: s1 => read_frame k t isTCP (tl s1)
        end
    end
  else read_body ftype isTCP s.

(* decodeTNCStream: frames and errors until end of stream *)
Fixpoint decode_stream (fuel : nat) (ftype : N) (isTCP : bool) (s : bytes) : list (afr + aerr) :=
  match fuel with
  | O => []
  | S k =>
      match read_frame (S (length s)) ftype isTCP s with
      | AFrame f rest => inl f :: decode_stream k ftype isTCP rest
      | AErr AEEOF _ => [inr AEEOF]
      | AErr e rest => inr e :: decode_stream k ftype isTCP rest
      end
  end.

Definition ardop_decode (ftype : N) (isTCP : bool) (s : bytes) := decode_stream (S (length s)) ftype isTCP s.

(* ---------- parseCtrlMsg ---------- *)
Inductive cval := VNone | VBool (b : bool) | VState (n : N) | VStr (s : bytes) | VList (l : list bytes) | VInt (z : Z).

Definition lower (s : bytes) : bytes := map to_lower s.

Definition split2 (s : bytes) : list bytes :=
  match split_at 32 s with (a, None) => [a] | (a, Some b) => [a; b] end.

(* the kind of value parseCtrlMsg stores for a command (regenerated from the switch in the
   source: 0 bool, 4 state, 5 string, 6 list split at spaces, 7 list split at commas, 8 int,
   1 nothing); commands in no clause get nothing *)
Fixpoint kind_of (cmd : bytes) (cases : list (N * list bytes)) : N :=
  match cases with
  | [] => 1
  | (k, c) :: r => if existsb (beq_bytes cmd) c then k else kind_of cmd r
  end.

Fixpoint lookup_state (k : bytes) (m : list (bytes * N)) : N :=
  match m with [] => 0 | (k', v) :: r => if beq_bytes k k' then v else lookup_state k r end.

(* strconv.Atoi: optional sign, one or more digits; out of range clamps (the error is only logged) *)
Definition max_int : Z := 9223372036854775807.
Definition atoi (s : bytes) : Z :=
  let '(neg, ds) := match s with 45 :: r => (true, r) | 43 :: r => (false, r) | _ => (false, s) end in
  match ds with
  | [] => 0%Z
  | _ =>
      if forallb is_digit ds then
        let v := Z.of_N (fold_left (fun acc d => acc * 10 + (d - 48)) ds 0) in
        if neg then (if (max_int + 1 <? v)%Z then (- (max_int + 1))%Z else (- v)%Z)
        else (if (max_int <? v)%Z then max_int else v)
      else 0%Z
  end.

(* None = the Go code would index out of range *)
Definition parse_ctrl (str : bytes) : option (bytes * cval) :=
  let str := trim_space_go str in
  let parts := split2 str in
  let parts := if (length parts <? 2)%nat then parts ++ [[]] else parts in
  match nth_error parts 0, nth_error parts 1 with
  | Some c, Some p1 =>
      let cmd := upper c in
      let p1 := if prefixb [110; 111; 119; 32] (lower p1) then skipn 4 p1 else p1 in
      let v :=
        match kind_of cmd ardop_ctrl_cases with
        | 0 => VBool (beq_bytes (lower p1) [116; 114; 117; 101])
        | 4 => VState (lookup_state (upper p1) ardop_state_map)
        | 5 => VStr p1
        | 6 => VList (map trim_space_go (split_on 32 p1))
        | 7 => VList (map trim_space_go (split_on 44 p1))
        | 8 => VInt (atoi p1)
        | _ => VNone
        end in
      Some (cmd, v)
  | _, _ => None
  end.

(* ---------- dispatch of the control loop ---------- *)
Record cstate := { cs_connected : bool; cs_queue : list bytes; cs_ptt : list bool; cs_buffer : Z;
                   cs_flush_locked : bool; cs_state : N; cs_eofs : nat }.

Definition cs_init (connected : bool) : cstate :=
  {| cs_connected := connected; cs_queue := []; cs_ptt := []; cs_buffer := 0; cs_flush_locked := false;
     cs_state := 0; cs_eofs := 0 |}.

Definition cs_eof (c : cstate) : cstate :=
  if cs_connected c then
    {| cs_connected := false; cs_queue := cs_queue c; cs_ptt := cs_ptt c; cs_buffer := cs_buffer c;
       cs_flush_locked := cs_flush_locked c; cs_state := cs_state c; cs_eofs := S (cs_eofs c) |}
  else c.

Definition ctrl_step (c : cstate) (f : afr) : cstate :=
  match f with
  | AFData typ p =>
      if beq_bytes typ [65; 82; 81] && cs_connected c then
        {| cs_connected := true; cs_queue := cs_queue c ++ [p]; cs_ptt := cs_ptt c; cs_buffer := cs_buffer c;
           cs_flush_locked := cs_flush_locked c; cs_state := cs_state c; cs_eofs := cs_eofs c |}
      else c
  | AFCmd line =>
      match parse_ctrl line with
      | Some (cmd, VBool b) =>
          if beq_bytes cmd [80; 84; 84] then
            {| cs_connected := cs_connected c; cs_queue := cs_queue c; cs_ptt := cs_ptt c ++ [b]; cs_buffer := cs_buffer c;
               cs_flush_locked := cs_flush_locked c; cs_state := cs_state c; cs_eofs := cs_eofs c |}
          else c
      | Some (cmd, VInt n) =>
          if beq_bytes cmd [66; 85; 70; 70; 69; 82] then
            {| cs_connected := cs_connected c; cs_queue := cs_queue c; cs_ptt := cs_ptt c; cs_buffer := n;
               cs_flush_locked := if (n =? 0)%Z then false else cs_flush_locked c; cs_state := cs_state c; cs_eofs := cs_eofs c |}
          else c
      | Some (cmd, VState s) =>
          if beq_bytes cmd [78; 69; 87; 83; 84; 65; 84; 69] then
            let c' := {| cs_connected := cs_connected c; cs_queue := cs_queue c; cs_ptt := cs_ptt c; cs_buffer := cs_buffer c;
                         cs_flush_locked := cs_flush_locked c; cs_state := s; cs_eofs := cs_eofs c |} in
            if s =? 2 then cs_eof c' else c'
          else c
      | Some (cmd, VNone) =>
          if beq_bytes cmd [68; 73; 83; 67; 79; 78; 78; 69; 67; 84; 69; 68] then
            cs_eof {| cs_connected := cs_connected c; cs_queue := cs_queue c; cs_ptt := cs_ptt c; cs_buffer := cs_buffer c;
                      cs_flush_locked := cs_flush_locked c; cs_state := 2; cs_eofs := cs_eofs c |}
          else c
      | _ => c
      end
  end.

Definition ctrl_run (c : cstate) (fs : list afr) : cstate := fold_left ctrl_step fs c.

(* what the frames ask for, read off the frames alone (the specification side) *)
Definition ptt_of (f : afr) : list bool :=
  match f with
  | AFCmd line =>
      match parse_ctrl line with
      | Some (cmd, VBool b) => if beq_bytes cmd [80; 84; 84] then [b] else []
      | _ => []
      end
  | _ => []
  end.
