(* Transport/PipelineP.v — for EVERY schedule the pipeline delivers an order-preserving
   sub-sequence of what the TNC sent (nothing reordered, duplicated or invented), and exactly
   what it sent when no Enqueue found its queue full. *)
From Coq Require Import List Arith Bool Lia.
From Verif Require Import Transport.Pipeline.
Import ListNotations.

Section PipeP.
  Variable frame : Type.
  Notation stage := (stage frame).
  Notation pstate := (pstate frame).
  Notation subseq := (subseq frame).

  Definition content (s : pstate) : list frame := delivered s ++ in_flight frame (stages s).

  (* ---------- sub-sequences ---------- *)
  Lemma subseq_refl l : subseq l l.
  Proof. induction l; constructor; assumption. Qed.

  Lemma subseq_trans a b c : subseq a b -> subseq b c -> subseq a c.
  Proof.
    intros H1 H2. revert a H1. induction H2 as [l|x b c H IH|x b c H IH]; intros a H1.
    - inversion H1; constructor.
    - inversion H1; subst; [constructor|apply sub_take; apply IH; assumption|apply sub_skip; apply IH; assumption].
    - apply sub_skip. apply IH. exact H1.
  Qed.

  Lemma subseq_app_tail a b x : subseq a b -> subseq (a ++ [x]) (b ++ [x]).
  Proof.
    induction 1 as [l|y a b H IH|y a b H IH]; cbn [app].
    - induction l as [|z l IHl]; cbn [app]; [apply subseq_refl|apply sub_skip; exact IHl].
    - apply sub_take. exact IH.
    - apply sub_skip. exact IH.
  Qed.

  Lemma subseq_skip_tail a b x : subseq a b -> subseq a (b ++ [x]).
  Proof. induction 1; cbn [app]; constructor; assumption. Qed.

  Lemma subseq_remove l1 x l2 : subseq (l1 ++ l2) (l1 ++ x :: l2).
  Proof. induction l1; cbn [app]; [apply sub_skip; apply subseq_refl|apply sub_take; assumption]. Qed.

  Lemma subseq_prefix a b c : subseq (a ++ b) c -> subseq a c.
  Proof.
    intros H. apply subseq_trans with (a ++ b); [|exact H].
    clear H. induction a; cbn [app]; [constructor|apply sub_take; assumption].
  Qed.

  (* ---------- one step ---------- *)
  Lemma offer_cases (s : stage) f s' d : offer frame s f = Some (s', d) ->
    (d = false /\ st_q s' = st_q s ++ [f]) \/ (d = true /\ s' = s).
  Proof.
    unfold offer. destruct (length (st_q s) <? st_cap s); [intros H; inversion H; left; split; reflexivity|].
    destruct (st_lossy s); intros H; inversion H. right. split; reflexivity.
  Qed.

  Lemma move_at_flight i : forall ss ss' d, move_at frame i ss = Some (ss', d) ->
    (d = false /\ in_flight frame ss' = in_flight frame ss) \/
    (d = true /\ exists l1 x l2, in_flight frame ss = l1 ++ x :: l2 /\ in_flight frame ss' = l1 ++ l2).
  Proof.
    induction i as [|k IH]; intros ss ss' d H.
    - destruct ss as [|a [|b r]]; cbn [move_at] in H; try discriminate.
      destruct (st_q a) as [|f qa] eqn:Ea; [discriminate|].
      destruct (offer frame b f) as [[b' d']|] eqn:Eo; [|discriminate]. inversion H; subst.
      destruct (offer_cases _ _ _ _ Eo) as [[Hd Hq]|[Hd Hb]]; subst.
      + left. split; [reflexivity|]. cbn [in_flight with_q st_q]. rewrite Hq, Ea, <- !app_assoc. reflexivity.
      + right. split; [reflexivity|]. exists (in_flight frame r ++ st_q b), f, qa.
        cbn [in_flight with_q st_q]. rewrite Ea, <- !app_assoc. split; reflexivity.
    - destruct ss as [|a r]; cbn [move_at] in H; [discriminate|].
      destruct (move_at frame k r) as [[r' d']|] eqn:Em; [|discriminate]. inversion H; subst.
      destruct (IH _ _ _ Em) as [[Hd Hf]|[Hd [l1 [x [l2 [E1 E2]]]]]].
      + left. split; [exact Hd|]. cbn [in_flight]. rewrite Hf. reflexivity.
      + right. split; [exact Hd|]. exists l1, x, (l2 ++ st_q a). cbn [in_flight]. rewrite E1, E2, <- !app_assoc. split; reflexivity.
  Qed.

  Lemma deliver_last_cons2 a b r :
    deliver_last frame (a :: b :: r) =
    match deliver_last frame (b :: r) with Some (r', f) => Some (a :: r', f) | None => None end.
  Proof. reflexivity. Qed.

  Lemma deliver_last_flight : forall ss ss' f, deliver_last frame ss = Some (ss', f) ->
    in_flight frame ss = f :: in_flight frame ss'.
  Proof.
    induction ss as [|a r IH]; intros ss' f H; [cbn in H; discriminate|].
    destruct r as [|b r'].
    - cbn [deliver_last] in H. destruct (st_q a) as [|g q] eqn:E; [discriminate|]. inversion H; subst.
      cbn [in_flight with_q st_q app]. rewrite E. reflexivity.
    - rewrite deliver_last_cons2 in H. revert H.
      case_eq (deliver_last frame (b :: r')); [intros [r2 g] Ed H|intros _ H; discriminate].
      inversion H; subst. change (in_flight frame (a :: b :: r')) with (in_flight frame (b :: r') ++ st_q a).
      rewrite (IH _ _ Ed). reflexivity.
  Qed.

  (* ---------- one step keeps "content is a sub-sequence of what was sent" ---------- *)
  Lemma pstep_subseq s e : subseq (content s) (sent s) -> subseq (content (pstep frame s e)) (sent (pstep frame s e)).
  Proof.
    unfold content. intros H. destruct e as [f|i|]; cbn [pstep].
    - destruct (stages s) as [|a r] eqn:Es; [rewrite Es; exact H|].
      destruct (offer frame a f) as [[a' d]|] eqn:Eo; [|rewrite Es; exact H].
      cbn [stages delivered sent in_flight]. cbn [in_flight] in H.
      destruct (offer_cases _ _ _ _ Eo) as [[Hd Hq]|[Hd Ha]]; subst.
      + rewrite Hq, !app_assoc. apply subseq_app_tail. rewrite <- app_assoc. exact H.
      + apply subseq_skip_tail. exact H.
    - destruct (move_at frame i (stages s)) as [[ss d]|] eqn:Em; [|exact H].
      cbn [stages delivered sent].
      destruct (move_at_flight _ _ _ _ Em) as [[Hd Hf]|[Hd [l1 [x [l2 [E1 E2]]]]]].
      + rewrite Hf. exact H.
      + rewrite E2. rewrite E1 in H. eapply subseq_trans; [|exact H].
        rewrite !app_assoc. apply subseq_remove.
    - destruct (deliver_last frame (stages s)) as [[ss f]|] eqn:Ed; [|exact H].
      cbn [stages delivered sent]. rewrite (deliver_last_flight _ _ _ Ed) in H.
      rewrite <- app_assoc. cbn [app]. exact H.
  Qed.

  Lemma pstep_drops_mono s e : drops s <= drops (pstep frame s e).
  Proof.
    destruct e as [f|i|]; cbn [pstep].
    - destruct (stages s) as [|a r]; [lia|]. destruct (offer frame a f) as [[a' d]|]; [|lia]. destruct d; cbn [drops]; lia.
    - destruct (move_at frame i (stages s)) as [[ss d]|]; [|lia]. destruct d; cbn [drops]; lia.
    - destruct (deliver_last frame (stages s)) as [[ss f]|]; cbn [drops]; lia.
  Qed.

  (* without a drop in this step, nothing is lost *)
  Lemma pstep_exact s e : drops (pstep frame s e) = drops s -> content s = sent s ->
    content (pstep frame s e) = sent (pstep frame s e).
  Proof.
    unfold content. intros Hd H. destruct e as [f|i|]; cbn [pstep] in *.
    - destruct (stages s) as [|a r] eqn:Es; [rewrite Es; exact H|].
      destruct (offer frame a f) as [[a' d]|] eqn:Eo; [|rewrite Es; exact H].
      cbn [stages delivered sent in_flight drops] in *.
      destruct (offer_cases _ _ _ _ Eo) as [[Hd' Hq]|[Hd' Ha]]; subst; [|lia].
      rewrite Hq, !app_assoc. f_equal. rewrite <- app_assoc. exact H.
    - destruct (move_at frame i (stages s)) as [[ss d]|] eqn:Em; [|exact H].
      cbn [stages delivered sent drops] in *.
      destruct (move_at_flight _ _ _ _ Em) as [[Hd' Hf]|[Hd' _]]; subst; [|lia].
      rewrite Hf. exact H.
    - destruct (deliver_last frame (stages s)) as [[ss f]|] eqn:Ed; [|exact H].
      cbn [stages delivered sent]. rewrite (deliver_last_flight _ _ _ Ed) in H.
      rewrite <- app_assoc. cbn [app]. exact H.
  Qed.

  (* ---------- every schedule ---------- *)
  Lemma prun_cons s e r : prun frame s (e :: r) = prun frame (pstep frame s e) r.
  Proof. reflexivity. Qed.

  Theorem prun_subseq es : forall s, subseq (content s) (sent s) ->
    subseq (content (prun frame s es)) (sent (prun frame s es)).
  Proof.
    induction es as [|e r IH]; intros s H; [exact H|]. rewrite prun_cons.
    apply IH. apply pstep_subseq. exact H.
  Qed.

  Lemma prun_drops_mono es : forall s, drops s <= drops (prun frame s es).
  Proof.
    induction es as [|e r IH]; intros s; [cbn; lia|]. rewrite prun_cons.
    apply Nat.le_trans with (drops (pstep frame s e)); [apply pstep_drops_mono|apply IH].
  Qed.

  Theorem prun_exact es : forall s, drops (prun frame s es) = drops s -> content s = sent s ->
    content (prun frame s es) = sent (prun frame s es).
  Proof.
    induction es as [|e r IH]; intros s Hd H; [exact H|]. rewrite prun_cons in *.
    pose proof (pstep_drops_mono s e) as M1. pose proof (prun_drops_mono r (pstep frame s e)) as M2.
    apply IH; [lia|]. apply pstep_exact; [lia|exact H].
  Qed.

  (* what Read has been given is, under every schedule, an order-preserving sub-sequence of
     what the TNC sent: nothing reordered, duplicated or invented *)
  Theorem delivered_subseq es s : subseq (content s) (sent s) ->
    subseq (delivered (prun frame s es)) (sent (prun frame s es)).
  Proof. intros H. eapply subseq_prefix. apply (prun_subseq es s H). Qed.

  (* and when no Enqueue ever found its queue full and the pipeline has drained, exactly what it sent *)
  Theorem delivered_all es s : drops (prun frame s es) = drops s -> content s = sent s ->
    in_flight frame (stages (prun frame s es)) = [] ->
    delivered (prun frame s es) = sent (prun frame s es).
  Proof.
    intros Hd H He. pose proof (prun_exact es s Hd H) as E. unfold content in E. rewrite He, app_nil_r in E. exact E.
  Qed.
End PipeP.
