(* Transport/Url.v — model of transport/url.go ParseURL (everything after net/url.Parse,
   whose result is the model's input) and of the dialer registry of transport/dial.go.
   Definitions only.  Upper-casing is modelled for ASCII; bytes >= 128 are left unchanged
   (the harness compares only ASCII paths; strings.ToUpper on non-ASCII is stdlib). *)
From Verif Require Import Base.Bytes.
Open Scope N_scope.

Definition SLASH : N := 47.

(* path.Split: (dir, file), dir ends in the last slash *)
Fixpoint split_last_slash_rev (r : bytes) (acc : bytes) : bytes * bytes :=
  match r with
  | [] => ([], acc)
  | x :: r' => if x =? SLASH then (rev r, acc) else split_last_slash_rev r' (x :: acc)
  end.
Definition path_split (p : bytes) : bytes * bytes := split_last_slash_rev (rev p) [].

Fixpoint trim_left (c : N) (s : bytes) : bytes :=
  match s with
  | x :: r => if x =? c then trim_left c r else s
  | [] => []
  end.
Definition trim (c : N) (s : bytes) : bytes := rev (trim_left c (rev (trim_left c s))).

Record parsed_url := {
  pu_scheme : bytes;
  pu_host : bytes;
  pu_path : bytes;
  pu_host_param : bytes      (* u.Query().Get("host"), [] when absent *)
}.

Record wl_url := {
  u_scheme : bytes;
  u_host : bytes;
  u_target : bytes;
  u_digis : list bytes
}.

Inductive url_result :=
| UrlOk (u : wl_url)
| UrlInvalidTarget
| UrlDigisUnsupported (u : wl_url).

Definition str_ardop : bytes := [97;114;100;111;112].
Definition str_telnet : bytes := [116;101;108;110;101;116].

Definition parse_url (p : parsed_url) : url_result :=
  let up := upper (pu_path p) in
  let '(via, target) := path_split up in
  if (length target <? 3)%nat then UrlInvalidTarget
  else
    let host := match pu_host_param p with [] => pu_host p | h => h end in
    let ds := split_on SLASH (trim SLASH via) in
    let digis := match ds with [[]] => [] | _ => ds end in
    let u := {| u_scheme := pu_scheme p; u_host := host; u_target := target; u_digis := digis |} in
    let unsupported := beq_bytes (pu_scheme p) str_ardop || beq_bytes (pu_scheme p) str_telnet in
    match digis with
    | _ :: _ => if unsupported then UrlDigisUnsupported u else UrlOk u
    | [] => UrlOk u
    end.

(* the path a URL composed from components has (what net/url.Parse yields for unescaped
   components): "/" digi "/" digi ... "/" target *)
Definition compose_path (digis : list bytes) (target : bytes) : bytes :=
  SLASH :: join_with SLASH (digis ++ [target]).

(* ---------- dialer registry ---------- *)
Inductive reg_op :=
| Register (scheme : bytes) (dialer : N)
| Unregister (scheme : bytes)
| Dial (scheme : bytes).

Definition registry := list (bytes * N).

Fixpoint reg_lookup (r : registry) (s : bytes) : option N :=
  match r with
  | [] => None
  | (k, v) :: r' => if beq_bytes k s then Some v else reg_lookup r' s
  end.
Fixpoint reg_remove (r : registry) (s : bytes) : registry :=
  match r with
  | [] => []
  | (k, v) :: r' => if beq_bytes k s then reg_remove r' s else (k, v) :: reg_remove r' s
  end.

(* one atomic step (each operation holds the mutex for its whole access);
   output: Some (Some d) = dialled d, Some None = ErrMissingDialer, None = no output *)
Definition reg_step (r : registry) (o : reg_op) : registry * option (option N) :=
  match o with
  | Register s d => ((s, d) :: reg_remove r s, None)
  | Unregister s => (reg_remove r s, None)
  | Dial s => (r, Some (reg_lookup r s))
  end.

Fixpoint reg_run (r : registry) (ops : list reg_op) : list (option N) :=
  match ops with
  | [] => []
  | o :: ops' =>
      let '(r', out) := reg_step r o in
      match out with
      | Some x => x :: reg_run r' ops'
      | None => reg_run r' ops'
      end
  end.

(* specification: the dialer registered last for the scheme and not unregistered since *)
Fixpoint last_registered (history_rev : list reg_op) (s : bytes) : option N :=
  match history_rev with
  | [] => None
  | Register k d :: h => if beq_bytes k s then Some d else last_registered h s
  | Unregister k :: h => if beq_bytes k s then None else last_registered h s
  | Dial _ :: h => last_registered h s
  end.

Fixpoint spec_run (history_rev : list reg_op) (ops : list reg_op) : list (option N) :=
  match ops with
  | [] => []
  | Dial s :: ops' => last_registered history_rev s :: spec_run (Dial s :: history_rev) ops'
  | o :: ops' => spec_run (o :: history_rev) ops'
  end.
