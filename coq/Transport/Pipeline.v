(* Transport/Pipeline.v — the frame pipeline between the AGWPE TNC reader and Conn.Read as a
   transition system: a chain of FIFO stages (demux.in of the TNC, of the port, of the
   connection, the connection's dataFrames channel).  A stage with a non-blocking Enqueue
   (select/default in demux.Enqueue) DROPS the frame when its queue is full; a blocking stage
   makes the mover wait (the move is simply not enabled).  The scheduler is any sequence of
   events.  Definitions only. *)
From Coq Require Import List Arith Bool.
Import ListNotations.

Section Pipe.
  Variable frame : Type.

  (* one stage: capacity, whether Enqueue on it is non-blocking (lossy), current queue (oldest first) *)
  Record stage := { st_cap : nat; st_lossy : bool; st_q : list frame }.
  Definition with_q (s : stage) (q : list frame) : stage := {| st_cap := st_cap s; st_lossy := st_lossy s; st_q := q |}.

  (* offer a frame to a stage: Some new stage when the event can happen (accepted or dropped),
     None when the offer must wait (blocking stage that is full); the flag says "dropped" *)
  Definition offer (s : stage) (f : frame) : option (stage * bool) :=
    if length (st_q s) <? st_cap s then Some (with_q s (st_q s ++ [f]), false)
    else if st_lossy s then Some (s, true)
    else None.

  Inductive event := Arrive (f : frame)      (* the TNC reader has read a frame and enqueues it on stage 0 *)
                   | Move (i : nat)          (* the goroutine after stage i takes its oldest frame and offers it to stage i+1 *)
                   | Deliver.                (* Conn.Read takes the oldest frame of the last stage *)

  (* sent: the frames the TNC reader has enqueued (accepted or dropped) so far, in order *)
  Record pstate := { stages : list stage; delivered : list frame; drops : nat; sent : list frame }.

  Fixpoint move_at (i : nat) (ss : list stage) : option (list stage * bool) :=
    match i, ss with
    | O, a :: b :: r =>
        match st_q a with
        | [] => None
        | f :: qa =>
            match offer b f with
            | Some (b', d) => Some (with_q a qa :: b' :: r, d)
            | None => None
            end
        end
    | S k, a :: r => match move_at k r with Some (r', d) => Some (a :: r', d) | None => None end
    | _, _ => None
    end.

  Fixpoint deliver_last (ss : list stage) : option (list stage * frame) :=
    match ss with
    | [] => None
    | [a] => match st_q a with [] => None | f :: q => Some ([with_q a q], f) end
    | a :: r => match deliver_last r with Some (r', f) => Some (a :: r', f) | None => None end
    end.

  (* a disabled event leaves the state unchanged (the goroutine stays blocked) *)
  Definition pstep (s : pstate) (e : event) : pstate :=
    match e with
    | Arrive f =>
        match stages s with
        | a :: r =>
            match offer a f with
            | Some (a', d) => {| stages := a' :: r; delivered := delivered s; drops := (if d then S (drops s) else drops s);
                                 sent := sent s ++ [f] |}
            | None => s
            end
        | [] => s
        end
    | Move i =>
        match move_at i (stages s) with
        | Some (ss, d) => {| stages := ss; delivered := delivered s; drops := (if d then S (drops s) else drops s); sent := sent s |}
        | None => s
        end
    | Deliver =>
        match deliver_last (stages s) with
        | Some (ss, f) => {| stages := ss; delivered := delivered s ++ [f]; drops := drops s; sent := sent s |}
        | None => s
        end
    end.

  Definition prun (s : pstate) (es : list event) : pstate := fold_left pstep es s.

  (* everything still inside the pipeline, oldest (closest to Read) first *)
  Fixpoint in_flight (ss : list stage) : list frame :=
    match ss with [] => [] | a :: r => in_flight r ++ st_q a end.

  (* order-preserving sub-sequence *)
  Inductive subseq : list frame -> list frame -> Prop :=
  | sub_nil : forall l, subseq [] l
  | sub_take : forall x a b, subseq a b -> subseq (x :: a) (x :: b)
  | sub_skip : forall x a b, subseq a b -> subseq a (x :: b).
End Pipe.

Arguments st_cap {frame}. Arguments st_lossy {frame}. Arguments st_q {frame}.
Arguments stages {frame}. Arguments delivered {frame}. Arguments drops {frame}. Arguments sent {frame}.
Arguments Arrive {frame}. Arguments Move {frame}. Arguments Deliver {frame}.

(* the AGWPE pipeline: TNC demux (queue 1, lossy), port demux (1, lossy), connection demux
   (1, lossy), dataFrames (10, blocking) *)
Definition agw_pipeline {frame} : pstate frame :=
  {| stages := [ {| st_cap := 1; st_lossy := true; st_q := [] |}; {| st_cap := 1; st_lossy := true; st_q := [] |};
                 {| st_cap := 1; st_lossy := true; st_q := [] |}; {| st_cap := 10; st_lossy := false; st_q := [] |} ];
     delivered := []; drops := 0; sent := [] |}.
