(* Transport/AgwpeP.v — proofs about Transport/Agwpe.v. *)
From Coq Require Import Lia ZifyN ZifyNat ZifyBool.
From Verif Require Import Base.Bytes Base.BytesP Transport.Agwpe gen.Tables.
Open Scope N_scope.

Definition wf_frame (f : frame) : Prop :=
  f_port f < 256 /\ f_kind f < 256 /\ f_pid f < 256 /\ length (f_from f) = 10%nat /\ length (f_to f) = 10%nat
  /\ N.of_nat (length (f_data f)) <= max_data_len /\ f_datalen f = N.of_nat (length (f_data f)).

Lemma le32_roundtrip n : n < 4294967296 -> le_to_N (le32 n) = n.
Proof.
  intros H. unfold le32. cbn [le_to_N].
  pose proof (N.div_mod n 256 ltac:(discriminate)).
  pose proof (N.div_mod (n / 256) 256 ltac:(discriminate)).
  pose proof (N.div_mod (n / 65536) 256 ltac:(discriminate)).
  assert (n / 256 / 256 = n / 65536) by (rewrite N.div_div by discriminate; reflexivity).
  assert (n / 65536 / 256 = n / 16777216) by (rewrite N.div_div by discriminate; reflexivity).
  assert (n / 16777216 < 256) by (apply N.div_lt_upper_bound; [discriminate|exact H]).
  rewrite (N.mod_small (n / 16777216) 256) by assumption. lia.
Qed.

(* decoding what was encoded, with anything following *)
Lemma firstn_app_exact {A} (a b : list A) n : length a = n -> firstn n (a ++ b) = a.
Proof. intros <-. rewrite firstn_app, firstn_all, Nat.sub_diag. cbn. apply app_nil_r. Qed.
Lemma skipn_app_exact {A} (a b : list A) n : length a = n -> skipn n (a ++ b) = b.
Proof. intros <-. rewrite skipn_app, skipn_all, Nat.sub_diag. reflexivity. Qed.

Definition hdr (f : frame) : bytes :=
  [f_port f; 0; 0; 0; f_kind f; 0; f_pid f; 0] ++ f_from f ++ f_to f
  ++ le32 (N.of_nat (length (f_data f))) ++ [0; 0; 0; 0].

Lemma encode_hdr f : agw_encode f = hdr f ++ f_data f.
Proof. unfold agw_encode, hdr. repeat rewrite <- app_assoc. reflexivity. Qed.

Theorem read_encode f rest : wf_frame f -> agw_read_frame (agw_encode f ++ rest) = RdFrame f rest.
Proof.
  intros [Hp [Hk [Hi [Hf [Ht [Hl Hd]]]]]].
  set (L := N.of_nat (length (f_data f))) in *.
  assert (HL : L < 4294967296) by (unfold max_data_len in Hl; lia).
  assert (Hh : length (hdr f) = 36%nat).
  { unfold hdr. rewrite !app_length, Hf, Ht. reflexivity. }
  rewrite encode_hdr, <- app_assoc. unfold agw_read_frame.
  destruct (hdr f ++ f_data f ++ rest) as [|x s'] eqn:Es.
  { apply (f_equal (@length N)) in Es. rewrite app_length, Hh in Es. cbn in Es. lia. }
  rewrite <- Es. clear Es x s'.
  destruct (length (hdr f ++ f_data f ++ rest) <? 36)%nat eqn:E36.
  { apply Nat.ltb_lt in E36. rewrite app_length, Hh in E36. lia. }
  rewrite (firstn_app_exact _ _ 36 Hh), (skipn_app_exact _ _ 36 Hh).
  assert (H28 : skipn 28 (hdr f) = le32 L ++ [0; 0; 0; 0]).
  { unfold hdr. rewrite !app_assoc. rewrite <- (app_assoc _ (le32 L)).
    apply skipn_app_exact. rewrite !app_length, Hf, Ht. reflexivity. }
  rewrite H28. rewrite (firstn_app_exact (le32 L) _ 4 eq_refl). rewrite le32_roundtrip by exact HL.
  destruct (max_data_len <? L) eqn:E; [apply N.ltb_lt in E; lia|].
  unfold L. rewrite !Nat2N.id. fold L.
  destruct (length (f_data f ++ rest) <? length (f_data f))%nat eqn:E2.
  { apply Nat.ltb_lt in E2. rewrite app_length in E2. lia. }
  rewrite (firstn_app_exact _ _ _ eq_refl), (skipn_app_exact _ _ _ eq_refl).
  destruct f as [port kind pid from to dlen data]. cbn [f_port f_kind f_pid f_from f_to f_datalen f_data hdr] in *.
  f_equal. f_equal.
  - unfold hdr; cbn [f_port f_kind f_pid f_from f_to f_data app skipn]. apply firstn_app_exact. exact Hf.
  - unfold hdr; cbn [f_port f_kind f_pid f_from f_to f_data]. rewrite (app_assoc [port; 0; 0; 0; kind; 0; pid; 0] from).
    rewrite (skipn_app_exact _ _ 18) by (rewrite app_length, Hf; reflexivity). apply firstn_app_exact. exact Ht.
  - symmetry. exact Hd.
Qed.

(* reassembly: a stream of encoded frames parses into exactly those frames, whatever follows
   being reported as the reason to stop; chunking of the stream is irrelevant because the
   reader works on the stream (io.ReadFull) *)
Theorem read_frames_concat fs : Forall wf_frame fs ->
  forall fuel, (length fs < fuel)%nat -> agw_read_frames fuel (concat (map agw_encode fs)) = (fs, RdEOF).
Proof.
  induction fs as [|f fs IH]; intros Hw fuel Hf.
  - destruct fuel; [lia|]. reflexivity.
  - destruct fuel as [|k]; [lia|]. inversion Hw as [|? ? H1 H2]; subst.
    cbn [map concat agw_read_frames]. rewrite read_encode by exact H1.
    rewrite IH; [reflexivity|exact H2|cbn in Hf; lia].
Qed.

Theorem chunking_irrelevant (chunks : list bytes) fs : Forall wf_frame fs ->
  concat chunks = concat (map agw_encode fs) ->
  agw_read_frames (S (length fs)) (concat chunks) = (fs, RdEOF).
Proof. intros Hw E. rewrite E. apply read_frames_concat; [exact Hw|lia]. Qed.

(* a header announcing more than the limit is refused without reading (or allocating) it *)
Theorem too_long_refused s :
  (36 <= length s)%nat -> max_data_len < le_to_N (firstn 4 (skipn 28 (firstn 36 s))) -> agw_read_frame s = RdTooLong.
Proof.
  intros Hl Hd. unfold agw_read_frame. destruct s as [|x s']; [cbn in Hl; lia|].
  destruct (length (x :: s') <? 36)%nat eqn:E; [apply Nat.ltb_lt in E; lia|].
  apply N.ltb_lt in Hd. rewrite Hd. reflexivity.
Qed.

(* ---------- Read: the concatenation of what Read returns is the concatenation of the payloads ---------- *)
Lemma conn_reads_prefix sizes : forall pending frames,
  exists rest, pending ++ concat frames = concat (conn_reads pending frames sizes) ++ rest.
Proof.
  induction sizes as [|n r IH]; intros pending frames.
  - exists (pending ++ concat frames). reflexivity.
  - cbn [conn_reads]. unfold conn_read. destruct pending as [|p ps].
    + destruct frames as [|d fr]; [exists []; reflexivity|].
      destruct (IH (skipn n d) fr) as [rest Hr]. exists rest.
      cbn [concat app]. rewrite <- app_assoc, <- Hr, app_assoc, firstn_skipn. reflexivity.
    + destruct (IH (skipn n (p :: ps)) frames) as [rest Hr]. exists rest.
      cbn [concat]. rewrite <- app_assoc, <- Hr, app_assoc, firstn_skipn. reflexivity.
Qed.

(* with positive buffers, enough calls return everything *)
Fixpoint total (sizes : list nat) : nat := match sizes with [] => O | n :: r => (n + total r)%nat end.

Lemma conn_reads_all sizes : forall pending frames,
  Forall (fun n => (0 < n)%nat) sizes ->
  (length (pending ++ concat frames) + length frames <= length sizes)%nat ->
  Forall (fun d => d <> []) frames ->
  concat (conn_reads pending frames sizes) = pending ++ concat frames.
Proof.
  induction sizes as [|n r IH]; intros pending frames Hs Hl Hne.
  - cbn in Hl. destruct pending; [|cbn in Hl; lia]. destruct frames; [reflexivity|cbn in Hl; lia].
  - inversion Hs as [|? ? Hn Hr]; subst. cbn [conn_reads]. unfold conn_read. destruct pending as [|p ps].
    + destruct frames as [|d fr]; [reflexivity|]. inversion Hne as [|? ? Hd Hfr]; subst.
      cbn [concat app]. rewrite IH; [rewrite app_assoc, firstn_skipn; reflexivity|exact Hr| |exact Hfr].
      cbn [length app concat] in *. rewrite !app_length in *. rewrite skipn_length.
      destruct d; [congruence|]. cbn [length] in *. lia.
    + cbn [concat]. rewrite IH; [rewrite app_assoc, firstn_skipn; reflexivity|exact Hr| |exact Hne].
      rewrite !app_length in *. rewrite skipn_length. cbn [length] in *. lia.
Qed.

(* ---------- filter: what Read delivers has the connection's port, the peer's callsign, kind D ---------- *)
Theorem delivered_frames port peer f :
  conn_delivers port peer f = true ->
  f_port f = port /\ (f_from f = pad10 peer \/ f_to f = pad10 peer) /\ f_kind f = agw_kindConnectedData.
Proof.
  unfold conn_delivers, want. cbn [fl_port fl_call fl_to fl_kinds].
  intros H. repeat rewrite andb_true_r in H. cbn [andb] in H.
  apply andb_true_iff in H. destruct H as [H H3]. apply andb_true_iff in H. destruct H as [H1 H2].
  cbn [existsb] in H3. rewrite orb_false_r in H3.
  apply N.eqb_eq in H1. apply N.eqb_eq in H3. apply orb_true_iff in H2.
  repeat split; auto. destruct H2 as [H2|H2]; apply beq_bytes_true in H2; auto.
Qed.

(* ---------- Write: well-formed frames carrying port, callsigns, PID 0xF0 and the bytes written ---------- *)
Lemma pad10_length s : length (pad10 s) = 10%nat.
Proof.
  unfold pad10. rewrite firstn_length, app_length.
  assert (length (repeatN 0 10) = 10%nat) by reflexivity. lia.
Qed.

Theorem writes_frames port mycall peer writes :
  port < 256 -> Forall (fun w => N.of_nat (length w) <= max_data_len) writes ->
  let fs := conn_writes port mycall peer writes in
  Forall wf_frame fs /\
  Forall (fun f => f_port f = port /\ f_from f = pad10 mycall /\ f_to f = pad10 peer /\ f_pid f = 240
                   /\ f_kind f = agw_kindConnectedData) fs /\
  concat (map f_data fs) = concat writes.
Proof.
  intros Hp Hw fs. unfold fs, conn_writes. repeat split.
  - apply Forall_map. eapply Forall_impl; [|exact Hw]. intros w Hl.
    unfold wf_frame, data_frame, mk. cbn [f_port f_kind f_pid f_from f_to f_datalen f_data]. rewrite !pad10_length.
    repeat split; auto; try reflexivity; try lia.
  - apply Forall_map. apply Forall_forall. intros w _. cbn. repeat split; reflexivity.
  - rewrite map_map. cbn [data_frame mk f_data]. f_equal. apply map_id.
Qed.

(* what the TNC reads back from the bytes of those frames *)
Theorem writes_roundtrip port mycall peer writes :
  port < 256 -> Forall (fun w => N.of_nat (length w) <= max_data_len) writes ->
  let fs := conn_writes port mycall peer writes in
  agw_read_frames (S (length fs)) (concat (map agw_encode fs)) = (fs, RdEOF).
Proof.
  intros Hp Hw fs. apply read_frames_concat; [|lia].
  apply (writes_frames port mycall peer writes Hp Hw).
Qed.
