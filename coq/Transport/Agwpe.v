(* Transport/Agwpe.v — model of the AGWPE host protocol pieces of transport/ax25/agwpe
   (after four fix: commits): the 36-byte header and frame codec (frame.go), reading frames
   from a byte stream, the frames filter (demux.go), the frame constructors (frame_kinds.go),
   and the byte-stream view of a connection: Conn.Read with its left-over buffer over the
   sequence of delivered data frames, Conn.Write as one connected-data frame per call.
   Definitions only. *)
From Verif Require Import Base.Bytes gen.Tables.
Open Scope N_scope.

Record frame := {
  f_port : N; f_kind : N; f_pid : N;
  f_from : bytes; f_to : bytes;            (* 10 bytes each, NUL padded *)
  f_datalen : N;                            (* as carried in the header *)
  f_data : bytes
}.

Definition pad10 (s : bytes) : bytes := firstn 10 (s ++ repeatN 0 10).      (* callsignFromString *)

Definition max_data_len : N := 1048576.

(* header.WriteTo / frame.WriteTo: DataLen is always the length of Data *)
Definition agw_encode (f : frame) : bytes :=
  [f_port f; 0; 0; 0; f_kind f; 0; f_pid f; 0] ++ f_from f ++ f_to f
  ++ le32 (N.of_nat (length (f_data f))) ++ [0; 0; 0; 0] ++ f_data f.

Inductive rd := RdFrame (f : frame) (rest : bytes) | RdEOF | RdShort | RdTooLong.

(* frame.ReadFrom on a byte stream (binary.Read of the header, io.ReadFull of the data) *)
Definition agw_read_frame (s : bytes) : rd :=
  match s with
  | [] => RdEOF
  | _ =>
      if (length s <? 36)%nat then RdShort
      else
        let h := firstn 36 s in
        let len := le_to_N (firstn 4 (skipn 28 h)) in
        if max_data_len <? len then RdTooLong
        else
          let body := skipn 36 s in
          if (length body <? N.to_nat len)%nat then RdShort
          else RdFrame {| f_port := nth 0 h 0; f_kind := nth 4 h 0; f_pid := nth 6 h 0;
                          f_from := firstn 10 (skipn 8 h); f_to := firstn 10 (skipn 18 h);
                          f_datalen := len; f_data := firstn (N.to_nat len) body |}
                       (skipn (N.to_nat len) body)
  end.

Fixpoint agw_read_frames (fuel : nat) (s : bytes) : list frame * rd :=
  match fuel with
  | O => ([], RdEOF)
  | S k =>
      match agw_read_frame s with
      | RdFrame f rest => let '(fs, e) := agw_read_frames k rest in (f :: fs, e)
      | e => ([], e)
      end
  end.

(* ---------- filter ---------- *)
Record filter := { fl_kinds : list N; fl_port : option N; fl_call : option bytes; fl_to : option bytes }.

Definition want (fl : filter) (f : frame) : bool :=
  match fl_port fl with Some p => (p =? f_port f) | None => true end
  && match fl_call fl with Some c => beq_bytes c (f_from f) || beq_bytes c (f_to f) | None => true end
  && match fl_to fl with Some c => beq_bytes c (f_to f) | None => true end
  && match fl_kinds fl with [] => true | ks => existsb (fun k => k =? f_kind f) ks end.

(* the frames a connection (port, mycall, peer) delivers to Read: port filter, then the
   peer's callsign as From or To, then kind 'D' *)
Definition conn_delivers (port : N) (peer : bytes) (f : frame) : bool :=
  want {| fl_kinds := []; fl_port := Some port; fl_call := None; fl_to := None |} f
  && want {| fl_kinds := []; fl_port := None; fl_call := Some (pad10 peer); fl_to := None |} f
  && want {| fl_kinds := [agw_kindConnectedData]; fl_port := None; fl_call := None; fl_to := None |} f.

(* ---------- constructors ---------- *)
Definition mk (port kind pid : N) (from to : bytes) (data : bytes) : frame :=
  {| f_port := port; f_kind := kind; f_pid := pid; f_from := pad10 from; f_to := pad10 to;
     f_datalen := N.of_nat (length data); f_data := data |}.

Definition data_frame (port : N) (from to data : bytes) : frame := mk port agw_kindConnectedData 240 from to data.
Definition outstanding_frame (port : N) (from to : bytes) : frame := mk port agw_kindOutstandingFramesForConn 0 from to [].
Definition register_frame (port : N) (call : bytes) : frame := mk port agw_kindRegister 0 call [] [].
Definition unregister_frame (port : N) (call : bytes) : frame := mk port agw_kindUnregister 0 call [] [].
Definition disconnect_frame (port : N) (from to : bytes) : frame := mk port agw_kindDisconnect 0 from to [].
Definition connect_frame (port : N) (from to : bytes) (digis : list bytes) : frame :=
  match digis with
  | [] => mk port agw_kindConnect 0 from to []
  | _ => mk port agw_kindConnectVia 0 from to (N.of_nat (length digis) :: flat_map pad10 digis)
  end.

(* ---------- the connection as a byte stream ---------- *)
(* Conn.Read: state = (pending bytes, frames not yet taken); one call with a buffer of n bytes *)
Definition conn_read (pending : bytes) (frames : list bytes) (n : nat) : option (bytes * bytes * list bytes) :=
  match pending with
  | _ :: _ => Some (firstn n pending, skipn n pending, frames)
  | [] =>
      match frames with
      | [] => None                                     (* blocks (or EOF when the link is down) *)
      | d :: r => Some (firstn n d, skipn n d, r)
      end
  end.

Fixpoint conn_reads (pending : bytes) (frames : list bytes) (sizes : list nat) : list bytes :=
  match sizes with
  | [] => []
  | n :: r =>
      match conn_read pending frames n with
      | Some (got, pend', fr') => got :: conn_reads pend' fr' r
      | None => []
      end
  end.

(* Conn.Write: one connected-data frame per call *)
Definition conn_writes (port : N) (mycall peer : bytes) (writes : list bytes) : list frame :=
  map (data_frame port mycall peer) writes.
