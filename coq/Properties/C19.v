(* Properties/C19.v — connect URLs parse to exactly their components and reach the right
   dialer.  net/url.Parse is standard-library code: its result is the model's input. *)
From Verif Require Import Base.Bytes Transport.Url Transport.UrlP.
Open Scope N_scope.

(* Component fidelity: for every scheme, host, host parameter, list of digipeaters (non-empty,
   slash-free) and target (slash-free, at least three bytes), the URL whose path is
   /digi1/.../target parses into exactly those components: target and digipeaters upper-cased
   and in order, the host parameter overriding the host; digipeaters are refused exactly for
   the schemes ardop and telnet. *)
Theorem C19_components : forall scheme host hostparam digis target,
  Forall component digis -> noslash target -> (3 <= length target)%nat ->
  let u := {| u_scheme := scheme;
              u_host := match hostparam with [] => host | h => h end;
              u_target := upper target;
              u_digis := map upper digis |} in
  parse_url {| pu_scheme := scheme; pu_host := host;
               pu_path := compose_path digis target; pu_host_param := hostparam |}
  = match digis with
    | [] => UrlOk u
    | _ :: _ => if beq_bytes scheme str_ardop || beq_bytes scheme str_telnet
                then UrlDigisUnsupported u else UrlOk u
    end.
Proof. exact parse_url_components. Qed.
Print Assumptions C19_components.

(* Targets shorter than three characters are refused, whatever else the URL contains. *)
Theorem C19_short_target : forall p,
  (length (snd (path_split (upper (pu_path p)))) < 3)%nat -> parse_url p = UrlInvalidTarget.
Proof. exact parse_url_short_target. Qed.
Print Assumptions C19_short_target.

(* Totality: parse_url is a total function without partial operations; the Go code after
   url.Parse likewise contains no index or slice expression.  (Stated as: every input has a
   result in one of the three classes.) *)
Theorem C19_total : forall p, exists r, parse_url p = r /\
  match r with UrlOk _ | UrlInvalidTarget | UrlDigisUnsupported _ => True end.
Proof. intros p. exists (parse_url p). split; [reflexivity|]. destruct (parse_url p); exact I. Qed.
Print Assumptions C19_total.

(* Dispatch: over any sequence of register / unregister / dial steps (each atomic: the code
   holds the registry mutex for the whole access), every dial reaches the dialer registered
   last for its scheme and not unregistered since, or reports that none is registered. *)
Theorem C19_dispatch : forall ops, reg_run [] ops = spec_run [] ops.
Proof. exact reg_run_spec. Qed.
Print Assumptions C19_dispatch.

(* Non-vacuity *)
Example C19_example :
  parse_url {| pu_scheme := [97;120;50;53]; pu_host := [48];
               pu_path := compose_path [[108;97;49;98;45;49;48]] [108;97;53;110;116;97];
               pu_host_param := [] |}
  = UrlOk {| u_scheme := [97;120;50;53]; u_host := [48];
             u_target := [76;65;53;78;84;65]; u_digis := [[76;65;49;66;45;49;48]] |}.
Proof. vm_compute. reflexivity. Qed.
