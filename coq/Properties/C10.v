(* Properties/C10.v — the directory mailbox behaves like a simple mailbox over any history.
   Model: Mbox/Dir.v (folders listed in file-name order; writes replace the file of that MID;
   SetSent renames; the deferred set lives in the handler).  The correspondence check runs
   random and exhaustive-short histories on a real DirHandler, interleaved with fresh handler
   instances, and compares every observation with the model. *)
From Verif Require Import Base.Bytes Msg.Message Mbox.Dir Mbox.DirP gen.Tables.
Open Scope N_scope.

(* Over EVERY well-formed history (a message is not queued again under the MID of one already
   sent) from the empty mailbox: no folder ever holds two messages with one MID and no MID is
   in outbox and sent at once. *)
Theorem C10_invariant : forall ops, wf_history mbox_empty ops -> Inv (final mbox_empty ops).
Proof. intros ops H. apply inv_history; [apply inv_empty|exact H]. Qed.
Print Assumptions C10_invariant.

(* Partition: from any state satisfying the invariant, an outbound message stays in exactly
   one of outbox and sent whatever operations follow. *)
Theorem C10_partition : forall ops d x, Inv d -> wf_history d ops ->
  In x (mids (d_out d)) \/ In x (mids (d_sent d)) ->
  let d' := final d ops in
  (In x (mids (d_out d')) /\ ~ In x (mids (d_sent d'))) \/ (~ In x (mids (d_out d')) /\ In x (mids (d_sent d'))).
Proof. exact partition. Qed.
Print Assumptions C10_partition.

(* A proposal is rejected iff that MID is in the inbox; always deferred in send-only mode. *)
Theorem C10_answer : forall d mid,
  snd (step d (DGetInboundAnswer mid)) =
  ObAnswer (if d_sendonly d then AnsDefer else if mem_b mid (mids (d_in d)) then AnsReject else AnsAccept).
Proof. exact answer_spec. Qed.
Print Assumptions C10_answer.

(* An outbound query returns exactly the eligible messages -- everything not marked P2P-only
   for a CMS (no forwarders), only messages whose sole recipient is one of the announced
   forwarders for a P2P peer, never a deferred one -- and none carries a private header. *)
Theorem C10_eligible : forall d fws,
  snd (step d (DGetOutbound fws)) = ObMids (map (fun r => (m_mid r, false)) (filter (eligible d fws) (d_out d))).
Proof. exact outbound_spec. Qed.
Print Assumptions C10_eligible.

(* A deferral lasts for one session. *)
Theorem C10_deferral : forall d so,
  d_deferred (fst (step d DPrepare)) = [] /\ d_deferred (fst (step d (DRestart so))) = [].
Proof. exact deferral_one_session. Qed.
Print Assumptions C10_deferral.

(* Inbound messages are stored intact and flagged unread. *)
Theorem C10_inbound : forall d r, NoDup (mids (d_in d)) ->
  exists r', find (d_in (fst (step d (DProcessInbound r)))) (m_mid r) = Some r' /\ m_unread r' = true /\ m_tag r' = m_tag r.
Proof. exact inbound_unread. Qed.
Print Assumptions C10_inbound.

(* Non-vacuity: a history with a send and a restart is well formed and ends as expected. *)
Definition msg (mid : N) : mrec := {| m_mid := [mid]; m_rcpts := [[76;65;49;66]]; m_p2ponly := false; m_unread := false; m_tag := mid |}.
Example C10_history :
  let ops := [DAddOut (msg 65); DAddOut (msg 66); DPrepare; DSetSent [65]; DRestart false; DList FOut; DList FSent] in
  wf_history mbox_empty ops /\ run mbox_empty ops = [ObNone; ObNone; ObNone; ObNone; ObNone; ObMids [([66], false)]; ObMids [([65], false)]].
Proof. vm_compute. repeat split; auto; intros []. Qed.
