(* Properties/C13.v — an AGWPE connection is a reliable, ordered byte stream.
   What is proven here is the byte-level contract (frame codec, reassembly over any split of
   the TNC->host stream, Read with any caller buffer sizes, the frames produced by Write, the
   delivery filter) and the queue pipeline between the TNC reader and Conn.Read as a transition
   system under every schedule (order preservation always; completeness when no Enqueue
   overflows).  That the Go runtime's behaviour is one of the model's schedules, the pacing by
   outstanding-frame polls and the time-outs are exercised by the harness against a simulated
   TNC: the property is labelled partial for that part. *)
From Verif Require Import Base.Bytes Transport.Agwpe Transport.AgwpeP Transport.Pipeline Transport.PipelineP gen.Tables.
Open Scope N_scope.

(* Decoding what was encoded gives the frame back and leaves exactly the bytes that followed,
   for every well-formed frame (port/kind/pid one byte, callsign fields of 10 bytes, data length
   equal to the data and within the limit) and every continuation of the stream. *)
Theorem C13_codec : forall f rest, wf_frame f -> agw_read_frame (agw_encode f ++ rest) = RdFrame f rest.
Proof. exact read_encode. Qed.
Print Assumptions C13_codec.

(* For ANY split of the TNC->host byte stream into TCP writes (mid-header and mid-data
   included): if the chunks concatenate to the encodings of the frames, the reader yields
   exactly those frames in order and then end of stream. *)
Theorem C13_reassemble : forall (chunks : list bytes) fs, Forall wf_frame fs ->
  concat chunks = concat (map agw_encode fs) ->
  agw_read_frames (S (length fs)) (concat chunks) = (fs, RdEOF).
Proof. exact chunking_irrelevant. Qed.
Print Assumptions C13_reassemble.

(* For any caller buffer sizes: what successive Reads return is always a prefix of the
   concatenation of the connection's payloads in order (nothing lost, reordered or invented) ... *)
Theorem C13_read_prefix : forall sizes pending frames,
  exists rest, pending ++ concat frames = concat (conn_reads pending frames sizes) ++ rest.
Proof. exact conn_reads_prefix. Qed.
Print Assumptions C13_read_prefix.

(* ... and with non-empty buffers and enough calls it is all of it. *)
Theorem C13_read_all : forall sizes pending frames,
  Forall (fun n => (0 < n)%nat) sizes ->
  (length (pending ++ concat frames) + length frames <= length sizes)%nat ->
  Forall (fun d => d <> []) frames ->
  concat (conn_reads pending frames sizes) = pending ++ concat frames.
Proof. exact conn_reads_all. Qed.
Print Assumptions C13_read_all.

(* Frames for other ports or stations, and frames of other kinds, are not delivered. *)
Theorem C13_filter : forall port peer f, conn_delivers port peer f = true ->
  f_port f = port /\ (f_from f = pad10 peer \/ f_to f = pad10 peer) /\ f_kind f = agw_kindConnectedData.
Proof. exact delivered_frames. Qed.
Print Assumptions C13_filter.

(* Write: well-formed frames carrying the connection's port, both callsigns, PID 0xF0, kind D,
   whose payloads concatenate to the written bytes; the TNC's reader gets them back exactly. *)
Theorem C13_write : forall port mycall peer writes,
  port < 256 -> Forall (fun w => N.of_nat (length w) <= max_data_len) writes ->
  let fs := conn_writes port mycall peer writes in
  Forall wf_frame fs /\
  Forall (fun f => f_port f = port /\ f_from f = pad10 mycall /\ f_to f = pad10 peer /\ f_pid f = 240
                   /\ f_kind f = agw_kindConnectedData) fs /\
  concat (map f_data fs) = concat writes.
Proof. exact writes_frames. Qed.
Print Assumptions C13_write.

Theorem C13_write_roundtrip : forall port mycall peer writes,
  port < 256 -> Forall (fun w => N.of_nat (length w) <= max_data_len) writes ->
  let fs := conn_writes port mycall peer writes in
  agw_read_frames (S (length fs)) (concat (map agw_encode fs)) = (fs, RdEOF).
Proof. exact writes_roundtrip. Qed.
Print Assumptions C13_write_roundtrip.

(* A header announcing more data than the limit is refused before anything is read for it. *)
Theorem C13_too_long : forall s,
  (36 <= length s)%nat -> max_data_len < le_to_N (firstn 4 (skipn 28 (firstn 36 s))) -> agw_read_frame s = RdTooLong.
Proof. exact too_long_refused. Qed.
Print Assumptions C13_too_long.

(* The pipeline between the TNC reader and Read (demux queues of the TNC, the port and the
   connection with their non-blocking Enqueue, then the connection's dataFrames channel) as a
   transition system under EVERY schedule of arrivals, moves between stages and reads:
   what Read has been given is always an order-preserving sub-sequence of what the TNC sent
   (nothing reordered, duplicated or invented) ... *)
Theorem C13_pipeline_order : forall (frame : Type) es (s : pstate frame),
  subseq frame (content frame s) (sent s) ->
  subseq frame (delivered (prun frame s es)) (sent (prun frame s es)).
Proof. exact delivered_subseq. Qed.
Print Assumptions C13_pipeline_order.

(* ... and exactly what it sent whenever no Enqueue found its queue full and the pipeline has
   drained.  (That an Enqueue CAN find its queue full, under a burst, is the known finding
   'enqueue-drop': the reliable-stream statement holds only on schedules without a drop.) *)
Theorem C13_pipeline_exact : forall (frame : Type) es (s : pstate frame),
  drops (prun frame s es) = drops s -> content frame s = sent s ->
  in_flight frame (stages (prun frame s es)) = [] ->
  delivered (prun frame s es) = sent (prun frame s es).
Proof. exact delivered_all. Qed.
Print Assumptions C13_pipeline_exact.

(* the known finding as a theorem about the model: two frames arriving back to back before the
   demux goroutine runs lose the second one *)
Example C13_burst_drops :
  let s := prun nat agw_pipeline [Arrive 1%nat; Arrive 2%nat; Move 0; Move 1; Move 2; Deliver; Move 0; Move 1; Move 2; Deliver] in
  delivered s = [1%nat] /\ sent s = [1%nat; 2%nat] /\ drops s = 1%nat.
Proof. vm_compute. repeat split; reflexivity. Qed.

Example C13_paced_delivers :
  let s := prun nat agw_pipeline [Arrive 1%nat; Move 0; Arrive 2%nat; Move 1; Move 0; Move 2; Move 1; Move 2; Deliver; Deliver] in
  delivered s = [1%nat; 2%nat] /\ drops s = 0%nat.
Proof. vm_compute. split; reflexivity. Qed.

(* What remains unmodelled: that the Go scheduler's behaviour is one of these schedules (the
   stages are goroutines and channels in demux.go), the Y-poll pacing of Write, and time-outs:
   exercised by the harness against a scripted TNC. *)

(* The model's header (hdr in Agwpe.v) hard-codes where each field lies; the layout of the Go
   struct is regenerated from source on every run (offset and size of every named field as
   encoding/binary lays them out) and must be the one the model assumes. *)
Example C13_header_layout :
  map snd agw_header_layout = [(0, 1); (4, 1); (6, 1); (8, 10); (18, 10); (28, 4)] /\ agw_header_layout_size = 36.
Proof. split; reflexivity. Qed.

(* Non-vacuity: a data frame on port 2 between two stations is well formed, accepted by the
   connection's filter, survives a split inside its header, and is read back through 2-byte buffers. *)
Example C13_witness :
  let f := data_frame 2 [76;65;49;66] [78;48;67] [1;2;3;4;5] in
  wf_frame f /\ conn_delivers 2 [76;65;49;66] f = true /\
  agw_read_frames 2 (concat [firstn 7 (agw_encode f); skipn 7 (agw_encode f)]) = ([f], RdEOF) /\
  conn_reads [] [f_data f] [2;2;2]%nat = [[1;2]; [3;4]; [5]].
Proof. vm_compute. repeat split; try reflexivity; try discriminate; repeat constructor. Qed.
