(* Properties/C13.v — an AGWPE connection is a reliable, ordered byte stream.
   What is proven here is the byte-level contract (frame codec, reassembly over any split of
   the TNC->host stream, Read with any caller buffer sizes, the frames produced by Write, the
   delivery filter).  The goroutine pipeline between the TNC reader and Conn.Read (demux
   queues, pacing by outstanding-frame polls, timeouts) is exercised by the harness against a
   simulated TNC, not modelled: the property is labelled partial for that part. *)
From Verif Require Import Base.Bytes Transport.Agwpe Transport.AgwpeP gen.Tables.
Open Scope N_scope.

(* Decoding what was encoded gives the frame back and leaves exactly the bytes that followed,
   for every well-formed frame (port/kind/pid one byte, callsign fields of 10 bytes, data length
   equal to the data and within the limit) and every continuation of the stream. *)
Theorem C13_codec : forall f rest, wf_frame f -> agw_read_frame (agw_encode f ++ rest) = RdFrame f rest.
Proof. exact read_encode. Qed.
Print Assumptions C13_codec.

(* For ANY split of the TNC->host byte stream into TCP writes (mid-header and mid-data
   included): if the chunks concatenate to the encodings of the frames, the reader yields
   exactly those frames in order and then end of stream. *)
Theorem C13_reassemble : forall (chunks : list bytes) fs, Forall wf_frame fs ->
  concat chunks = concat (map agw_encode fs) ->
  agw_read_frames (S (length fs)) (concat chunks) = (fs, RdEOF).
Proof. exact chunking_irrelevant. Qed.
Print Assumptions C13_reassemble.

(* For any caller buffer sizes: what successive Reads return is always a prefix of the
   concatenation of the connection's payloads in order (nothing lost, reordered or invented) ... *)
Theorem C13_read_prefix : forall sizes pending frames,
  exists rest, pending ++ concat frames = concat (conn_reads pending frames sizes) ++ rest.
Proof. exact conn_reads_prefix. Qed.
Print Assumptions C13_read_prefix.

(* ... and with non-empty buffers and enough calls it is all of it. *)
Theorem C13_read_all : forall sizes pending frames,
  Forall (fun n => (0 < n)%nat) sizes ->
  (length (pending ++ concat frames) + length frames <= length sizes)%nat ->
  Forall (fun d => d <> []) frames ->
  concat (conn_reads pending frames sizes) = pending ++ concat frames.
Proof. exact conn_reads_all. Qed.
Print Assumptions C13_read_all.

(* Frames for other ports or stations, and frames of other kinds, are not delivered. *)
Theorem C13_filter : forall port peer f, conn_delivers port peer f = true ->
  f_port f = port /\ (f_from f = pad10 peer \/ f_to f = pad10 peer) /\ f_kind f = agw_kindConnectedData.
Proof. exact delivered_frames. Qed.
Print Assumptions C13_filter.

(* Write: well-formed frames carrying the connection's port, both callsigns, PID 0xF0, kind D,
   whose payloads concatenate to the written bytes; the TNC's reader gets them back exactly. *)
Theorem C13_write : forall port mycall peer writes,
  port < 256 -> Forall (fun w => N.of_nat (length w) <= max_data_len) writes ->
  let fs := conn_writes port mycall peer writes in
  Forall wf_frame fs /\
  Forall (fun f => f_port f = port /\ f_from f = pad10 mycall /\ f_to f = pad10 peer /\ f_pid f = 240
                   /\ f_kind f = agw_kindConnectedData) fs /\
  concat (map f_data fs) = concat writes.
Proof. exact writes_frames. Qed.
Print Assumptions C13_write.

Theorem C13_write_roundtrip : forall port mycall peer writes,
  port < 256 -> Forall (fun w => N.of_nat (length w) <= max_data_len) writes ->
  let fs := conn_writes port mycall peer writes in
  agw_read_frames (S (length fs)) (concat (map agw_encode fs)) = (fs, RdEOF).
Proof. exact writes_roundtrip. Qed.
Print Assumptions C13_write_roundtrip.

(* A header announcing more data than the limit is refused before anything is read for it. *)
Theorem C13_too_long : forall s,
  (36 <= length s)%nat -> max_data_len < le_to_N (firstn 4 (skipn 28 (firstn 36 s))) -> agw_read_frame s = RdTooLong.
Proof. exact too_long_refused. Qed.
Print Assumptions C13_too_long.

(* The full statement, including the pipeline between the TNC reader and Read: every frame
   the reader yields that the filter accepts reaches Read, in order, under every schedule.
   NOT proven: the pipeline is goroutines and bounded channels (demux.go) which this
   development does not model; the harness exercises it against a simulated TNC and the
   non-blocking Enqueue that drops frames under a burst is recorded as a known finding. *)
Definition C13_pipeline_statement : Prop :=
  forall port peer (fs : list frame) sizes, Forall wf_frame fs ->
    let delivered := map f_data (List.filter (conn_delivers port peer) fs) in
    exists rest, concat delivered = concat (conn_reads [] delivered sizes) ++ rest.

(* Non-vacuity: a data frame on port 2 between two stations is well formed, accepted by the
   connection's filter, survives a split inside its header, and is read back through 2-byte buffers. *)
Example C13_witness :
  let f := data_frame 2 [76;65;49;66] [78;48;67] [1;2;3;4;5] in
  wf_frame f /\ conn_delivers 2 [76;65;49;66] f = true /\
  agw_read_frames 2 (concat [firstn 7 (agw_encode f); skipn 7 (agw_encode f)]) = ([f], RdEOF) /\
  conn_reads [] [f_data f] [2;2;2]%nat = [[1;2]; [3;4]; [5]].
Proof. vm_compute. repeat split; try reflexivity; try discriminate; repeat constructor. Qed.
