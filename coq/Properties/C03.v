(* Properties/C03.v — no byte sequence from the remote can crash a session.
   Model: B2F/Side.v, the whole of Session.Exchange for one side as a function of the bytes
   received (after the seven fix: commits in fbb/ and the three in lzhuf/).  Every index and
   slice expression of the Go code on remote-controlled data is a checked operation in the
   model that yields XPanic when out of range. *)
From Verif Require Import Base.Bytes B2F.Secure B2F.Side B2F.SideP.
Open Scope N_scope.

(* For EVERY configuration (role, MOTD, handler with any outbox, answer policy and failing
   MIDs) and EVERY byte sequence received, the exchange does not panic. *)
Theorem C03_no_panic : forall cfg input, x_res (exchange cfg input) <> XPanic.
Proof. exact exchange_nopanic. Qed.
Print Assumptions C03_no_panic.

(* FULL STATEMENTS (not asserted): the fuel that Exchange is given -- linear in the input and
   the outbox -- always suffices (no spinning), and the result is one of nil / ErrConnLost /
   error with the connection closed.  Decided per run by the correspondence check: real
   sessions under a watchdog, an address-space limit and an allocation bound on mutated
   transcripts, damaged payloads and arbitrary bytes, compared with this model. *)
Definition C03_terminates_statement : Prop :=
  forall cfg input, x_res (exchange cfg input) <> XOutOfFuel.
Definition C03_result_statement : Prop :=
  forall cfg input, x_res (exchange cfg input) = XNil \/ x_res (exchange cfg input) = XConnLost
                    \/ x_res (exchange cfg input) = XOther \/ x_res (exchange cfg input) = XUnknown.

(* Regression witnesses on the model of the repaired panics: a NUL line, "F>" without a
   checksum field, ";PQ" without a challenge: all end in an error, none in XPanic. *)
Definition slave_cfg : side_cfg :=
  {| c_master := false; c_motd := [];
     c_hs := {| hs_fw := [[76;65;49;66]]; hs_name := [119]; hs_version := [49]; hs_target := [88];
                hs_mycall := [76;65;49;66]; hs_locator := []; hs_master := false; hs_gzip := false; hs_cb := None |};
     c_handler := {| h_present := true; h_prepare_err := false; h_outbox := []; h_gone := [];
                     h_policy := []; h_fail := [] |} |}.
Example C03_nul_line : x_res (exchange slave_cfg [0; 13]) = XConnLost.
Proof. vm_compute. reflexivity. Qed.
Example C03_short_pq : x_res (exchange slave_cfg [59;80;81;13]) = XOther.
Proof. vm_compute. reflexivity. Qed.
Example C03_short_prompt :
  x_res (exchange slave_cfg ([91;87;45;66;50;70;36;93;13; 62;13] ++ [70;62;13])) = XNil.
Proof. vm_compute. reflexivity. Qed.
