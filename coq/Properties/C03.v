(* Properties/C03.v — no byte sequence from the remote can crash a session.
   Model: B2F/Side.v, the whole of Session.Exchange for one side as a function of the bytes
   received (after the seven fix: commits in fbb/ and the three in lzhuf/).  Every index and
   slice expression of the Go code on remote-controlled data is a checked operation in the
   model that yields XPanic when out of range. *)
From Verif Require Import B2F.TermP Base.Bytes B2F.Secure B2F.Side B2F.SideP.
Open Scope N_scope.

(* For EVERY configuration (role, MOTD, handler with any outbox, answer policy and failing
   MIDs) and EVERY byte sequence received, the exchange does not panic. *)
Theorem C03_no_panic : forall cfg input, x_res (exchange cfg input) <> XPanic.
Proof. exact exchange_nopanic. Qed.
Print Assumptions C03_no_panic.

(* The session loop ends: the fuel Exchange is given in the model -- linear in the input and
   the outbox -- always suffices, because every inbound turn consumes at least one line of the
   input and no step ever lengthens what is left to read (B2F/TermP.v).  So for EVERY
   configuration and EVERY received byte sequence the model returns ... *)
Theorem C03_terminates : forall cfg input, x_res (exchange cfg input) <> XOutOfFuel.
Proof. exact exchange_terminates. Qed.
Print Assumptions C03_terminates.

(* ... and with the result one of: nil, connection lost, another error -- or "unknown" when a
   received message carries a date outside the modelled layouts (the harness skips those). *)
Theorem C03_result : forall cfg input,
  x_res (exchange cfg input) = XNil \/ x_res (exchange cfg input) = XConnLost
  \/ x_res (exchange cfg input) = XOther \/ x_res (exchange cfg input) = XUnknown.
Proof.
  intros cfg input. pose proof (exchange_nopanic cfg input) as Hp. pose proof (exchange_terminates cfg input) as Ht.
  destruct (x_res (exchange cfg input)); auto; congruence.
Qed.
Print Assumptions C03_result.

(* What this does NOT cover: the LZHUF reader inside Proposal.Message has its own bound in the
   model (at most 8*len+2 Read calls); a decoder that stopped making progress would show up
   there as an error, not as fuel exhaustion of the session.  That the real decoder always makes
   progress is C08's termination statement (decided per run under a watchdog). *)

(* Regression witnesses on the model of the repaired panics: a NUL line, "F>" without a
   checksum field, ";PQ" without a challenge: all end in an error, none in XPanic. *)
Definition slave_cfg : side_cfg :=
  {| c_master := false; c_motd := [];
     c_hs := {| hs_fw := [[76;65;49;66]]; hs_name := [119]; hs_version := [49]; hs_target := [88];
                hs_mycall := [76;65;49;66]; hs_locator := []; hs_master := false; hs_gzip := false; hs_cb := None |};
     c_handler := {| h_present := true; h_prepare_err := false; h_outbox := []; h_gone := [];
                     h_policy := []; h_fail := [] |} |}.
Example C03_nul_line : x_res (exchange slave_cfg [0; 13]) = XConnLost.
Proof. vm_compute. reflexivity. Qed.
Example C03_short_pq : x_res (exchange slave_cfg [59;80;81;13]) = XOther.
Proof. vm_compute. reflexivity. Qed.
Example C03_short_prompt :
  x_res (exchange slave_cfg ([91;87;45;66;50;70;36;93;13; 62;13] ++ [70;62;13])) = XNil.
Proof. vm_compute. reflexivity. Qed.
