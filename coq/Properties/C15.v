(* Properties/C15.v — the telnet login hands over a clean stream and honours the dial deadline.
   Each side is a function of the whole byte stream it receives: how the stream was segmented
   into TCP writes is invisible behind the buffered reader, which the connection's Read now
   goes through (fix: commits), so "rest" below is exactly what Read delivers next.
   The deadline is proven for the decision logic (every blocking read ends at the arrival that
   completes it or at the deadline); that the Go runtime ends a read at the connection's
   deadline is the net package's behaviour, observed by the harness: partial for that part. *)
From Coq Require Import List NArith.
From Verif Require Import Base.Bytes Base.Utf8 Transport.Telnet Transport.TelnetP.
Import ListNotations.
Open Scope N_scope.

(* For any callsign and password without CR (callsign without outer white space) and ANY
   payloads: the client answers the two prompts and is left with exactly the server's payload;
   the server reports the dialler's callsign and is left with exactly the client's payload. *)
Theorem C15_clean_streams : forall mycall pass payload_c payload_s,
  ~ In 13 mycall -> ~ In 13 pass -> no_outer_space mycall ->
  telnet_client mycall pass (prompt_callsign ++ prompt_password ++ payload_s) = ([mycall ++ [13]; pass ++ [13]], Some payload_s) /\
  telnet_server (concat [mycall ++ [13]; pass ++ [13]] ++ payload_c) = Accepted mycall payload_c.
Proof. exact login_hands_over_clean_streams. Qed.
Print Assumptions C15_clean_streams.

(* The client against any server script: ignorable lines (banner, blank lines, garbage without
   the two keywords) before and between the prompts change nothing. *)
Theorem C15_client : forall pre mid mycall pass payload,
  Forall other_line pre -> Forall other_line mid ->
  telnet_client mycall pass (frame_lines pre ++ prompt_callsign ++ frame_lines mid ++ prompt_password ++ payload)
  = ([mycall ++ [13]; pass ++ [13]], Some payload).
Proof. exact telnet_client_logs_in. Qed.
Print Assumptions C15_client.

(* The server for every callsign string without CR: white space around it is trimmed (the known
   finding for callsigns with outer white space), nothing else is altered. *)
Theorem C15_server : forall call pass payload, ~ In 13 call -> ~ In 13 pass ->
  telnet_server (call ++ [13] ++ pass ++ [13] ++ payload) = Accepted (trim_space_go call) payload.
Proof. exact server_accepts. Qed.
Print Assumptions C15_server.

Theorem C15_trim_identity : forall s, no_outer_space s -> trim_space_go s = s.
Proof. exact trim_space_plain. Qed.
Print Assumptions C15_trim_identity.

(* Dialling returns no later than the deadline whatever the server sends or fails to send
   (silence, partial prompt, garbage, close), and success means the login completed. *)
Theorem C15_deadline : forall deadline mycall pass arrivals buf,
  dial_time (dial_run deadline mycall pass buf arrivals) <= deadline.
Proof. exact dial_returns_by_deadline. Qed.
Print Assumptions C15_deadline.

Theorem C15_ok_is_login : forall deadline mycall pass arrivals buf t,
  dial_run deadline mycall pass buf arrivals = DialOk t ->
  t < deadline /\ exists seen, logged_in mycall pass (buf ++ seen) = true.
Proof. exact dial_ok_means_logged_in. Qed.
Print Assumptions C15_ok_is_login.

(* Non-vacuity: a login with a banner line, payload coalesced with the password prompt, a
   silent server and a server that sends only half a prompt. *)
Example C15_witness :
  telnet_client [76; 65; 53] [112; 119] ([72; 105; 13] ++ prompt_callsign ++ prompt_password ++ [91; 87; 76; 50; 75])
    = ([[76; 65; 53; 13]; [112; 119; 13]], Some [91; 87; 76; 50; 75])
  /\ telnet_server [76; 65; 53; 13; 112; 119; 13; 70; 70; 13] = Accepted [76; 65; 53] [70; 70; 13]
  /\ dial_run 5000 [76] [112] [] [] = DialErr 5000
  /\ dial_run 5000 [76] [112] [] [(10, Some [67; 97; 108; 108]); (7000, Some [13])] = DialErr 5000
  /\ dial_run 5000 [76] [112] [] [(10, Some prompt_callsign); (20, Some prompt_password)] = DialOk 20.
Proof. vm_compute. repeat split; reflexivity. Qed.
