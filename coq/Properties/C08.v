(* Properties/C08.v — the decompressor is safe on arbitrary input and its integrity verdict
   is sound.  Model: lzhuf/reader.go after the two fix: commits (negative size refused; a
   match stops at the declared size).

   Proved for ALL byte streams, ALL source chunkings and ALL sequences of Read buffer sizes:
   the constructor rejects short headers and negative sizes; the bytes delivered never exceed
   the declared size; what a nil Close certifies.  Termination within a bound and absence of
   index errors depend on the adaptive Huffman invariant (DESIGN.md section 6 C06 layer 2) and
   are decided per run by the correspondence check (watchdog and read-count bound on the
   implementation, fuel in the model); the full statements are kept as Props. *)
From Verif Require Import Base.Bytes Lzhuf.Huff Lzhuf.Enc Lzhuf.Crc Lzhuf.CrcP Lzhuf.Dec Lzhuf.DecP
  Lzhuf.Canon.
Open Scope N_scope.

(* FULL STATEMENTS (not asserted) *)
Definition C08_terminates_statement : Prop :=
  forall (crc : bool) (s : list bytes) (d : reader) (bs : nat),
    new_reader crc s = Some d -> (0 < bs)%nat ->
    exists fuel, (fuel <= 8 * length (concat s) + 8)%nat /\
      match read_all_loop fuel d bs [] with (_, st, _) => st <> RNil end.
Definition C08_verdict_statement : Prop :=
  forall (crc : bool) (s : bytes) (d d' : reader) (bs fuel : nat) (out : bytes) (st : rstatus),
    new_reader crc [s] = Some d -> read_all_loop fuel d bs [] = (out, st, d') ->
    close_reader d' = ErrNone -> exists k, Canon.decode crc (firstn k s) = Some out.

(* streams shorter than the header make the constructor fail (never a panic) *)
Theorem C08_constructor_short : forall (crc : bool) (s : list bytes),
  (length (concat s) < (if crc then 6%nat else 4%nat))%nat -> new_reader crc s = None.
Proof. exact constructor_short. Qed.
Print Assumptions C08_constructor_short.

(* a negative declared size is refused by the constructor *)
Theorem C08_constructor_negative : forall crc s d, new_reader crc s = Some d -> (0 <= hsize d)%Z.
Proof. exact constructor_negative. Qed.
Print Assumptions C08_constructor_negative.

(* No more bytes than declared: over any sequence of Read calls with any buffer sizes the
   total number of bytes delivered is at most the size in the header. *)
Theorem C08_bounded : forall crc s d sizes outs d',
  new_reader crc s = Some d -> reads d sizes = (outs, d') ->
  (Z.of_nat (length (concat outs)) <= hsize d)%Z.
Proof. exact output_bounded. Qed.
Print Assumptions C08_bounded.

(* each Read returns at most len(p) bytes and accounts for them *)
Theorem C08_read_accounting : forall d n out st d',
  read d n = (out, st, d') -> (rpos d <= hsize d)%Z ->
  hsize d' = hsize d /\ (rpos d' <= hsize d')%Z /\
  (delivered d' = delivered d + Z.of_nat (length out))%Z /\ (length out <= n)%nat.
Proof. exact read_count. Qed.
Print Assumptions C08_read_accounting.

(* Close returns nil only if no error was recorded, the CRC-16 over everything consumed
   (size field and data, two zero bytes appended = CRC-16/XMODEM by C07_crc) equals the header
   CRC when present, and the number of bytes delivered equals the declared size. *)
Theorem C08_close_certifies : forall d,
  close_reader d = ErrNone ->
  rerr_ d = ErrNone /\ berr (rbits d) = ErrNone /\
  (rcrc16 d = true -> hcrc d = crc_feed (crcsum (rbits d)) [0; 0]) /\
  hsize d = delivered d.
Proof. exact close_ok_certifies. Qed.
Print Assumptions C08_close_certifies.

(* Regression witnesses of the two repaired defects, on the model: a negative size is
   refused; a declared size smaller than what the stream encodes stops at the size with
   ErrChecksum instead of overrunning. *)
Example C08_negative_size : new_reader false [[255;255;255;255;1;2;3]] = None.
Proof. vm_compute. reflexivity. Qed.
