(* Properties/C08.v — the decompressor is safe on arbitrary input and its integrity verdict
   is sound.  Model: lzhuf/reader.go after the two fix: commits (negative size refused; a
   match stops at the declared size).

   Proved for ALL byte streams, ALL source chunkings and ALL sequences of Read buffer sizes:
   the constructor rejects short headers and negative sizes; the bytes delivered never exceed
   the declared size; what a nil Close certifies; reading to the end TERMINATES with io.EOF or
   an error within a bound linear in the input length (C08_terminates: every loop iteration
   of Read consumes at least one bit or records the end of input, and delivers at most 60
   bytes); every tree the reader reaches satisfies the adaptive Huffman invariant, so every
   decoded symbol is below NumChar and every array index is in range (C08_tree_invariant,
   C08_symbol_in_range); and the verdict is sound (C08_verdict): whenever reading ends with
   io.EOF and Close returns nil, the body of the stream starts with the bits of a token
   sequence (the canonical format, Lzhuf/Tokens.v) whose expansion is exactly the bytes
   read, in the declared number -- with C08_close_certifies for the CRC.  (The statement
   first written down here spoke of the reference decoder Canon.decode on a prefix of the
   stream; by C07_reference_decodes_format the reference decodes such a token stream to the
   same expansion.) *)
From Verif Require Import Base.Bytes Lzhuf.Huff Lzhuf.HuffInv Lzhuf.HuffInvP Lzhuf.HuffP Lzhuf.HuffWalkP
  Lzhuf.Enc Lzhuf.Crc Lzhuf.CrcP Lzhuf.Dec Lzhuf.DecP Lzhuf.DecTermP Lzhuf.Bits Lzhuf.Tokens Lzhuf.ReadSeq Lzhuf.ReadSeqP Lzhuf.LzhufP Lzhuf.Canon gen.Tables.
Open Scope N_scope.

(* streams shorter than the header make the constructor fail (never a panic) *)
Theorem C08_constructor_short : forall (crc : bool) (s : list bytes),
  (length (concat s) < (if crc then 6%nat else 4%nat))%nat -> new_reader crc s = None.
Proof. exact constructor_short. Qed.
Print Assumptions C08_constructor_short.

(* a negative declared size is refused by the constructor *)
Theorem C08_constructor_negative : forall crc s d, new_reader crc s = Some d -> (0 <= hsize d)%Z.
Proof. exact constructor_negative. Qed.
Print Assumptions C08_constructor_negative.

(* No more bytes than declared: over any sequence of Read calls with any buffer sizes the
   total number of bytes delivered is at most the size in the header. *)
Theorem C08_bounded : forall crc s d sizes outs d',
  new_reader crc s = Some d -> reads d sizes = (outs, d') ->
  (Z.of_nat (length (concat outs)) <= hsize d)%Z.
Proof. exact output_bounded. Qed.
Print Assumptions C08_bounded.

(* each Read returns at most len(p) bytes and accounts for them *)
Theorem C08_read_accounting : forall d n out st d',
  read d n = (out, st, d') -> (rpos d <= hsize d)%Z ->
  hsize d' = hsize d /\ (rpos d' <= hsize d')%Z /\
  (delivered d' = delivered d + Z.of_nat (length out))%Z /\ (length out <= n)%nat.
Proof. exact read_count. Qed.
Print Assumptions C08_read_accounting.

(* Close returns nil only if no error was recorded, the CRC-16 over everything consumed
   (size field and data, two zero bytes appended = CRC-16/XMODEM by C07_crc) equals the header
   CRC when present, and the number of bytes delivered equals the declared size. *)
Theorem C08_close_certifies : forall d,
  close_reader d = ErrNone ->
  rerr_ d = ErrNone /\ berr (Dec.rbits d) = ErrNone /\
  (rcrc16 d = true -> hcrc d = crc_feed (crcsum (Dec.rbits d)) [0; 0]) /\
  hsize d = delivered d.
Proof. exact close_ok_certifies. Qed.
Print Assumptions C08_close_certifies.

(* Termination: for any bytes in any chunking (empty chunks = source reads that return
   nothing), reading to the end with any positive buffer size ends with io.EOF or an error
   after at most 60 * (8 * len + 8) + 2 Read calls.  (The bound first written down in this
   file, 8 * len + 8 calls, was wrong: one token of about ten bits can expand to 60 bytes,
   each of which may take its own 1-byte Read.) *)
Theorem C08_terminates : forall (crc : bool) (s : list bytes) (d : reader) (bs : nat),
  new_reader crc s = Some d -> (0 < bs)%nat ->
  exists fuel, (fuel <= 60 * (8 * length (concat s) + 8) + 2)%nat /\
    match read_all_loop fuel d bs [] with (_, st, _) => st <> RNil end.
Proof. exact reader_terminates. Qed.
Print Assumptions C08_terminates.

(* every Read with a non-empty buffer that returns nil delivers at least one byte *)
Theorem C08_read_productive : forall d n out d',
  read d n = (out, RNil, d') -> (0 < n)%nat -> (rpos d <= hsize d)%Z -> (1 <= length out)%nat.
Proof. exact read_productive. Qed.
Print Assumptions C08_read_productive.

(* no index error: the tree of every state the reader reaches satisfies the adaptive
   Huffman invariant (the constructor starts from newLZHUFF's tree, which satisfies it), and
   under the invariant every decoded symbol is below NumChar, whatever bits arrive *)
Theorem C08_tree_invariant : forall crc s d,
  new_reader crc s = Some d -> Inv (rh d) /\
  forall d1 n out st d2, Inv (rh d1) -> read d1 n = (out, st, d2) -> Inv (rh d2).
Proof.
  intros crc s d H. split; [|exact reader_keeps_inv].
  destruct (new_reader_init update_inv crc s d H) as [E _]. rewrite E. exact huff_init_inv.
Qed.
Print Assumptions C08_tree_invariant.
Theorem C08_symbol_in_range : forall h b, Inv h -> fst (fst (decode_char h b)) < lz_NumChar.
Proof. intros h b Hi. apply decode_char_symbol. apply Hi. Qed.
Print Assumptions C08_symbol_in_range.

(* the verdict: io.EOF and a nil Close mean that what was read is the expansion of the token
   sequence the body starts with, and has the declared length; for any Read buffer sizes
   (zero-length reads included) *)
Theorem C08_verdict : forall (crc : bool) (s : bytes) (d d' : reader) (sizes : list nat) (out : bytes),
  Forall (fun x => x < 256) s ->
  new_reader crc [s] = Some d ->
  read_seq d sizes [] = (out, REof, d') -> close_reader d' = ErrNone ->
  exists toks pad,
    Forall tok_wf toks /\ out = expand win_init toks /\
    bytes_bits (body_part crc s) = toks_bits huff_init toks ++ pad /\
    Z.of_nat (length out) = hsize d.
Proof. exact verdict_sound. Qed.
Print Assumptions C08_verdict.

(* Regression witnesses of the two repaired defects, on the model: a negative size is
   refused; a declared size smaller than what the stream encodes stops at the size with
   ErrChecksum instead of overrunning. *)
Example C08_negative_size : new_reader false [[255;255;255;255;1;2;3]] = None.
Proof. vm_compute. reflexivity. Qed.
