(* Properties/C09.v — message serialisation round-trips and is canonical.

   Proved for ALL contents: the section framing — a body and any number of attachments of
   arbitrary bytes (including content that itself ends in CR LF, NUL bytes, empty sections)
   written as  body [CRLF] (file CRLF)*  is read back exactly under the sizes announced in the
   Body/File headers (C09_sections, C09_files); short sections and negative sizes are errors;
   the serialised layout (C09_layout).  The header part (net/textproto.ReadMIMEHeader is
   standard-library code, modelled) and the full statement below are decided per run by the
   correspondence check: Bytes() and ReadFrom of API-built messages against the model, and
   parse(serialise m) = m, serialise(parse(serialise m)) = serialise m on the implementation. *)
From Verif Require Import Base.Bytes Msg.Message Msg.MessageP.
Open Scope N_scope.

(* FULL STATEMENT (not asserted): normalised header, body and attachments come back *)
Definition wf_header (h : header) : Prop :=
  hget h str_Mid <> [] /\ parse_date_ok (hget h str_Date) = Some true.
Definition C09_roundtrip_statement : Prop :=
  forall (m : message) (b : bytes), wf_header (mhdr m) -> message_write m = WOk b ->
    hget (mhdr m) str_Body = dec_of_N (N.of_nat (length (mbody m))) ->
    let p := read_from b in
    p_status p = RfOk /\ p_body p = mbody m /\ map pf_data (p_files p) = mfiles m
    /\ message_write {| mhdr := p_hdr p; mbody := p_body p; mfiles := map pf_data (p_files p) |} = WOk b.

Theorem C09_sections : forall body (files : list (bytes * bytes)),
  sizes_ok (map snd files) ->
  let tail := body ++ (match files with [] => [] | _ => CRLF end)
              ++ flat_map (fun nd => snd nd ++ CRLF) files in
  let '(b, se, rest) := read_section tail (Z.of_nat (length body)) in
  b = body /\ se = SOk /\
  read_files (map (fun nd => file_value (fst nd) (snd nd)) files) rest SOk
  = (map (fun nd => {| pf_data := snd nd; pf_name := fst nd; pf_err := false |}) files, SOk, []).
Proof. exact sections_roundtrip. Qed.
Print Assumptions C09_sections.

Theorem C09_files : forall (files : list (bytes * bytes)) (e : serr),
  sizes_ok (map snd files) ->
  read_files (map (fun nd => file_value (fst nd) (snd nd)) files)
             (flat_map (fun nd => snd nd ++ CRLF) files) e
  = (map (fun nd => {| pf_data := snd nd; pf_name := fst nd; pf_err := false |}) files,
     match files with [] => e | _ => SOk end, []).
Proof. exact read_files_roundtrip. Qed.
Print Assumptions C09_files.

Theorem C09_section_crlf : forall d rest,
  read_section (d ++ CRLF ++ rest) (Z.of_nat (length d)) = (d, SOk, rest).
Proof. exact read_section_crlf. Qed.
Print Assumptions C09_section_crlf.

Theorem C09_section_short : forall s n,
  (Z.of_nat (length s) < n)%Z -> snd (fst (read_section s n)) = SUnexpectedEOF.
Proof. exact read_section_short. Qed.
Print Assumptions C09_section_short.

Theorem C09_section_negative : forall s n, (n < 0)%Z -> read_section s n = ([], SNegative, s).
Proof. exact read_section_negative. Qed.
Print Assumptions C09_section_negative.

Theorem C09_layout : forall m hb,
  parse_date_ok (hget (mhdr m) str_Date) = Some true -> header_write (mhdr m) = Some hb ->
  message_write m =
  WOk (hb ++ CRLF ++ mbody m ++ (match mfiles m with [] => [] | _ => CRLF end)
       ++ flat_map (fun f => f ++ CRLF) (mfiles m)).
Proof. exact message_write_layout. Qed.
Print Assumptions C09_layout.

(* an instance of the full statement, computed by the kernel (a test of the statement) *)
Example C09_instance :
  let m := {| mhdr := [([77;105;100], [[65;66;67]]); ([66;111;100;121], [[53]]);
                       ([70;105;108;101], [[50;32;97;46;98]]);
                       ([68;97;116;101], [[50;48;49;54;47;49;50;47;51;48;32;48;49;58;48;48]])];
              mbody := [104;105;33;13;10]; mfiles := [[13;10]] |} in
  match message_write m with
  | WOk b => let p := read_from b in
             p_status p = RfOk /\ p_body p = mbody m /\ map pf_data (p_files p) = mfiles m
  | _ => False
  end.
Proof. vm_compute. repeat split; reflexivity. Qed.
