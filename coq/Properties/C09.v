(* Properties/C09.v — message serialisation round-trips and is canonical.

   Proved for ALL contents: the section framing — a body and any number of attachments of
   arbitrary bytes (including content that itself ends in CR LF, NUL bytes, empty sections)
   written as  body [CRLF] (file CRLF)*  is read back exactly under the sizes announced in the
   Body/File headers (C09_sections, C09_files); short sections and negative sizes are errors;
   the serialised layout (C09_layout); the decimal size fields for every length below 2^63
   (C09_sizes); the header block written by Header.Write is read back line for line by the
   model of net/textproto.ReadMIMEHeader for every header whose lines are well formed
   (C09_header_roundtrip), and the whole message comes back (C09_message_roundtrip).
   The re-serialisation of the parsed message is byte-identical (C09_reserialise: the printed
   normal form of a header is idempotent, for EVERY header).  Still decided per run only:
   everything about encoded words, charsets and
   the RFC 5322 date forms, which are library code passed through or modelled for the four
   Winlink layouts. *)
From Coq Require Import List NArith ZArith.
From Verif Require Import Base.Bytes Msg.Message Msg.MessageP Msg.HeaderRT Msg.SizesP Msg.ReserP.
Import ListNotations.
Open Scope N_scope.

(* FULL STATEMENT (not asserted): normalised header, body and attachments come back *)
Definition wf_header (h : header) : Prop :=
  hget h str_Mid <> [] /\ parse_date_ok (hget h str_Date) = Some true.
Definition C09_roundtrip_statement : Prop :=
  forall (m : message) (b : bytes), wf_header (mhdr m) -> message_write m = WOk b ->
    hget (mhdr m) str_Body = dec_of_N (N.of_nat (length (mbody m))) ->
    let p := read_from b in
    p_status p = RfOk /\ p_body p = mbody m /\ map pf_data (p_files p) = mfiles m
    /\ message_write {| mhdr := p_hdr p; mbody := p_body p; mfiles := map pf_data (p_files p) |} = WOk b.

Theorem C09_sections : forall body (files : list (bytes * bytes)),
  sizes_ok (map snd files) ->
  let tail := body ++ (match files with [] => [] | _ => CRLF end)
              ++ flat_map (fun nd => snd nd ++ CRLF) files in
  let '(b, se, rest) := read_section tail (Z.of_nat (length body)) in
  b = body /\ se = SOk /\
  read_files (map (fun nd => file_value (fst nd) (snd nd)) files) rest SOk
  = (map (fun nd => {| pf_data := snd nd; pf_name := fst nd; pf_err := false |}) files, SOk, []).
Proof. exact sections_roundtrip. Qed.
Print Assumptions C09_sections.

Theorem C09_files : forall (files : list (bytes * bytes)) (e : serr),
  sizes_ok (map snd files) ->
  read_files (map (fun nd => file_value (fst nd) (snd nd)) files)
             (flat_map (fun nd => snd nd ++ CRLF) files) e
  = (map (fun nd => {| pf_data := snd nd; pf_name := fst nd; pf_err := false |}) files,
     match files with [] => e | _ => SOk end, []).
Proof. exact read_files_roundtrip. Qed.
Print Assumptions C09_files.

Theorem C09_section_crlf : forall d rest,
  read_section (d ++ CRLF ++ rest) (Z.of_nat (length d)) = (d, SOk, rest).
Proof. exact read_section_crlf. Qed.
Print Assumptions C09_section_crlf.

Theorem C09_section_short : forall s n,
  (Z.of_nat (length s) < n)%Z -> snd (fst (read_section s n)) = SUnexpectedEOF.
Proof. exact read_section_short. Qed.
Print Assumptions C09_section_short.

Theorem C09_section_negative : forall s n, (n < 0)%Z -> read_section s n = ([], SNegative, s).
Proof. exact read_section_negative. Qed.
Print Assumptions C09_section_negative.

Theorem C09_layout : forall m hb,
  parse_date_ok (hget (mhdr m) str_Date) = Some true -> header_write (mhdr m) = Some hb ->
  message_write m =
  WOk (hb ++ CRLF ++ mbody m ++ (match mfiles m with [] => [] | _ => CRLF end)
       ++ flat_map (fun f => f ++ CRLF) (mfiles m)).
Proof. exact message_write_layout. Qed.
Print Assumptions C09_layout.

(* Decimal size fields: Body: and File: sizes are read back exactly for every section shorter
   than 2^63 bytes, so the hypothesis sizes_ok of C09_sections/C09_files always holds. *)
Theorem C09_sizes : forall datas : list bytes,
  Forall (fun d => N.of_nat (length d) < 9223372036854775808) datas -> sizes_ok datas.
Proof. exact sizes_ok_all. Qed.
Print Assumptions C09_sizes.

(* The header block: for EVERY header whose written lines are well formed (key a canonical
   field name; value non-empty, printable, not bordered by blanks), Header.Write's output
   followed by the blank line is read back as exactly those lines — Mid first, the other
   fields in sorted order, repeated fields in their order — and the reader stops at the body. *)
Theorem C09_header_roundtrip : forall h hb rest,
  header_write h = Some hb -> Forall (fun kv => wf_line (fst kv) (snd kv)) (lines_of h) ->
  read_mime_header (S (length (lines_of h))) (hb ++ CRLF ++ rest) [] = (fold_left add_line (lines_of h) [], HErrNone, rest).
Proof. exact header_roundtrip. Qed.
Print Assumptions C09_header_roundtrip.

(* The whole message: header, body and attachments of arbitrary bytes come back. *)
Theorem C09_message_roundtrip : forall (m : message) (files : list (bytes * bytes)) hb,
  let norm := fold_left add_line (lines_of (mhdr m)) [] in
  header_write (mhdr m) = Some hb ->
  Forall (fun kv => wf_line (fst kv) (snd kv)) (lines_of (mhdr m)) ->
  parse_date_ok (hget (mhdr m) str_Date) = Some true ->
  parse_date_ok (hget norm str_Date) = Some true ->
  atoi_ignore_err (hget norm str_Body) = Z.of_nat (length (mbody m)) ->
  mfiles m = map snd files ->
  hvalues norm str_File = map (fun nd => file_value (fst nd) (snd nd)) files ->
  sizes_ok (map snd files) ->
  exists b, message_write m = WOk b /\
    read_from b = {| p_hdr := norm; p_body := mbody m;
                     p_files := map (fun nd => {| pf_data := snd nd; pf_name := fst nd; pf_err := false |}) files;
                     p_status := RfOk |}.
Proof. exact message_roundtrip. Qed.
Print Assumptions C09_message_roundtrip.

(* Canonical form: parsing what Header.Write printed and printing it again gives the same
   lines, for EVERY header (unsorted fields, a field split over several entries, keys that
   differ in case, empty values: the sort is stable and grouping merges in order). *)
Theorem C09_normal_form : forall h : header,
  lines_of (fold_left add_line (lines_of h) []) = lines_of h.
Proof. exact normal_form_idempotent. Qed.
Print Assumptions C09_normal_form.

(* The last clause of the full statement: re-serialising the parsed message gives back the
   very same bytes. *)
Theorem C09_reserialise : forall (m : message) (files : list (bytes * bytes)) hb,
  let norm := fold_left add_line (lines_of (mhdr m)) [] in
  header_write (mhdr m) = Some hb ->
  Forall (fun kv => wf_line (fst kv) (snd kv)) (lines_of (mhdr m)) ->
  parse_date_ok (hget (mhdr m) str_Date) = Some true ->
  parse_date_ok (hget norm str_Date) = Some true ->
  atoi_ignore_err (hget norm str_Body) = Z.of_nat (length (mbody m)) ->
  mfiles m = map snd files ->
  hvalues norm str_File = map (fun nd => file_value (fst nd) (snd nd)) files ->
  sizes_ok (map snd files) ->
  exists b, message_write m = WOk b /\
    let p := read_from b in
    message_write {| mhdr := p_hdr p; mbody := p_body p; mfiles := map pf_data (p_files p) |} = WOk b.
Proof. exact message_reserialise. Qed.
Print Assumptions C09_reserialise.

(* an instance of the full statement, computed by the kernel (a test of the statement) *)
Example C09_instance :
  let m := {| mhdr := [([77;105;100], [[65;66;67]]); ([66;111;100;121], [[53]]);
                       ([70;105;108;101], [[50;32;97;46;98]]);
                       ([68;97;116;101], [[50;48;49;54;47;49;50;47;51;48;32;48;49;58;48;48]])];
              mbody := [104;105;33;13;10]; mfiles := [[13;10]] |} in
  match message_write m with
  | WOk b => let p := read_from b in
             p_status p = RfOk /\ p_body p = mbody m /\ map pf_data (p_files p) = mfiles m
  | _ => False
  end.
Proof. vm_compute. repeat split; reflexivity. Qed.
