(* Properties/C05.v — wire behaviour conforms to B2F as judged by an independent peer.
   B2F/Grammar.v is the independent judge: a validator for both byte streams of a session,
   written from docs/F6FBB-B2F/protocole.html and sid.html (it imports neither the model side
   nor the generated tables).  It is extracted and replays every session the reference peer
   (harness, written from the same documents) has with a real Session.

   Proved for ALL inputs: elements the model side writes are accepted by the grammar's own
   readers -- the block prompt carries the checksum the grammar demands for the proposal lines
   just written; the answer line is read as one answer per proposal from the documented
   alphabet; decimal fields round-trip through the grammar's reader; and for WHOLE SESSIONS:
   every complete session of two library sides with conforming configurations is accepted by
   the grammar in full (C05_pair_conforms: handshake lines, proposal blocks, prompts, answer
   lines, framed transfers, turn-taking; any number of messages and blocks, any policies,
   both directions).  "Conforming configuration" is spelled out (side_conf: SID fields
   without '-', forwarding addresses without '|' and '>', MIDs of 1..12 alphanumeric bytes,
   non-empty titles, the announced size equal to the decompressed length ...), and each
   clause is shown necessary by a closed counterexample in B2F/ConformP.v.  The one-sided
   statement first written here (any peer) is refuted (C05_first_statement_refuted: e.g. a
   peer line ";FW: X>" ends the greeting for the grammar but not for the library; an offset
   request above 999999 is restarted at 0 by the library).  The CORRECTED one-sided statement
   is a theorem (C05_one_side_conforms, B2F/ConformOneP.v): against ANY peer stream whose
   offset requests respect the protocol limit (elem_off) and -- when the peer is the master --
   whose greeting lines are read alike by both readers (greet_agree), every complete session
   of a conforming library side is either accepted in full or the PEER is the one blamed.
   Both conditions on the peer are shown necessary by closed counterexamples.  Of the library
   side the wide form (C05_one_side_conforms_wide, B2F/ConformScopeP.v) asks, beyond
   side_conf, NOTHING of a slave (secure login included: the ;PR response is eight digits
   whatever the challenge and password) and of a master that its greeting ends with the
   prompt and that no line of its MOTD (split at CR) starts with SOH, is bracketed like a
   SID, is a malformed ;FW line or ends with '>' -- each clause shown necessary by a closed
   counterexample in which the session completes and the master is blamed. *)
From Verif Require Import Base.Bytes Base.Utf8 B2F.Secure B2F.Side B2F.Grammar B2F.GrammarP
  B2F.PairDefs B2F.PairP B2F.DeliverP B2F.ConformP B2F.ConformOneP B2F.ConformScopeP.
Open Scope N_scope.

(* FULL STATEMENT (not asserted): whatever the peer sends, as long as the grammar accepts the
   peer's part, it accepts the whole session including everything the library side wrote *)
Definition C05_conforming_statement : Prop :=
  forall (cfg : side_cfg) (peer_stream : bytes),
    let o := exchange cfg peer_stream in
    x_res o = XNil ->
    let '(m, s) := if c_master cfg then (x_wire o, peer_stream) else (peer_stream, x_wire o) in
    match validate m s with
    | VOk => True
    | VBad who _ _ => who <> c_master cfg          (* only the peer can be at fault *)
    end.

(* the statement above is false as written *)
Theorem C05_first_statement_refuted : ~ C05_conforming_statement.
Proof. exact C05_statement_is_false. Qed.
Print Assumptions C05_first_statement_refuted.

(* the CORRECTED one-sided statement: any peer stream within peer_ok; only the peer can be blamed *)
Theorem C05_one_side_conforms : forall (cfg : side_cfg) (peer_stream : bytes),
  side_conf cfg -> cfg_scope cfg -> peer_ok cfg peer_stream ->
  let o := exchange cfg peer_stream in
  x_res o = XNil ->
  let '(m, s) := if c_master cfg then (x_wire o, peer_stream) else (peer_stream, x_wire o) in
  match validate m s with VOk => True | VBad who _ _ => who <> c_master cfg end.
Proof. exact one_side_conforms. Qed.
Print Assumptions C05_one_side_conforms.

(* the WIDE form: any slave (secure login included), masters with harmless MOTD lines *)
Theorem C05_one_side_conforms_wide : forall (cfg : side_cfg) (peer_stream : bytes),
  side_conf cfg -> cfg_scope' cfg -> peer_ok' cfg peer_stream ->
  let o := exchange cfg peer_stream in
  x_res o = XNil ->
  let '(m, s) := if c_master cfg then (x_wire o, peer_stream) else (peer_stream, x_wire o) in
  match validate m s with VOk => True | VBad who _ _ => who <> c_master cfg end.
Proof. exact one_side_conforms_wide. Qed.
Print Assumptions C05_one_side_conforms_wide.
(* instances meeting the hypotheses: a slave with a password callback answering ;PQ: 23753528,
   a master with two MOTD lines; the MOTD clauses are needed *)
Example C05_wide_instances := (wide_slave_run, wide_slave_instance, wide_master_run, wide_master_instance).
Example C05_motd_needed := (motd_soh_cx, motd_sid_cx, motd_fw_cx, motd_prompt_cx, motd_cr_cx).

(* the conditions on the peer are needed: each stream below meets one and not the other, the
   session completes and the LIBRARY is blamed *)
Example C05_peer_greeting_needed := (greeting_desync_elem_off, greeting_desync_not_agree, greeting_blank_cx,
                                     greeting_blank_elem_off, greeting_blank_not_agree).
Example C05_peer_offsets_needed := (offset_limit_agree, offset_limit_not_off).
(* the hypotheses are met by a concrete master/slave-stream pair that completes and is accepted *)
Example C05_one_side_instance := (cx_slave_stream_ok, cx_slave_stream_peer_ok).

(* WHOLE SESSIONS of two library sides: the independent grammar accepts both streams in full *)
Theorem C05_pair_conforms : forall (a b : side_cfg),
  c_master a = negb (c_master b) -> pair_text_ok a b ->
  side_conf a -> side_conf b -> side_ready a b -> side_ready b a ->
  forall in_a in_b, closed a b in_a in_b ->
    let '(ms, ss) := if c_master a then (in_b, in_a) else (in_a, in_b) in validate ms ss = VOk.
Proof. exact pair_conforms. Qed.
Print Assumptions C05_pair_conforms.

(* a conforming pair exists and is accepted (non-vacuity), computed by the kernel *)
Example C05_pair_instance := kx_conforming.

Theorem C05_prompt : forall lines, Forall ascii_line lines ->
  valid_prompt ([70; 62; 32] ++ fmt_02X (block_checksum lines)) lines = true.
Proof. exact prompt_valid. Qed.
Print Assumptions C05_prompt.

Theorem C05_answer_line : forall ans : list answer,
  fs_answers ([70; 83; 32] ++ map answer_byte ans) = Some (map to_gans ans).
Proof. exact answer_line_valid. Qed.
Print Assumptions C05_answer_line.

Theorem C05_decimal_fields : forall n, n < 10 ^ 41 ->
  dec_value (dec_of_N n) 0 = n /\ all_digits (dec_of_N n) = true.
Proof. intros n H. split; [apply dec_roundtrip; exact H|apply dec_all_digits]. Qed.
Print Assumptions C05_decimal_fields.

(* instances of the session statement, computed by the kernel (tests of the statement): a
   slave without messages talking to a grammar-conforming master *)
Definition slave_cfg : side_cfg :=
  {| c_master := false; c_motd := [];
     c_hs := {| hs_fw := [[76;65;49;66]]; hs_name := [119]; hs_version := [49]; hs_target := [88];
                hs_mycall := [76;65;49;66]; hs_locator := [74;79]; hs_master := false; hs_gzip := false; hs_cb := None |};
     c_handler := {| h_present := true; h_prepare_err := false; h_outbox := []; h_gone := [];
                     h_policy := []; h_fail := [] |} |}.
Definition master_stream : bytes :=
  [91;82;45;49;45;66;50;70;36;93;13] ++ [88;62;13] ++ [70;81;13].     (* "[R-1-B2F$]" "X>" "FQ" *)
Example C05_instance :
  let o := exchange slave_cfg master_stream in
  x_res o = XNil /\ validate master_stream (x_wire o) = VOk.
Proof. vm_compute. split; reflexivity. Qed.
