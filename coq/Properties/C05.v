(* Properties/C05.v — wire behaviour conforms to B2F as judged by an independent peer.
   B2F/Grammar.v is the independent judge: a validator for both byte streams of a session,
   written from docs/F6FBB-B2F/protocole.html and sid.html (it imports neither the model side
   nor the generated tables).  It is extracted and replays every session the reference peer
   (harness, written from the same documents) has with a real Session.

   Proved for ALL inputs: elements the model side writes are accepted by the grammar's own
   readers -- the block prompt carries the checksum the grammar demands for the proposal lines
   just written; the answer line is read as one answer per proposal from the documented
   alphabet; decimal fields round-trip through the grammar's reader.  The whole-session
   statement is a Prop decided per run by the extracted validator and the reference peer. *)
From Verif Require Import Base.Bytes Base.Utf8 B2F.Secure B2F.Side B2F.Grammar B2F.GrammarP.
Open Scope N_scope.

(* FULL STATEMENT (not asserted): whatever the peer sends, as long as the grammar accepts the
   peer's part, it accepts the whole session including everything the library side wrote *)
Definition C05_conforming_statement : Prop :=
  forall (cfg : side_cfg) (peer_stream : bytes),
    let o := exchange cfg peer_stream in
    x_res o = XNil ->
    let '(m, s) := if c_master cfg then (x_wire o, peer_stream) else (peer_stream, x_wire o) in
    match validate m s with
    | VOk => True
    | VBad who _ _ => who <> c_master cfg          (* only the peer can be at fault *)
    end.

Theorem C05_prompt : forall lines, Forall ascii_line lines ->
  valid_prompt ([70; 62; 32] ++ fmt_02X (block_checksum lines)) lines = true.
Proof. exact prompt_valid. Qed.
Print Assumptions C05_prompt.

Theorem C05_answer_line : forall ans : list answer,
  fs_answers ([70; 83; 32] ++ map answer_byte ans) = Some (map to_gans ans).
Proof. exact answer_line_valid. Qed.
Print Assumptions C05_answer_line.

Theorem C05_decimal_fields : forall n, n < 10 ^ 41 ->
  dec_value (dec_of_N n) 0 = n /\ all_digits (dec_of_N n) = true.
Proof. intros n H. split; [apply dec_roundtrip; exact H|apply dec_all_digits]. Qed.
Print Assumptions C05_decimal_fields.

(* instances of the session statement, computed by the kernel (tests of the statement): a
   slave without messages talking to a grammar-conforming master *)
Definition slave_cfg : side_cfg :=
  {| c_master := false; c_motd := [];
     c_hs := {| hs_fw := [[76;65;49;66]]; hs_name := [119]; hs_version := [49]; hs_target := [88];
                hs_mycall := [76;65;49;66]; hs_locator := [74;79]; hs_master := false; hs_gzip := false; hs_cb := None |};
     c_handler := {| h_present := true; h_prepare_err := false; h_outbox := []; h_gone := [];
                     h_policy := []; h_fail := [] |} |}.
Definition master_stream : bytes :=
  [91;82;45;49;45;66;50;70;36;93;13] ++ [88;62;13] ++ [70;81;13].     (* "[R-1-B2F$]" "X>" "FQ" *)
Example C05_instance :
  let o := exchange slave_cfg master_stream in
  x_res o = XNil /\ validate master_stream (x_wire o) = VOk.
Proof. vm_compute. split; reflexivity. Qed.
