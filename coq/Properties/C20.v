(* Properties/C20.v — position reports state the given position in valid Winlink format.
   A finite binary64 input x is given exactly as (neg, m, k) with |x| = m / 2^k. *)
From Verif Require Import Base.Bytes Catalog.PosReport Catalog.PosReportP.
Open Scope N_scope.

(* Format: for every |x| <= 90 (latitude) / 180 (longitude) the line is DD-MM.MMMMH resp.
   DDD-MM.MMMMH: two/three degree digits, two minute digits below 60, four fraction digits,
   the hemisphere letter; and the digits denote t, the value in ten-thousandths of a minute. *)
Theorem C20_format : forall neg m k (lat : bool),
  let L := if lat then 90 else 180 in
  m <= L * 2 ^ k ->
  let t := t_of m k in
  let deg := t / 600000 in
  let mi := (t mod 600000) / 10000 in
  let fr := (t mod 600000) mod 10000 in
  dec_to_min_dec neg m k lat =
    digitsk (if lat then 2 else 3) deg ++ [45] ++ digitsk 2 mi ++ [46] ++ digitsk 4 fr
    ++ [hemisphere neg m lat]
  /\ deg <= L /\ mi < 60 /\ fr < 10000
  /\ t = deg * 600000 + mi * 10000 + fr.
Proof. exact dec_to_min_dec_format. Qed.
Print Assumptions C20_format.

Theorem C20_digits : forall k n,
  length (digitsk k n) = k /\ Forall (fun b => 48 <= b <= 57) (digitsk k n).
Proof. exact digitsk_shape. Qed.
Print Assumptions C20_digits.

(* Value: |t - |x| * 600000| <= 1/2 + |x| * 600000 * 2^-53, written without fractions
   (everything multiplied by 2 * 2^k * 2^53; P = m * 600000, |x| * 600000 = P / 2^k).
   The second term is the rounding error of the one binary64 multiplication the code
   performs; "within half a ten-thousandth of a minute" is read modulo that term. *)
Theorem C20_value : forall m k,
  let P := m * 600000 in
  let t := t_of m k in
  2 * (t * 2 ^ k) * 2 ^ 53 <= 2 * P * 2 ^ 53 + 2 ^ k * 2 ^ 53 + 2 * P /\
  2 * P * 2 ^ 53 <= 2 * (t * 2 ^ k) * 2 ^ 53 + 2 ^ k * 2 ^ 53 + 2 * P.
Proof. exact t_of_value. Qed.
Print Assumptions C20_value.

Theorem C20_course : forall d mag,
  (0 <= d <= 360)%Z ->
  course_string d mag = Some (digitsk 3 (Z.to_N (d mod 360)) ++ [if mag then 77 else 84]).
Proof. exact course_string_spec. Qed.
Print Assumptions C20_course.

Theorem C20_fields : forall p,
  posrep_body p =
  str_DATE ++ pr_date p ++ CRLF
  ++ (match pr_lat p, pr_lon p with
      | Some (n1, m1, k1), Some (n2, m2, k2) =>
          str_LATITUDE ++ dec_to_min_dec n1 m1 k1 true ++ CRLF
          ++ str_LONGITUDE ++ dec_to_min_dec n2 m2 k2 false ++ CRLF
      | _, _ => []
      end)
  ++ (match pr_speed p with Some s => str_SPEED ++ s ++ CRLF | None => [] end)
  ++ (match pr_course p with Some c => str_COURSE ++ c ++ CRLF | None => [] end)
  ++ (match pr_comment p with [] => [] | c => str_COMMENT ++ c ++ CRLF end).
Proof. exact posrep_body_fields. Qed.
Print Assumptions C20_fields.

(* Non-vacuity / regression witnesses: the inputs on which the code before the fix: commits
   printed 60.0000 minutes and a space padded course. 0.9999999999 = 0x3FEFFFFFFF920C80
   = 562949953365017 / 2^49. *)
Example C20_was_60_minutes :
  dec_to_min_dec false 562949953365017 49 true = [48;49;45;48;48;46;48;48;48;48;78]. (* "01-00.0000N" *)
Proof. vm_compute. reflexivity. Qed.
Example C20_course_5M : course_string 5 true = Some [48;48;53;77].
Proof. vm_compute. reflexivity. Qed.
Example C20_premise_satisfiable : 562949953365017 <= 90 * 2 ^ 49.
Proof. vm_compute. discriminate. Qed.
