(* Properties/C12.v — the mailbox never touches files outside its own directory.
   Paths are lexical (path.Join / path.Clean as modelled in Mbox/Confine.v); symbolic links
   inside the mailbox are outside the model. *)
From Verif Require Import Base.Bytes Mbox.Confine Mbox.ConfineP gen.Tables.
Open Scope N_scope.

(* For every mailbox directory and EVERY byte string used as a MID (separators, dot-dot
   segments, absolute paths, empty, long, non-ASCII, NUL), each path touched when storing
   an inbound message (temporary file and final file), answering a proposal, marking a
   message sent or deferred, or adding an outbound message keeps the rootedness of the
   mailbox path and cleans to the mailbox's own segments followed by one or more plain
   segments (non-empty, neither "." nor "..", without separator): it is inside the mailbox. *)
Theorem C12_confined : forall base op mid p,
  base <> [] -> In p (touched base op mid) ->
  is_rooted p = is_rooted base /\
  exists extra, extra <> [] /\ clean_segs p = clean_segs base ++ extra /\ Forall plain extra.
Proof. exact touched_confined. Qed.
Print Assumptions C12_confined.

(* A MID that is empty, "." or "..", or contains a separator or NUL touches nothing. *)
Theorem C12_invalid_mid : forall base op mid, mid_ok mid = false -> touched base op mid = [].
Proof. exact touched_invalid. Qed.
Print Assumptions C12_invalid_mid.

(* path.Clean's output is a fixed point of the cleaning: the segments the theorem speaks
   about are the segments of the path text that reaches the operating system. *)
Theorem C12_clean_idempotent : forall q, q <> [] -> clean_segs (path_clean q) = clean_segs q.
Proof. exact clean_segs_path_clean. Qed.
Print Assumptions C12_clean_idempotent.

(* Non-vacuity: the witness that escaped the mailbox before the fix: commit is refused, and a
   normal MID yields the expected path. *)
Example C12_dotdot_refused :
  touched [47;109] OpProcessInbound [46;46;47;46;46;47;120] = [].      (* "../../x" *)
Proof. vm_compute. reflexivity. Qed.
Example C12_normal_mid :
  touched [47;109] OpGetInboundAnswer [65;66;67] = [[47;109;47;105;110;47;65;66;67;46;98;50;102]].
Proof. vm_compute. reflexivity. Qed.                                   (* "/m/in/ABC.b2f" *)
