(* Properties/C01.v — a completed exchange delivers every accepted message exactly once, intact.

   Proved for ALL inputs, on the model side (B2F/Side.v): the codecs the exchange rests on --
   the framed transfer round-trips for every payload; the proposals of a turn are a permutation
   of what the handler offered, in precedence-then-size(-then-MID) order, at most five per
   block; the block checksum the sender prints is the value the receiver recomputes; whatever
   reaches the inbound handler went through an accepted transfer whose payload decompressed
   with a successful Close (C04).  The pair-level statement (two sides, any schedule) is kept
   as a Prop over the executable pair run below and is decided per run: pairs of real sessions
   over segmenting in-memory links, the statement evaluated on the handlers' logs, and each
   real side compared with the model side fed with its peer's actual bytes. *)
From Coq Require Import Sorting.Permutation Sorting.Sorted.
From Verif Require Import Base.Bytes B2F.Secure B2F.Side B2F.SideP B2F.CodecP gen.Tables.
Open Scope N_scope.

(* executable pair run: iterate the two sides on each other's output until it is stable *)
Fixpoint pair_iter (n : nat) (a b : side_cfg) (in_a : bytes) : outcome * outcome :=
  let oa := exchange a in_a in
  let ob := exchange b (x_wire oa) in
  match n with
  | O => (oa, ob)
  | S k => if beq_bytes (x_wire ob) in_a then (oa, ob) else pair_iter k a b (x_wire ob)
  end.

(* FULL STATEMENT (not asserted), for the reference handler: everything B's policy accepts is
   processed by B exactly once and reported sent to A exactly once, both results nil *)
Definition delivered_once (o : outcome) (mid : bytes) : Prop :=
  length (filter (fun e => match e with EvProcess m _ true => beq_bytes m mid | _ => false end) (x_events o)) = 1%nat.
Definition sent_once (o : outcome) (mid : bytes) : Prop :=
  length (filter (fun e => match e with EvSetSent m false => beq_bytes m mid | _ => false end) (x_events o)) = 1%nat.
Definition C01_exchange_statement : Prop :=
  forall a b n, c_master a = negb (c_master b) -> h_present (c_handler a) = true -> h_present (c_handler b) = true ->
    (n >= 4 * (length (h_outbox (c_handler a)) + length (h_outbox (c_handler b))) + 8)%nat ->
    let '(oa, ob) := pair_iter n a b [] in
    x_res oa = XNil /\ x_res ob = XNil /\
    forall p, In p (h_outbox (c_handler a)) -> policy_of (c_handler b) (o_mid p) = AAccept ->
              delivered_once ob (o_mid p) /\ sent_once oa (o_mid p).

Theorem C01_frames_roundtrip : forall d rest,
  let wire := data_chunks (S (length d)) d ++ [CHREOT; (256 - sumN d mod 256) mod 256] ++ rest in
  read_frames (S (length wire)) wire [] 0 (Z.of_nat (length d)) = FOk d rest.
Proof. exact frames_roundtrip. Qed.
Print Assumptions C01_frames_roundtrip.

Theorem C01_block_order : forall l,
  Permutation l (sort_props l) /\ LocallySorted (fun a b => prop_leb a b = true) (sort_props l).
Proof. intros l. split; [apply sort_props_perm|apply sort_props_sorted]. Qed.
Print Assumptions C01_block_order.

Theorem C01_block_size : forall l : list oprop, (length (firstn (N.to_nat MaxBlockSize) l) <= 5)%nat.
Proof. exact block_at_most_five. Qed.
Print Assumptions C01_block_size.

Theorem C01_block_checksum : forall lines,
  parse_hex_ignore_err (fmt_02X (block_checksum lines)) = Z.of_N (block_checksum lines).
Proof. exact block_checksum_verifies. Qed.
Print Assumptions C01_block_checksum.

Theorem C01_delivered_means_transferred : forall cfg input mid data,
  In (EvProcess mid data true) (x_events (exchange cfg input)) ->
  exists cdata s p s', read_compressed s p = ROk (cdata, s') /\ proposal_message cdata = MOk mid data.
Proof. exact exchange_integrity. Qed.
Print Assumptions C01_delivered_means_transferred.

(* an instance of the pair statement: two sides without messages complete with FF / FQ *)
Definition mk_side (master : bool) : side_cfg :=
  {| c_master := master; c_motd := [];
     c_hs := {| hs_fw := [[76;65;49;66]]; hs_name := [119]; hs_version := [49]; hs_target := [88];
                hs_mycall := [76;65;49;66]; hs_locator := []; hs_master := master; hs_gzip := false; hs_cb := None |};
     c_handler := {| h_present := true; h_prepare_err := false; h_outbox := []; h_gone := [];
                     h_policy := []; h_fail := [] |} |}.
Example C01_empty_pair :
  let '(oa, ob) := pair_iter 8 (mk_side true) (mk_side false) [] in x_res oa = XNil /\ x_res ob = XNil.
Proof. vm_compute. split; reflexivity. Qed.
