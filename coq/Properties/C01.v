(* Properties/C01.v — a completed exchange delivers every accepted message exactly once, intact.

   THEOREM (C01_exchange): for two model sides (B2F/Side.v) of opposite roles with compatible
   handshakes, handlers present and Prepare succeeding, outboxes whose entries respect the wire
   formats (no CR or blank in a MID, no NUL in the first 80 title bytes, compressed size
   6 .. 2^63-1), carry the MIDs they are proposed under, have pairwise distinct MIDs none of
   which the peer fails to store or the owner has already marked: there IS a complete, uncut
   session (each side's input is exactly what the other wrote), and EVERY such session ends
   with nil on both sides and, in both directions, for every outbox entry: if the peer's policy
   accepts it, the owner's log holds exactly one EvSetSent(mid, false) and the peer's log
   exactly one EvProcess(mid, data, true) with data the decompressed message of that entry;
   if the peer rejects it, exactly one EvSetSent(mid, true) and no transfer; if the peer defers
   it, exactly one EvSetDeferred and no transfer; and nothing of the kind for any other MID.
   Any number of messages and blocks, any policies.  (B2F/DeliverP.v, on the joint invariant of
   B2F/PairP.v.)  In the terms first used here: C01_delivered_once.  The iteration pair_iter
   returns such a session whenever it stops (C01_iteration), and started from the EMPTY input
   it reaches the complete session within 2*(|outbox a| + |outbox b|) + 2 rounds
   (C01_iteration_converges, B2F/IterP.v: the session is a dialogue of chunks, each round adds
   two; the bound is attained for empty outboxes) -- so the statement as first written holds
   once the missing hypotheses are added (C01_exchange_from_empty).  Each hypothesis is shown necessary by a closed counterexample in
   DeliverP.v; the statement as it was first written here (roles and handlers only) is
   refuted (C01_first_statement_refuted).

   Also proved for ALL inputs: the codecs the exchange rests on -- the framed transfer
   round-trips for every payload; the proposals of a turn are a permutation of what the
   handler offered, in precedence-then-size(-then-MID) order, at most five per block; the block
   checksum the sender prints is the value the receiver recomputes; whatever reaches the
   inbound handler went through an accepted transfer whose payload decompressed with a
   successful Close (C04).  Per run: pairs of real sessions over segmenting in-memory links,
   the statement evaluated on the handlers' logs, and each real side compared with the model
   side fed with its peer's actual bytes. *)
From Coq Require Import Sorting.Permutation Sorting.Sorted.
From Verif Require Import Base.Bytes B2F.Secure B2F.Side B2F.SideP B2F.CodecP B2F.PairIter B2F.PairDefs B2F.PairP B2F.DeliverP B2F.IterP gen.Tables.
Open Scope N_scope.

(* THE EXCHANGE *)
Theorem C01_exchange : forall (a b : side_cfg),
  c_master a = negb (c_master b) ->
  hs_compat (if c_master a then a else b) (if c_master a then b else a) ->
  side_ready a b -> side_ready b a ->
  (exists in_a in_b, closed a b in_a in_b) /\
  (forall in_a in_b, closed a b in_a in_b -> exchange_delivers a b in_a in_b).
Proof. exact complete_exchange_delivers. Qed.
Print Assumptions C01_exchange.

(* in the terms first used in this file *)
Theorem C01_delivered_once : forall (a b : side_cfg),
  c_master a = negb (c_master b) ->
  hs_compat (if c_master a then a else b) (if c_master a then b else a) ->
  side_ready a b -> side_ready b a ->
  exists in_a in_b,
    let oa := exchange a in_a in let ob := exchange b in_b in
    x_wire oa = in_b /\ x_wire ob = in_a /\ x_res oa = XNil /\ x_res ob = XNil /\
    (forall p, In p (h_outbox (c_handler a)) -> policy_of (c_handler b) (o_mid p) = AAccept ->
       delivered_once ob (o_mid p) /\ sent_once oa (o_mid p)) /\
    (forall p, In p (h_outbox (c_handler b)) -> policy_of (c_handler a) (o_mid p) = AAccept ->
       delivered_once oa (o_mid p) /\ sent_once ob (o_mid p)).
Proof. exact C01_exchange_delivers. Qed.
Print Assumptions C01_delivered_once.

(* the iteration: started at a complete session it returns it *)
Theorem C01_iteration : forall n a b in_a in_b, closed a b in_a in_b ->
  pair_iter n a b in_a = (exchange a in_a, exchange b in_b).
Proof. exact pair_iter_closed. Qed.
Print Assumptions C01_iteration.

(* started from the empty input the iteration reaches THE complete session, within the bound *)
Theorem C01_iteration_converges : forall (a b : side_cfg),
  c_master a = negb (c_master b) ->
  hs_compat (if c_master a then a else b) (if c_master a then b else a) ->
  side_ready a b -> side_ready b a ->
  exists in_a in_b, closed a b in_a in_b /\
    iter_in (iter_bound a b) a b [] = in_a /\
    forall n, (iter_bound a b <= n)%nat -> pair_iter n a b [] = (exchange a in_a, exchange b in_b).
Proof. exact pair_iter_converges. Qed.
Print Assumptions C01_iteration_converges.

(* the conclusion of the statement first written, for the executable pair run from the empty
   input, under the hypotheses of C01_exchange *)
Theorem C01_exchange_from_empty : forall (a b : side_cfg) (n : nat),
  c_master a = negb (c_master b) ->
  hs_compat (if c_master a then a else b) (if c_master a then b else a) ->
  side_ready a b -> side_ready b a ->
  (n >= 4 * (length (h_outbox (c_handler a)) + length (h_outbox (c_handler b))) + 8)%nat ->
  let '(oa, ob) := pair_iter n a b [] in
  x_res oa = XNil /\ x_res ob = XNil /\
  forall p, In p (h_outbox (c_handler a)) -> policy_of (c_handler b) (o_mid p) = AAccept ->
            delivered_once ob (o_mid p) /\ sent_once oa (o_mid p).
Proof. exact C01_exchange_holds. Qed.
Print Assumptions C01_exchange_from_empty.
Example C01_iteration_bound_attained := iter_bound_attained.

(* the statement as first written (roles and handlers only) is false *)
Theorem C01_first_statement_refuted : ~ C01_exchange_statement.
Proof. exact C01_exchange_statement_is_false. Qed.
Print Assumptions C01_first_statement_refuted.

(* an instance with 6 + 2 messages, one rejected, one deferred: the iteration from the empty
   input reaches the complete session (computed by the kernel) *)
Example C01_instance_iteration := dx_iter.

Theorem C01_frames_roundtrip : forall d rest,
  let wire := data_chunks (S (length d)) d ++ [CHREOT; (256 - sumN d mod 256) mod 256] ++ rest in
  read_frames (S (length wire)) wire [] 0 (Z.of_nat (length d)) = FOk d rest.
Proof. exact frames_roundtrip. Qed.
Print Assumptions C01_frames_roundtrip.

Theorem C01_block_order : forall l,
  Permutation l (sort_props l) /\ LocallySorted (fun a b => prop_leb a b = true) (sort_props l).
Proof. intros l. split; [apply sort_props_perm|apply sort_props_sorted]. Qed.
Print Assumptions C01_block_order.

Theorem C01_block_size : forall l : list oprop, (length (firstn (N.to_nat MaxBlockSize) l) <= 5)%nat.
Proof. exact block_at_most_five. Qed.
Print Assumptions C01_block_size.

Theorem C01_block_checksum : forall lines,
  parse_hex_ignore_err (fmt_02X (block_checksum lines)) = Z.of_N (block_checksum lines).
Proof. exact block_checksum_verifies. Qed.
Print Assumptions C01_block_checksum.

Theorem C01_delivered_means_transferred : forall cfg input mid data,
  In (EvProcess mid data true) (x_events (exchange cfg input)) ->
  exists cdata s p s', read_compressed s p = ROk (cdata, s') /\ proposal_message cdata = MOk mid data.
Proof. exact exchange_integrity. Qed.
Print Assumptions C01_delivered_means_transferred.

(* an instance of the pair statement: two sides without messages complete with FF / FQ *)
Definition mk_side (master : bool) : side_cfg :=
  {| c_master := master; c_motd := [];
     c_hs := {| hs_fw := [[76;65;49;66]]; hs_name := [119]; hs_version := [49]; hs_target := [88];
                hs_mycall := [76;65;49;66]; hs_locator := []; hs_master := master; hs_gzip := false; hs_cb := None |};
     c_handler := {| h_present := true; h_prepare_err := false; h_outbox := []; h_gone := [];
                     h_policy := []; h_fail := [] |} |}.
Example C01_empty_pair :
  let '(oa, ob) := pair_iter 8 (mk_side true) (mk_side false) [] in x_res oa = XNil /\ x_res ob = XNil.
Proof. vm_compute. split; reflexivity. Qed.
