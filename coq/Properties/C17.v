(* Properties/C17.v — transfer progress reporting is race-free and well-formed.
   What is proven: for EVERY interleaving of the transfer loop and the reporter goroutine (send
   side: ticks with any transmit-buffer length, blocks, end; receive side: notifications, bytes,
   end) the reports delivered for a message are accepted by the judge below: each lies between
   zero and the total, names the message, and exactly one Done report comes last.  The shared
   state of the two goroutines in the model is one counter — which is what the code shares (an
   atomic) after the fix: commit.
   What is NOT provable in this development: that the Go code has no other shared memory access
   (a data race is a property of the Go memory model).  That half is decided per run by the Go
   race detector on a -race build of the harness over paced sessions (dynamic; schedules
   sampled): labelled partial. *)
From Coq Require Import List NArith ZArith.
From Verif Require Import B2F.Status B2F.StatusP.
Import ListNotations.
Open Scope Z_scope.

Theorem C17_send_reports : forall mid total evs remaining,
  0 <= remaining <= total -> send_valid remaining evs = true ->
  reports_ok true mid total (send_reports mid total remaining evs) = true.
Proof. exact send_reports_ok. Qed.
Print Assumptions C17_send_reports.

Theorem C17_recv_reports : forall mid total evs received,
  0 <= received <= total -> recv_valid total received evs = true ->
  reports_ok false mid total (recv_reports mid total received evs) = true /\
  nondecreasing (recv_reports mid total received evs) = true /\
  (forall r, In r (recv_reports mid total received evs) -> received <= r_transferred r).
Proof. exact recv_reports_ok. Qed.
Print Assumptions C17_recv_reports.

(* what the judge's verdict means *)
Theorem C17_judge : forall sending mid total rs, reports_ok sending mid total rs = true ->
  rs <> [] /\
  (forall r, In r rs -> r_sending r = sending /\ r_mid r = mid /\ 0 <= r_transferred r <= total /\ r_total r = total) /\
  (exists init last, rs = init ++ [last] /\ r_done last = true /\ Forall (fun r => r_done r = false) init).
Proof. exact reports_ok_spec. Qed.
Print Assumptions C17_judge.

Example C17_witness :
  reports_ok true 7 1000 (send_reports 7 1000 900 [STick 0; SBlock 250; STick 300; SBlock 250; SBlock 250; SBlock 150; STick 0; SEnd]) = true
  /\ map r_transferred (send_reports 7 1000 900 [STick 0; SBlock 250; STick 300; SBlock 250; SBlock 250; SBlock 150; STick 0; SEnd]) = [100; 50; 1000; 1000]
  /\ session_ok false [(1%N, 3); (2%N, 2)]
       (recv_reports 1 3 0 [RNotify; RByte; RByte; RNotify; RByte; REnd] ++ recv_reports 2 2 0 [RByte; RByte; REnd]) = true
  /\ reports_ok false 1 3 [{| r_sending := false; r_mid := 1; r_transferred := 4; r_total := 3; r_done := true |}] = false.
Proof. vm_compute. repeat split; reflexivity. Qed.
