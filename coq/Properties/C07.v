(* Properties/C07.v — LZHUF streams interoperate with the canonical FBB/Winlink codec.
   Lzhuf/Canon.v is the independent reference (own constants, tables computed from the code
   length histogram, bitwise CRC); the harness checks on every run that Canon.compress
   reproduces the golden .lzh files of lzhuf/testdata byte for byte.

   Proved for ALL inputs: the library's tables and constants are the canonical ones; its
   table-driven, zero-augmented CRC is CRC-16/XMODEM; every stream carries the canonical B2
   header; the reference's adaptive Huffman tree IS the library's after every update
   (C07_same_tree) and its bitwise CRC is the library's (C07_reference_crc); the FORMAT is
   pinned by the token layer (Lzhuf/Tokens.v: literals and (position, length) matches over
   the 2048-byte ring, Huffman-coded under the evolving tree, position code from the
   canonical tables): the reference decoder decodes every well-formed token stream to its
   expansion (C07_reference_decodes_format) and so does the library's reader, for every Read
   buffer size (C07_library_decodes_format) -- whoever produced the stream; and every stream
   the library's compressor produces IS of that format, so the reference decodes it to the
   input (C07_lib_to_reference, the first cross-decoding statement, for all inputs); and the
   reference's own ENCODER (original order DeleteNode / store / InsertNode, its own search
   trees shown equal to the library's) emits the format too, so the library decompresses
   everything the reference compresses (C07_reference_to_lib, the second statement, for all
   inputs and every Read buffer size).  What ties the reference to the outside world: it
   reproduces the golden .lzh files of lzhuf/testdata byte for byte (checked on every run). *)
From Verif Require Import Base.Bytes Lzhuf.Huff Lzhuf.HuffInv Lzhuf.Enc Lzhuf.Crc Lzhuf.CrcP Lzhuf.Dec
  Lzhuf.LzP Lzhuf.Bits Lzhuf.Tokens Lzhuf.TokDecP Lzhuf.CanonDecP Lzhuf.LzhufP Lzhuf.CanonEncP Lzhuf.Canon gen.Tables.
Open Scope N_scope.

Theorem C07_constants :
  lz_N = Canon.cN /\ lz_F = Canon.cF /\ lz_Threshold = Canon.cTHRESHOLD /\ lz_NIL = Canon.cNIL
  /\ lz_NumChar = 256 - lz_Threshold + lz_F /\ lz_T = lz_NumChar * 2 - 1 /\ lz_R = lz_T - 1
  /\ lz_T = Canon.cT /\ lz_MaxFreq = Canon.cMAX_FREQ.
Proof. exact constants_canonical. Qed.
Print Assumptions C07_constants.

(* position encoding tables = the canonical prefix code of the histogram 1x3,3x4,8x5,12x6,24x7,16x8 *)
Theorem C07_tables_encode : lz_pCode = map fst Canon.p_table /\ lz_pLen = map snd Canon.p_table.
Proof. exact encode_tables_canonical. Qed.
Print Assumptions C07_tables_encode.

(* decoding tables: for all 256 byte values the prefix lookup of the canonical code *)
Theorem C07_tables_decode : forall b, b < 256 ->
  Canon.d_lookup b = (nth (N.to_nat b) lz_dCode 0, nth (N.to_nat b) lz_dLen 0).
Proof. exact decode_tables_canonical. Qed.
Print Assumptions C07_tables_decode.

(* dCode/dLen invert pCode/pLen for all 64 prefixes and every completion of the byte *)
Theorem C07_tables_inverse : forall i low,
  i < 64 -> low < 2 ^ (8 - nth (N.to_nat i) lz_pLen 0) ->
  let b := nth (N.to_nat i) lz_pCode 0 + low in
  nth (N.to_nat b) lz_dCode 0 = i /\ nth (N.to_nat b) lz_dLen 0 = nth (N.to_nat i) lz_pLen 0.
Proof. exact tables_inverse. Qed.
Print Assumptions C07_tables_inverse.

(* the CRC of the code (table lookup, two zero bytes appended) is CRC-16/XMODEM, for every
   byte string; each of the 256 table entries is the bitwise CRC of its index *)
Theorem C07_crc : forall p, Forall (fun b => b < 256) p -> crc_impl p = xmodem p.
Proof. exact crc_impl_xmodem. Qed.
Print Assumptions C07_crc.
Theorem C07_crc_table : forall i, i < 256 -> nth (N.to_nat i) lz_crc16tab 0 = xm_byte 0 i.
Proof. exact crc16tab_spec. Qed.
Print Assumptions C07_crc_table.

(* the B2 header of every stream: little-endian CRC-16/XMODEM over size and data, then the
   little-endian 32-bit uncompressed size *)
Theorem C07_header : forall x,
  compress false x = size_field x ++ body_of x /\
  compress true x = le16 (xmodem (size_field x ++ body_of x)) ++ size_field x ++ body_of x /\
  Forall (fun b => b < 256) (body_of x).
Proof. exact compress_header. Qed.
Print Assumptions C07_header.

(* the reference's adaptive Huffman tree is the library's: same initial tree, and one
   update of the reference equals one update of the library on every tree satisfying the
   invariant (hence on every tree either side can reach) *)
Theorem C07_same_tree :
  Canon.start_huff = hf_of huff_init /\
  forall h c, Inv h -> c < lz_NumChar -> Canon.bump (hf_of h) c = hf_of (update h c).
Proof. split; [exact canon_start|exact canon_bump]. Qed.
Print Assumptions C07_same_tree.

(* the reference's bitwise CRC equals the library's table-driven one on every byte string *)
Theorem C07_reference_crc : forall p, Forall (fun b => b < 256) p -> Canon.crc16 p = crc_impl p.
Proof. exact canon_crc. Qed.
Print Assumptions C07_reference_crc.

(* the format, decoded by the reference: any well-formed token sequence, Huffman-coded from
   the initial tree, padded to a byte, behind the size (and CRC) header *)
Theorem C07_reference_decodes_format :
  forall (crc : bool) (toks : list token) (body : bytes) (pad : list bool),
    Forall tok_ok toks -> Forall (fun x => x < 256) body ->
    bytes_bits body = toks_bits huff_init toks ++ pad ->
    (Z.of_nat (length (expand win_init toks)) < 2147483648)%Z ->
    let x := expand win_init toks in
    let size := le32 (N.of_nat (length x)) in
    let stream := (if crc then le16 (crc_impl (size ++ body)) else []) ++ size ++ body in
    Canon.decode crc stream = Some x.
Proof. exact canon_decode_tokens. Qed.
Print Assumptions C07_reference_decodes_format.

(* the same format, decoded by the library's reader with any positive Read buffer size *)
Theorem C07_library_decodes_format :
  forall (crc : bool) (toks : list token) (body : bytes) (pad : list bool) (bs : nat),
    Forall tok_ok toks -> Forall (fun x => x < 256) body ->
    bytes_bits body = toks_bits huff_init toks ++ pad -> (length pad < 8)%nat ->
    (Z.of_nat (length (expand win_init toks)) < 2147483648)%Z -> (0 < bs)%nat ->
    let x := expand win_init toks in
    let size := le32 (N.of_nat (length x)) in
    let stream := (if crc then le16 (crc_impl (size ++ body)) else []) ++ size ++ body in
    read_all crc stream bs (S (S (length x))) = Some (x, REof, ErrNone).
Proof. exact reader_decodes_tokens. Qed.
Print Assumptions C07_library_decodes_format.

(* library -> reference, for ALL inputs: the independent decoder decodes what the library's
   compressor produces *)
Theorem C07_lib_to_reference : forall (crc : bool) (x : bytes),
  Forall (fun b => b < 256) x -> (Z.of_nat (length x) < 2147483648)%Z ->
  Canon.decode crc (compress crc x) = Some x.
Proof. exact reference_decodes_compress. Qed.
Print Assumptions C07_lib_to_reference.

(* reference -> library, for ALL inputs: the reference compressor emits the format ... *)
Theorem C07_reference_emits_format : forall (crc : bool) x,
  Forall (fun b => b < 256) x -> (Z.of_nat (length x) < 2147483648)%Z ->
  exists toks body pad,
    Forall tok_ok toks /\ expand win_init toks = x /\
    Forall (fun b => b < 256) body /\
    bytes_bits body = toks_bits huff_init toks ++ pad /\ (length pad < 8)%nat /\
    Canon.compress crc x =
      (if crc then le16 (crc_impl (le32 (N.of_nat (length x)) ++ body)) else [])
      ++ le32 (N.of_nat (length x)) ++ body.
Proof. exact canon_compress_format. Qed.
Print Assumptions C07_reference_emits_format.
(* ... and the library's reader decompresses it, with any positive Read buffer size *)
Theorem C07_reference_to_lib : forall (crc : bool) (x : bytes) (bs : nat),
  Forall (fun b => b < 256) x -> (Z.of_nat (length x) < 2147483648)%Z -> (0 < bs)%nat ->
  match new_reader crc [Canon.compress crc x] with
  | Some d => let '(out, st, d') := read_all_loop (S (S (length x))) d bs [] in
              out = x /\ st = REof /\ close_reader d' = ErrNone
  | None => False
  end.
Proof. exact canon_to_lib. Qed.
Print Assumptions C07_reference_to_lib.

(* the independent bitwise CRC of the reference and the model's specification agree on the
   standard check value CRC-16/XMODEM("123456789") = 0x31C3 *)
Example C07_check_value :
  xmodem [49;50;51;52;53;54;55;56;57] = 12739 /\ Canon.crc16 [49;50;51;52;53;54;55;56;57] = 12739.
Proof. vm_compute. split; reflexivity. Qed.
(* instances of the two cross-decoding statements *)
Example C07_instance :
  let x := [97;98;99;97;98;99;97;98;99;97;98;99;97;98;99;100;97;98;99] in
  Canon.decode true (compress true x) = Some x /\ compress true x = Canon.compress true x.
Proof. vm_compute. split; reflexivity. Qed.
