(* Properties/C11.v — the mailbox survives a crash at any point.
   Model: Mbox/Crash.v -- each mailbox operation as its sequence of file-system calls (checked
   against strace of the real code on every run), a crash after any prefix of the calls and
   after any prefix of the bytes of a write in flight.  After the fix: commit that stores
   through a dot-prefixed temporary file and rename. *)
From Verif Require Import Base.Bytes Mbox.Confine Mbox.Crash Mbox.CrashP.
Open Scope N_scope.

(* Storing a message (inbound, outbound, or a rewritten read flag) under a visible file name:
   at EVERY crash point (k complete calls, j bytes of the write in flight) every file the
   loader looks at holds exactly what it held before, or -- only the target, only after the
   rename -- the complete new data.  No truncated message is ever visible; previously stored
   messages are intact; a proposal for the interrupted inbound message finds a file under its
   name only if that file is complete (old copy or complete new copy). *)
Theorem C11_store : forall fs f name data k j q,
  visible_name name = true -> visible_name (snd q) = true ->
  let p := (f, name) in
  let fs' := crash_state fs (calls_of (FStore f name data)) k j in
  fs_get fs' q = fs_get fs q \/ (q = p /\ fs_get fs' q = Some data).
Proof. exact store_crash_safe. Qed.
Print Assumptions C11_store.

Theorem C11_store_atomic : forall fs f name data k j q,
  visible_name (snd q) = true -> (k <= 3)%nat ->
  fs_get (crash_state fs (calls_of (FStore f name data)) k j) q = fs_get fs q.
Proof. exact store_before_rename. Qed.
Print Assumptions C11_store_atomic.

(* Marking a message sent: at every crash point it is in exactly one of outbox and sent, with
   its content, and no other file is touched. *)
Theorem C11_setsent : forall fs name k j c,
  fs_get fs (F_OUT, name) = Some c -> fs_get fs (F_SENT, name) = None ->
  let fs' := crash_state fs (calls_of (FSetSent name)) k j in
  (fs_get fs' (F_OUT, name) = Some c /\ fs_get fs' (F_SENT, name) = None) \/
  (fs_get fs' (F_OUT, name) = None /\ fs_get fs' (F_SENT, name) = Some c).
Proof. exact setsent_crash_safe. Qed.
Print Assumptions C11_setsent.

Theorem C11_setsent_others : forall fs name k j q,
  q <> (F_OUT, name) -> q <> (F_SENT, name) ->
  fs_get (crash_state fs (calls_of (FSetSent name)) k j) q = fs_get fs q.
Proof. exact setsent_others. Qed.
Print Assumptions C11_setsent_others.

(* Non-vacuity: a crash in the middle of the write leaves the old message readable and the
   partial data only under the hidden temporary name. *)
Example C11_mid_write :
  let name := [65; 46; 98; 50; 102] in               (* "A.b2f" *)
  let fs := [((F_IN, name), [1; 2; 3])] in
  let fs' := crash_state fs (calls_of (FStore F_IN name [9; 9; 9; 9])) 1 2 in
  visible_name name = true /\ fs_get fs' (F_IN, name) = Some [1; 2; 3] /\
  fs_get fs' (F_IN, tmp_name name) = Some [9; 9].
Proof. vm_compute. repeat split; reflexivity. Qed.
