(* Properties/C02.v — link failure never marks an undelivered message sent, nor loses or
   duplicates one.

   On the model side the property rests on two facts that are theorems: a side never panics
   whatever prefix of its peer's stream it receives before the link fails (C03_no_panic applied
   to the prefix), and nothing reaches the inbound handler that did not pass the frame checks,
   the LZHUF Close and the message parser (C04_integrity) -- so whatever is handed over is the
   sender's message.  The safety statement proper (a message is reported sent only if the peer
   completely received it) and the convergence statement are kept as Props and decided per run:
   every cut position of every recorded exchange in both directions with two real sessions,
   storage errors at chosen messages, and histories of faulty sessions followed by a clean one
   on the reference handler and on the real directory mailbox. *)
From Verif Require Import Base.Bytes B2F.Secure B2F.Side B2F.SideP.
Open Scope N_scope.

(* FULL STATEMENT of safety on the model (not asserted): if A marks mid sent, then B, run on
   any prefix of what A wrote, processed it *)
Definition C02_safety_statement : Prop :=
  forall (a b : side_cfg) (in_a : bytes) (k : nat) (mid : bytes),
    let oa := exchange a in_a in
    In (EvSetSent mid false) (x_events oa) ->
    (* in_a is what B wrote when fed a prefix of A's output *)
    in_a = firstn (length in_a) (x_wire (exchange b (firstn k (x_wire oa)))) ->
    exists data, In (EvProcess mid data true) (x_events (exchange b (firstn k (x_wire oa)))).

(* after any cut the surviving side terminates in ConnLost/error/nil, never in a panic *)
Theorem C02_cut_no_panic : forall cfg (stream : bytes) (k : nat),
  x_res (exchange cfg (firstn k stream)) <> XPanic.
Proof. intros cfg stream k. apply exchange_nopanic. Qed.
Print Assumptions C02_cut_no_panic.

(* anything handed to the handler, in a complete or a cut session, is an accepted transfer *)
Theorem C02_intact : forall cfg (stream : bytes) (k : nat) mid data,
  In (EvProcess mid data true) (x_events (exchange cfg (firstn k stream))) ->
  exists cdata s p s', read_compressed s p = ROk (cdata, s') /\ proposal_message cdata = MOk mid data.
Proof. intros cfg stream k. apply exchange_integrity. Qed.
Print Assumptions C02_intact.
