(* Properties/C02.v — link failure never marks an undelivered message sent, nor loses or
   duplicates one.

   THEOREMS on the model side (B2F/Side.v), for every configuration and every received byte
   sequence:
   - causality (C02_cut): cutting the link later never changes what happened earlier -- the run
     on a prefix of the input writes and records a prefix of what the run on the longer input
     writes and records (one documented corner excluded: a cut exactly behind an EOT byte, where
     the missing frame checksum byte reads as 0, mirrored from the code; CutP.cut_after_eot_counterexample);
   - sender half (C02_sender_half): a message is reported sent only after a byte 'F' or ';' of
     the peer's NEXT command was received behind the complete transfer; with the input cut just
     before that byte the run ends in "connection lost" with the message NOT reported sent;
   - receiver half (C02_receiver_half): after its FS answer line the receiver writes nothing
     until every accepted message of the block was received completely and handed to the
     handler successfully (then it writes its next command, starting with 'F'); a failed
     transfer or store ends the session with at most the error report, which starts with '*';
   - a side never panics whatever prefix it receives (C02_cut_no_panic), and only intact
     transfers are handed over (C02_intact).
   The two-party statement as it was first written down here is FALSE (C02_first_statement_
   refuted: nothing tied the proposed MID to the MID inside the compressed message); the
   corrected statement (C02_safety_statement: opposite roles, well-formed outbox) is kept as a
   Prop: its proof needs the full two-party simulation and is decided per run -- every cut
   position of every recorded exchange in both directions with two real sessions, storage
   errors at chosen messages (also inside the real directory mailbox), and histories of faulty
   sessions followed by a clean one. *)
From Verif Require Import Base.Bytes B2F.Secure B2F.Side B2F.SideP B2F.CutP.
Open Scope N_scope.

(* FULL STATEMENT of two-party safety on the model (not asserted): if A marks mid sent, then
   B, run on any prefix of what A wrote that makes it produce what A received, processed it *)
Definition C02_safety_statement : Prop := two_party_safety_corrected.

(* the statement as first written (without the hypotheses on roles and outbox) is false *)
Theorem C02_first_statement_refuted : ~ two_party_safety_as_stated.
Proof. exact two_party_safety_as_stated_is_false. Qed.
Print Assumptions C02_first_statement_refuted.

(* causality *)
Theorem C02_cut : forall cfg (I1 I2 : bytes),
  ~ ends_eot I1 ->
  let o1 := exchange cfg I1 in
  let o2 := exchange cfg (I1 ++ I2) in
  (x_res o1 <> XConnLost -> same_obs o1 o2) /\
  (x_res o1 = XConnLost -> x_res o2 <> XUnknown -> continues o1 o2).
Proof. exact exchange_cut. Qed.
Print Assumptions C02_cut.

(* sender half *)
Theorem C02_sender_half : forall cfg (I : bytes) mid,
  In (EvSetSent mid false) (x_events (exchange cfg I)) ->
  exists I1 c I2, I = I1 ++ c :: I2 /\ (c = 70 \/ c = 59) /\
    x_res (exchange cfg I1) = XConnLost /\
    ~ In (EvSetSent mid false) (x_events (exchange cfg I1)) /\
    prefix (x_wire (exchange cfg I1)) (x_wire (exchange cfg I)).
Proof. exact sent_only_after_next_command. Qed.
Print Assumptions C02_sender_half.

(* receiver half *)
Theorem C02_receiver_half : forall f s q props s1,
  inbound_loop (S (length (s_in s))) s [] [] = ROk (q, props, s1) ->
  let t := turns (S f) false s in
  exists w, s_out (snd t) = w ++ s_out s1 /\
    (w = [] \/ (starts_with_F w /\ exists s2 evs,
        receive_accepted s1 props = RcOk s2 /\ s_out s2 = s_out s1 /\
        s_ev s2 = rev evs ++ s_ev s1 /\ block_processed props evs /\ pre (s_ev s2) (s_ev (snd t)))).
Proof. exact receiver_half. Qed.
Print Assumptions C02_receiver_half.

(* after any cut the surviving side terminates in ConnLost/error/nil, never in a panic *)
Theorem C02_cut_no_panic : forall cfg (stream : bytes) (k : nat),
  x_res (exchange cfg (firstn k stream)) <> XPanic.
Proof. intros cfg stream k. apply exchange_nopanic. Qed.
Print Assumptions C02_cut_no_panic.

(* anything handed to the handler, in a complete or a cut session, is an accepted transfer *)
Theorem C02_intact : forall cfg (stream : bytes) (k : nat) mid data,
  In (EvProcess mid data true) (x_events (exchange cfg (firstn k stream))) ->
  exists cdata s p s', read_compressed s p = ROk (cdata, s') /\ proposal_message cdata = MOk mid data.
Proof. intros cfg stream k. apply exchange_integrity. Qed.
Print Assumptions C02_intact.
