(* Properties/C02.v — link failure never marks an undelivered message sent, nor loses or
   duplicates one.

   THEOREMS on the model side (B2F/Side.v), for every configuration and every received byte
   sequence:
   - causality (C02_cut): cutting the link later never changes what happened earlier -- the run
     on a prefix of the input writes and records a prefix of what the run on the longer input
     writes and records (one documented corner excluded: a cut exactly behind an EOT byte, where
     the missing frame checksum byte reads as 0, mirrored from the code; CutP.cut_after_eot_counterexample);
   - sender half (C02_sender_half): a message is reported sent only after a byte 'F' or ';' of
     the peer's NEXT command was received behind the complete transfer; with the input cut just
     before that byte the run ends in "connection lost" with the message NOT reported sent;
   - receiver half (C02_receiver_half): after its FS answer line the receiver writes nothing
     until every accepted message of the block was received completely and handed to the
     handler successfully (then it writes its next command, starting with 'F'); a failed
     transfer or store ends the session with at most the error report, which starts with '*';
   - a side never panics whatever prefix it receives (C02_cut_no_panic), and only intact
     transfers are handed over (C02_intact).
   - TWO-PARTY SAFETY (C02_safety): for two sides of opposite roles with compatible handshakes,
     outboxes whose fields respect the wire formats (no CR or blank in a MID, compressed size
     6 .. 2^63-1) and A's compressed messages carrying the MIDs they are proposed under: if A
     reports mid as sent, then B -- fed ANY prefix of what A wrote, and having produced what A
     received -- has received it completely and handed to its handler exactly the
     decompressed message of A's outbox.  No restriction on the cut position, the number of
     blocks and turns, who sends, the answers (accept / reject / defer / duplicates), failing
     stores or a missing handler on B.  The proof is a joint invariant at turn boundaries
     (B2F/PairP.v) over inverse lemmas: what one side writes the other parses (proposal
     lines, F> checksum, FS answers, framed transfers, the handshake).
   The statement went through two corrections, each forced by a Coq counterexample: as first
   written it ignored that the proposed MID need not be the MID inside the compressed message
   (C02_first_statement_refuted); with that repaired it still failed for a master whose MOTD
   lines imitate a SID, a prompt and an answer line, and for a peer MID containing CR
   (C02_second_statement_refuted_motd / _mid) -- hence the hypotheses on the handshake and on
   the MIDs of BOTH outboxes.  Per run the same statement is judged on real sessions: every cut
   position of every recorded exchange in both directions, storage errors at chosen messages
   (also inside the real directory mailbox), histories of faulty sessions followed by a clean
   one.
   CONVERGENCE (B2F/ConvergeP.v): the mailboxes carried into the next session are modelled as
   the directory mailbox behaves (next_cfg: SetSent moves an entry out of the outbox, a stored
   MID is answered with reject, the storage fault is gone).  C02_convergence: after ANY faulty
   session (any cut in either direction, any failing store) every complete next session of
   the two sides ends with nil on both and treats each entry of either original outbox as
   `resumed` prescribes: nothing more for what was reported sent; SetSent(true) and no second
   Process for what the peer had stored without the owner being told; otherwise exactly one
   SetSent(false) + exactly one Process of the entry's own message (accept), one SetSent(true)
   (reject), one SetDeferred and the entry kept (defer).  C02_next_session: the same for a
   next session after ARBITRARY outcomes, and a complete next session exists -- so it applies
   after any number of faulty sessions.  C02_delivered (B2F/ConvergeCutP.v): every entry
   the peer's policy accepts is handed to the peer's handler, as the owner's own decompressed
   message, in the faulty session or in the next complete one -- unconditionally: what a side
   stores in a CUT session under one of the other side's MIDs is that side's message even
   when the owner was not told (C02_stored_is_own), and a rejection the owner logged was
   really answered by the peer's policy (C02_rejected_by_policy).  EXACTLY ONCE over both
   sessions (C02_exactly_once, B2F/ConvergeOnceP.v): for every accepted entry the successful
   Process events of its MID in the peer's two logs are exactly [Process mid (own message)]
   and the owner's two logs hold exactly one SetSent for it -- from C02_reported_at_most_once
   (one-sided, any input: at most one SetSent/SetDeferred per MID per session) and
   C02_processed_at_most_once (joint: in any cut session each MID reaches a handler at most
   once, failed stores included).  ANY NUMBER of faulty sessions followed by a complete one
   (C02_many_sessions, B2F/ConvergeManyP.v): over the concatenated logs of all sessions of a
   `history` (each session a cut session of the mailboxes carried over from the previous one)
   and the final complete session, the successful Process events of every accepted entry are
   exactly one, carrying the owner's message, and exactly one SetSent is logged -- in both
   directions, with the ORIGINAL policies.  It rests on C02_stored_only_accepted (in any cut
   session nothing reaches the handler under a MID its policy does not accept, so what is
   stored once is never stored again).  Storage faults may occur in ANY of the faulty sessions
   (C02_many_sessions_faults, B2F/ConvergeFaultsP.v: each step of the history installs its own
   failing stores; of the last pair only that nothing still pending fails); entries the
   original policy defers are never reported sent nor handed over and are still in the owner's
   outbox at the end (C02_deferred_stays_pending). *)
From Verif Require Import Base.Bytes B2F.Secure B2F.Side B2F.SideP B2F.CutP B2F.PairDefs B2F.PairHs B2F.PairP B2F.DeliverP B2F.ConvergeP B2F.ConvergeCutP B2F.ConvergeOnceP B2F.ConvergeManyP B2F.ConvergeFaultsP.
Open Scope N_scope.

(* TWO-PARTY SAFETY *)
Theorem C02_safety : forall (a b : side_cfg) (in_a : bytes) (k : nat) (mid : bytes),
  c_master a = negb (c_master b) ->
  hs_compat (if c_master a then a else b) (if c_master a then b else a) ->
  Forall prop_syn (h_outbox (c_handler a)) -> Forall prop_syn (h_outbox (c_handler b)) ->
  outbox_wf (c_handler a) ->
  let oa := exchange a in_a in
  In (EvSetSent mid false) (x_events oa) ->
  in_a = firstn (length in_a) (x_wire (exchange b (firstn k (x_wire oa)))) ->
  exists p data, In p (h_outbox (c_handler a)) /\ o_mid p = mid /\
    proposal_message (o_cdata p) = MOk mid data /\
    In (EvProcess mid data true) (x_events (exchange b (firstn k (x_wire oa)))).
Proof. exact two_party_safety_intact. Qed.
Print Assumptions C02_safety.

(* the handshake hypothesis in syntactic form: no MOTD, printable handshake fields, a
   non-empty forwarder list *)
Theorem C02_safety_text : forall (a b : side_cfg) (in_a : bytes) (k : nat) (mid : bytes),
  c_master a = negb (c_master b) -> pair_text_ok a b ->
  Forall prop_syn (h_outbox (c_handler a)) -> Forall prop_syn (h_outbox (c_handler b)) ->
  outbox_wf (c_handler a) ->
  let oa := exchange a in_a in
  In (EvSetSent mid false) (x_events oa) ->
  in_a = firstn (length in_a) (x_wire (exchange b (firstn k (x_wire oa)))) ->
  exists data, In (EvProcess mid data true) (x_events (exchange b (firstn k (x_wire oa)))).
Proof. exact two_party_safety_text. Qed.
Print Assumptions C02_safety_text.

(* the hypotheses are met by a complete run that delivers a message (non-vacuity) *)
Example C02_safety_nonvacuous := two_party_safety_cx_nonvacuous.

(* the second version of the statement (roles and outbox_wf only) is false as well *)
Theorem C02_second_statement_refuted_motd : ~ two_party_safety_corrected.
Proof. exact two_party_safety_corrected_is_false_motd. Qed.
Theorem C02_second_statement_refuted_mid : ~ two_party_safety_corrected.
Proof. exact two_party_safety_corrected_is_false_mid. Qed.
Print Assumptions C02_second_statement_refuted_motd.

(* the statement as first written (without the hypotheses on roles and outbox) is false *)
Theorem C02_first_statement_refuted : ~ two_party_safety_as_stated.
Proof. exact two_party_safety_as_stated_is_false. Qed.
Print Assumptions C02_first_statement_refuted.

(* causality *)
Theorem C02_cut : forall cfg (I1 I2 : bytes),
  ~ ends_eot I1 ->
  let o1 := exchange cfg I1 in
  let o2 := exchange cfg (I1 ++ I2) in
  (x_res o1 <> XConnLost -> same_obs o1 o2) /\
  (x_res o1 = XConnLost -> x_res o2 <> XUnknown -> continues o1 o2).
Proof. exact exchange_cut. Qed.
Print Assumptions C02_cut.

(* sender half *)
Theorem C02_sender_half : forall cfg (I : bytes) mid,
  In (EvSetSent mid false) (x_events (exchange cfg I)) ->
  exists I1 c I2, I = I1 ++ c :: I2 /\ (c = 70 \/ c = 59) /\
    x_res (exchange cfg I1) = XConnLost /\
    ~ In (EvSetSent mid false) (x_events (exchange cfg I1)) /\
    prefix (x_wire (exchange cfg I1)) (x_wire (exchange cfg I)).
Proof. exact sent_only_after_next_command. Qed.
Print Assumptions C02_sender_half.

(* receiver half *)
Theorem C02_receiver_half : forall f s q props s1,
  inbound_loop (S (length (s_in s))) s [] [] = ROk (q, props, s1) ->
  let t := turns (S f) false s in
  exists w, s_out (snd t) = w ++ s_out s1 /\
    (w = [] \/ (starts_with_F w /\ exists s2 evs,
        receive_accepted s1 props = RcOk s2 /\ s_out s2 = s_out s1 /\
        s_ev s2 = rev evs ++ s_ev s1 /\ block_processed props evs /\ pre (s_ev s2) (s_ev (snd t)))).
Proof. exact receiver_half. Qed.
Print Assumptions C02_receiver_half.

(* after any cut the surviving side terminates in ConnLost/error/nil, never in a panic *)
Theorem C02_cut_no_panic : forall cfg (stream : bytes) (k : nat),
  x_res (exchange cfg (firstn k stream)) <> XPanic.
Proof. intros cfg stream k. apply exchange_nopanic. Qed.
Print Assumptions C02_cut_no_panic.

(* anything handed to the handler, in a complete or a cut session, is an accepted transfer *)
Theorem C02_intact : forall cfg (stream : bytes) (k : nat) mid data,
  In (EvProcess mid data true) (x_events (exchange cfg (firstn k stream))) ->
  exists cdata s p s', read_compressed s p = ROk (cdata, s') /\ proposal_message cdata = MOk mid data.
Proof. intros cfg stream k. apply exchange_integrity. Qed.
Print Assumptions C02_intact.

(* CONVERGENCE: a faulty session (cut after k bytes towards b, a having received in_a; b's stores
   may fail) followed by any complete session of the mailboxes carried over *)
Theorem C02_convergence : forall (a b : side_cfg) (in_a : bytes) (k : nat) (in_a' in_b' : bytes),
  c_master a = negb (c_master b) ->
  hs_compat (if c_master a then a else b) (if c_master a then b else a) ->
  side_sound a -> side_sound b ->
  let oa := exchange a in_a in let ob := exchange b (firstn k (x_wire oa)) in
  in_a = firstn (length in_a) (x_wire ob) ->
  let a' := next_cfg a oa in let b' := next_cfg b ob in
  closed a' b' in_a' in_b' ->
  let oa' := exchange a' in_a' in let ob' := exchange b' in_b' in
  x_res oa' = XNil /\ x_res ob' = XNil /\
  (forall p, In p (h_outbox (c_handler a)) -> conv_entry a b oa ob oa' ob' p) /\
  (forall p, In p (h_outbox (c_handler b)) -> conv_entry b a ob oa ob' oa' p).
Proof. exact convergence. Qed.
Print Assumptions C02_convergence.

(* the next session after ARBITRARY earlier outcomes: one exists, and every one resumes *)
Theorem C02_next_session : forall (x y : side_cfg) (ox oy : outcome),
  c_master x = negb (c_master y) -> hs_compat (if c_master x then x else y) (if c_master x then y else x) ->
  side_sound x -> side_sound y ->
  let x' := next_cfg x ox in let y' := next_cfg y oy in
  (exists in_x' in_y', closed x' y' in_x' in_y') /\
  (forall in_x' in_y', closed x' y' in_x' in_y' ->
     let ox' := exchange x' in_x' in let oy' := exchange y' in_y' in
     x_res ox' = XNil /\ x_res oy' = XNil /\
     (forall p, In p (h_outbox (c_handler x)) -> resumed x y ox oy ox' oy' p) /\
     (forall p, In p (h_outbox (c_handler y)) -> resumed y x oy ox oy' ox' p)).
Proof. exact next_session_resumes. Qed.
Print Assumptions C02_next_session.

(* computed instances (tests of the statement): a cut inside a transfer, a cut between the last
   EOT and the next command, a cut in the second transfer, a storage error *)
Example C02_convergence_instances := (converge_cut_in_transfer, converge_cut_before_next_command,
                                      converge_cut_in_second_transfer, converge_after_storage_error).

(* DELIVERED: in the faulty session or in the next complete one, as the owner's own message *)
Theorem C02_delivered : forall (a b : side_cfg) (in_a : bytes) (k : nat) (in_a' in_b' : bytes),
  c_master a = negb (c_master b) ->
  hs_compat (if c_master a then a else b) (if c_master a then b else a) ->
  side_sound a -> side_sound b ->
  let oa := exchange a in_a in let ob := exchange b (firstn k (x_wire oa)) in
  in_a = firstn (length in_a) (x_wire ob) ->
  let a' := next_cfg a oa in let b' := next_cfg b ob in
  closed a' b' in_a' in_b' ->
  let oa' := exchange a' in_a' in let ob' := exchange b' in_b' in
  (forall p, In p (h_outbox (c_handler a)) -> policy_of (c_handler b) (o_mid p) = AAccept ->
     In (EvProcess (o_mid p) (pm_data p) true) (x_events ob ++ x_events ob')) /\
  (forall p, In p (h_outbox (c_handler b)) -> policy_of (c_handler a) (o_mid p) = AAccept ->
     In (EvProcess (o_mid p) (pm_data p) true) (x_events oa ++ x_events oa')).
Proof. exact convergence_delivered_cut. Qed.
Print Assumptions C02_delivered.

(* in ANY cut session of two library sides: what y hands to its handler under a MID of x's outbox
   is x's message (whether or not x was told), and a rejection x logged was y's policy *)
Theorem C02_stored_is_own : forall (x y : side_cfg) (in_x in_y : bytes),
  c_master x = negb (c_master y) ->
  hs_compat (if c_master x then x else y) (if c_master x then y else x) ->
  Forall prop_syn (h_outbox (c_handler x)) -> Forall prop_syn (h_outbox (c_handler y)) ->
  Forall prop_wf (h_outbox (c_handler x)) -> NoDup (map o_mid (h_outbox (c_handler x))) ->
  cut_session x y in_x in_y ->
  forall p d ok, In p (h_outbox (c_handler x)) ->
    In (EvProcess (o_mid p) d ok) (x_events (exchange y in_y)) -> d = pm_data p.
Proof. exact stored_is_own. Qed.
Print Assumptions C02_stored_is_own.

Theorem C02_rejected_by_policy : forall (x y : side_cfg) (in_x in_y : bytes),
  c_master x = negb (c_master y) ->
  hs_compat (if c_master x then x else y) (if c_master x then y else x) ->
  Forall prop_syn (h_outbox (c_handler x)) -> Forall prop_syn (h_outbox (c_handler y)) ->
  cut_session x y in_x in_y ->
  forall m, In (EvSetSent m true) (x_events (exchange x in_x)) -> policy_of (c_handler y) m = AReject.
Proof. exact rejected_by_policy. Qed.
Print Assumptions C02_rejected_by_policy.

(* EXACTLY ONCE over the faulty session and the next complete one: "repeating exchanges on the
   same mailboxes until one completes leaves every message delivered exactly once and reported
   sent" *)
Theorem C02_exactly_once : forall (x y : side_cfg) (in_x in_y in_x' in_y' : bytes),
  c_master x = negb (c_master y) ->
  hs_compat (if c_master x then x else y) (if c_master x then y else x) ->
  side_sound x -> side_sound y ->
  cut_session x y in_x in_y ->
  let ox := exchange x in_x in let oy := exchange y in_y in
  let x' := next_cfg x ox in let y' := next_cfg y oy in
  closed x' y' in_x' in_y' ->
  let ox' := exchange x' in_x' in let oy' := exchange y' in_y' in
  forall p, In p (h_outbox (c_handler x)) -> policy_of (c_handler y) (o_mid p) = AAccept ->
    filter (stored_ev (o_mid p)) (x_events oy ++ x_events oy') = [EvProcess (o_mid p) (pm_data p) true] /\
    length (filter (sent_ev (o_mid p)) (x_events ox ++ x_events ox')) = 1%nat.
Proof. exact convergence_exactly_once. Qed.
Print Assumptions C02_exactly_once.

(* one side, ANY input: at most one SetSent / SetDeferred per MID per session *)
Theorem C02_reported_at_most_once : forall (x : side_cfg) (i : bytes),
  NoDup (map o_mid (h_outbox (c_handler x))) ->
  forall mid, (length (filter (own mid) (x_events (exchange x i))) <= 1)%nat.
Proof. exact reported_at_most_once. Qed.
Print Assumptions C02_reported_at_most_once.

(* two library sides, ANY cut: each MID reaches a handler at most once (failed stores included) *)
Theorem C02_processed_at_most_once : forall (a b : side_cfg) (in_a in_b : bytes),
  c_master a = negb (c_master b) ->
  hs_compat (if c_master a then a else b) (if c_master a then b else a) ->
  side_sound a -> side_sound b ->
  cut_session a b in_a in_b ->
  forall mid, (length (filter (proc mid) (x_events (exchange a in_a))) <= 1)%nat.
Proof. exact processed_at_most_once. Qed.
Print Assumptions C02_processed_at_most_once.

(* NoDup is needed: the same MID twice in the outbox is reported twice in one session *)
Example C02_nodup_needed := reported_twice_without_nodup.
Example C02_exactly_once_instance := convergence_exactly_once_dx.

(* SEVERAL faulty sessions, then a complete one: exactly once over ALL logs *)
Theorem C02_many_sessions : forall (x y : side_cfg) l xn yn (in_x' in_y' : bytes),
  c_master x = negb (c_master y) ->
  hs_compat (if c_master x then x else y) (if c_master x then y else x) ->
  side_sound x -> side_sound y ->
  history x y l xn yn -> l <> [] -> closed xn yn in_x' in_y' ->
  let Lx := logs_x l ++ x_events (exchange xn in_x') in let Ly := logs_y l ++ x_events (exchange yn in_y') in
  (forall p, In p (h_outbox (c_handler x)) -> policy_of (c_handler y) (o_mid p) = AAccept ->
     filter (stored_ev (o_mid p)) Ly = [EvProcess (o_mid p) (pm_data p) true] /\
     length (filter (sent_ev (o_mid p)) Lx) = 1%nat) /\
  (forall p, In p (h_outbox (c_handler y)) -> policy_of (c_handler x) (o_mid p) = AAccept ->
     filter (stored_ev (o_mid p)) Lx = [EvProcess (o_mid p) (pm_data p) true] /\
     length (filter (sent_ev (o_mid p)) Ly) = 1%nat).
Proof. exact convergence_many. Qed.
Print Assumptions C02_many_sessions.

(* in ANY cut session: what reaches a side's handler was accepted by its policy *)
Theorem C02_stored_only_accepted : forall (a b : side_cfg) (in_a in_b : bytes),
  c_master a = negb (c_master b) ->
  hs_compat (if c_master a then a else b) (if c_master a then b else a) ->
  side_sound a -> side_sound b ->
  cut_session a b in_a in_b ->
  forall mid d ok, In (EvProcess mid d ok) (x_events (exchange a in_a)) -> policy_of (c_handler a) mid = AAccept.
Proof. exact stored_only_accepted. Qed.
Print Assumptions C02_stored_only_accepted.

(* a history of two different cuts and a complete session, its hypotheses checked by computation,
   and the theorem's conclusion for it *)
Example C02_many_sessions_instance := (many_three_sessions_logs, many_three_sessions_history, many_three_sessions_delivered).

(* storage faults in ANY faulty session: each step installs the failing stores of the next session *)
Theorem C02_many_sessions_faults : forall (x y : side_cfg) l xn yn (in_x' in_y' : bytes),
  c_master x = negb (c_master y) ->
  hs_compat (if c_master x then x else y) (if c_master x then y else x) ->
  side_sound x -> side_sound y ->
  history_f x y l xn yn -> l <> [] ->
  nofail xn yn -> nofail yn xn -> closed xn yn in_x' in_y' ->
  let Lx := logs_x l ++ x_events (exchange xn in_x') in let Ly := logs_y l ++ x_events (exchange yn in_y') in
  (forall p, In p (h_outbox (c_handler x)) -> policy_of (c_handler y) (o_mid p) = AAccept ->
     filter (stored_ev (o_mid p)) Ly = [EvProcess (o_mid p) (pm_data p) true] /\
     length (filter (sent_ev (o_mid p)) Lx) = 1%nat) /\
  (forall p, In p (h_outbox (c_handler y)) -> policy_of (c_handler x) (o_mid p) = AAccept ->
     filter (stored_ev (o_mid p)) Lx = [EvProcess (o_mid p) (pm_data p) true] /\
     length (filter (sent_ev (o_mid p)) Ly) = 1%nat).
Proof. exact convergence_many_f. Qed.
Print Assumptions C02_many_sessions_faults.

(* the complement: what the peer's original policy defers stays pending *)
Theorem C02_deferred_stays_pending : forall (x y : side_cfg) l xn yn (in_x' in_y' : bytes),
  c_master x = negb (c_master y) ->
  hs_compat (if c_master x then x else y) (if c_master x then y else x) ->
  side_sound x -> side_sound y ->
  history_f x y l xn yn -> l <> [] ->
  nofail xn yn -> nofail yn xn -> closed xn yn in_x' in_y' ->
  forall p, In p (h_outbox (c_handler x)) -> policy_of (c_handler y) (o_mid p) = ADefer ->
    filter (sent_ev (o_mid p)) (logs_x l ++ x_events (exchange xn in_x')) = [] /\
    filter (proc (o_mid p)) (logs_y l ++ x_events (exchange yn in_y')) = [] /\
    In p (h_outbox (c_handler xn)) /\
    In p (h_outbox (c_handler (next_cfg xn (exchange xn in_x')))).
Proof. exact deferred_stays_pending. Qed.
Print Assumptions C02_deferred_stays_pending.
Example C02_faults_instance := (faults_three_sessions_logs, faults_three_sessions_history, faults_three_sessions_delivered).
