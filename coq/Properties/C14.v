(* Properties/C14.v — the ARDOP connection is a reliable ordered byte stream with correct host framing.
   Proven here: the byte-level contract in both host-interface modes (serial with prefixes and
   CRC-16, TCP without), for every frame, payload length up to the 16-bit limit, and every
   stream; the CRCFAULT retry loop; Read over any caller buffer sizes; the order of PTT requests
   and ARQ payloads through the control loop's dispatch; totality of the control-message parser.
   The goroutines and channels around them (broadcaster, Flush's lock, Close's time-outs) are
   exercised by the harness against a scripted TNC, not modelled: partial for that part. *)
From Coq Require Import List NArith ZArith.
From Verif Require Import Base.Bytes gen.Tables Transport.Agwpe Transport.AgwpeP Transport.Ardop Transport.ArdopP Transport.ArdopFlush.
Import ListNotations.
Open Scope N_scope.

(* TNC -> host, every mode: a data frame of any type and any payload up to 65532 bytes, and a
   command line without CR, is read back exactly, leaving exactly the bytes that followed. *)
Theorem C14_data_frame : forall (isTCP : bool) typ p rest fuel, length typ = 3%nat -> N.of_nat (length p) + 3 <= 65535 ->
  read_frame (S fuel) (if isTCP then 100%N else 42%N) isTCP (tnc_data isTCP typ p ++ rest) = AFrame (AFData typ p) rest.
Proof. exact read_data_frame. Qed.
Print Assumptions C14_data_frame.

Theorem C14_cmd_frame : forall (isTCP : bool) s rest fuel, ~ In 13 s ->
  read_frame (S fuel) (if isTCP then 99%N else 42%N) isTCP (tnc_cmd isTCP s ++ rest) = AFrame (AFCmd s) rest.
Proof. exact read_cmd_frame. Qed.
Print Assumptions C14_cmd_frame.

(* A whole stream of framed items (serial: commands and data mixed; TCP: one kind per socket)
   decodes to exactly those items in order, then end of stream. *)
Theorem C14_stream : forall isTCP ftype items, stream_type isTCP ftype ->
  Forall wf_item items -> Forall (on_stream isTCP ftype) items ->
  ardop_decode ftype isTCP (concat (map (enc_item isTCP) items)) = map (fun it => inl (fr_item it)) items ++ [inr AEEOF].
Proof. exact ardop_decode_items. Qed.
Print Assumptions C14_stream.

(* Read: for any caller buffer sizes the bytes returned are a prefix of the concatenated ARQ
   payloads in order, and with enough non-empty buffers all of them (the model of Read is the
   one shared with the AGWPE connection: both keep the unread remainder of a frame). *)
Theorem C14_read_prefix : forall sizes pending frames,
  exists rest, pending ++ concat frames = concat (conn_reads pending frames sizes) ++ rest.
Proof. exact conn_reads_prefix. Qed.
Print Assumptions C14_read_prefix.

Theorem C14_read_all : forall sizes pending frames,
  Forall (fun n => (0 < n)%nat) sizes ->
  (length (pending ++ concat frames) + length frames <= length sizes)%nat ->
  Forall (fun d => d <> []) frames ->
  concat (conn_reads pending frames sizes) = pending ++ concat frames.
Proof. exact conn_reads_all. Qed.
Print Assumptions C14_read_all.

(* Write: prefix (serial), big-endian length, the first min(65535, len) bytes, CRC-16 (serial):
   the TNC's reading of the frame gives back exactly the bytes Write reports as accepted. *)
Theorem C14_write : forall isTCP p,
  tnc_parse_data isTCP (fst (ardop_write isTCP p)) = Some (firstn max_write p) /\
  snd (ardop_write isTCP p) = Nat.min max_write (length p).
Proof. exact write_frame_parses. Qed.
Print Assumptions C14_write.

(* CRCFAULT: whenever Write reports success the TNC has kept the frame exactly once, whatever
   the number of faults before; three faults in a row end in an error after three transmissions. *)
Theorem C14_retransmit : forall left frame n resps m,
  snd (write_try left frame n resps) = AWOk m ->
  m = n /\ tnc_kept (fst (write_try left frame n resps)) resps = [frame].
Proof. exact write_ok_kept_once. Qed.
Print Assumptions C14_retransmit.

Theorem C14_retransmit_same : forall left frame n resps,
  Forall (fun f => f = frame) (fst (write_try left frame n resps)) /\ (length (fst (write_try left frame n resps)) <= left)%nat.
Proof. exact write_try_sent. Qed.
Print Assumptions C14_retransmit_same.

(* PTT requests reach the controller in the order of the PTT lines, for any interleaving with
   other lines and data frames; ARQ payloads are queued in order while the link is up. *)
Theorem C14_ptt_order : forall fs c, cs_ptt (ctrl_run c fs) = cs_ptt c ++ flat_map ptt_of fs.
Proof. exact ctrl_run_ptt. Qed.
Print Assumptions C14_ptt_order.

Theorem C14_arq_order : forall fs c, cs_connected c = true -> Forall keeps_link fs ->
  cs_queue (ctrl_run c fs) = cs_queue c ++ flat_map arq_of fs.
Proof. exact ctrl_run_queue. Qed.
Print Assumptions C14_arq_order.

(* The control-message parser indexes nothing out of range, whatever bytes the TNC sends. *)
Theorem C14_parse_total : forall s, parse_ctrl s <> None.
Proof. exact parse_ctrl_total. Qed.
Print Assumptions C14_parse_total.

Theorem C14_crc_16bit : forall data, ardop_crc16 data < 65536.
Proof. exact crc16_bound. Qed.
Print Assumptions C14_crc_16bit.

(* Flush: the flush lock as a transition system — the control loop's dispatch interleaved in
   ANY order with the moments at which a Write (having seen the BUFFER report for its frame)
   takes the lock.  Flush returns (finds the lock released) only if no Write has taken it, or
   the TNC reported an empty buffer after the last time one did. *)
Theorem C14_flush : forall es c, cs_flush_locked (arun c es) = false ->
  (cs_flush_locked c = false /\ no_lock es) \/
  (exists pre e post, es = pre ++ e :: post /\ is_empty_report e /\ no_lock post).
Proof. exact flush_only_after_empty_report. Qed.
Print Assumptions C14_flush.

(* Not modelled: the broadcaster with its 500 ms receiver time-out and Close's 30 s time-outs
   (goroutines and timers): exercised by the harness against a scripted TNC. *)

(* Non-vacuity and the published test vectors of crc16_test.go. *)
Example C14_crc_vectors :
  ardop_crc16 [82; 68; 89; 13] = 55805 /\ ardop_crc16 [104; 97; 103; 97; 118; 105; 107] = 44843.
Proof. vm_compute. split; reflexivity. Qed.

Example C14_witness :
  ardop_decode 42 false (tnc_data false [65; 82; 81] [1; 2; 3] ++ tnc_cmd false [80; 84; 84; 32; 84; 82; 85; 69]
                         ++ tnc_cmd false [66; 85; 70; 70; 69; 82])
  = [inl (AFData [65; 82; 81] [1; 2; 3]); inl (AFCmd [80; 84; 84; 32; 84; 82; 85; 69]); inl (AFCmd [66; 85; 70; 70; 69; 82]); inr AEEOF]
  /\ parse_ctrl [66; 85; 70; 70; 69; 82] = Some ([66; 85; 70; 70; 69; 82], VInt 0%Z)
  /\ cs_ptt (ctrl_run (cs_init true) [AFCmd [80; 84; 84; 32; 84; 82; 85; 69]; AFData [65; 82; 81] [7]; AFCmd [80; 84; 84; 32; 70; 65; 76; 83; 69]]) = [true; false]
  /\ fst (ardop_write false [1; 2]) = [68; 58; 0; 2; 1; 2] ++ be16 (ardop_crc16 [0; 2; 1; 2]).
Proof. vm_compute. repeat split; reflexivity. Qed.
