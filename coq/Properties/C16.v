(* Properties/C16.v — secure-login answers follow the Winlink algorithm.
   Only final statements; each closed by [exact] of a lemma proved elsewhere. *)
From Verif Require Import Base.Bytes B2F.Md5 B2F.Secure B2F.SecureP gen.Tables.
Open Scope N_scope.

(* The model of secureLoginResponse (int32 shifts, %08d, last eight characters) equals the
   written-down recipe: MD5 over challenge ++ password ++ salt, first four digest bytes
   little-endian, masked to 30 bits, last eight decimal digits zero padded -- for every
   challenge and every password. *)
Theorem C16_response : forall challenge password : bytes,
  secure_response challenge password = spec_response winlinkSecureSalt challenge password.
Proof. exact secure_response_spec. Qed.
Print Assumptions C16_response.

Theorem C16_salt : winlinkSecureSalt = published_salt.
Proof. exact salt_is_published. Qed.
Print Assumptions C16_salt.

(* the answer is always exactly eight decimal digits *)
Theorem C16_eight_digits : forall v,
  length (digits8 v) = 8%nat /\ Forall (fun b => 48 <= b <= 57) (digits8 v).
Proof. exact digits8_shape. Qed.
Print Assumptions C16_eight_digits.

(* Lines written in answer to a challenge: ";FW:" with "addr|response" for auxiliary
   addresses with a known password and the bare address otherwise, the SID, ";PR: response"
   for the primary address, and the DE line. *)
Theorem C16_lines : forall cfg c cb pw0,
  c <> [] -> hs_cb cfg = Some cb -> nth 0 cb ([], true) = (pw0, false) ->
  send_handshake cfg c =
  Some (str_FW
        ++ concat (map (fun '(k, a) =>
                          match k with
                          | O => 32 :: a
                          | S _ => expected_fw_item winlinkSecureSalt c a (fst (nth k cb ([], true)))
                          end) (combine (seq 0 (length (hs_fw cfg))) (hs_fw cfg)))
        ++ [CR] ++ sid_line cfg
        ++ str_PR ++ spec_response winlinkSecureSalt c pw0 ++ [CR] ++ de_line cfg).
Proof. exact send_handshake_lines. Qed.
Print Assumptions C16_lines.

(* no callback registered: the handshake fails and nothing is written *)
Theorem C16_no_callback : forall cfg c,
  c <> [] -> hs_cb cfg = None -> send_handshake cfg c = None.
Proof. exact send_handshake_no_callback. Qed.
Print Assumptions C16_no_callback.

(* callback error for the primary address: the handshake fails and nothing is written *)
Theorem C16_callback_error : forall cfg c cb pw0,
  c <> [] -> hs_cb cfg = Some cb -> nth 0 cb ([], true) = (pw0, true) ->
  send_handshake cfg c = None.
Proof. exact send_handshake_callback_error. Qed.
Print Assumptions C16_callback_error.

(* The password reaches the wire only through the eight-digit response: two password
   assignments with the same responses, the same emptiness pattern and the same callback
   errors produce identical bytes. *)
Theorem C16_noninterference : forall cfg1 cfg2 c cb1 cb2,
  hs_fw cfg1 = hs_fw cfg2 -> hs_name cfg1 = hs_name cfg2 -> hs_version cfg1 = hs_version cfg2 ->
  hs_target cfg1 = hs_target cfg2 -> hs_mycall cfg1 = hs_mycall cfg2 ->
  hs_locator cfg1 = hs_locator cfg2 -> hs_master cfg1 = hs_master cfg2 ->
  hs_gzip cfg1 = hs_gzip cfg2 ->
  hs_cb cfg1 = Some cb1 -> hs_cb cfg2 = Some cb2 ->
  (forall k, snd (nth k cb1 ([], true)) = snd (nth k cb2 ([], true))) ->
  (forall k, (fst (nth k cb1 ([], true)) = [] <-> fst (nth k cb2 ([], true)) = [])) ->
  (forall k, secure_response c (fst (nth k cb1 ([], true)))
           = secure_response c (fst (nth k cb2 ([], true)))) ->
  send_handshake cfg1 c = send_handshake cfg2 c.
Proof. exact send_handshake_noninterference. Qed.
Print Assumptions C16_noninterference.

(* Non-vacuity: the published example of fbb/secure_test.go, challenge "23753528",
   password "FOOBAR" -> "72768415", computed by the model. *)
Example C16_known_answer :
  secure_response [50;51;55;53;51;53;50;56] [70;79;79;66;65;82] = [55;50;55;54;56;52;49;53].
Proof. vm_compute. reflexivity. Qed.
