(* Properties/C18.v — setting a message body preserves the text.
   t is the text in the body character set (one byte per character). *)
From Verif Require Import Base.Bytes Msg.Body Msg.BodyP.
Open Scope N_scope.

(* Removing every CR and LF from the stored body and from the input leaves identical text:
   nothing is dropped, however long the text or any of its lines. *)
Theorem C18_preserve : forall t, strip_crlf (string_to_body t) = strip_crlf t.
Proof. exact string_to_body_strip. Qed.
Print Assumptions C18_preserve.

(* The stored body is a sequence of lines, each at most 998 bytes without LF followed by
   CR LF (so no line exceeds 1000 bytes including CRLF, and every line ends in CRLF). *)
Theorem C18_lines : forall t, crlf_lines (string_to_body t).
Proof. exact string_to_body_lines. Qed.
Print Assumptions C18_lines.

(* The Body header is the decimal stored length. *)
Theorem C18_header : forall t,
  snd (set_body t) = dec_of_N (N.of_nat (length (fst (set_body t)))).
Proof. exact set_body_header. Qed.
Print Assumptions C18_header.

(* Regression witnesses of the two repaired defects, on the model:
   a line longer than 998 bytes is wrapped, not dropped; a character at the wrap position
   is kept whole (characters are single bytes when wrapping happens). *)
Example C18_long_line :
  string_to_body (repeatN 97 1000 ++ [10; 98]) =
  repeatN 97 998 ++ [13; 10; 97; 97; 13; 10; 98; 13; 10].
Proof. vm_compute. reflexivity. Qed.
Example C18_wrap_at_latin1_char :
  string_to_body (repeatN 97 997 ++ [230; 98]) = repeatN 97 997 ++ [230; 13; 10; 98; 13; 10].
Proof. vm_compute. reflexivity. Qed.
