(* Properties/C04.v — a transfer damaged in transit is never delivered as a good message. *)
From Verif Require Import Base.Bytes Lzhuf.Dec Lzhuf.DecP Msg.Message B2F.Secure B2F.Side B2F.SideP B2F.CodecP.
Open Scope N_scope.

(* For EVERY configuration and EVERY byte sequence received: whenever the inbound handler is
   handed a message (a successful ProcessInbound with Mid mid and bytes data), there was a
   framed transfer the receiver accepted -- SOH header with the right length and offset 0, STX
   blocks, EOT with a checksum closing the sum to zero, as many data bytes as the proposal
   announced -- and its payload cdata decompressed to exactly data through the B2 LZHUF reader
   read to end-of-stream with a successful Close, and data parsed as a message. *)
Theorem C04_integrity : forall cfg input mid data,
  In (EvProcess mid data true) (x_events (exchange cfg input)) ->
  exists cdata s p s',
    read_compressed s p = ROk (cdata, s') /\ proposal_message cdata = MOk mid data.
Proof. exact exchange_integrity. Qed.
Print Assumptions C04_integrity.

(* what the accepted payload satisfies: Close succeeded (CRC-16 and declared size, see
   C08_close_certifies) and the decompressed bytes parsed with Mid = mid *)
Theorem C04_payload : forall cdata mid data,
  proposal_message cdata = MOk mid data ->
  exists d d', new_reader true [cdata] = Some d /\
    read_all_loop (S (S (length cdata * 8))) d 512 [] = (data, REof, d') /\
    close_reader d' = ErrNone /\ p_status (read_from data) = RfOk /\
    mid = hget (p_hdr (read_from data)) str_Mid.
Proof. exact proposal_message_ok_facts. Qed.
Print Assumptions C04_payload.

(* what the accepted frames satisfy: the declared compressed length *)
Theorem C04_frames : forall fuel inp buf sum csize data rest,
  read_frames fuel inp buf sum csize = FOk data rest ->
  csize = Z.of_nat (length data) /\ exists pre, data = rev buf ++ pre.
Proof. exact read_frames_ok_facts. Qed.
Print Assumptions C04_frames.

(* the unaltered transfer is accepted: the frame codec round-trips for every payload *)
Theorem C04_unaltered_accepted : forall d rest,
  let wire := data_chunks (S (length d)) d ++ [Tables.CHREOT; (256 - sumN d mod 256) mod 256] ++ rest in
  read_frames (S (length wire)) wire [] 0 (Z.of_nat (length d)) = FOk d rest.
Proof. exact frames_roundtrip. Qed.
Print Assumptions C04_unaltered_accepted.
