(* Properties/C06.v — LZHUF compression is lossless for every input and every chunking.

   THEOREMS, for ALL inputs (any bytes, any length below 2^31), with and without the CRC
   header: the full statement (C06_lossless: any partition of the input into Write calls, any
   sequence of positive Read buffer sizes; C06_roundtrip: the same for a single Write and a
   fixed buffer size, in the form the statement was first written down); the compressed bytes
   depend only on the input (C06_write_chunking); the stream layout (C06_layout).

   The proof is layered (Lzhuf/*.v, DESIGN.md section 11.10): the adaptive Huffman tree keeps
   an invariant under update and reconst (HuffP), under which every symbol's code decodes to
   it and is at most 21 bits long (HuffWalkP, HuffDepthP); putCode/encodeChar/encodePosition
   append exactly those bits (BitsWP) and the bit reader consumes exactly them (BitsRP); the
   search trees only ever propose registered window positions (SearchP); whatever they find,
   the writer emits the bits of a token sequence that expands to its input (WriterP); the
   reader decodes the bits of any well-formed token sequence to its expansion, for every
   Read buffer size (TokDecP, ReadSeqP). *)
From Verif Require Import Base.Bytes Base.Arr Lzhuf.Huff Lzhuf.HuffInv Lzhuf.HuffInvP Lzhuf.HuffP Lzhuf.Enc
  Lzhuf.Crc Lzhuf.Dec Lzhuf.LzP Lzhuf.DecP Lzhuf.Bits Lzhuf.Tokens Lzhuf.Search Lzhuf.SearchP
  Lzhuf.ReadSeq Lzhuf.TokDecP Lzhuf.LzhufP gen.Tables.
Open Scope N_scope.

(* THE FULL STATEMENT.  The input is handed to Write in any pieces; the stream is read back
   with any sequence of positive buffer sizes (more calls than bytes, so that the end is
   reached: every call that returns nil delivers at least one byte): the bytes read are the
   input, the last status is io.EOF, Close returns nil. *)
Theorem C06_lossless : forall (crc : bool) (chunks : list bytes) (sizes : list nat),
  let x := concat chunks in
  Forall (fun b => b < 256) x -> (Z.of_nat (length x) < 2147483648)%Z ->
  Forall (fun n => (0 < n)%nat) sizes -> (length x < length sizes)%nat ->
  exists d d',
    new_reader crc [close_writer crc (fold_left write chunks writer_init)] = Some d /\
    read_seq d sizes [] = (x, REof, d') /\ close_reader d' = ErrNone.
Proof. exact lossless. Qed.
Print Assumptions C06_lossless.

(* the same for one Write and a fixed buffer size, through the io.Copy-style loop *)
Theorem C06_roundtrip : forall (crc : bool) (x : bytes) (bs : nat),
  Forall (fun b => b < 256) x -> (Z.of_nat (length x) < 2147483648)%Z -> (0 < bs)%nat ->
  read_all crc (compress crc x) bs (S (S (length x))) = Some (x, REof, ErrNone).
Proof. exact roundtrip. Qed.
Print Assumptions C06_roundtrip.

(* the layers, as far as they are statements of their own: every tree the codec reaches
   satisfies the invariant; in such a tree every symbol's code decodes to the symbol and has
   1..21 bits *)
Theorem C06_tree_invariant : Inv huff_init /\
  forall h c, Inv h -> c < lz_NumChar -> Inv (update h c).
Proof. split; [exact huff_init_inv|exact update_inv]. Qed.
Print Assumptions C06_tree_invariant.
Theorem C06_codes : forall cs c rest,
  Forall (fun c => c < lz_NumChar) cs -> c < lz_NumChar ->
  let h := updates huff_init cs in
  decode_walk (S natT) h (aget (son h) lz_R) (code_of h c ++ rest) = (c + lz_T, rest)
  /\ (1 <= length (code_of h c) <= 21)%nat.
Proof. exact reachable_codes. Qed.
Print Assumptions C06_codes.
(* the search trees: InsertNode/DeleteNode keep the registry of window positions exact *)
Theorem C06_search_trees : SearchSpec TreeOK.
Proof. exact search_spec. Qed.
Print Assumptions C06_search_trees.
(* the compressor's output is a header followed by the bits of tokens expanding to the input *)
Theorem C06_format : forall (crc : bool) x,
  Forall (fun b => b < 256) x -> (Z.of_nat (length x) < 2147483648)%Z ->
  exists toks body pad,
    Forall tok_ok toks /\ expand win_init toks = x /\
    Forall (fun b => b < 256) body /\
    bytes_bits body = toks_bits huff_init toks ++ pad /\ (length pad < 8)%nat /\
    compress crc x =
      (if crc then le16 (crc_impl (le32 (N.of_nat (length x)) ++ body)) else [])
      ++ le32 (N.of_nat (length x)) ++ body.
Proof. exact compress_format. Qed.
Print Assumptions C06_format.

(* Write chunking: any sequence of Write calls yields the bytes of a single Write. *)
Theorem C06_write_chunking : forall crc (chunks : list bytes),
  close_writer crc (fold_left write chunks writer_init) = compress crc (concat chunks).
Proof. exact compress_chunking. Qed.
Print Assumptions C06_write_chunking.

(* Layout of every stream: [CRC-16] size body, all of them bytes. *)
Theorem C06_layout : forall x,
  compress false x = size_field x ++ body_of x /\
  compress true x = le16 (xmodem (size_field x ++ body_of x)) ++ size_field x ++ body_of x /\
  Forall (fun b => b < 256) (body_of x).
Proof. exact compress_header. Qed.
Print Assumptions C06_layout.

(* Instances of the full statement, computed by the kernel (tests of the statement, not the
   unbounded claim): the empty input, a literal-only input, an input with matches, with and
   without the CRC header, with 1-byte reads. *)
Example C06_empty : read_all true (compress true []) 1 2 = Some ([], REof, ErrNone).
Proof. vm_compute. reflexivity. Qed.
Example C06_instance_matches :
  let x := [97;98;99;97;98;99;97;98;99;97;98;99;97;98;99;100;97;98;99] in
  read_all true (compress true x) 1 21 = Some (x, REof, ErrNone)
  /\ read_all false (compress false x) 7 21 = Some (x, REof, ErrNone).
Proof. vm_compute. split; reflexivity. Qed.
