(* Properties/C06.v — LZHUF compression is lossless for every input and every chunking.

   The full statement is kept visible as [C06_roundtrip_statement] (a Prop, not asserted).
   Proved here, for ALL inputs: the compressed bytes depend only on the input, not on the
   partition into Write calls (C06_write_chunking); the stream layout (C06_layout).  The
   round trip itself is decided on every run by the correspondence check (model = code on
   generated inputs, and decode(encode x) = x on model and code) and is not yet a theorem:
   see DESIGN.md section 6 C06 for the layered proof plan (Huffman invariant, bit layer,
   window/search-tree invariant). *)
From Verif Require Import Base.Bytes Lzhuf.Huff Lzhuf.Enc Lzhuf.Crc Lzhuf.Dec Lzhuf.LzP Lzhuf.DecP.
Open Scope N_scope.

(* reading a whole stream through buffers of size bs *)
Definition read_all (crc : bool) (s : bytes) (bs : nat) (fuel : nat) : option (bytes * rstatus * rerr) :=
  match new_reader crc [s] with
  | None => None
  | Some d => let '(out, st, d') := read_all_loop fuel d bs [] in Some (out, st, close_reader d')
  end.

(* FULL STATEMENT (not asserted): every input, every buffer size. *)
Definition C06_roundtrip_statement : Prop :=
  forall (crc : bool) (x : bytes) (bs : nat),
    Forall (fun b => b < 256) x -> (Z.of_nat (length x) < 2147483648)%Z -> (0 < bs)%nat ->
    read_all crc (compress crc x) bs (S (S (length x))) = Some (x, REof, ErrNone).

(* Write chunking: any sequence of Write calls yields the bytes of a single Write. *)
Theorem C06_write_chunking : forall crc (chunks : list bytes),
  close_writer crc (fold_left write chunks writer_init) = compress crc (concat chunks).
Proof. exact compress_chunking. Qed.
Print Assumptions C06_write_chunking.

(* Layout of every stream: [CRC-16] size body, all of them bytes. *)
Theorem C06_layout : forall x,
  compress false x = size_field x ++ body_of x /\
  compress true x = le16 (xmodem (size_field x ++ body_of x)) ++ size_field x ++ body_of x /\
  Forall (fun b => b < 256) (body_of x).
Proof. exact compress_header. Qed.
Print Assumptions C06_layout.

(* Instances of the full statement, computed by the kernel (tests of the statement, not the
   unbounded claim): the empty input, a literal-only input, an input with matches, with and
   without the CRC header, with 1-byte reads. *)
Example C06_empty : read_all true (compress true []) 1 2 = Some ([], REof, ErrNone).
Proof. vm_compute. reflexivity. Qed.
Example C06_instance_matches :
  let x := [97;98;99;97;98;99;97;98;99;97;98;99;97;98;99;100;97;98;99] in
  read_all true (compress true x) 1 21 = Some (x, REof, ErrNone)
  /\ read_all false (compress false x) 7 21 = Some (x, REof, ErrNone).
Proof. vm_compute. split; reflexivity. Qed.
