(* Msg/Body.v — model of fbb/message_body.go StringToBody (after the two fix: commits) and
   of Message.SetBody's Body header.  The input is the text already translated to the body
   character set (ISO-8859-1, one byte per character; the translation itself is library
   code); the model is bufio.ScanLines + the 998-byte wrap.  Definitions only. *)
From Verif Require Import Base.Bytes.
Open Scope N_scope.

Definition LF : N := 10.
Definition CR13 : N := 13.
Definition CRLF : bytes := [13; 10].

(* bufio.ScanLines dropCR: remove one trailing CR  (rev' is the linear-time reverse) *)
Definition drop_cr (l : bytes) : bytes :=
  match rev' l with
  | 13 :: r => rev' r
  | _ => l
  end.

(* tokens of bufio.ScanLines; cur is the current line reversed *)
Fixpoint scan_lines (cur : bytes) (s : bytes) : list bytes :=
  match s with
  | [] => match cur with [] => [] | _ => [drop_cr (rev' cur)] end
  | x :: r => if x =? LF then drop_cr (rev' cur) :: scan_lines [] r
              else scan_lines (x :: cur) r
  end.

(* the inner loop: chunks of at most 998 bytes, each followed by CRLF; an empty line gives
   one CRLF *)
Fixpoint wrap_aux (fuel : nat) (line : bytes) : bytes :=
  match fuel with
  | O => []
  | S f =>
      let n := Nat.min (length line) 998 in
      firstn n line ++ CRLF ++
      (match skipn n line with [] => [] | rest => wrap_aux f rest end)
  end.
Definition wrap (line : bytes) : bytes := wrap_aux (S (length line)) line.

Definition string_to_body (t : bytes) : bytes := concat (map wrap (scan_lines [] t)).

(* SetBody: stored body and the value of the Body header *)
Definition set_body (t : bytes) : bytes * bytes :=
  let b := string_to_body t in (b, dec_of_N (N.of_nat (length b))).

(* ----- vocabulary of the property ----- *)
Definition strip_crlf (s : bytes) : bytes :=
  filter (fun b => negb ((b =? 13) || (b =? 10))) s.

(* b is a sequence of lines, each: content without LF, at most 998 bytes, then CR LF *)
Inductive crlf_lines : bytes -> Prop :=
| cl_nil : crlf_lines []
| cl_cons : forall content rest,
    Forall (fun b => b <> LF) content -> (length content <= 998)%nat ->
    crlf_lines rest -> crlf_lines (content ++ CRLF ++ rest).
