(* Msg/BodyP.v — proofs about Msg/Body.v *)
From Coq Require Import Lia ZifyN ZifyNat ZifyBool.
From Verif Require Import Base.Bytes Msg.Body.
Open Scope N_scope.

Lemma rev'_rev {A} (l : list A) : rev' l = rev l.
Proof. unfold rev'. symmetry. apply rev_alt. Qed.

Lemma strip_app a b : strip_crlf (a ++ b) = strip_crlf a ++ strip_crlf b.
Proof. apply filter_app. Qed.

Lemma strip_CRLF : strip_crlf CRLF = [].
Proof. reflexivity. Qed.

Lemma strip_drop_cr l : strip_crlf (drop_cr l) = strip_crlf l.
Proof.
  unfold drop_cr. rewrite rev'_rev. destruct (rev l) as [|x r] eqn:E; [reflexivity|]. rewrite ?rev'_rev.
  assert (Hl : l = rev r ++ [x]) by (rewrite <- (rev_involutive l), E; reflexivity).
  destruct (N.eq_dec x 13) as [->|Hx].
  - rewrite Hl, strip_app. cbn. rewrite app_nil_r. reflexivity.
  - destruct x as [|p]; [reflexivity|].
    repeat (destruct p as [p|p|]; try reflexivity); congruence.
Qed.

Lemma firstn_skipn_strip n l : strip_crlf (firstn n l) ++ strip_crlf (skipn n l) = strip_crlf l.
Proof. rewrite <- strip_app, firstn_skipn. reflexivity. Qed.

Lemma wrap_aux_strip fuel line :
  (length line < fuel)%nat -> strip_crlf (wrap_aux fuel line) = strip_crlf line.
Proof.
  revert line. induction fuel as [|f IH]; intros line H; [lia|].
  cbn [wrap_aux]. set (n := Nat.min (length line) 998).
  rewrite !strip_app, strip_CRLF. cbn [app].
  destruct (skipn n line) as [|y rest] eqn:E.
  - rewrite app_nil_r. rewrite <- (firstn_skipn_strip n line), E. cbn. rewrite app_nil_r. reflexivity.
  - assert (Hn : (0 < n)%nat).
    { unfold n. destruct line as [|z line']; [rewrite skipn_nil in E; discriminate E|cbn [length]; lia]. }
    rewrite IH.
    + rewrite <- E. apply firstn_skipn_strip.
    + rewrite <- E, skipn_length. lia.
Qed.

Lemma wrap_strip line : strip_crlf (wrap line) = strip_crlf line.
Proof. apply wrap_aux_strip. lia. Qed.

Lemma strip_concat_map_wrap ls :
  strip_crlf (concat (map wrap ls)) = strip_crlf (concat ls).
Proof.
  induction ls as [|l ls IH]; [reflexivity|].
  cbn [map concat]. rewrite !strip_app, wrap_strip, IH. reflexivity.
Qed.

Lemma scan_lines_strip cur s :
  strip_crlf (concat (scan_lines cur s)) = strip_crlf (rev cur ++ s).
Proof.
  revert cur. induction s as [|x r IH]; intros cur.
  - cbn [scan_lines]. rewrite app_nil_r. destruct cur as [|c cur']; [reflexivity|].
    cbn [concat]. rewrite app_nil_r, rev'_rev. apply strip_drop_cr.
  - cbn [scan_lines]. destruct (x =? LF) eqn:E.
    + apply N.eqb_eq in E. subst x. cbn [concat]. rewrite rev'_rev, strip_app, strip_drop_cr, IH.
      rewrite !strip_app. cbn. reflexivity.
    + rewrite IH. cbn [rev]. rewrite <- app_assoc. reflexivity.
Qed.

Theorem string_to_body_strip t : strip_crlf (string_to_body t) = strip_crlf t.
Proof. unfold string_to_body. rewrite strip_concat_map_wrap. apply scan_lines_strip. Qed.

(* ---------- line structure ---------- *)
Lemma crlf_lines_app a b : crlf_lines a -> crlf_lines b -> crlf_lines (a ++ b).
Proof.
  intros Ha Hb. induction Ha as [|c rest Hc Hl Hr IH]; [exact Hb|].
  rewrite <- !app_assoc. apply cl_cons; assumption.
Qed.

Lemma Forall_firstn {A} (P : A -> Prop) n l : Forall P l -> Forall P (firstn n l).
Proof.
  revert l. induction n as [|n IH]; intros l H; [constructor|].
  destruct l; [constructor|]. inversion H; subst. constructor; auto.
Qed.
Lemma Forall_skipn {A} (P : A -> Prop) n l : Forall P l -> Forall P (skipn n l).
Proof.
  revert l. induction n as [|n IH]; intros l H; [exact H|].
  destruct l; [constructor|]. inversion H; subst. cbn. auto.
Qed.

Lemma wrap_aux_lines fuel line :
  (length line < fuel)%nat -> Forall (fun b => b <> LF) line -> crlf_lines (wrap_aux fuel line).
Proof.
  revert line. induction fuel as [|f IH]; intros line H Hnl; [lia|].
  cbn [wrap_aux]. set (n := Nat.min (length line) 998).
  apply cl_cons.
  - apply Forall_firstn. exact Hnl.
  - rewrite firstn_length. lia.
  - destruct (skipn n line) as [|y rest] eqn:E; [constructor|].
    assert (Hn : (0 < n)%nat).
    { unfold n. destruct line as [|z line']; [rewrite skipn_nil in E; discriminate E|cbn [length]; lia]. }
    rewrite <- E. apply IH.
    + rewrite skipn_length. lia.
    + apply Forall_skipn. exact Hnl.
Qed.

Lemma drop_cr_nolf l : Forall (fun b => b <> LF) l -> Forall (fun b => b <> LF) (drop_cr l).
Proof.
  intros H. unfold drop_cr. rewrite rev'_rev. destruct (rev l) as [|x r] eqn:E; [exact H|]. rewrite ?rev'_rev.
  assert (Hl : l = rev r ++ [x]) by (rewrite <- (rev_involutive l), E; reflexivity).
  assert (Hr : Forall (fun b => b <> LF) (rev r)).
  { rewrite Hl in H. apply Forall_app in H. apply H. }
  destruct x as [|p]; [exact H|].
  repeat (destruct p as [p|p|]; try exact H). exact Hr.
Qed.

Lemma scan_lines_nolf cur s :
  Forall (fun b => b <> LF) cur ->
  Forall (fun l => Forall (fun b => b <> LF) l) (scan_lines cur s).
Proof.
  revert cur. induction s as [|x r IH]; intros cur Hc.
  - cbn [scan_lines]. destruct cur; [constructor|]. constructor; [|constructor].
    apply drop_cr_nolf. rewrite rev'_rev. apply Forall_rev. exact Hc.
  - cbn [scan_lines]. destruct (x =? LF) eqn:E.
    + constructor; [apply drop_cr_nolf; rewrite rev'_rev; apply Forall_rev; exact Hc|]. apply IH. constructor.
    + apply IH. constructor; [|exact Hc]. apply N.eqb_neq in E. exact E.
Qed.

Theorem string_to_body_lines t : crlf_lines (string_to_body t).
Proof.
  unfold string_to_body.
  pose proof (scan_lines_nolf [] t ltac:(constructor)) as H.
  induction (scan_lines [] t) as [|l ls IH]; [constructor|].
  inversion H as [|? ? Hl Hls]; subst. cbn [map concat].
  apply crlf_lines_app; [|apply IH; exact Hls].
  apply wrap_aux_lines; [lia|exact Hl].
Qed.

Theorem set_body_header t :
  snd (set_body t) = dec_of_N (N.of_nat (length (fst (set_body t)))).
Proof. reflexivity. Qed.
