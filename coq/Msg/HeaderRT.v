(* Msg/HeaderRT.v — the header block written by Header.Write is read back by ReadMIMEHeader
   (as modelled) line for line, for every header whose keys are canonical field names and whose
   values are non-empty, printable and not bordered by blanks. *)
From Coq Require Import List NArith ZArith Bool Lia.
From Verif Require Import Base.Bytes Base.BytesP Msg.Message Msg.MessageP.
Import ListNotations.
Open Scope N_scope.

(* ---------- take_line ---------- *)
Lemma take_line_other x r acc : x <> 10 -> take_line (x :: r) acc = take_line r (x :: acc).
Proof.
  intros H. destruct x as [|p]; [reflexivity|].
  destruct p as [p|p|]; try reflexivity.
  destruct p as [p|p|]; try reflexivity.
  destruct p as [p|p|]; try reflexivity.
  destruct p as [p|p|]; try reflexivity.
  congruence.
Qed.

Lemma rev'_rev {A} (l : list A) : rev' l = rev l.
Proof. unfold rev'. symmetry. apply rev_alt. Qed.

Lemma take_line_scan l : forall acc r, ~ In 10 l ->
  take_line (l ++ 13 :: 10 :: r) acc = Some (rev' acc ++ l, r).
Proof.
  induction l as [|x l IH]; intros acc r Hn.
  - cbn [app]. rewrite take_line_other by discriminate. cbn [take_line]. rewrite app_nil_r. reflexivity.
  - cbn [app]. rewrite take_line_other by (intros E; apply Hn; left; exact E).
    rewrite IH by (intros Hin; apply Hn; right; exact Hin).
    rewrite !rev'_rev. cbn [rev]. rewrite <- app_assoc. reflexivity.
Qed.

Lemma take_line_crlf l r : ~ In 10 l -> take_line (l ++ 13 :: 10 :: r) [] = Some (l, r).
Proof. intros H. rewrite take_line_scan by exact H. reflexivity. Qed.

Lemma split_at_notin c s rest : ~ In c s -> split_at c (s ++ c :: rest) = (s, Some rest).
Proof.
  induction s as [|x r IH]; intros Hn; cbn [app split_at].
  - rewrite N.eqb_refl. reflexivity.
  - destruct (x =? c) eqn:E; [apply N.eqb_eq in E; subst; exfalso; apply Hn; left; reflexivity|].
    rewrite IH; [reflexivity|]. intros Hin. apply Hn. right. exact Hin.
Qed.

(* ---------- trimming ---------- *)
Lemma trim_with_id f s : (forall a r, s = a :: r -> f a = false) -> (forall i z, s = i ++ [z] -> f z = false) ->
  trim_with f s = s.
Proof.
  intros Hf Hl. unfold trim_with. destruct s as [|a r]; [reflexivity|].
  cbn [drop_while]. rewrite (Hf a r eq_refl).
  destruct (exists_last (l := a :: r)) as [i [z E]]; [discriminate|].
  rewrite E, !rev'_rev, rev_app_distr. cbn [rev app drop_while]. rewrite (Hl i z E).
  change (z :: rev i) with (rev [z] ++ rev i). rewrite <- rev_app_distr, rev_involutive. reflexivity.
Qed.

(* ---------- one header line ---------- *)
Definition first_not (f : N -> bool) (s : bytes) : Prop := match s with a :: _ => f a = false | [] => True end.

Record wf_line (k v : bytes) : Prop := {
  wk_ne : k <> [];
  wk_valid : forallb valid_field_byte k = true;
  wk_canon : canon_key k = Some k;
  wv_ne : v <> [];
  wv_valid : forallb valid_value_byte v = true;
  wv_first : first_not is_sp_tab v;
  wv_last : forall i z, v = i ++ [z] -> is_sp_tab z = false }.

Definition enc_line (kv : bytes * bytes) : bytes := fst kv ++ colon_sp ++ snd kv ++ CRLF.

Lemma valid_field_not (c : N) : valid_field_byte c = true -> c <> 10 /\ c <> 58 /\ is_sp_tab c = false.
Proof.
  intros H. assert (D : c = 10 \/ c = 58 \/ c = 32 \/ c = 9 \/ (c <> 10 /\ c <> 58 /\ c <> 32 /\ c <> 9)) by lia.
  destruct D as [E|[E|[E|[E|[E1 [E2 [E3 E4]]]]]]]; try (subst; vm_compute in H; discriminate).
  repeat split; try assumption. unfold is_sp_tab. apply N.eqb_neq in E3. apply N.eqb_neq in E4. rewrite E3, E4. reflexivity.
Qed.

Lemma valid_value_not (c : N) : valid_value_byte c = true -> c <> 10 /\ c <> 13.
Proof. intros H. split; intros E; subst; vm_compute in H; discriminate. Qed.

Lemma forallb_In {A} (f : A -> bool) l x : forallb f l = true -> In x l -> f x = true.
Proof. intros H Hin. rewrite forallb_forall in H. apply H. exact Hin. Qed.

Lemma continuation_none fuel s acc : first_not is_sp_tab s -> continuation fuel s acc = (acc, s).
Proof. intros H. destruct fuel; [reflexivity|]. destruct s as [|x r]; [reflexivity|]. cbn [continuation]. cbn in H. rewrite H. reflexivity. Qed.

Lemma read_one_line k v rest h f : wf_line k v -> first_not is_sp_tab rest ->
  read_mime_header (S f) (enc_line (k, v) ++ rest) h = read_mime_header f rest (hadd h k v).
Proof.
  intros W Hr. destruct W as [Hkne Hkv Hkc Hvne Hvv Hvf Hvl].
  set (line := k ++ 58 :: 32 :: v).
  assert (Hl10 : ~ In 10 line).
  { unfold line. intros Hin. apply in_app_or in Hin. destruct Hin as [Hin|[E|[E|Hin]]]; try discriminate.
    - destruct (valid_field_not _ (forallb_In _ _ _ Hkv Hin)) as [H1 _]. congruence.
    - destruct (valid_value_not _ (forallb_In _ _ _ Hvv Hin)) as [H1 _]. congruence. }
  assert (Es : enc_line (k, v) ++ rest = line ++ 13 :: 10 :: rest).
  { unfold enc_line, line, colon_sp, CRLF. cbn [fst snd]. rewrite <- !app_assoc. reflexivity. }
  rewrite Es. cbn [read_mime_header]. rewrite take_line_crlf by exact Hl10.
  assert (Hne : line <> []) by (unfold line; destruct k; [congruence|discriminate]).
  destruct line as [|l0 lr] eqn:El; [congruence|]. rewrite <- El.
  assert (H58 : existsb (fun c => c =? 58) line = true).
  { apply existsb_exists. exists 58. split; [unfold line; apply in_or_app; right; left; reflexivity|reflexivity]. }
  rewrite H58. cbn [negb].
  assert (Ht : trim_sp_tab line = line).
  { apply trim_with_id.
    - intros a r E. unfold line in E. destruct k as [|k0 kr]; [congruence|]. cbn [app] in E. inversion E; subst.
      cbn [forallb] in Hkv. apply andb_true_iff in Hkv. destruct (valid_field_not _ (proj1 Hkv)) as [_ [_ H3]]. exact H3.
    - intros i z E. unfold line in E.
      destruct (exists_last Hvne) as [vi [vz Ev]]. rewrite Ev in E.
      change (k ++ 58 :: 32 :: vi ++ [vz]) with (k ++ (58 :: 32 :: vi) ++ [vz]) in E. rewrite app_assoc in E.
      apply app_inj_tail in E. destruct E as [_ E]. subst z. apply (Hvl vi vz Ev). }
  rewrite Ht, continuation_none by exact Hr.
  unfold line. rewrite split_at_notin.
  2:{ intros Hin. destruct (valid_field_not _ (forallb_In _ _ _ Hkv Hin)) as [_ [H2 _]]. congruence. }
  rewrite Hkc.
  assert (Hv32 : forallb valid_value_byte (32 :: v) = true) by (cbn [forallb]; rewrite Hvv; reflexivity).
  rewrite Hv32. cbn [drop_while is_sp_tab N.eqb Pos.eqb orb].
  destruct v as [|v0 vr]; [congruence|]. cbn [drop_while]. cbn in Hvf. rewrite Hvf. reflexivity.
Qed.

(* ---------- all lines, then the blank line ---------- *)
Definition add_line (h : header) (kv : bytes * bytes) : header := hadd h (fst kv) (snd kv).

Lemma enc_line_first kv rest : wf_line (fst kv) (snd kv) -> first_not is_sp_tab (enc_line kv ++ rest).
Proof.
  intros W. destruct kv as [k v]. cbn [fst snd] in W. destruct W as [Hkne Hkv _ _ _ _ _].
  unfold enc_line. cbn [fst]. destruct k as [|k0 kr]; [congruence|]. cbn [app first_not].
  cbn [forallb] in Hkv. apply andb_true_iff in Hkv. destruct (valid_field_not _ (proj1 Hkv)) as [_ [_ H3]]. exact H3.
Qed.

Theorem read_lines ls : Forall (fun kv => wf_line (fst kv) (snd kv)) ls ->
  forall fuel h rest, (length ls < fuel)%nat ->
  read_mime_header fuel (concat (map enc_line ls) ++ CRLF ++ rest) h = (fold_left add_line ls h, HErrNone, rest).
Proof.
  induction ls as [|kv r IH]; intros W fuel h rest Hf.
  - destruct fuel as [|f]; [cbn in Hf; lia|]. cbn [map concat app fold_left read_mime_header CRLF].
    rewrite take_line_other by discriminate. cbn [take_line]. reflexivity.
  - destruct fuel as [|f]; [cbn in Hf; lia|]. inversion W as [|? ? W1 W2]; subst.
    cbn [map concat fold_left].
    replace ((enc_line kv ++ concat (map enc_line r)) ++ CRLF ++ rest) with (enc_line kv ++ (concat (map enc_line r) ++ CRLF ++ rest)) by (apply app_assoc).
    destruct kv as [k v]. cbn [fst snd] in W1.
    rewrite read_one_line; [|exact W1|].
    + apply IH; [exact W2|cbn [length] in Hf; lia].
    + destruct r as [|kv2 r2]; [cbn; reflexivity|].
      inversion W2 as [|? ? W3 _]; subst. cbn [map concat].
      replace ((enc_line kv2 ++ concat (map enc_line r2)) ++ CRLF ++ rest) with (enc_line kv2 ++ (concat (map enc_line r2) ++ CRLF ++ rest)) by (apply app_assoc).
      apply enc_line_first. exact W3.
Qed.

(* ---------- Header.Write produces exactly those lines ---------- *)
Definition lines_of (h : header) : list (bytes * bytes) :=
  (str_Mid, hget h str_Mid) ::
  flat_map (fun kv => map (fun v => (fst kv, trim_string v)) (snd kv))
           (sort_header (filter (fun kv => negb (equal_fold (fst kv) str_Mid)) h)).

Lemma flat_map_lines (hs : header) :
  flat_map (fun kv => flat_map (fun v => fst kv ++ colon_sp ++ trim_string v ++ CRLF) (snd kv)) hs =
  concat (map enc_line (flat_map (fun kv => map (fun v => (fst kv, trim_string v)) (snd kv)) hs)).
Proof.
  induction hs as [|[k vs] r IH]; [reflexivity|]. cbn [flat_map fst snd]. rewrite map_app, concat_app, <- IH. f_equal.
  induction vs as [|v vr IHv]; [reflexivity|]. cbn [flat_map map concat]. rewrite IHv. reflexivity.
Qed.

Lemma app4 (a b c d e : list N) : a ++ b ++ c ++ d ++ e = (a ++ b ++ c ++ d) ++ e.
Proof. rewrite <- !app_assoc. reflexivity. Qed.

Theorem header_write_lines h hb : header_write h = Some hb -> hb = concat (map enc_line (lines_of h)).
Proof.
  unfold header_write, lines_of. destruct (hget h str_Mid) as [|m0 mr] eqn:Em; [discriminate|].
  intros H.
  assert (E : hb = str_Mid ++ colon_sp ++ (m0 :: mr) ++ CRLF ++
            flat_map (fun kv => flat_map (fun v => fst kv ++ colon_sp ++ trim_string v ++ CRLF) (snd kv))
                     (sort_header (filter (fun kv => negb (equal_fold (fst kv) str_Mid)) h)))
    by (inversion H; reflexivity).
  rewrite E. cbn [map concat]. rewrite flat_map_lines.
  unfold enc_line at 2. cbn [fst snd]. apply app4.
Qed.

(* the round trip of the header block: for every header whose written lines are well formed,
   what Header.Write produces, followed by the blank line, is read back as those lines (Mid
   first, the other fields in sorted order, repeated fields in their order) and the reader
   stops exactly at the body *)
Theorem header_roundtrip h hb rest :
  header_write h = Some hb -> Forall (fun kv => wf_line (fst kv) (snd kv)) (lines_of h) ->
  read_mime_header (S (length (lines_of h))) (hb ++ CRLF ++ rest) [] = (fold_left add_line (lines_of h) [], HErrNone, rest).
Proof.
  intros Hw Hl. rewrite (header_write_lines h hb Hw). apply read_lines; [exact Hl|lia].
Qed.

(* a decidable form of the well-formedness of a line, for examples and for the harness *)
Definition wf_lineb (k v : bytes) : bool :=
  negb (beq_bytes k []) && forallb valid_field_byte k
  && match canon_key k with Some k' => beq_bytes k' k | None => false end
  && negb (beq_bytes v []) && forallb valid_value_byte v
  && negb (is_sp_tab (hd 0 v)) && negb (is_sp_tab (last v 0)).

Lemma wf_lineb_sound k v : wf_lineb k v = true -> wf_line k v.
Proof.
  unfold wf_lineb. intros H.
  apply andb_true_iff in H. destruct H as [H H7]. apply andb_true_iff in H. destruct H as [H H6].
  apply andb_true_iff in H. destruct H as [H H5]. apply andb_true_iff in H. destruct H as [H H4].
  apply andb_true_iff in H. destruct H as [H H3]. apply andb_true_iff in H. destruct H as [H1 H2].
  constructor.
  - intros E. subst. discriminate.
  - exact H2.
  - destruct (canon_key k) as [k'|]; [|discriminate]. apply beq_bytes_true in H3. subst. reflexivity.
  - intros E. subst. discriminate.
  - exact H5.
  - destruct v as [|a r]; [exact I|]. cbn [first_not hd] in *. apply negb_true_iff in H6. exact H6.
  - intros i z E. subst v. rewrite last_last in H7. apply negb_true_iff in H7. exact H7.
Qed.

Example header_roundtrip_instance :
  let h := [([77;105;100], [[65;66;67]]); ([83;117;98;106;101;99;116], [[104;105;32;116;104;101;114;101]]);
            ([66;111;100;121], [[53]]); ([84;111], [[76;65;49;66]; [78;48;67]])] in
  forallb (fun kv => wf_lineb (fst kv) (snd kv)) (lines_of h) = true /\
  match header_write h with
  | Some hb => read_mime_header 10 (hb ++ CRLF ++ [104;105]) [] =
               ([([77;105;100], [[65;66;67]]); ([66;111;100;121], [[53]]);
                 ([83;117;98;106;101;99;116], [[104;105;32;116;104;101;114;101]]); ([84;111], [[76;65;49;66]; [78;48;67]])],
                HErrNone, [104;105])
  | None => False
  end.
Proof. vm_compute. split; reflexivity. Qed.

(* ---------- the whole message: header block, body, attachments ---------- *)
Lemma lines_length ls : (length ls <= length (concat (map enc_line ls)))%nat.
Proof.
  induction ls as [|kv r IH]; [cbn; lia|]. cbn [map concat length]. rewrite app_length.
  unfold enc_line at 1. unfold CRLF. rewrite !app_length. cbn [length]. lia.
Qed.

Theorem message_roundtrip (m : message) (files : list (bytes * bytes)) hb :
  let norm := fold_left add_line (lines_of (mhdr m)) [] in
  header_write (mhdr m) = Some hb ->
  Forall (fun kv => wf_line (fst kv) (snd kv)) (lines_of (mhdr m)) ->
  parse_date_ok (hget (mhdr m) str_Date) = Some true ->
  parse_date_ok (hget norm str_Date) = Some true ->
  atoi_ignore_err (hget norm str_Body) = Z.of_nat (length (mbody m)) ->
  mfiles m = map snd files ->
  hvalues norm str_File = map (fun nd => file_value (fst nd) (snd nd)) files ->
  sizes_ok (map snd files) ->
  exists b, message_write m = WOk b /\
    read_from b = {| p_hdr := norm; p_body := mbody m;
                     p_files := map (fun nd => {| pf_data := snd nd; pf_name := fst nd; pf_err := false |}) files;
                     p_status := RfOk |}.
Proof.
  intros norm Hw Hl Hd Hdn Hb Hf Hfv Hs.
  rewrite (message_write_layout m hb Hd Hw). eexists. split; [reflexivity|].
  pose proof (header_write_lines _ _ Hw) as Ehb.
  set (tail := mbody m ++ (match mfiles m with [] => [] | _ => CRLF end) ++ flat_map (fun f => f ++ CRLF) (mfiles m)).
  unfold read_from.
  assert (Hdrop : drop_while asc_space_tab (hb ++ CRLF ++ tail) = hb ++ CRLF ++ tail).
  { rewrite Ehb. unfold lines_of. cbn [map concat]. unfold enc_line at 1. cbn [fst str_Mid app drop_while].
    reflexivity. }
  rewrite Hdrop.
  assert (Hread : read_mime_header (S (length (hb ++ CRLF ++ tail))) (hb ++ CRLF ++ tail) [] = (norm, HErrNone, tail)).
  { rewrite Ehb at 2. apply read_lines; [exact Hl|].
    rewrite app_length, Ehb. pose proof (lines_length (lines_of (mhdr m))). lia. }
  rewrite Hread. rewrite Hb.
  pose proof (sections_roundtrip (mbody m) files Hs) as Hsec. cbv zeta in Hsec.
  assert (Et : tail = mbody m ++ (match files with [] => [] | _ => CRLF end) ++ flat_map (fun nd => snd nd ++ CRLF) files).
  { unfold tail. rewrite Hf. f_equal. f_equal; [destruct files; reflexivity|]. clear. induction files as [|f r IH]; [reflexivity|].
    cbn [map flat_map]. rewrite IH. reflexivity. }
  rewrite Et. destruct (read_section _ _) as [[b se] rest]. destruct Hsec as [H1 [H2 H3]]. subst b se.
  rewrite Hfv, H3, Hdn. reflexivity.
Qed.
