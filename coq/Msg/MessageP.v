(* Msg/MessageP.v — proofs about Msg/Message.v: section framing (body and attachments of any
   content, including content that itself ends in CR LF, NUL bytes and empty sections) is
   read back exactly; the serialised form has the documented layout. *)
From Coq Require Import Lia ZifyN ZifyNat ZifyBool.
From Verif Require Import Base.Bytes Msg.Message.
Open Scope N_scope.

Lemma split_at_cons_hit c r : split_at c (c :: r) = ([], Some r).
Proof. cbn. rewrite N.eqb_refl. reflexivity. Qed.

(* a section followed by CR LF and more input *)
Theorem read_section_crlf d rest :
  read_section (d ++ CRLF ++ rest) (Z.of_nat (length d)) = (d, SOk, rest).
Proof.
  unfold read_section.
  destruct (Z.of_nat (length d) <? 0)%Z eqn:E; [lia|].
  rewrite app_length. rewrite Z.min_l by lia. rewrite Nat2Z.id.
  rewrite firstn_app, firstn_all, Nat.sub_diag. cbn [firstn]. rewrite app_nil_r.
  rewrite skipn_app, skipn_all, Nat.sub_diag. cbn [skipn app CRLF].
  change (split_at 10 (13 :: 10 :: rest)) with ([13], Some rest).
  cbn iota beta. rewrite Z.eqb_refl. reflexivity.
Qed.

(* the last section may end the input without CR LF *)
Theorem read_section_eof d :
  read_section d (Z.of_nat (length d)) = (d, SOk, []).
Proof.
  unfold read_section.
  destruct (Z.of_nat (length d) <? 0)%Z eqn:E; [lia|].
  rewrite Z.min_id, Nat2Z.id, firstn_all, skipn_all. cbn [split_at].
  rewrite Z.eqb_refl. reflexivity.
Qed.

(* a section shorter than its declared size is an error, never a short result accepted *)
Theorem read_section_short s n :
  (Z.of_nat (length s) < n)%Z -> snd (fst (read_section s n)) = SUnexpectedEOF.
Proof.
  intros H. unfold read_section. destruct (n <? 0)%Z eqn:E; [lia|].
  rewrite Z.min_r by lia. rewrite Nat2Z.id, firstn_all, skipn_all. cbn [split_at].
  destruct (Z.of_nat (length s) =? n)%Z eqn:E2; [lia|]. reflexivity.
Qed.

Theorem read_section_negative s n : (n < 0)%Z -> read_section s n = ([], SNegative, s).
Proof. intros H. unfold read_section. destruct (n <? 0)%Z eqn:E; [reflexivity|lia]. Qed.

(* ---------- attachments ---------- *)
(* File header values "size name" for the given attachments *)
Definition file_value (name data : bytes) : bytes := dec_of_N (N.of_nat (length data)) ++ 32 :: name.

(* decimal size round trip through Atoi *)
Definition sizes_ok (datas : list bytes) : Prop :=
  Forall (fun d => atoi_ignore_err (dec_of_N (N.of_nat (length d))) = Z.of_nat (length d)
                   /\ fst (split_at 32 (dec_of_N (N.of_nat (length d)))) = dec_of_N (N.of_nat (length d))
                   /\ snd (split_at 32 (dec_of_N (N.of_nat (length d)))) = None) datas.

Lemma split_at_app_nosep c a b :
  snd (split_at c a) = None -> split_at c (a ++ c :: b) = (fst (split_at c a), Some b).
Proof.
  induction a as [|x a IH]; intros H.
  - cbn. rewrite N.eqb_refl. reflexivity.
  - cbn [split_at app] in *. destruct (x =? c) eqn:E; [cbn in H; discriminate|].
    destruct (split_at c a) as [p q] eqn:Es. cbn [snd] in H. subst q.
    rewrite IH by reflexivity. reflexivity.
Qed.

Theorem read_files_roundtrip : forall (files : list (bytes * bytes)) (e : serr),
  sizes_ok (map snd files) ->
  read_files (map (fun nd => file_value (fst nd) (snd nd)) files)
             (flat_map (fun nd => snd nd ++ CRLF) files) e
  = (map (fun nd => {| pf_data := snd nd; pf_name := fst nd; pf_err := false |}) files,
     match files with [] => e | _ => SOk end, []).
Proof.
  induction files as [|[name data] r IH]; intros e Hs; [reflexivity|].
  cbn [map fst snd flat_map] in *. inversion Hs as [|? ? [H1 [H2 H3]] Hr]; subst.
  cbn [read_files]. unfold file_value at 1.
  rewrite split_at_app_nosep by exact H3. rewrite H2, H1.
  rewrite <- app_assoc. rewrite read_section_crlf.
  rewrite (IH SOk Hr). destruct r; reflexivity.
Qed.

(* ---------- serialisation layout ---------- *)
Theorem message_write_layout m hb :
  parse_date_ok (hget (mhdr m) str_Date) = Some true -> header_write (mhdr m) = Some hb ->
  message_write m =
  WOk (hb ++ CRLF ++ mbody m ++ (match mfiles m with [] => [] | _ => CRLF end)
       ++ flat_map (fun f => f ++ CRLF) (mfiles m)).
Proof. intros Hd Hh. unfold message_write. rewrite Hd, Hh. reflexivity. Qed.

(* a date that does not parse is refused at serialisation *)
Theorem message_write_bad_date m :
  parse_date_ok (hget (mhdr m) str_Date) = Some false -> message_write m = WDateError.
Proof. intros H. unfold message_write. rewrite H. reflexivity. Qed.

(* body and attachments of a serialised message are read back exactly (after the header) *)
Theorem sections_roundtrip body (files : list (bytes * bytes)) :
  sizes_ok (map snd files) ->
  let tail := body ++ (match files with [] => [] | _ => CRLF end)
              ++ flat_map (fun nd => snd nd ++ CRLF) files in
  let '(b, se, rest) := read_section tail (Z.of_nat (length body)) in
  b = body /\ se = SOk /\
  read_files (map (fun nd => file_value (fst nd) (snd nd)) files) rest SOk
  = (map (fun nd => {| pf_data := snd nd; pf_name := fst nd; pf_err := false |}) files, SOk, []).
Proof.
  intros Hs tail. unfold tail. destruct files as [|f r].
  - cbn [flat_map app]. rewrite app_nil_r, read_section_eof. repeat split; reflexivity.
  - rewrite read_section_crlf. repeat split; try reflexivity.
    rewrite (read_files_roundtrip (f :: r) SOk Hs). reflexivity.
Qed.

(* Non-vacuity: decimal sizes up to a few digits satisfy sizes_ok (tested, not the general claim) *)
Example sizes_ok_example : sizes_ok [[]; [1;2;3]; repeatN 7 1234].
Proof. repeat constructor. Qed.

(* the Winlink date layout of a real minute parses; impossible dates are refused *)
Example date_examples :
  parse_date_ok [50;48;49;54;47;49;50;47;51;48;32;48;49;58;48;48] = Some true /\      (* 2016/12/30 01:00 *)
  parse_date_ok [50;48;49;54;47;48;50;47;51;48;32;48;49;58;48;48] = Some false /\     (* 2016/02/30 01:00 *)
  parse_date_ok [] = Some true.
Proof. vm_compute. repeat split; reflexivity. Qed.
