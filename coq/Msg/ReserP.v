(* Msg/ReserP.v — re-serialising a parsed message gives back the very same bytes.

   The reader groups the header lines by field name (hadd: values appended to the first entry
   with exactly that key, new keys at the end).  Header.Write prints Mid first and then the
   other fields in sorted order (a stable insertion sort), each value trimmed.  Hence the lines
   it prints are weakly sorted by key, equal keys are adjacent, grouping them yields a header
   with strictly increasing keys whose flattening is the very list of lines, sorting that header
   changes nothing, and trimming a trimmed value changes nothing (trim_with_idem).

   Results.
   - normal_form_idempotent: for EVERY header h, with no hypothesis at all,
       lines_of (fold_left add_line (lines_of h) []) = lines_of h.
     In particular it holds when h lists the same key in several separate entries (the sort is
     stable and the entries become adjacent), when keys differ only in letter case (they are
     different keys for hadd and for the sort alike; keys that fold to "mid" are dropped by
     Header.Write and never reach the lines), with empty value lists, empty keys, blank values.
     The statement was first tested by vm_compute on such headers (idempotent_instance below);
     no counterexample exists, so no hypothesis had to be added.
   - header_write_normal_form: header_write h = Some hb -> header_write (normal form) = Some hb.
   - message_reserialise: under exactly the hypotheses of message_roundtrip, the message
     rebuilt from read_from b is written as b again (4th conjunct of C09_roundtrip_statement). *)
From Coq Require Import List NArith ZArith Bool Lia Sorted.
From Verif Require Import Base.Bytes Base.BytesP Msg.Message Msg.MessageP Msg.HeaderRT Msg.SizesP.
Import ListNotations.
Open Scope N_scope.

(* ---------- bytes_leb is a total order ---------- *)
Lemma bytes_leb_refl a : bytes_leb a a = true.
Proof. induction a as [|x a IH]; [reflexivity|]. cbn [bytes_leb]. rewrite N.ltb_irrefl. exact IH. Qed.

Lemma bytes_leb_total a : forall b, bytes_leb a b = true \/ bytes_leb b a = true.
Proof.
  induction a as [|x a IH]; intros [|y b]; cbn [bytes_leb]; auto.
  destruct (N.ltb_spec x y); auto. destruct (N.ltb_spec y x); auto.
Qed.

Lemma bytes_leb_antisym a : forall b, bytes_leb a b = true -> bytes_leb b a = true -> a = b.
Proof.
  induction a as [|x a IH]; intros [|y b]; cbn [bytes_leb]; try discriminate; auto.
  destruct (N.ltb_spec x y); destruct (N.ltb_spec y x); try discriminate; try lia.
  intros H1 H2. assert (x = y) by lia. subst. f_equal. apply IH; assumption.
Qed.

Lemma bytes_leb_trans a : forall b c, bytes_leb a b = true -> bytes_leb b c = true -> bytes_leb a c = true.
Proof.
  induction a as [|x a IH]; intros [|y b] [|z c]; cbn [bytes_leb]; try discriminate; auto.
  destruct (N.ltb_spec x y); destruct (N.ltb_spec y x); destruct (N.ltb_spec y z); destruct (N.ltb_spec z y);
    destruct (N.ltb_spec x z); destruct (N.ltb_spec z x); try discriminate; try lia; auto.
  apply IH.
Qed.

(* ---------- the insertion sort ---------- *)
Definition kle (x y : bytes * list bytes) : Prop := bytes_leb (fst x) (fst y) = true.
Definition klt (x y : bytes * list bytes) : Prop := bytes_leb (fst x) (fst y) = true /\ fst x <> fst y.

Lemma insert_sorted_In x k l : In x (insert_sorted k l) -> x = k \/ In x l.
Proof.
  induction l as [|a l IH]; cbn [insert_sorted].
  - intros [E|[]]. left. symmetry. exact E.
  - destruct (bytes_leb (fst k) (fst a)).
    + intros [E|H]; [left; symmetry; exact E|right; exact H].
    + intros [E|H]; [right; left; exact E|]. destruct (IH H) as [E|H']; [left; exact E|right; right; exact H'].
Qed.

Lemma sort_header_In x h : In x (sort_header h) -> In x h.
Proof.
  induction h as [|a h IH]; [intros []|]. unfold sort_header. cbn [fold_right]. intros H.
  apply insert_sorted_In in H. destruct H as [E|H]; [left; symmetry; exact E|right; apply IH; exact H].
Qed.

Lemma insert_sorted_ss k l : StronglySorted kle l -> StronglySorted kle (insert_sorted k l).
Proof.
  induction l as [|a l IH]; intros Hs; cbn [insert_sorted].
  - constructor; constructor.
  - inversion Hs as [|? ? Hs' Hf]; subst.
    destruct (bytes_leb (fst k) (fst a)) eqn:E.
    + constructor; [exact Hs|]. constructor; [exact E|].
      rewrite Forall_forall in *. intros y Hy. unfold kle. apply bytes_leb_trans with (fst a); [exact E|apply Hf; exact Hy].
    + constructor; [apply IH; exact Hs'|].
      rewrite Forall_forall in *. intros y Hy. apply insert_sorted_In in Hy. destruct Hy as [Ey|Hy].
      * subst y. unfold kle. destruct (bytes_leb_total (fst a) (fst k)) as [T|T]; [exact T|congruence].
      * apply Hf. exact Hy.
Qed.

Lemma sort_header_ss h : StronglySorted kle (sort_header h).
Proof.
  induction h as [|a h IH]; [constructor|]. unfold sort_header. cbn [fold_right]. apply insert_sorted_ss. exact IH.
Qed.

Lemma sort_header_fixed h : StronglySorted klt h -> sort_header h = h.
Proof.
  induction h as [|a h IH]; intros Hs; [reflexivity|]. inversion Hs as [|? ? Hs' Hf]; subst.
  unfold sort_header. cbn [fold_right]. fold (sort_header h). rewrite (IH Hs').
  destruct h as [|b h]; [reflexivity|]. cbn [insert_sorted].
  inversion Hf as [|? ? [Hab _] _]; subst. rewrite Hab. reflexivity.
Qed.

(* ---------- the lines of a header ---------- *)
Definition flat (h : header) : list (bytes * bytes) :=
  flat_map (fun kv => map (fun v => (fst kv, v)) (snd kv)) h.
Definition trl (kv : bytes * bytes) : bytes * bytes := (fst kv, trim_string (snd kv)).
Definition lle (x y : bytes * bytes) : Prop := bytes_leb (fst x) (fst y) = true.

Lemma lines_flat (hs : header) :
  flat_map (fun kv => map (fun v => (fst kv, trim_string v)) (snd kv)) hs = map trl (flat hs).
Proof.
  induction hs as [|[k vs] r IH]; [reflexivity|]. unfold flat in *. cbn [flat_map fst snd].
  rewrite map_app, IH, map_map. reflexivity.
Qed.

Lemma In_flat x hs : In x (flat hs) -> exists kv, In kv hs /\ fst kv = fst x.
Proof.
  unfold flat. intros H. apply in_flat_map in H. destruct H as [kv [H1 H2]].
  apply in_map_iff in H2. destruct H2 as [v [E _]]. subst x. exists kv. split; [exact H1|reflexivity].
Qed.

Lemma ss_app {A} (R : A -> A -> Prop) l1 : forall l2, StronglySorted R l1 -> StronglySorted R l2 ->
  (forall x y, In x l1 -> In y l2 -> R x y) -> StronglySorted R (l1 ++ l2).
Proof.
  induction l1 as [|a l1 IH]; intros l2 H1 H2 H; [exact H2|]. inversion H1 as [|? ? H1' Hf]; subst.
  cbn [app]. constructor.
  - apply IH; [exact H1'|exact H2|]. intros x y Hx Hy. apply H; [right; exact Hx|exact Hy].
  - apply Forall_app. split; [exact Hf|]. rewrite Forall_forall. intros y Hy. apply H; [left; reflexivity|exact Hy].
Qed.

Lemma flat_sorted hs : StronglySorted kle hs -> StronglySorted lle (flat hs).
Proof.
  induction hs as [|[k vs] r IH]; intros Hs; [constructor|]. inversion Hs as [|? ? Hs' Hf]; subst.
  unfold flat. cbn [flat_map fst snd]. fold (flat r). apply ss_app.
  - clear. induction vs as [|v vs IHv]; [constructor|]. cbn [map]. constructor; [exact IHv|].
    rewrite Forall_forall. intros y Hy. apply in_map_iff in Hy. destruct Hy as [w [E _]]. subst y.
    unfold lle. cbn [fst]. apply bytes_leb_refl.
  - apply IH. exact Hs'.
  - intros x y Hx Hy. apply in_map_iff in Hx. destruct Hx as [w [E _]]. subst x.
    apply In_flat in Hy. destruct Hy as [kv [Hkv E]]. unfold lle. cbn [fst]. rewrite <- E.
    rewrite Forall_forall in Hf. apply (Hf kv Hkv).
Qed.

Lemma ss_map_trl ls : StronglySorted lle ls -> StronglySorted lle (map trl ls).
Proof.
  induction 1 as [|a l Hs IH Hf]; [constructor|]. cbn [map]. constructor; [exact IH|].
  rewrite Forall_forall in *. intros y Hy. apply in_map_iff in Hy. destruct Hy as [w [E Hw]]. subst y.
  exact (Hf w Hw).
Qed.

(* ---------- grouping weakly sorted lines ---------- *)
Lemma hadd_step acc : forall k v, StronglySorted klt acc -> (forall x, In x acc -> bytes_leb (fst x) k = true) ->
  StronglySorted klt (hadd acc k v) /\ flat (hadd acc k v) = flat acc ++ [(k, v)] /\
  (forall x, In x (hadd acc k v) -> fst x = k \/ exists y, In y acc /\ fst y = fst x).
Proof.
  induction acc as [|[k' vs] t IH]; intros k v Hs Hle.
  - cbn [hadd]. split; [constructor; constructor|]. split; [reflexivity|].
    intros x [E|[]]. subst x. left. reflexivity.
  - inversion Hs as [|? ? Hs' Hf]; subst. cbn [hadd]. destruct (beq_bytes k' k) eqn:E.
    + apply beq_bytes_true in E. subst k'.
      assert (Et : t = []).
      { destruct t as [|y t']; [reflexivity|]. exfalso.
        inversion Hf as [|? ? [Hky Hne] _]; subst. cbn [fst] in Hky, Hne. apply Hne.
        apply bytes_leb_antisym; [exact Hky|]. apply Hle. right. left. reflexivity. }
      subst t. split; [constructor; constructor|]. split.
      * unfold flat. cbn [flat_map fst snd]. rewrite map_app, !app_nil_r. reflexivity.
      * intros x [Ex|[]]. subst x. left. reflexivity.
    + destruct (IH k v Hs' (fun x Hx => Hle x (or_intror Hx))) as [I1 [I2 I3]].
      split; [|split].
      * constructor; [exact I1|]. rewrite Forall_forall in *. intros x Hx. destruct (I3 x Hx) as [Ex|[y [Hy Ey]]].
        -- split; cbn [fst]; rewrite Ex; [apply (Hle (k', vs)); left; reflexivity|].
           apply beq_bytes_false. exact E.
        -- destruct (Hf y Hy) as [G1 G2]. split; rewrite <- Ey; assumption.
      * unfold flat in *. cbn [flat_map fst snd]. rewrite I2, app_assoc. reflexivity.
      * intros x [Ex|Hx].
        -- right. exists (k', vs). split; [left; reflexivity|subst x; reflexivity].
        -- destruct (I3 x Hx) as [Ek|[y [Hy Ey]]]; [left; exact Ek|]. right. exists y. split; [right; exact Hy|exact Ey].
Qed.

Lemma group_sorted ls : forall acc, StronglySorted klt acc -> StronglySorted lle ls ->
  (forall x y, In x acc -> In y ls -> bytes_leb (fst x) (fst y) = true) ->
  StronglySorted klt (fold_left add_line ls acc) /\ flat (fold_left add_line ls acc) = flat acc ++ ls /\
  (forall x, In x (fold_left add_line ls acc) ->
     (exists y, In y acc /\ fst y = fst x) \/ (exists y, In y ls /\ fst y = fst x)).
Proof.
  induction ls as [|[k v] r IH]; intros acc Ha Hl Hc.
  - cbn [fold_left]. split; [exact Ha|]. split; [rewrite app_nil_r; reflexivity|].
    intros x Hx. left. exists x. split; [exact Hx|reflexivity].
  - inversion Hl as [|? ? Hl' Hf]; subst. cbn [fold_left]. change (add_line acc (k, v)) with (hadd acc k v).
    destruct (hadd_step acc k v Ha (fun x Hx => Hc x (k, v) Hx (or_introl eq_refl))) as [S1 [S2 S3]].
    assert (Hc' : forall x y, In x (hadd acc k v) -> In y r -> bytes_leb (fst x) (fst y) = true).
    { intros x y Hx Hy. destruct (S3 x Hx) as [Ex|[z [Hz Ez]]].
      - rewrite Ex. rewrite Forall_forall in Hf. apply (Hf y Hy).
      - rewrite <- Ez. apply Hc; [exact Hz|right; exact Hy]. }
    destruct (IH (hadd acc k v) S1 Hl' Hc') as [I1 [I2 I3]].
    split; [exact I1|]. split.
    + rewrite I2, S2, <- app_assoc. reflexivity.
    + intros x Hx. destruct (I3 x Hx) as [[y [Hy Ey]]|[y [Hy Ey]]].
      * destruct (S3 y Hy) as [Ek|[z [Hz Ez]]].
        -- right. exists (k, v). split; [left; reflexivity|]. cbn [fst]. rewrite <- Ek. exact Ey.
        -- left. exists z. split; [exact Hz|]. rewrite Ez. exact Ey.
      * right. exists y. split; [right; exact Hy|exact Ey].
Qed.

(* ---------- trimming is idempotent ---------- *)
Lemma drop_while_first f s : first_not f (drop_while f s).
Proof.
  induction s as [|a s IH]; [exact I|]. cbn [drop_while]. destruct (f a) eqn:E; [exact IH|]. cbn [first_not]. exact E.
Qed.

Lemma drop_while_id f s : first_not f s -> drop_while f s = s.
Proof. destruct s as [|a s]; [reflexivity|]. cbn [first_not drop_while]. intros H. rewrite H. reflexivity. Qed.

Lemma drop_while_snoc f a l : f a = false -> exists u, drop_while f (l ++ [a]) = u ++ [a].
Proof.
  intros Ha. induction l as [|x l IH]; cbn [app drop_while].
  - rewrite Ha. exists []. reflexivity.
  - destruct (f x); [exact IH|]. exists (x :: l). reflexivity.
Qed.

Theorem trim_with_idem f s : trim_with f (trim_with f s) = trim_with f s.
Proof.
  unfold trim_with. rewrite !rev'_rev. pose proof (drop_while_first f s) as Hd.
  destruct (drop_while f s) as [|a r]; [reflexivity|]. cbn [first_not] in Hd.
  cbn [rev]. destruct (drop_while_snoc f a (rev r) Hd) as [u Eu]. rewrite Eu.
  rewrite rev_app_distr. cbn [rev app drop_while]. rewrite Hd. cbn [rev]. rewrite rev_involutive.
  rewrite <- Eu. rewrite (drop_while_id f (drop_while f _)) by apply drop_while_first.
  rewrite Eu, rev_app_distr. reflexivity.
Qed.

Lemma trl_idem ls : map trl (map trl ls) = map trl ls.
Proof.
  rewrite map_map. apply map_ext. intros [k v]. unfold trl. cbn [fst snd]. f_equal. apply trim_with_idem.
Qed.

(* ---------- the Mid line ---------- *)
Lemma fold_add_mid ls mid : forall acc, (forall y, In y ls -> fst y <> str_Mid) ->
  fold_left add_line ls ((str_Mid, mid) :: acc) = (str_Mid, mid) :: fold_left add_line ls acc.
Proof.
  induction ls as [|[k v] r IH]; intros acc H; [reflexivity|]. cbn [fold_left].
  change (add_line ((str_Mid, mid) :: acc) (k, v)) with (hadd ((str_Mid, mid) :: acc) k v).
  change (add_line acc (k, v)) with (hadd acc k v). cbn [hadd].
  assert (E : beq_bytes str_Mid k = false).
  { apply beq_bytes_neq. intros E. apply (H (k, v)); [left; reflexivity|]. cbn [fst]. symmetry. exact E. }
  rewrite E. apply IH. intros y Hy. apply H. right. exact Hy.
Qed.

Lemma hget_mid_cons mid G : hget ((str_Mid, [mid]) :: G) str_Mid = mid.
Proof. reflexivity. Qed.

Lemma filter_mid_cons (mid : list bytes) (G : header) :
  filter (fun kv : bytes * list bytes => negb (equal_fold (fst kv) str_Mid)) ((str_Mid, mid) :: G) =
  filter (fun kv : bytes * list bytes => negb (equal_fold (fst kv) str_Mid)) G.
Proof. reflexivity. Qed.

Lemma filter_all {A} (f : A -> bool) l : (forall x, In x l -> f x = true) -> filter f l = l.
Proof.
  induction l as [|a l IH]; intros H; [reflexivity|]. cbn [filter]. rewrite (H a (or_introl eq_refl)).
  f_equal. apply IH. intros x Hx. apply H. right. exact Hx.
Qed.

(* ---------- normalisation is idempotent with respect to the printed lines ---------- *)
Theorem normal_form_idempotent : forall h : header,
  lines_of (fold_left add_line (lines_of h) []) = lines_of h.
Proof.
  intros h. unfold lines_of at 2 3.
  set (nm := fun kv : bytes * list bytes => negb (equal_fold (fst kv) str_Mid)).
  set (S := sort_header (filter nm h)). rewrite lines_flat.
  set (ls := map trl (flat S)). set (mid := hget h str_Mid).
  assert (Hkeys : forall y, In y ls -> nm (fst y, @nil bytes) = true).
  { intros y Hy. unfold ls in Hy. apply in_map_iff in Hy. destruct Hy as [w [E Hw]]. subst y.
    apply In_flat in Hw. destruct Hw as [kv [Hkv E]]. unfold S in Hkv. apply sort_header_In in Hkv.
    apply filter_In in Hkv. destruct Hkv as [_ Hn]. unfold trl, nm in *. cbn [fst] in *. rewrite <- E. exact Hn. }
  assert (Hnm : forall y, In y ls -> fst y <> str_Mid).
  { intros y Hy E. pose proof (Hkeys y Hy) as Hk. unfold nm in Hk. cbn [fst] in Hk. rewrite E in Hk.
    vm_compute in Hk. discriminate. }
  cbn [fold_left]. change (add_line [] (str_Mid, mid)) with [(str_Mid, [mid])].
  rewrite fold_add_mid by exact Hnm.
  set (G := fold_left add_line ls []).
  assert (Hls : StronglySorted lle ls).
  { unfold ls. apply ss_map_trl. apply flat_sorted. unfold S. apply sort_header_ss. }
  destruct (group_sorted ls [] (SSorted_nil _) Hls (fun x y Hx _ => match Hx with end)) as [G1 [G2 G3]].
  fold G in G1, G2, G3. cbn [flat flat_map app] in G2.
  unfold lines_of. rewrite hget_mid_cons. f_equal.
  rewrite filter_mid_cons. fold nm. rewrite filter_all.
  - rewrite (sort_header_fixed G G1), lines_flat, G2. unfold ls. apply trl_idem.
  - intros x Hx. destruct (G3 x Hx) as [[y [[] _]]|[y [Hy Ey]]].
    pose proof (Hkeys y Hy) as Hk. unfold nm in *. cbn [fst] in *. rewrite <- Ey. exact Hk.
Qed.

(* ---------- Header.Write on the normal form ---------- *)
Lemma header_write_some h : hget h str_Mid <> [] -> header_write h = Some (concat (map enc_line (lines_of h))).
Proof.
  intros H. destruct (header_write h) as [hb|] eqn:E.
  - apply header_write_lines in E. subst hb. reflexivity.
  - unfold header_write in E. destruct (hget h str_Mid); [contradiction|discriminate].
Qed.

Theorem header_write_normal_form h hb :
  header_write h = Some hb -> header_write (fold_left add_line (lines_of h) []) = Some hb.
Proof.
  intros Hw. pose proof (normal_form_idempotent h) as Hi.
  assert (Hm : hget (fold_left add_line (lines_of h) []) str_Mid = hget h str_Mid).
  { apply (f_equal (fun l => snd (hd (@nil N, @nil N) l))) in Hi. exact Hi. }
  rewrite header_write_some.
  - rewrite Hi. rewrite (header_write_lines h hb Hw). reflexivity.
  - rewrite Hm. intros E. unfold header_write in Hw. rewrite E in Hw. discriminate.
Qed.

(* ---------- the whole message ---------- *)
Theorem message_reserialise : forall (m : message) (files : list (bytes * bytes)) hb,
  let norm := fold_left add_line (lines_of (mhdr m)) [] in
  header_write (mhdr m) = Some hb ->
  Forall (fun kv => wf_line (fst kv) (snd kv)) (lines_of (mhdr m)) ->
  parse_date_ok (hget (mhdr m) str_Date) = Some true ->
  parse_date_ok (hget norm str_Date) = Some true ->
  atoi_ignore_err (hget norm str_Body) = Z.of_nat (length (mbody m)) ->
  mfiles m = map snd files ->
  hvalues norm str_File = map (fun nd => file_value (fst nd) (snd nd)) files ->
  sizes_ok (map snd files) ->
  exists b, message_write m = WOk b /\
    let p := read_from b in
    message_write {| mhdr := p_hdr p; mbody := p_body p; mfiles := map pf_data (p_files p) |} = WOk b.
Proof.
  intros m files hb norm Hw Hl Hd Hdn Hb Hf Hfv Hs.
  pose proof (message_roundtrip m files hb) as R. cbv zeta in R.
  destruct (R Hw Hl Hd Hdn Hb Hf Hfv Hs) as [b [Eb Er]].
  exists b. split; [exact Eb|]. cbv zeta. rewrite Er. cbn [p_hdr p_body p_files].
  rewrite map_map. cbn [pf_data].
  change (map (fun x : bytes * bytes => snd x) files) with (map snd files). rewrite <- Hf.
  rewrite (message_write_layout m hb Hd Hw) in Eb.
  rewrite (message_write_layout _ hb); cbn [mhdr mbody mfiles].
  - exact Eb.
  - exact Hdn.
  - apply header_write_normal_form. exact Hw.
Qed.

(* ---------- tests of the statements, computed by the kernel ---------- *)
(* a header with unsorted fields, To in three separate entries, a second Mid value, keys that
   differ only in case (TO, MID), an empty key, an empty value list, blank and empty values *)
Example idempotent_instance :
  let date := [50;48;49;54;47;49;50;47;51;48;32;48;49;58;48;48] in
  let h : header :=
    [([84;111], [[76;65]]); (str_File, [[50;32;97;46;98]]); (str_Mid, [[65;66;67]; [88]]); (str_Body, [[53]]);
     ([84;111], [[78;48]; [32;81;32]]); (str_Date, [date]); ([67;99], []); ([77;73;68], [[90]]);
     ([84;79], [[89]]); ([], [[1]]); ([84;111], [[]; [32]])] in
  lines_of h =
    [(str_Mid, [65;66;67]); ([], [1]); (str_Body, [53]); (str_Date, date); (str_File, [50;32;97;46;98]);
     ([84;79], [89]); ([84;111], [76;65]); ([84;111], [78;48]); ([84;111], [81]); ([84;111], []); ([84;111], [])] /\
  fold_left add_line (lines_of h) [] =
    [(str_Mid, [[65;66;67]]); ([], [[1]]); (str_Body, [[53]]); (str_Date, [date]); (str_File, [[50;32;97;46;98]]);
     ([84;79], [[89]]); ([84;111], [[76;65]; [78;48]; [81]; []; []])] /\
  lines_of (fold_left add_line (lines_of h) []) = lines_of h.
Proof. vm_compute. repeat split; reflexivity. Qed.

(* a well-formed message (To in two separate entries, unsorted fields, one attachment): every
   hypothesis of message_reserialise holds, and the conclusion is also checked by computation *)
Example reserialise_instance :
  let date := [50;48;49;54;47;49;50;47;51;48;32;48;49;58;48;48] in
  let m := {| mhdr := [([84;111], [[76;65]]); (str_File, [[50;32;97;46;98]]); (str_Mid, [[65;66;67]]);
                       (str_Body, [[53]]); ([84;111], [[78;48]; [81]]); (str_Date, [date])];
              mbody := [104;105;33;13;10]; mfiles := [[13;10]] |} in
  let files := [([97;46;98], [13;10])] in
  let norm := fold_left add_line (lines_of (mhdr m)) [] in
  forallb (fun kv => wf_lineb (fst kv) (snd kv)) (lines_of (mhdr m)) = true /\
  parse_date_ok (hget (mhdr m) str_Date) = Some true /\
  parse_date_ok (hget norm str_Date) = Some true /\
  atoi_ignore_err (hget norm str_Body) = Z.of_nat (length (mbody m)) /\
  mfiles m = map snd files /\
  hvalues norm str_File = map (fun nd => file_value (fst nd) (snd nd)) files /\
  match message_write m with
  | WOk b => let p := read_from b in
             message_write {| mhdr := p_hdr p; mbody := p_body p; mfiles := map pf_data (p_files p) |} = WOk b
  | _ => False
  end.
Proof. vm_compute. repeat split; reflexivity. Qed.

Print Assumptions normal_form_idempotent.
Print Assumptions header_write_normal_form.
Print Assumptions message_reserialise.
