(* Msg/Message.v — model of fbb/header.go (Header.Write), fbb/message.go (Message.Write,
   ReadFrom, readSection after the fix: commit that bounds the section size, ParseDate for the
   four Winlink layouts, AddressFromString/String) and of net/textproto.ReadMIMEHeader as far
   as the message format needs it.  Definitions only. *)
From Verif Require Import Base.Bytes.
Open Scope N_scope.

Definition CRLF : bytes := [13; 10].

(* ---------- headers ---------- *)
Definition header := list (bytes * list bytes).     (* canonical key -> values in order *)

Fixpoint hvalues (h : header) (k : bytes) : list bytes :=
  match h with
  | [] => []
  | (k', vs) :: r => if beq_bytes k' k then vs else hvalues r k
  end.
Definition hget (h : header) (k : bytes) : bytes :=
  match hvalues h k with v :: _ => v | [] => [] end.
Fixpoint hadd (h : header) (k v : bytes) : header :=
  match h with
  | [] => [(k, [v])]
  | (k', vs) :: r => if beq_bytes k' k then (k', vs ++ [v]) :: r else (k', vs) :: hadd r k v
  end.

Definition is_ascii_space (b : N) : bool := (b =? 32) || (b =? 9) || (b =? 10) || (b =? 13).
Fixpoint drop_while (f : N -> bool) (s : bytes) : bytes :=
  match s with x :: r => if f x then drop_while f r else s | [] => [] end.
Definition trim_with (f : N -> bool) (s : bytes) : bytes :=
  rev' (drop_while f (rev' (drop_while f s))).
Definition trim_string := trim_with is_ascii_space.                     (* textproto.TrimString *)
Definition is_sp_tab (b : N) : bool := (b =? 32) || (b =? 9).
Definition trim_sp_tab := trim_with is_sp_tab.                          (* textproto trim() *)

(* bytewise lexicographic order (sort.Strings) *)
Fixpoint bytes_leb (a b : bytes) : bool :=
  match a, b with
  | [], _ => true
  | _ :: _, [] => false
  | x :: a', y :: b' => if x <? y then true else if y <? x then false else bytes_leb a' b'
  end.
Fixpoint insert_sorted (k : bytes * list bytes) (l : header) : header :=
  match l with
  | [] => [k]
  | x :: r => if bytes_leb (fst k) (fst x) then k :: l else x :: insert_sorted k r
  end.
Definition sort_header (h : header) : header := fold_right insert_sorted [] h.

Definition equal_fold (a b : bytes) : bool := beq_bytes (map to_lower a) (map to_lower b).

Definition str_Mid : bytes := [77;105;100].
Definition str_Date : bytes := [68;97;116;101].
Definition str_Body : bytes := [66;111;100;121].
Definition str_File : bytes := [70;105;108;101].
Definition colon_sp : bytes := [58; 32].

(* Header.Write: None = "Missing MID" (nothing written) *)
Definition header_write (h : header) : option bytes :=
  match hget h str_Mid with
  | [] => None
  | mid =>
      let rest := filter (fun kv => negb (equal_fold (fst kv) str_Mid)) h in
      Some (str_Mid ++ colon_sp ++ mid ++ CRLF ++
            flat_map (fun kv => flat_map (fun v => fst kv ++ colon_sp ++ trim_string v ++ CRLF) (snd kv))
                     (sort_header rest))
  end.

(* ---------- ParseDate (the four Winlink layouts; RFC 5322 forms are not modelled) ---------- *)
Definition digit_val (b : N) : option N := if is_digit b then Some (b - 48) else None.
Fixpoint num_of_digits (l : bytes) (acc : N) : option N :=
  match l with
  | [] => Some acc
  | d :: r => match digit_val d with Some v => num_of_digits r (acc * 10 + v) | None => None end
  end.
Definition leap (y : N) : bool := ((y mod 4 =? 0) && negb (y mod 100 =? 0)) || (y mod 400 =? 0).
Definition days_in (y m : N) : N :=
  if (m =? 2) then (if leap y then 29 else 28)
  else if (m =? 4) || (m =? 6) || (m =? 9) || (m =? 11) then 30 else 31.
Definition civil_ok (y mo d h mi s : N) : bool :=
  (1 <=? mo) && (mo <=? 12) && (1 <=? d) && (d <=? days_in y mo) && (h <? 24) && (mi <? 60) && (s <? 60).

Definition parse_fields (parts : list bytes) : option (list N) :=
  fold_right (fun p acc => match num_of_digits p 0, acc with
                           | Some v, Some l => Some (v :: l) | _, _ => None end) (Some []) parts.

(* "YYYY?MM?DD HH:MM" with ? = sep *)
Definition date_sep_layout (sep : N) (s : bytes) : bool :=
  match s with
  | [y1;y2;y3;y4;s1;m1;m2;s2;d1;d2;sp;h1;h2;c;n1;n2] =>
      (s1 =? sep) && (s2 =? sep) && (sp =? 32) && (c =? 58) &&
      match parse_fields [[y1;y2;y3;y4];[m1;m2];[d1;d2];[h1;h2];[n1;n2]] with
      | Some [y;mo;d;h;mi] => civil_ok y mo d h mi 0
      | _ => false
      end
  | [y1;y2;y3;y4;s1;m1;m2;s2;d1;d2;sp;h1;c;n1;n2] =>        (* time.Parse accepts a one digit hour *)
      (s1 =? sep) && (s2 =? sep) && (sp =? 32) && (c =? 58) &&
      match parse_fields [[y1;y2;y3;y4];[m1;m2];[d1;d2];[h1];[n1;n2]] with
      | Some [y;mo;d;h;mi] => civil_ok y mo d h mi 0
      | _ => false
      end
  | _ => false
  end.
Definition date_compact_layout (s : bytes) : bool :=
  match s with
  | [y1;y2;y3;y4;m1;m2;d1;d2;h1;h2;n1;n2;s1;s2] =>
      match parse_fields [[y1;y2;y3;y4];[m1;m2];[d1;d2];[h1;h2];[n1;n2];[s1;s2]] with
      | Some [y;mo;d;h;mi;se] => civil_ok y mo d h mi se
      | _ => false
      end
  | _ => false
  end.
Definition has_letter (s : bytes) : bool := existsb (fun b => is_upper b || is_lower b) s.

(* time.Parse treats a run of spaces in the value as one space of the layout *)
Fixpoint collapse_spaces (s : bytes) : bytes :=
  match s with
  | [] => []
  | x :: r => if x =? 32 then match r with 32 :: _ => collapse_spaces r | _ => x :: collapse_spaces r end
              else x :: collapse_spaces r
  end.

(* Some true = parses, Some false = error, None = outside the model (may be an RFC 5322 form) *)
Definition parse_date_ok (s0 : bytes) : option bool :=
  let s := collapse_spaces s0 in
  match s with
  | [] => Some true
  | _ =>
      if date_sep_layout 47 s || date_sep_layout 46 s || date_sep_layout 45 s || date_compact_layout s
      then Some true
      else if has_letter s then None else Some false
  end.

(* ---------- Message.Write ---------- *)
Record message := { mhdr : header; mbody : bytes; mfiles : list bytes }.

Inductive wresult := WOk (b : bytes) | WDateError | WDateUnknown.

Definition message_write (m : message) : wresult :=
  match parse_date_ok (hget (mhdr m) str_Date) with
  | Some false => WDateError
  | None => WDateUnknown
  | Some true =>
      let hb := match header_write (mhdr m) with Some b => b | None => [] end in
      WOk (hb ++ CRLF ++ mbody m
           ++ (match mfiles m with [] => [] | _ => CRLF end)
           ++ flat_map (fun f => f ++ CRLF) (mfiles m))
  end.

(* ---------- strconv.Atoi as used with the error ignored ---------- *)
Definition max_int : Z := 9223372036854775807%Z.
Definition atoi_ignore_err (s : bytes) : Z :=
  let '(neg, digits) := match s with
                        | 45 :: r => (true, r)
                        | 43 :: r => (false, r)
                        | _ => (false, s) end in
  match digits with
  | [] => 0%Z
  | _ => match num_of_digits digits 0 with
         | None => 0%Z                                   (* syntax error: 0 *)
         | Some v => if neg then (if 9223372036854775808 <? v then (-9223372036854775808)%Z else (- Z.of_N v)%Z)
                     else (if 9223372036854775807 <? v then max_int else Z.of_N v)
         end
  end.

(* ---------- line reading (bufio.ReadLine / textproto) ---------- *)
(* one line: (line without its end-of-line, rest); None at end of input with nothing left *)
Fixpoint take_line (s : bytes) (acc : bytes) : option (bytes * bytes) :=
  match s with
  | [] => match acc with [] => None | _ => Some (rev' acc, []) end
  | 10 :: r => Some (rev' (match acc with 13 :: a => a | _ => acc end), r)
  | x :: r => take_line r (x :: acc)
  end.

Definition valid_field_byte (c : N) : bool :=
  is_digit c || is_upper c || is_lower c ||
  existsb (fun x => x =? c) [33;35;36;37;38;39;42;43;45;46;94;95;96;124;126].
Definition valid_value_byte (c : N) : bool := ((32 <=? c) && (c <=? 126)) || (c =? 9) || (128 <=? c).

Fixpoint canon_key_aux (upper_next : bool) (k : bytes) : bytes :=
  match k with
  | [] => []
  | c :: r =>
      let c' := if upper_next && is_lower c then c - 32
                else if negb upper_next && is_upper c then c + 32 else c in
      c' :: canon_key_aux (c' =? 45) r
  end.
(* canonicalMIMEHeaderKey: None = malformed *)
Definition canon_key (k : bytes) : option bytes :=
  match k with
  | [] => None
  | _ =>
      if forallb (fun c => valid_field_byte c || (c =? 32)) k then
        if existsb (fun c => c =? 32) k then Some k else Some (canon_key_aux true k)
      else None
  end.

Inductive herr := HErrNone | HErrEOF | HErrMalformed.

(* continuation lines: while the next byte is space or tab *)
Fixpoint continuation (fuel : nat) (s : bytes) (acc : bytes) : bytes * bytes :=
  match fuel with
  | O => (acc, s)
  | S f =>
      match s with
      | x :: _ =>
          if is_sp_tab x then
            let s1 := drop_while is_sp_tab s in
            match take_line s1 [] with
            | Some (l, rest) => continuation f rest (acc ++ 32 :: trim_sp_tab l)
            | None => (acc ++ [32], s1)
            end
          else (acc, s)
      | [] => (acc, s)
      end
  end.

(* ReadMIMEHeader: header, error, remaining input *)
Fixpoint read_mime_header (fuel : nat) (s : bytes) (h : header) : header * herr * bytes :=
  match fuel with
  | O => (h, HErrMalformed, s)
  | S f =>
      match take_line s [] with
      | None => (h, HErrEOF, [])
      | Some ([], rest) => (h, HErrNone, rest)
      | Some (line, rest) =>
          if negb (existsb (fun c => c =? 58) line) then (h, HErrMalformed, rest)
          else
            let '(kv, rest') := continuation (length rest) rest (trim_sp_tab line) in
            let '(k, vopt) := split_at 58 kv in
            match vopt, canon_key k with
            | Some v, Some key =>
                if forallb valid_value_byte v then
                  read_mime_header f rest' (hadd h key (drop_while is_sp_tab v))
                else (h, HErrMalformed, rest')
            | _, _ => (h, HErrMalformed, rest')
            end
      end
  end.

(* ---------- readSection ---------- *)
Inductive serr := SOk | SNegative | SUnexpectedEOF | SBadEnd.

Definition read_section (s : bytes) (n : Z) : bytes * serr * bytes :=
  if (n <? 0)%Z then ([], SNegative, s)
  else
    let k := Z.to_nat (Z.min n (Z.of_nat (length s))) in
    let buf := firstn k s in
    let rest := skipn k s in
    (* reader.ReadString('\n') *)
    let '(endl, eof, rest') :=
      match split_at 10 rest with
      | (a, Some r) => (a ++ [10], false, r)
      | (a, None) => (a, true, [])
      end in
    if negb (Z.of_nat (length buf) =? n)%Z then (buf, SUnexpectedEOF, rest')
    else if eof then (buf, SOk, rest')
    else if beq_bytes endl CRLF then (buf, SOk, rest')
    else (buf, SBadEnd, rest').

(* ---------- ReadFrom ---------- *)
Record pfile := { pf_data : bytes; pf_name : bytes; pf_err : bool }.
Inductive rf_status := RfOk | RfHeaderErr (eof : bool) | RfSectionErr (e : serr) | RfDateErr | RfDateUnknown.
Record parsed := { p_hdr : header; p_body : bytes; p_files : list pfile; p_status : rf_status }.

Definition asc_space_tab (b : N) : bool :=
  (b =? 9) || (b =? 10) || (b =? 11) || (b =? 12) || (b =? 13) || (b =? 32).

(* err: the error of the last section read so far (Go keeps only the last one) *)
Fixpoint read_files (vals : list bytes) (s : bytes) (err : serr) : list pfile * serr * bytes :=
  match vals with
  | [] => ([], err, s)
  | v :: r =>
      match split_at 32 v with
      | (_, None) =>
          let '(fs, e, s') := read_files r s err in
          ({| pf_data := []; pf_name := []; pf_err := true |} :: fs, e, s')
      | (sz, Some name) =>
          let '(data, se, s1) := read_section s (atoi_ignore_err sz) in
          let bad := match se with SOk => false | _ => true end in
          let '(fs, e, s') := read_files r s1 se in
          ({| pf_data := data; pf_name := name; pf_err := bad |} :: fs, e, s')
      end
  end.

Definition read_from (input : bytes) : parsed :=
  let s0 := drop_while asc_space_tab input in
  let '(h, he, s1) := read_mime_header (S (length s0)) s0 [] in
  match he with
  | HErrNone =>
      let '(body, se, s2) := read_section s1 (atoi_ignore_err (hget h str_Body)) in
      match se with
      | SOk =>
          let '(files, ferr, _) := read_files (hvalues h str_File) s2 SOk in
          let st := match ferr with
                    | SOk => match parse_date_ok (hget h str_Date) with
                             | Some true => RfOk | Some false => RfDateErr | None => RfDateUnknown end
                    | e => RfSectionErr e
                    end in
          {| p_hdr := h; p_body := body; p_files := files; p_status := st |}
      | e => {| p_hdr := h; p_body := body; p_files := []; p_status := RfSectionErr e |}
      end
  | HErrEOF => {| p_hdr := h; p_body := []; p_files := []; p_status := RfHeaderErr true |}
  | HErrMalformed => {| p_hdr := h; p_body := []; p_files := []; p_status := RfHeaderErr false |}
  end.

(* ---------- addresses ---------- *)
Record address := { a_proto : bytes; a_addr : bytes }.
Definition str_SMTP : bytes := [83;77;84;80].
Definition str_winlink_org : bytes := [119;105;110;108;105;110;107;46;111;114;103].

Definition address_from_string (s : bytes) : address :=
  let a :=
    match split_on 58 s with
    | [p; q] => {| a_proto := p; a_addr := q |}
    | _ =>
        match split_on 64 s with
        | [_] => {| a_proto := []; a_addr := s |}
        | p0 :: p1 :: _ =>
            if equal_fold p1 str_winlink_org then {| a_proto := []; a_addr := p0 |}
            else {| a_proto := str_SMTP; a_addr := s |}
        | [] => {| a_proto := []; a_addr := s |}
        end
    end in
  match a_proto a with
  | [] => {| a_proto := []; a_addr := upper (a_addr a) |}
  | _ => a
  end.

Definition address_string (a : address) : bytes :=
  match a_proto a with [] => a_addr a | p => p ++ [58] ++ a_addr a end.
