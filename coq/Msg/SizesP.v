(* Msg/SizesP.v — the decimal size fields (Body:, File:) are read back exactly for every section
   length below 2^63: sizes_ok holds for all realistic attachments. *)
From Coq Require Import List NArith ZArith Bool Lia.
From Verif Require Import Base.Bytes Base.BytesP B2F.Grammar B2F.GrammarP Msg.Message Msg.MessageP.
Import ListNotations.
Open Scope N_scope.

Lemma num_of_digits_value : forall l acc, forallb is_digit l = true ->
  num_of_digits l acc = Some (dec_value l acc).
Proof.
  induction l as [|d r IH]; intros acc H; [reflexivity|].
  cbn [forallb] in H. apply andb_true_iff in H. destruct H as [Hd Hr].
  cbn [num_of_digits dec_value]. unfold digit_val. rewrite Hd. apply IH. exact Hr.
Qed.

Lemma digits_no_special l : forallb is_digit l = true -> forall c, In c l -> c <> 32 /\ c <> 45 /\ c <> 43.
Proof.
  intros H c Hin. rewrite forallb_forall in H. specialize (H c Hin). unfold is_digit in H.
  apply andb_true_iff in H. destruct H as [H1 H2]. apply N.leb_le in H1. apply N.leb_le in H2. lia.
Qed.

Lemma split_at_notin_none c l : ~ In c l -> split_at c l = (l, None).
Proof.
  induction l as [|x r IH]; intros H; [reflexivity|]. cbn [split_at].
  destruct (x =? c) eqn:E; [apply N.eqb_eq in E; subst; exfalso; apply H; left; reflexivity|].
  rewrite IH; [reflexivity|]. intros Hin. apply H. right. exact Hin.
Qed.

Definition sign_of (s : bytes) : bool * bytes :=
  match s with 45 :: r => (true, r) | 43 :: r => (false, r) | _ => (false, s) end.

Lemma atoi_unfold s : atoi_ignore_err s =
  (let '(neg, digits) := sign_of s in
   match digits with
   | [] => 0%Z
   | _ => match num_of_digits digits 0 with
          | None => 0%Z
          | Some v => if neg then (if 9223372036854775808 <? v then (-9223372036854775808)%Z else (- Z.of_N v)%Z)
                      else (if 9223372036854775807 <? v then max_int else Z.of_N v)
          end
   end).
Proof. reflexivity. Qed.

Lemma sign_of_plain c r : c <> 45 -> c <> 43 -> sign_of (c :: r) = (false, c :: r).
Proof.
  intros H45 H43. unfold sign_of. destruct c as [|p]; [reflexivity|].
  destruct p as [p|p|]; try reflexivity;
  destruct p as [p|p|]; try reflexivity;
  destruct p as [p|p|]; try reflexivity;
  destruct p as [p|p|]; try reflexivity;
  destruct p as [p|p|]; try reflexivity;
  destruct p as [p|p|]; try reflexivity; congruence.
Qed.

Theorem size_field_roundtrip n : n < 9223372036854775808 ->
  atoi_ignore_err (dec_of_N n) = Z.of_N n /\
  fst (split_at 32 (dec_of_N n)) = dec_of_N n /\ snd (split_at 32 (dec_of_N n)) = None.
Proof.
  intros Hn.
  assert (Hd : forallb is_digit (dec_of_N n) = true).
  { pose proof (dec_all_digits n) as H. unfold all_digits in H. destruct (dec_of_N n); [discriminate|exact H]. }
  pose proof (dec_of_N_nonempty n) as Hne.
  assert (Hsp : ~ In 32 (dec_of_N n)) by (intros Hin; destruct (digits_no_special _ Hd _ Hin) as [H _]; congruence).
  split; [|rewrite split_at_notin_none by exact Hsp; split; reflexivity].
  rewrite atoi_unfold. destruct (dec_of_N n) as [|c r] eqn:E; [congruence|].
  destruct (digits_no_special _ Hd c (or_introl eq_refl)) as [_ [H45 H43]].
  rewrite sign_of_plain by assumption. rewrite num_of_digits_value by exact Hd. rewrite <- E.
  rewrite dec_roundtrip by (eapply N.lt_trans; [exact Hn|reflexivity]).
  destruct (9223372036854775807 <? n) eqn:El; [apply N.ltb_lt in El; lia|reflexivity].
Qed.

Theorem sizes_ok_all (datas : list bytes) :
  Forall (fun d => N.of_nat (length d) < 9223372036854775808) datas -> sizes_ok datas.
Proof.
  unfold sizes_ok. intros H. eapply Forall_impl; [|exact H]. intros d Hd. cbn beta.
  destruct (size_field_roundtrip _ Hd) as [H1 [H2 H3]]. rewrite nat_N_Z in H1. repeat split; assumption.
Qed.
