(* Mbox/DirP.v — the directory mailbox model keeps the reference mailbox's invariants over
   every well-formed history: folders never hold two messages with one MID, an outbound
   message is in exactly one of outbox and sent, an inbound proposal is rejected iff that MID
   is in the inbox (always deferred in send-only mode), a deferral lasts one session, an
   outbound query returns exactly the eligible messages without private headers. *)
From Coq Require Import Lia.
From Verif Require Import Base.Bytes Base.BytesP Msg.Message Mbox.Dir gen.Tables.
Open Scope N_scope.

(* ---------- folders ---------- *)
Lemma mids_ins f r x : In x (mids (ins f r)) <-> x = m_mid r \/ In x (mids f).
Proof.
  induction f as [|y f IH]; cbn [ins mids map In].
  - split; intros [H|H]; try contradiction; left; congruence.
  - destruct (bytes_leb (fname (m_mid r)) (fname (m_mid y))); cbn [map In].
    + split; [intros [H|[H|H]]|intros [H|[H|H]]]; auto.
    + fold (mids (ins f r)). fold (mids f). rewrite IH.
      split; [intros [H|[H|H]]|intros [H|[H|H]]]; auto.
Qed.

Lemma nodup_ins f r : NoDup (mids f) -> ~ In (m_mid r) (mids f) -> NoDup (mids (ins f r)).
Proof.
  induction f as [|y f IH]; intros H Hn; cbn [ins].
  - cbn. constructor; [intros []|constructor].
  - inversion H as [|? ? Hy Hf]; subst.
    destruct (bytes_leb (fname (m_mid r)) (fname (m_mid y))).
    + cbn [mids map]. constructor; assumption.
    + cbn [mids map]. fold (mids (ins f r)). constructor.
      * rewrite mids_ins. intros [X|X]; [|contradiction]. apply Hn. left. exact X.
      * apply IH; [exact Hf|]. intros X. apply Hn. right. exact X.
Qed.

Lemma mids_del f mid x : NoDup (mids f) -> (In x (mids (del f mid)) <-> In x (mids f) /\ x <> mid).
Proof.
  induction f as [|y f IH]; intros H; cbn [del mids map In]; [tauto|].
  inversion H as [|? ? Hy Hf]; subst. destruct (beq_bytes (m_mid y) mid) eqn:E.
  - apply beq_bytes_true in E. subst mid. fold (mids f). split.
    + intros Hx. split; [right; exact Hx|]. intros ->. contradiction.
    + intros [[X|X] Hne]; [congruence|exact X].
  - apply beq_bytes_false in E. cbn [map In]. fold (mids (del f mid)). fold (mids f). rewrite (IH Hf).
    split; [intros [X|[X1 X2]]; [subst; split; [left; reflexivity|exact E]|split; [right; exact X1|exact X2]]|].
    intros [[X|X] Hne]; [left; exact X|right; split; assumption].
Qed.

Lemma nodup_del f mid : NoDup (mids f) -> NoDup (mids (del f mid)).
Proof.
  induction f as [|y f IH]; intros H; cbn [del]; [constructor|].
  inversion H as [|? ? Hy Hf]; subst. destruct (beq_bytes (m_mid y) mid); [exact Hf|].
  cbn [mids map]. fold (mids (del f mid)). constructor; [|apply IH; exact Hf].
  rewrite (mids_del f mid (m_mid y) Hf). intros [X _]. contradiction.
Qed.

Lemma nodup_put f r : NoDup (mids f) -> NoDup (mids (put f r)).
Proof.
  intros H. unfold put. apply nodup_ins; [apply nodup_del; exact H|].
  rewrite (mids_del f (m_mid r) (m_mid r) H). intros [_ X]. congruence.
Qed.

Lemma mids_put f r x : NoDup (mids f) -> (In x (mids (put f r)) <-> x = m_mid r \/ In x (mids f)).
Proof.
  intros H. unfold put. rewrite mids_ins, (mids_del f (m_mid r) x H).
  split; [intros [X|[X _]]; auto|]. intros [X|X]; [left; exact X|].
  destruct (list_eq_dec N.eq_dec x (m_mid r)) as [E|E]; [left; exact E|right; split; assumption].
Qed.

Lemma find_some f mid r : find f mid = Some r -> In mid (mids f) /\ m_mid r = mid.
Proof.
  induction f as [|y f IH]; intros H; [discriminate|]. cbn [find] in H.
  destruct (beq_bytes (m_mid y) mid) eqn:E.
  - injection H as <-. apply beq_bytes_true in E. split; [left; exact E|exact E].
  - destruct (IH H) as [H1 H2]. split; [right; exact H1|exact H2].
Qed.

Lemma find_none f mid : find f mid = None <-> ~ In mid (mids f).
Proof.
  induction f as [|y f IH]; cbn [find mids map In]; [tauto|].
  destruct (beq_bytes (m_mid y) mid) eqn:E.
  - apply beq_bytes_true in E. split; [discriminate|]. intros X. exfalso. apply X. left. exact E.
  - apply beq_bytes_false in E. fold (mids f). rewrite IH. tauto.
Qed.

(* ---------- invariant ---------- *)
Definition Inv (d : mbox) : Prop :=
  NoDup (mids (d_in d)) /\ NoDup (mids (d_out d)) /\ NoDup (mids (d_sent d)) /\
  (forall x, In x (mids (d_out d)) -> ~ In x (mids (d_sent d))).

(* well-formed operation: a message is not queued again under the MID of one already sent *)
Definition wf_op (d : mbox) (o : op) : Prop :=
  match o with
  | DAddOut r => ~ In (m_mid r) (mids (d_sent d))
  | _ => True
  end.

Lemma inv_empty : Inv mbox_empty.
Proof. repeat split; try constructor. intros x []. Qed.

Theorem inv_step d o : Inv d -> wf_op d o -> Inv (fst (step d o)).
Proof.
  intros [Hi [Ho [Hs Hd]]] Hwf. unfold Inv. destruct o; cbn [step fst]; try (repeat split; assumption).
  - (* AddOut *) unfold set_folder; cbn [d_in d_out d_sent]. repeat split; try assumption.
    + apply nodup_put. exact Ho.
    + intros x Hx. rewrite (mids_put _ _ _ Ho) in Hx. destruct Hx as [->|Hx]; [exact Hwf|apply Hd; exact Hx].
  - (* SetSent *) destruct (find (d_out d) mid) as [r|] eqn:E; cbn [fst]; [|repeat split; assumption].
    destruct (find_some _ _ _ E) as [Hin Hm]. cbn [d_in d_out d_sent]. repeat split; try assumption.
    + apply nodup_del. exact Ho.
    + apply nodup_put. exact Hs.
    + intros x Hx. rewrite (mids_del _ _ _ Ho) in Hx. destruct Hx as [Hx Hne].
      rewrite (mids_put _ _ _ Hs). intros [X|X]; [congruence|exact (Hd x Hx X)].
  - (* ProcessInbound *) unfold set_folder; cbn [d_in d_out d_sent]. repeat split; try assumption.
    apply nodup_put. exact Hi.
  - (* SetUnread *) destruct (find (get_folder d f) mid) as [r|] eqn:E; cbn [fst]; [|repeat split; assumption].
    destruct (find_some _ _ _ E) as [Hin Hm].
    destruct f; unfold set_folder, get_folder in *; cbn [d_in d_out d_sent] in *; repeat split; try assumption;
      try (apply nodup_put; assumption).
    + intros x Hx. rewrite (mids_put _ _ _ Ho) in Hx. cbn [with_unread m_mid] in Hx.
      destruct Hx as [->|Hx]; [rewrite Hm; apply Hd; exact Hin|apply Hd; exact Hx].
    + intros x Hx. rewrite (mids_put _ _ _ Hs). cbn [with_unread m_mid].
      intros [X|X]; [subst x; rewrite Hm in Hx; exact (Hd mid Hx Hin)|exact (Hd x Hx X)].
Qed.

(* well-formed history *)
Fixpoint wf_history (d : mbox) (ops : list op) : Prop :=
  match ops with
  | [] => True
  | o :: r => wf_op d o /\ wf_history (fst (step d o)) r
  end.

Theorem inv_history ops : forall d, Inv d -> wf_history d ops -> Inv (final d ops).
Proof.
  induction ops as [|o r IH]; intros d H Hw; [exact H|]. destruct Hw as [H1 H2].
  cbn [final]. apply IH; [apply inv_step; assumption|exact H2].
Qed.

(* an outbound message stays in outbox-or-sent: no operation loses it *)
Lemma outbound_kept d o x : Inv d ->
  In x (mids (d_out d)) \/ In x (mids (d_sent d)) ->
  In x (mids (d_out (fst (step d o)))) \/ In x (mids (d_sent (fst (step d o)))).
Proof.
  intros [Hi [Ho [Hs Hd]]] Hx. destruct o; cbn [step fst]; try exact Hx.
  - unfold set_folder; cbn [d_out d_sent]. rewrite (mids_put _ _ _ Ho). tauto.
  - destruct (find (d_out d) mid) as [r|] eqn:E; cbn [fst]; [|exact Hx].
    destruct (find_some _ _ _ E) as [Hin Hm]. cbn [d_out d_sent].
    rewrite (mids_del _ _ _ Ho), (mids_put _ _ _ Hs). rewrite Hm.
    destruct Hx as [Hx|Hx]; [|tauto].
    destruct (list_eq_dec N.eq_dec x mid) as [->|Hne]; [right; left; reflexivity|left; split; assumption].
  - destruct (find (get_folder d f) mid) as [r|] eqn:E; cbn [fst]; [|exact Hx].
    destruct (find_some _ _ _ E) as [Hin Hm].
    destruct f; unfold set_folder, get_folder in *; cbn [d_out d_sent] in *; try exact Hx.
    + rewrite (mids_put _ _ _ Ho). tauto.
    + rewrite (mids_put _ _ _ Hs). tauto.
Qed.

Theorem partition ops : forall d x, Inv d -> wf_history d ops ->
  In x (mids (d_out d)) \/ In x (mids (d_sent d)) ->
  let d' := final d ops in
  (In x (mids (d_out d')) /\ ~ In x (mids (d_sent d'))) \/ (~ In x (mids (d_out d')) /\ In x (mids (d_sent d'))).
Proof.
  induction ops as [|o r IH]; intros d x H Hw Hx.
  - cbn [final]. destruct H as [_ [_ [_ Hd]]]. destruct Hx as [Hx|Hx].
    + left. split; [exact Hx|apply Hd; exact Hx].
    + right. split; [intros X; exact (Hd x X Hx)|exact Hx].
  - destruct Hw as [H1 H2]. cbn [final]. apply IH; [apply inv_step; assumption|exact H2|].
    apply outbound_kept; assumption.
Qed.

(* ---------- answers ---------- *)
Theorem answer_spec d mid :
  snd (step d (DGetInboundAnswer mid)) =
  ObAnswer (if d_sendonly d then AnsDefer else if mem_b mid (mids (d_in d)) then AnsReject else AnsAccept).
Proof.
  cbn [step snd]. f_equal. destruct (d_sendonly d); [reflexivity|].
  destruct (find (d_in d) mid) as [r|] eqn:E.
  - destruct (find_some _ _ _ E) as [Hin _].
    assert (X : mem_b mid (mids (d_in d)) = true).
    { unfold mem_b. apply existsb_exists. exists mid. split; [exact Hin|apply beq_bytes_refl]. }
    rewrite X. reflexivity.
  - apply find_none in E.
    assert (X : mem_b mid (mids (d_in d)) = false).
    { unfold mem_b. destruct (existsb (beq_bytes mid) (mids (d_in d))) eqn:EE; [|reflexivity].
      apply existsb_exists in EE. destruct EE as [y [Hy1 Hy2]]. apply beq_bytes_true in Hy2. subst y. contradiction. }
    rewrite X. reflexivity.
Qed.

(* a deferral lasts one session *)
Theorem deferral_one_session d so :
  d_deferred (fst (step d DPrepare)) = [] /\ d_deferred (fst (step d (DRestart so))) = [].
Proof. split; reflexivity. Qed.

(* the outbound query: exactly the eligible messages of the outbox, in listing order, none of
   them carrying a private header *)
Theorem outbound_spec d fws :
  snd (step d (DGetOutbound fws)) = ObMids (map (fun r => (m_mid r, false)) (filter (eligible d fws) (d_out d))).
Proof. reflexivity. Qed.

(* inbound messages are stored flagged unread *)
Theorem inbound_unread d r : NoDup (mids (d_in d)) ->
  exists r', find (d_in (fst (step d (DProcessInbound r)))) (m_mid r) = Some r' /\ m_unread r' = true /\ m_tag r' = m_tag r.
Proof.
  intros H. cbn [step fst]. unfold set_folder; cbn [d_in]. unfold put. cbn [with_unread m_mid].
  set (f := del (d_in d) (m_mid r)).
  assert (Hn : ~ In (m_mid r) (mids f)).
  { unfold f. rewrite (mids_del _ _ _ H). intros [_ X]. congruence. }
  clearbody f. induction f as [|y f IH].
  - cbn. rewrite beq_bytes_refl. eexists. split; [reflexivity|split; reflexivity].
  - cbn [ins]. destruct (bytes_leb _ _).
    + cbn [find m_mid]. rewrite beq_bytes_refl. eexists. split; [reflexivity|split; reflexivity].
    + cbn [find]. destruct (beq_bytes (m_mid y) (m_mid r)) eqn:E.
      * apply beq_bytes_true in E. exfalso. apply Hn. left. exact E.
      * apply IH. intros X. apply Hn. right. exact X.
Qed.
