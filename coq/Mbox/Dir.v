(* Mbox/Dir.v — model of the directory mailbox (mailbox/syncdir.go, after the three fix:
   commits) at the level of its folders, and the reference mailbox of property C10.
   A stored message is abstracted to the record [mrec]: what the mailbox logic looks at
   (MID, the receiver strings of To and Cc, the X-P2POnly and X-Unread flags) plus an opaque
   content tag.  Definitions only. *)
From Verif Require Import Base.Bytes Msg.Message gen.Tables.
Open Scope N_scope.

Record mrec := { m_mid : bytes; m_rcpts : list bytes; m_p2ponly : bool; m_unread : bool; m_tag : N }.

(* ---------- the directory: three folders, listed in file-name order ---------- *)
Definition fname (mid : bytes) : bytes := mid ++ MboxExt.

Fixpoint del (f : list mrec) (mid : bytes) : list mrec :=
  match f with
  | [] => []
  | x :: rest => if beq_bytes (m_mid x) mid then rest else x :: del rest mid
  end.
(* sorted insertion by file name *)
Fixpoint ins (f : list mrec) (r : mrec) : list mrec :=
  match f with
  | [] => [r]
  | x :: rest => if bytes_leb (fname (m_mid r)) (fname (m_mid x)) then r :: f else x :: ins rest r
  end.
(* writing a file: replaces the message with that MID, if any *)
Definition put (f : list mrec) (r : mrec) : list mrec := ins (del f (m_mid r)) r.

Fixpoint find (f : list mrec) (mid : bytes) : option mrec :=
  match f with
  | [] => None
  | x :: rest => if beq_bytes (m_mid x) mid then Some x else find rest mid
  end.

Record mbox := { d_in : list mrec; d_out : list mrec; d_sent : list mrec;
                 d_deferred : list bytes; d_sendonly : bool }.

Definition mbox_empty : mbox := {| d_in := []; d_out := []; d_sent := []; d_deferred := []; d_sendonly := false |}.

Inductive folder := FIn | FOut | FSent.

Inductive op :=
| DAddOut (r : mrec)
| DPrepare
| DRestart (sendonly : bool)                 (* a fresh DirHandler on the same directory *)
| DGetOutbound (fws : list bytes)
| DSetSent (mid : bytes)
| DSetDeferred (mid : bytes)
| DProcessInbound (r : mrec)
| DGetInboundAnswer (mid : bytes)
| DSetUnread (f : folder) (mid : bytes) (unread : bool)
| DList (f : folder).

Inductive obs :=
| ObNone
| ObMids (l : list (bytes * bool))            (* MID, unread flag (for GetOutbound: private headers present) *)
| ObAnswer (a : N)                            (* '+', '-', '=' *)
| ObFatal.                                    (* log.Fatalf: SetSent of a message that is not in the outbox *)

Definition mem_b (x : bytes) (l : list bytes) : bool := existsb (beq_bytes x) l.

(* IsOnlyReceiver(fw) for one of the forwarders *)
Definition only_receiver (r : mrec) (fws : list bytes) : bool :=
  match m_rcpts r with
  | [one] => existsb (fun fw => equal_fold one fw) fws
  | _ => false
  end.

Definition eligible (d : mbox) (fws : list bytes) (r : mrec) : bool :=
  negb (mem_b (m_mid r) (d_deferred d)) &&
  match fws with
  | [] => negb (m_p2ponly r)
  | _ => only_receiver r fws
  end.

Definition with_unread (r : mrec) (u : bool) : mrec :=
  {| m_mid := m_mid r; m_rcpts := m_rcpts r; m_p2ponly := m_p2ponly r; m_unread := u; m_tag := m_tag r |}.

Definition get_folder (d : mbox) (f : folder) : list mrec :=
  match f with FIn => d_in d | FOut => d_out d | FSent => d_sent d end.
Definition set_folder (d : mbox) (f : folder) (l : list mrec) : mbox :=
  match f with
  | FIn => {| d_in := l; d_out := d_out d; d_sent := d_sent d; d_deferred := d_deferred d; d_sendonly := d_sendonly d |}
  | FOut => {| d_in := d_in d; d_out := l; d_sent := d_sent d; d_deferred := d_deferred d; d_sendonly := d_sendonly d |}
  | FSent => {| d_in := d_in d; d_out := d_out d; d_sent := l; d_deferred := d_deferred d; d_sendonly := d_sendonly d |}
  end.

Definition step (d : mbox) (o : op) : mbox * obs :=
  match o with
  | DAddOut r => (set_folder d FOut (put (d_out d) r), ObNone)
  | DPrepare =>
      ({| d_in := d_in d; d_out := d_out d; d_sent := d_sent d; d_deferred := []; d_sendonly := d_sendonly d |}, ObNone)
  | DRestart so =>
      ({| d_in := d_in d; d_out := d_out d; d_sent := d_sent d; d_deferred := []; d_sendonly := so |}, ObNone)
  | DGetOutbound fws =>
      (d, ObMids (map (fun r => (m_mid r, false)) (filter (eligible d fws) (d_out d))))
  | DSetSent mid =>
      match find (d_out d) mid with
      | Some r => ({| d_in := d_in d; d_out := del (d_out d) mid; d_sent := put (d_sent d) r;
                      d_deferred := d_deferred d; d_sendonly := d_sendonly d |}, ObNone)
      | None => (d, ObFatal)
      end
  | DSetDeferred mid =>
      ({| d_in := d_in d; d_out := d_out d; d_sent := d_sent d; d_deferred := mid :: d_deferred d;
          d_sendonly := d_sendonly d |}, ObNone)
  | DProcessInbound r => (set_folder d FIn (put (d_in d) (with_unread r true)), ObNone)
  | DGetInboundAnswer mid =>
      (d, ObAnswer (if d_sendonly d then AnsDefer
                    else match find (d_in d) mid with Some _ => AnsReject | None => AnsAccept end))
  | DSetUnread f mid u =>
      match find (get_folder d f) mid with
      | Some r => (set_folder d f (put (get_folder d f) (with_unread r u)), ObNone)
      | None => (d, ObNone)
      end
  | DList f => (d, ObMids (map (fun r => (m_mid r, m_unread r)) (get_folder d f)))
  end.

Fixpoint run (d : mbox) (ops : list op) : list obs :=
  match ops with
  | [] => []
  | o :: r => let '(d', ob) := step d o in ob :: run d' r
  end.

Fixpoint final (d : mbox) (ops : list op) : mbox :=
  match ops with [] => d | o :: r => final (fst (step d o)) r end.

(* ---------- the reference mailbox of the property ---------- *)
(* outbox / sent / inbox as sets of MIDs with the message data; deferred lasts one session *)
Record spec := { s_outbox : list mrec; s_sent : list mrec; s_inbox : list mrec;
                 s_deferred : list bytes; s_sendonly : bool }.

Definition abs (d : mbox) : spec :=
  {| s_outbox := d_out d; s_sent := d_sent d; s_inbox := d_in d; s_deferred := d_deferred d; s_sendonly := d_sendonly d |}.

Definition mids (l : list mrec) : list bytes := map m_mid l.
