(* Mbox/ConfineP.v — proofs about Mbox/Confine.v: path.Clean is idempotent on its own
   output, joining a plain segment pushes it, and every path touched for any MID lies
   under the mailbox directory. *)
From Coq Require Import Lia ZifyN ZifyNat ZifyBool.
From Verif Require Import Base.Bytes Mbox.Confine gen.Tables.
Open Scope N_scope.

(* ---------- byte-string equality ---------- *)
Lemma beq_refl a : beq_bytes a a = true.
Proof. induction a as [|x a IH]; [reflexivity|]. cbn. rewrite N.eqb_refl, IH. reflexivity. Qed.
Lemma beq_eq a b : beq_bytes a b = true -> a = b.
Proof.
  revert b. induction a as [|x a IH]; intros [|y b] H; try reflexivity; try discriminate.
  cbn in H. apply andb_true_iff in H. destruct H as [H1 H2].
  apply N.eqb_eq in H1. subst. f_equal. apply IH. exact H2.
Qed.
Lemma beq_neq a b : a <> b -> beq_bytes a b = false.
Proof. intros H. destruct (beq_bytes a b) eqn:E; [apply beq_eq in E; contradiction|reflexivity]. Qed.

(* ---------- plain segments ---------- *)
Definition noslash (s : bytes) : Prop := Forall (fun b => b <> SEP) s.
(* a segment path.Clean keeps and that is not ".." *)
Definition plain (s : bytes) : Prop := s <> [] /\ s <> str_dot /\ s <> str_dotdot /\ noslash s.

Lemma clean_step_plain r st s : plain s -> clean_step r st s = s :: st.
Proof.
  intros [H1 [H2 [H3 _]]]. unfold clean_step.
  rewrite (beq_neq s []), (beq_neq s str_dot), (beq_neq s str_dotdot) by assumption. reflexivity.
Qed.

(* normal form of a cleaned segment list (outermost first): some ".." (only when not rooted)
   followed by plain segments *)
Definition normal (rooted : bool) (segs : list bytes) : Prop :=
  exists dd pl, segs = dd ++ pl /\ Forall (fun s => s = str_dotdot) dd /\ Forall plain pl
                /\ (rooted = true -> dd = []).

(* the stack (reversed) after cleaning is normal *)
Lemma clean_step_normal r st s :
  noslash s -> normal r (rev st) -> normal r (rev (clean_step r st s)).
Proof.
  intros Hs [dd [pl [E [Hdd [Hpl Hr]]]]]. unfold clean_step.
  destruct (beq_bytes s [] || beq_bytes s str_dot) eqn:E1.
  - exists dd, pl. auto.
  - apply orb_false_iff in E1. destruct E1 as [E1 E2].
    destruct (beq_bytes s str_dotdot) eqn:E3.
    + (* ".." *)
      destruct st as [|top rest].
      * cbn in E. destruct dd; [|discriminate]. destruct pl; [|discriminate].
        destruct r.
        -- exists [], []. cbn. repeat split; auto.
        -- exists [str_dotdot], []. cbn. repeat split; auto. discriminate.
      * cbn [rev] in E. destruct (beq_bytes top str_dotdot) eqn:E4.
        -- apply beq_eq in E4. subst top.
           (* top is "..": then pl = [] and all are ".." *)
           assert (Hpl0 : pl = []).
           { destruct pl as [|p pl'] using rev_ind; [reflexivity|].
             rewrite app_assoc in E. apply app_inj_tail in E. destruct E as [_ E]. subst p.
             apply Forall_app in Hpl. destruct Hpl as [_ Hp]. inversion Hp as [|? ? [_ [_ [Hp3 _]]] _].
             congruence. }
           subst pl. rewrite app_nil_r in E.
           exists (dd ++ [str_dotdot]), []. rewrite app_nil_r. cbn [rev]. rewrite E.
           split; [reflexivity|]. split; [apply Forall_app; split; [exact Hdd|repeat constructor]|].
           split; [constructor|]. intros Hrt. specialize (Hr Hrt). subst dd.
           destruct (rev rest); discriminate.
        -- (* pop a plain segment *)
           assert (Hne : pl <> []).
           { intros ->. rewrite app_nil_r in E. subst dd.
             apply Forall_app in Hdd. destruct Hdd as [_ Ht]. inversion Ht as [|? ? Ht1 _]. subst top.
             rewrite beq_refl in E4. discriminate. }
           destruct pl as [|p pl'] using rev_ind; [congruence|]. clear IHpl'.
           rewrite app_assoc in E. apply app_inj_tail in E. destruct E as [E _].
           exists dd, pl'. split; [exact E|]. split; [exact Hdd|].
           apply Forall_app in Hpl. split; [apply Hpl|exact Hr].
    + (* plain push *)
      cbn [rev]. exists dd, (pl ++ [s]). rewrite E, app_assoc. split; [reflexivity|].
      split; [exact Hdd|]. split; [|exact Hr].
      apply Forall_app. split; [exact Hpl|]. constructor; [|constructor].
      split; [intros ->; rewrite beq_refl in E1; discriminate|].
      split; [intros ->; rewrite beq_refl in E2; discriminate|].
      split; [intros ->; rewrite beq_refl in E3; discriminate|exact Hs].
Qed.

Lemma split_on_noslash c s : Forall (fun seg => Forall (fun b => b <> c) seg) (split_on c s).
Proof.
  induction s as [|x s IH]; [repeat constructor|].
  cbn [split_on]. destruct (split_on c s) as [|h t] eqn:E.
  - destruct (x =? c) eqn:Ex; repeat constructor. apply N.eqb_neq in Ex. exact Ex.
  - inversion IH as [|? ? Hh Ht]; subst. destruct (x =? c) eqn:Ex.
    + constructor; [constructor|]. constructor; assumption.
    + constructor; [|exact Ht]. constructor; [apply N.eqb_neq in Ex; exact Ex|exact Hh].
Qed.

Lemma fold_clean_normal r segs st :
  Forall noslash segs -> normal r (rev st) -> normal r (rev (fold_left (clean_step r) segs st)).
Proof.
  revert st. induction segs as [|s segs IH]; intros st Hs Hn; [exact Hn|].
  inversion Hs; subst. cbn [fold_left]. apply IH; [assumption|]. apply clean_step_normal; assumption.
Qed.

Theorem clean_segs_normal p : normal (is_rooted p) (clean_segs p).
Proof.
  unfold clean_segs. apply fold_clean_normal.
  - apply split_on_noslash.
  - exists [], []. cbn. repeat split; auto.
Qed.

(* ---------- re-cleaning a normal form ---------- *)
Lemma fold_dotdots dd st :
  Forall (fun s => s = str_dotdot) dd -> Forall (fun s => s = str_dotdot) st ->
  fold_left (clean_step false) dd st = rev dd ++ st.
Proof.
  revert st. induction dd as [|d dd IH]; intros st Hd Hst; [reflexivity|].
  inversion Hd as [|? ? Hd1 Hd2]; subst. cbn [fold_left].
  assert (Hstep : clean_step false st str_dotdot = str_dotdot :: st).
  { unfold clean_step. cbn [beq_bytes orb]. rewrite beq_refl.
    destruct st as [|t st']; [reflexivity|]. inversion Hst; subst. rewrite beq_refl. reflexivity. }
  rewrite Hstep, IH; [|assumption|constructor; [reflexivity|assumption]].
  cbn [rev]. rewrite <- app_assoc. reflexivity.
Qed.

Lemma fold_plain r pl st : Forall plain pl -> fold_left (clean_step r) pl st = rev pl ++ st.
Proof.
  revert st. induction pl as [|p pl IH]; intros st H; [reflexivity|].
  inversion H; subst. cbn [fold_left]. rewrite clean_step_plain by assumption.
  rewrite IH by assumption. cbn [rev]. rewrite <- app_assoc. reflexivity.
Qed.

Lemma fold_normal r segs :
  normal r segs -> fold_left (clean_step r) segs [] = rev segs.
Proof.
  intros [dd [pl [E [Hdd [Hpl Hr]]]]]. subst segs. rewrite fold_left_app.
  destruct r.
  - rewrite (Hr eq_refl). cbn [fold_left app]. rewrite fold_plain by assumption. apply app_nil_r.
  - rewrite (fold_dotdots dd []) by (assumption || constructor). rewrite app_nil_r.
    rewrite fold_plain by assumption. rewrite rev_app_distr. reflexivity.
Qed.

(* the text of a cleaned path *)
Definition render (rooted : bool) (segs : list bytes) : bytes :=
  if rooted then SEP :: join_with SEP segs
  else match segs with [] => str_dot | _ => join_with SEP segs end.

Lemma normal_noslash r segs : normal r segs -> Forall (fun d => Forall (fun x => x <> SEP) d) segs.
Proof.
  intros [dd [pl [E [Hdd [Hpl _]]]]]. subst. apply Forall_app. split.
  - eapply Forall_impl; [|exact Hdd]. intros a ->. repeat constructor; discriminate.
  - eapply Forall_impl; [|exact Hpl]. intros a [_ [_ [_ H]]]. exact H.
Qed.

Lemma split_on_nosep c s : Forall (fun b => b <> c) s -> split_on c s = [s].
Proof.
  induction s as [|x s IH]; intros H; [reflexivity|].
  inversion H as [|? ? Hx Hs]; subst. cbn [split_on]. rewrite IH by assumption.
  destruct (x =? c) eqn:E; [apply N.eqb_eq in E; contradiction|reflexivity].
Qed.

Lemma split_on_cons_sep c b : split_on c (c :: b) = [] :: split_on c b.
Proof.
  cbn [split_on]. rewrite N.eqb_refl. destruct (split_on c b) eqn:E; [|reflexivity].
  destruct b; cbn in E; [discriminate|]. destruct (split_on c b); destruct (n =? c); discriminate.
Qed.

Lemma split_on_app_sep c a b :
  Forall (fun x => x <> c) a -> split_on c (a ++ c :: b) = a :: split_on c b.
Proof.
  induction a as [|x a IH]; intros H.
  - apply split_on_cons_sep.
  - inversion H as [|? ? Hx Ha]; subst. cbn [app split_on]. rewrite IH by assumption.
    destruct (x =? c) eqn:E; [apply N.eqb_eq in E; contradiction|reflexivity].
Qed.

Lemma split_join c ds :
  ds <> [] -> Forall (fun d => Forall (fun x => x <> c) d) ds ->
  split_on c (join_with c ds) = ds.
Proof.
  induction ds as [|d r IH]; intros Hne H; [congruence|].
  inversion H as [|? ? Hd Hr]; subst.
  destruct r as [|d2 r'].
  - cbn [join_with]. apply split_on_nosep. assumption.
  - change (join_with c (d :: d2 :: r')) with (d ++ c :: join_with c (d2 :: r')).
    rewrite split_on_app_sep by assumption. rewrite IH; [reflexivity|discriminate|assumption].
Qed.

Lemma is_rooted_render r segs : normal r segs -> is_rooted (render r segs) = r.
Proof.
  intros Hn. destruct r; [reflexivity|]. unfold render.
  destruct segs as [|s segs']; [reflexivity|].
  pose proof (normal_noslash _ _ Hn) as Hns. inversion Hns as [|? ? Hs _]; subst.
  destruct Hn as [dd [pl [E [Hdd [Hpl _]]]]].
  assert (Hs0 : s <> []).
  { destruct dd as [|d dd'].
    - cbn in E. subst pl. inversion Hpl as [|? ? [H1 _] _]. exact H1.
    - cbn in E. injection E as -> _. inversion Hdd; subst. discriminate. }
  destruct s as [|x s']; [congruence|]. inversion Hs as [|? ? Hx _]; subst.
  destruct segs'; cbn; destruct x as [|p]; try reflexivity;
    repeat (destruct p as [p|p|]; try reflexivity); exfalso; apply Hx; reflexivity.
Qed.

(* cleaning the text of a normal form gives the normal form back *)
Theorem clean_segs_render r segs : normal r segs -> clean_segs (render r segs) = segs.
Proof.
  intros Hn. unfold clean_segs. rewrite (is_rooted_render r segs Hn).
  pose proof (normal_noslash _ _ Hn) as Hns.
  destruct r; unfold render.
  - destruct segs as [|s segs'].
    + cbn. reflexivity.
    + rewrite split_on_cons_sep, split_join by (discriminate || assumption).
      cbn [fold_left]. change (clean_step true [] []) with (@nil bytes).
      change (fold_left (clean_step true) segs' (clean_step true [] s))
        with (fold_left (clean_step true) (s :: segs') []).
      rewrite fold_normal by exact Hn. apply rev_involutive.
  - destruct segs as [|s segs'].
    + cbn. reflexivity.
    + rewrite split_join by (discriminate || assumption).
      rewrite fold_normal by exact Hn. apply rev_involutive.
Qed.

Lemma path_clean_render p : p <> [] -> path_clean p = render (is_rooted p) (clean_segs p).
Proof. intros H. destruct p; [congruence|]. reflexivity. Qed.

(* ---------- joining ---------- *)
Lemma split_on_nonempty c a : split_on c a <> [].
Proof.
  destruct a as [|x a]; [discriminate|]. cbn [split_on].
  destruct (split_on c a); destruct (x =? c); discriminate.
Qed.

Lemma split_on_app_sep' c a b : split_on c (a ++ c :: b) = split_on c a ++ split_on c b.
Proof.
  induction a as [|x a IH].
  - cbn [app]. rewrite split_on_cons_sep. reflexivity.
  - cbn [app split_on]. rewrite IH.
    destruct (split_on c a) as [|h t] eqn:E; [exfalso; exact (split_on_nonempty c a E)|].
    cbn [app]. destruct (x =? c); reflexivity.
Qed.

Lemma is_rooted_app a b : a <> [] -> is_rooted (a ++ b) = is_rooted a.
Proof. destruct a; [congruence|reflexivity]. Qed.

(* cleaning  a "/" b  continues the cleaning of a with b's segments *)
Lemma clean_segs_app_sep a b :
  a <> [] ->
  clean_segs (a ++ SEP :: b) =
  rev (fold_left (clean_step (is_rooted a)) (split_on SEP b) (rev (clean_segs a))).
Proof.
  intros Ha. unfold clean_segs. rewrite is_rooted_app by exact Ha.
  rewrite split_on_app_sep', fold_left_app, rev_involutive. reflexivity.
Qed.

(* ---------- pushing plain segments ---------- *)
Lemma normal_snoc r segs s : normal r segs -> plain s -> normal r (segs ++ [s]).
Proof.
  intros [dd [pl [E [Hdd [Hpl Hr]]]]] Hs. exists dd, (pl ++ [s]). subst segs.
  rewrite app_assoc. repeat split; auto. apply Forall_app. split; [exact Hpl|repeat constructor; apply Hs].
Qed.

Lemma clean_segs_path_clean q : q <> [] -> clean_segs (path_clean q) = clean_segs q.
Proof.
  intros Hq. rewrite path_clean_render by exact Hq. apply clean_segs_render. apply clean_segs_normal.
Qed.

Lemma is_rooted_path_clean q : q <> [] -> is_rooted (path_clean q) = is_rooted q.
Proof.
  intros Hq. rewrite path_clean_render by exact Hq. apply is_rooted_render. apply clean_segs_normal.
Qed.

Lemma path_clean_nonempty q : path_clean q <> [].
Proof.
  destruct q as [|x q]; [discriminate|]. unfold path_clean.
  destruct (is_rooted (x :: q)); [discriminate|].
  destruct (clean_segs (x :: q)) as [|s segs] eqn:E; [discriminate|].
  pose proof (clean_segs_normal (x :: q)) as Hn. rewrite E in Hn.
  destruct Hn as [dd [pl [E2 [Hdd [Hpl _]]]]].
  assert (Hs0 : s <> []).
  { destruct dd as [|d dd'].
    - cbn in E2. subst pl. inversion Hpl as [|? ? [H1 _] _]. exact H1.
    - cbn in E2. injection E2 as -> _. inversion Hdd; subst. discriminate. }
  destruct s; [congruence|]. destruct segs; discriminate.
Qed.

(* a directory constant such as "/in/": one plain segment between separators *)
Definition dir_const (D d : bytes) : Prop := split_on SEP D = [[]; d; []] /\ plain d /\ D <> [].

Lemma plain_split s : plain s -> split_on SEP s = [s].
Proof. intros [_ [_ [_ H]]]. apply split_on_nosep. exact H. Qed.

Lemma clean_step_empty r st : clean_step r st [] = st.
Proof. reflexivity. Qed.

Lemma fold_dir r d st : plain d -> fold_left (clean_step r) [[]; d; []] st = d :: st.
Proof.
  intros Hd. cbn [fold_left]. rewrite !clean_step_empty. apply clean_step_plain. exact Hd.
Qed.

(* path.Join(base, D, name) *)
Lemma join3_segs base D d name :
  base <> [] -> dir_const D d -> plain name ->
  let p := path_join [base; D; name] in
  is_rooted p = is_rooted base /\ clean_segs p = clean_segs base ++ [d; name].
Proof.
  intros Hb [HD [Hd HD0]] Hn p. unfold p, path_join.
  assert (Hname : name <> []) by apply Hn.
  cbn [filter]. rewrite (beq_neq base []), (beq_neq D []), (beq_neq name []) by assumption.
  cbn [negb]. change (join_with SEP [base; D; name]) with (base ++ SEP :: (D ++ SEP :: name)).
  assert (Hq : base ++ SEP :: D ++ SEP :: name <> []) by (destruct base; [congruence|discriminate]).
  rewrite is_rooted_path_clean, clean_segs_path_clean by exact Hq.
  split; [apply is_rooted_app; exact Hb|].
  rewrite clean_segs_app_sep by exact Hb.
  rewrite split_on_app_sep', HD, (plain_split name Hn).
  rewrite fold_left_app, (fold_dir _ d _ Hd). cbn [fold_left].
  rewrite clean_step_plain by exact Hn.
  cbn [rev]. rewrite rev_involutive, <- app_assoc. reflexivity.
Qed.

(* path.Join(path.Join(base, D), name) *)
Lemma join2_segs base D d :
  base <> [] -> dir_const D d ->
  let p := path_join [base; D] in
  p <> [] /\ is_rooted p = is_rooted base /\ clean_segs p = clean_segs base ++ [d].
Proof.
  intros Hb [HD [Hd HD0]] p. unfold p, path_join.
  cbn [filter]. rewrite (beq_neq base []), (beq_neq D []) by assumption.
  cbn [negb]. change (join_with SEP [base; D]) with (base ++ SEP :: D).
  assert (Hq : base ++ SEP :: D <> []) by (destruct base; [congruence|discriminate]).
  split; [apply path_clean_nonempty|].
  rewrite is_rooted_path_clean, clean_segs_path_clean by exact Hq.
  split; [apply is_rooted_app; exact Hb|].
  rewrite clean_segs_app_sep by exact Hb. rewrite HD.
  rewrite (fold_dir _ d _ Hd).
  cbn [rev]. rewrite rev_involutive. reflexivity.
Qed.

Lemma join_dir_name dir name :
  dir <> [] -> plain name ->
  let p := path_join [dir; name] in
  is_rooted p = is_rooted dir /\ clean_segs p = clean_segs dir ++ [name].
Proof.
  intros Hd Hn p. unfold p, path_join.
  assert (Hname : name <> []) by apply Hn.
  cbn [filter]. rewrite (beq_neq dir []), (beq_neq name []) by assumption.
  cbn [negb]. change (join_with SEP [dir; name]) with (dir ++ SEP :: name).
  assert (Hq : dir ++ SEP :: name <> []) by (destruct dir; [congruence|discriminate]).
  rewrite is_rooted_path_clean, clean_segs_path_clean by exact Hq.
  split; [apply is_rooted_app; exact Hd|].
  rewrite clean_segs_app_sep by exact Hd. rewrite (plain_split name Hn).
  cbn [fold_left]. rewrite clean_step_plain by exact Hn.
  cbn [rev]. rewrite rev_involutive. reflexivity.
Qed.

(* ---------- file names ---------- *)
Lemma existsb_false_forall (f : N -> bool) l : existsb f l = false -> Forall (fun b => f b = false) l.
Proof.
  induction l as [|x l IH]; intros H; [constructor|]. cbn in H. apply orb_false_iff in H.
  destruct H. constructor; auto.
Qed.

Lemma ext_noslash : noslash MboxExt /\ (3 <= length MboxExt)%nat.
Proof. split; [repeat constructor; discriminate|cbn; lia]. Qed.

Lemma plain_long s : noslash s -> (3 <= length s)%nat -> plain s.
Proof.
  intros Hs Hl. repeat split; try exact Hs; intros ->; cbn in Hl; lia.
Qed.

Lemma file_name_plain mid name : file_name mid = Some name -> plain name /\ plain (tmp_name name).
Proof.
  unfold file_name. destruct (mid_ok mid) eqn:E; [|discriminate]. intros [= <-].
  unfold mid_ok in E. apply negb_true_iff in E. apply orb_false_iff in E. destruct E as [_ E].
  apply existsb_false_forall in E.
  assert (Hm : noslash mid).
  { eapply Forall_impl; [|exact E]. intros b Hb Hc. subst b. cbn in Hb. discriminate. }
  destruct ext_noslash as [He Hl].
  assert (Hn : noslash (mid ++ MboxExt)) by (apply Forall_app; split; assumption).
  split.
  - apply plain_long; [exact Hn|rewrite app_length; lia].
  - apply plain_long.
    + unfold tmp_name. apply Forall_app. split; [repeat constructor; discriminate|].
      apply Forall_app. split; [exact Hn|repeat constructor; discriminate].
    + unfold tmp_name. rewrite !app_length. cbn. lia.
Qed.

Lemma dir_inbox : dir_const DIR_INBOX [105; 110].
Proof. split; [reflexivity|]. split; [|discriminate]. repeat split; try discriminate. repeat constructor; discriminate. Qed.
Lemma dir_outbox : dir_const DIR_OUTBOX [111; 117; 116].
Proof. split; [reflexivity|]. split; [|discriminate]. repeat split; try discriminate. repeat constructor; discriminate. Qed.
Lemma dir_sent : dir_const DIR_SENT [115; 101; 110; 116].
Proof. split; [reflexivity|]. split; [|discriminate]. repeat split; try discriminate. repeat constructor; discriminate. Qed.

Definition under_strong (base p : bytes) : Prop :=
  is_rooted p = is_rooted base /\
  exists extra, extra <> [] /\ clean_segs p = clean_segs base ++ extra /\ Forall plain extra.

Lemma under_strong_under base p : under_strong base p -> under base p.
Proof.
  intros [H1 [extra [H2 [H3 H4]]]]. split; [exact H1|]. exists extra. repeat split; auto.
  eapply Forall_impl; [|exact H4]. intros a [_ [_ [Ha _]]]. exact Ha.
Qed.

Theorem touched_confined base op mid p :
  base <> [] -> In p (touched base op mid) -> under_strong base p.
Proof.
  intros Hb Hin. unfold touched in Hin.
  destruct (file_name mid) as [name|] eqn:E; [|contradiction].
  destruct (file_name_plain mid name E) as [Hn Ht].
  assert (J3 : forall D d nm, dir_const D d -> plain nm -> under_strong base (path_join [base; D; nm])).
  { intros D d nm HD Hnm. pose proof (join3_segs base D d nm Hb HD Hnm) as H3. cbv zeta in H3. destruct H3 as [R S].
    unfold under_strong. split; [exact R|]. exists [d; nm]. split; [discriminate|]. split; [exact S|].
    constructor; [apply HD|]. constructor; [exact Hnm|constructor]. }
  assert (J2 : forall D d nm, dir_const D d -> plain nm ->
               under_strong base (path_join [path_join [base; D]; nm])).
  { intros D d nm HD Hnm. pose proof (join2_segs base D d Hb HD) as H2. cbv zeta in H2. destruct H2 as [N0 [R S]].
    pose proof (join_dir_name (path_join [base; D]) nm N0 Hnm) as H4. cbv zeta in H4. destruct H4 as [R2 S2].
    unfold under_strong. split; [etransitivity; [exact R2|exact R]|]. exists [d; nm]. split; [discriminate|].
    split; [etransitivity; [exact S2|]; etransitivity; [apply (f_equal (fun l => l ++ [nm])); exact S|]; rewrite <- app_assoc; reflexivity|].
    constructor; [apply HD|]. constructor; [exact Hnm|constructor]. }
  destruct op; cbn [In] in Hin.
  - destruct Hin as [<-|[<-|[]]]; eapply J2; eauto using dir_inbox.
  - destruct Hin as [<-|[]]; eapply J3; eauto using dir_inbox.
  - destruct Hin as [<-|[<-|[]]]; eapply J3; eauto using dir_outbox, dir_sent.
  - contradiction.
  - destruct Hin as [<-|[<-|[]]]; eapply J3; eauto using dir_outbox.
Qed.

(* an invalid MID touches nothing *)
Theorem touched_invalid base op mid : mid_ok mid = false -> touched base op mid = [].
Proof. intros H. unfold touched, file_name. rewrite H. reflexivity. Qed.
