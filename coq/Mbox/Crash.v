(* Mbox/Crash.v — model of what the directory mailbox does to the file system, as a sequence
   of system calls (mailbox/syncdir.go after the fix: commit that writes through a temporary
   file), and of a crash at any point of that sequence.  Definitions only.

   A file system is a finite map from file names (within one folder pair) to contents.  The
   mailbox operations that modify files:
     store (AddOut, ProcessInbound, SetUnread):  open(tmp, CREAT|TRUNC); write(tmp, data);
                                                 close; rename(tmp, name)
     SetSent:                                    rename(out/name, sent/name)
   tmp = "." name ".tmp" in the same directory.  A crash leaves the effects of a prefix of the
   calls; a write in flight leaves any prefix of its data.  Durability (fsync, reordering) is
   outside the model. *)
From Verif Require Import Base.Bytes Mbox.Confine gen.Tables.
Open Scope N_scope.

Definition path := (N * bytes)%type.            (* folder id, file name *)
Definition fsys := list (path * bytes).

Definition path_eqb (a b : path) : bool := (fst a =? fst b) && beq_bytes (snd a) (snd b).

Fixpoint fs_get (fs : fsys) (p : path) : option bytes :=
  match fs with
  | [] => None
  | (q, c) :: r => if path_eqb q p then Some c else fs_get r p
  end.
Fixpoint fs_del (fs : fsys) (p : path) : fsys :=
  match fs with
  | [] => []
  | (q, c) :: r => if path_eqb q p then fs_del r p else (q, c) :: fs_del r p
  end.
Definition fs_set (fs : fsys) (p : path) (c : bytes) : fsys := (p, c) :: fs_del fs p.

Inductive syscall :=
| SOpenTrunc (p : path)
| SWrite (p : path) (data : bytes)        (* appends: after SOpenTrunc the file is empty *)
| SClose (p : path)
| SRename (src dst : path).

Definition exec (fs : fsys) (c : syscall) : fsys :=
  match c with
  | SOpenTrunc p => fs_set fs p []
  | SWrite p data => fs_set fs p (match fs_get fs p with Some old => old ++ data | None => data end)
  | SClose _ => fs
  | SRename a b =>
      match fs_get fs a with
      | Some c => fs_set (fs_del fs a) b c
      | None => fs
      end
  end.

Definition F_IN : N := 0.
Definition F_OUT : N := 1.
Definition F_SENT : N := 2.

Definition tmp_of (p : path) : path := (fst p, tmp_name (snd p)).

(* the system calls of one mailbox operation *)
Inductive fop :=
| FStore (folder : N) (name : bytes) (data : bytes)      (* AddOut / ProcessInbound / SetUnread *)
| FSetSent (name : bytes).

Definition calls_of (o : fop) : list syscall :=
  match o with
  | FStore f name data =>
      let p := (f, name) in
      [SOpenTrunc (tmp_of p); SWrite (tmp_of p) data; SClose (tmp_of p); SRename (tmp_of p) p]
  | FSetSent name => [SRename (F_OUT, name) (F_SENT, name)]
  end.

(* crash after k complete calls; if the next call is a write, j bytes of it got out *)
Definition crash_state (fs : fsys) (calls : list syscall) (k j : nat) : fsys :=
  let fs1 := fold_left exec (firstn k calls) fs in
  match nth_error calls k with
  | Some (SWrite p data) => exec fs1 (SWrite p (firstn j data))
  | _ => fs1
  end.

(* what the loader looks at: names not starting with '.', with the message extension *)
Definition visible_name (n : bytes) : bool :=
  match n with
  | 46 :: _ => false
  | _ => suffixb MboxExt n
  end.
Definition visible (fs : fsys) : fsys := filter (fun e => visible_name (snd (fst e))) fs.
