(* Mbox/Confine.v — lexical model of path.Clean / path.Join and of the file paths the
   directory mailbox touches for a given MID (mailbox/syncdir.go after the fix: commit that
   introduced fileName).  Definitions only. *)
From Verif Require Import Base.Bytes gen.Tables.
Open Scope N_scope.

Definition SEP : N := 47.
Definition str_dot : bytes := [46].
Definition str_dotdot : bytes := [46; 46].

(* ---------- path.Clean on segments ---------- *)
(* a cleaned path: rooted flag and the stack of segments, innermost first (reversed) *)
Definition clean_step (rooted : bool) (stack : list bytes) (seg : bytes) : list bytes :=
  if beq_bytes seg [] || beq_bytes seg str_dot then stack
  else if beq_bytes seg str_dotdot then
    match stack with
    | [] => if rooted then [] else [str_dotdot]
    | top :: rest => if beq_bytes top str_dotdot then str_dotdot :: stack else rest
    end
  else seg :: stack.

Definition is_rooted (p : bytes) : bool := match p with 47 :: _ => true | _ => false end.

Definition clean_segs (p : bytes) : list bytes :=
  rev (fold_left (clean_step (is_rooted p)) (split_on SEP p) []).

Definition path_clean (p : bytes) : bytes :=
  match p with
  | [] => str_dot
  | _ =>
    let segs := clean_segs p in
    if is_rooted p then SEP :: join_with SEP segs
    else match segs with [] => str_dot | _ => join_with SEP segs end
  end.

(* path.Join: empty elements are ignored; the rest joined with "/" and cleaned *)
Definition path_join (elems : list bytes) : bytes :=
  match filter (fun e => negb (beq_bytes e [])) elems with
  | [] => []
  | es => path_clean (join_with SEP es)
  end.

(* ---------- fileName ---------- *)
Definition mid_ok (mid : bytes) : bool :=
  negb (beq_bytes mid [] || beq_bytes mid str_dot || beq_bytes mid str_dotdot
        || existsb (fun b => (b =? 47) || (b =? 92) || (b =? 0)) mid).

Definition file_name (mid : bytes) : option bytes :=
  if mid_ok mid then Some (mid ++ MboxExt) else None.

Definition tmp_name (name : bytes) : bytes := [46] ++ name ++ [46; 116; 109; 112].   (* "." name ".tmp" *)

(* ---------- paths touched per operation ---------- *)
Inductive mbox_op := OpProcessInbound | OpGetInboundAnswer | OpSetSent | OpSetDeferred | OpAddOut.

Definition touched (base : bytes) (op : mbox_op) (mid : bytes) : list bytes :=
  match file_name mid with
  | None => []
  | Some name =>
      match op with
      | OpProcessInbound => [path_join [path_join [base; DIR_INBOX]; tmp_name name];
                             path_join [path_join [base; DIR_INBOX]; name]]
      | OpGetInboundAnswer => [path_join [base; DIR_INBOX; name]]
      | OpSetSent => [path_join [base; DIR_OUTBOX; name]; path_join [base; DIR_SENT; name]]
      | OpSetDeferred => []
      | OpAddOut => [path_join [base; DIR_OUTBOX; tmp_name name]; path_join [base; DIR_OUTBOX; name]]
      end
  end.

(* p is inside the directory base: same rootedness and base's cleaned segments are a proper
   prefix of p's *)
Definition under (base p : bytes) : Prop :=
  is_rooted p = is_rooted base /\
  exists extra, extra <> [] /\ clean_segs p = clean_segs base ++ extra /\
                Forall (fun s => s <> str_dotdot) extra.
