(* Mbox/CrashP.v — crash safety of the temporary-file-and-rename discipline: at every crash
   point of a store or of SetSent, every file the loader looks at holds either its previous
   content or the complete new content (never a truncated message); all other visible files
   are untouched; a message being marked sent is visible in exactly one of outbox and sent. *)
From Coq Require Import Lia.
From Verif Require Import Base.Bytes Base.BytesP Mbox.Confine Mbox.Crash gen.Tables.
Open Scope N_scope.

Lemma path_eqb_refl p : path_eqb p p = true.
Proof. unfold path_eqb. rewrite N.eqb_refl, beq_bytes_refl. reflexivity. Qed.
Lemma path_eqb_true a b : path_eqb a b = true -> a = b.
Proof.
  unfold path_eqb. intros H. apply andb_true_iff in H. destruct H as [H1 H2].
  apply N.eqb_eq in H1. apply beq_bytes_true in H2. destruct a, b. cbn in *. subst. reflexivity.
Qed.
Lemma path_eqb_false a b : path_eqb a b = false -> a <> b.
Proof. intros H E. subst. rewrite path_eqb_refl in H. discriminate. Qed.

Lemma get_del_same fs p : fs_get (fs_del fs p) p = None.
Proof.
  induction fs as [|[q c] r IH]; [reflexivity|]. cbn [fs_del]. destruct (path_eqb q p) eqn:E; [exact IH|].
  cbn [fs_get]. rewrite E. exact IH.
Qed.
Lemma get_del_other fs p q : p <> q -> fs_get (fs_del fs p) q = fs_get fs q.
Proof.
  intros H. induction fs as [|[x c] r IH]; [reflexivity|]. cbn [fs_del]. destruct (path_eqb x p) eqn:E.
  - apply path_eqb_true in E. subst x. cbn [fs_get]. destruct (path_eqb p q) eqn:E2; [apply path_eqb_true in E2; contradiction|exact IH].
  - cbn [fs_get]. destruct (path_eqb x q); [reflexivity|exact IH].
Qed.
Lemma get_set_same fs p c : fs_get (fs_set fs p c) p = Some c.
Proof. unfold fs_set. cbn [fs_get]. rewrite path_eqb_refl. reflexivity. Qed.
Lemma get_set_other fs p q c : p <> q -> fs_get (fs_set fs p c) q = fs_get fs q.
Proof.
  intros H. unfold fs_set. cbn [fs_get]. destruct (path_eqb p q) eqn:E; [apply path_eqb_true in E; contradiction|].
  apply get_del_other. exact H.
Qed.

(* the temporary name is hidden and differs from every visible name *)
Lemma tmp_hidden n : visible_name (tmp_name n) = false.
Proof. reflexivity. Qed.
Lemma tmp_neq p : visible_name (snd p) = true -> tmp_of p <> p.
Proof.
  intros H E. destruct p as [f n]. unfold tmp_of in E. cbn [fst snd] in *. injection E as E.
  rewrite <- E in H. rewrite tmp_hidden in H. discriminate.
Qed.

(* ---------- store ---------- *)
(* at every crash point of storing data under a visible name p, every visible path q holds
   what it held before -- or, for p itself, possibly the complete new data *)
Theorem store_crash_safe fs f name data k j q :
  visible_name name = true -> visible_name (snd q) = true ->
  let p := (f, name) in
  let fs' := crash_state fs (calls_of (FStore f name data)) k j in
  fs_get fs' q = fs_get fs q \/ (q = p /\ fs_get fs' q = Some data).
Proof.
  intros Hv Hq p fs'. unfold fs', crash_state, calls_of. fold p.
  assert (Ht : tmp_of p <> q).
  { intros E. subst q. cbn [tmp_of snd] in Hq. rewrite tmp_hidden in Hq. discriminate. }
  (* k = 0..3 leave every visible path alone; k >= 4 has renamed *)
  destruct k as [|[|[|[|k]]]]; cbn [firstn fold_left nth_error exec].
  - left. reflexivity.
  - left. rewrite !get_set_other by exact Ht. reflexivity.
  - left. rewrite !get_set_other by exact Ht. reflexivity.
  - left. rewrite !get_set_other by exact Ht. reflexivity.
  - (* all four calls done (nth_error beyond the end) *)
    replace (nth_error (@nil syscall) k) with (@None syscall) by (destruct k; reflexivity).
    replace (firstn k (@nil syscall)) with (@nil syscall) by (destruct k; reflexivity).
    cbn [fold_left exec].
    rewrite !get_set_same. cbn [app].
    destruct (path_eqb p q) eqn:Epq.
    + apply path_eqb_true in Epq. subst q. right. split; [reflexivity|]. apply get_set_same.
    + apply path_eqb_false in Epq. left.
      rewrite get_set_other by exact Epq. rewrite get_del_other by exact Ht.
      rewrite !get_set_other by exact Ht. reflexivity.
Qed.

(* the stored file appears atomically: before the rename nothing visible changed at all *)
Theorem store_before_rename fs f name data k j q :
  visible_name (snd q) = true -> (k <= 3)%nat ->
  fs_get (crash_state fs (calls_of (FStore f name data)) k j) q = fs_get fs q.
Proof.
  intros Hq Hk. unfold crash_state, calls_of.
  assert (Ht : tmp_of (f, name) <> q).
  { intros E. subst q. cbn [tmp_of snd] in Hq. rewrite tmp_hidden in Hq. discriminate. }
  destruct k as [|[|[|[|k]]]]; cbn [firstn fold_left nth_error exec]; try lia;
    rewrite ?get_set_other by exact Ht; reflexivity.
Qed.

(* ---------- SetSent ---------- *)
Theorem setsent_crash_safe fs name k j c :
  fs_get fs (F_OUT, name) = Some c -> fs_get fs (F_SENT, name) = None ->
  let fs' := crash_state fs (calls_of (FSetSent name)) k j in
  (fs_get fs' (F_OUT, name) = Some c /\ fs_get fs' (F_SENT, name) = None) \/
  (fs_get fs' (F_OUT, name) = None /\ fs_get fs' (F_SENT, name) = Some c).
Proof.
  intros Ho Hs fs'. unfold fs', crash_state, calls_of.
  assert (Hne : (F_OUT, name) <> (F_SENT, name)) by (intros E; injection E; discriminate).
  destruct k as [|k]; cbn [firstn fold_left nth_error exec].
  - left. split; assumption.
  - replace (nth_error (@nil syscall) k) with (@None syscall) by (destruct k; reflexivity).
    replace (firstn k (@nil syscall)) with (@nil syscall) by (destruct k; reflexivity).
    cbn [fold_left exec]. rewrite Ho. right. split.
    + rewrite get_set_other by (intros X; apply Hne; symmetry; exact X). apply get_del_same.
    + apply get_set_same.
Qed.

(* other files are untouched by SetSent *)
Theorem setsent_others fs name k j q :
  q <> (F_OUT, name) -> q <> (F_SENT, name) ->
  fs_get (crash_state fs (calls_of (FSetSent name)) k j) q = fs_get fs q.
Proof.
  intros H1 H2. unfold crash_state, calls_of.
  destruct k as [|k]; cbn [firstn fold_left nth_error exec]; [reflexivity|].
  replace (nth_error (@nil syscall) k) with (@None syscall) by (destruct k; reflexivity).
  replace (firstn k (@nil syscall)) with (@nil syscall) by (destruct k; reflexivity).
  cbn [fold_left exec]. destruct (fs_get fs (F_OUT, name)); [|reflexivity].
  rewrite get_set_other by (intros X; apply H2; symmetry; exact X).
  apply get_del_other. intros X. apply H1. symmetry. exact X.
Qed.
