(* Extract/Extract.v — extraction of the executable models (never of proof files).
   Only ExtrOcamlBasic is used: bool, option, unit, list, prod, sumbool map to OCaml's;
   N, Z, positive and nat stay the extracted inductive types. *)
Require Import ExtrOcamlBasic.
From Verif Require Import Base.Bytes B2F.Md5 B2F.Secure B2F.Status B2F.Side B2F.Grammar Catalog.PosReport Transport.Url Transport.Agwpe Transport.Ardop Transport.Telnet Msg.Body Msg.Message Mbox.Confine Mbox.Dir Mbox.Crash Lzhuf.Huff Lzhuf.Enc Lzhuf.Crc Lzhuf.Dec Lzhuf.Canon.
Extraction Language OCaml.
Extraction "model.ml"
  md5 secure_response send_handshake
  dec_to_min_dec t_of course_string posrep_body
  parse_url reg_run
  set_body
  touched path_clean path_join
  compress new_reader read close_reader read_all_loop crc_impl xmodem
  Canon.compress Canon.decode Canon.crc16 Canon.p_table
  exchange clean_string parse_answers validate Mbox.Dir.run mbox_empty calls_of crash_state visible_name
  agw_encode agw_read_frames want conn_delivers data_frame outstanding_frame register_frame unregister_frame disconnect_frame connect_frame conn_reads
  ardop_crc16 host_cmd ardop_write ardop_decode parse_ctrl ctrl_run cs_init write_try tnc_parse_data
  telnet_client telnet_server dial_run
  session_ok send_reports recv_reports
  message_write read_from address_from_string address_string header_write parse_date_ok.
