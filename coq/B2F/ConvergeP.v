(* B2F/ConvergeP.v -- CONVERGENCE of repeated B2F exchanges on the same two mailboxes (B2F/Side.v,
   `exchange`): a session that is cut after any number of bytes in either direction, or in which the
   receiving handler reports a storage error, followed by a complete session of the mailboxes it
   leaves.  Builds on PairP.two_party_safety_intact (sent only if received, any cut) and
   DeliverP.complete_exchange_delivers (every complete session of a ready pair delivers exactly
   once).  No axioms; everything called a lemma, theorem or example below is proved (Print
   Assumptions at the end: closed under the global context).

   DEFINITIONS
   - next_handler h o / next_cfg c o: the mailbox after a session with outcome o, as the directory
     mailbox behaves: an entry leaves the outbox when SetSent was called for its MID (either flag),
     SetDeferred leaves it; every MID of a successful ProcessInbound is answered "reject" from now
     on ((m, AReject) in front of the policy); the marks of the session (h_gone) and the storage
     fault (h_fail) are gone.
   - cut_session a b in_a in_b: each side has received an INITIAL PART of what the other wrote
     (prefix in_a (x_wire (exchange b in_b)) /\ prefix in_b (x_wire (exchange a in_a))).  Symmetric;
     `closed` is the case "everything"; the hypothesis shape of two_party_safety (a cut k in one
     direction, in_a = firstn (length in_a) (x_wire ob)) is an instance and conversely
     (safety_shape_cut_session, cut_session_safety_shape), so both directions of a cut are covered,
     and so is a storage error (b's h_fail is unrestricted: example (4)).
   - side_sound x: what a side needs by itself (handler present, Prepare does not fail, prop_live,
     prop_wf, distinct MIDs).  side_ready_next: after ANY session the two next mailboxes are
     side_ready for each other (h_gone = [], h_fail = []); hs_compat_next: the handshake does not
     look at the handler.
   - resumed x y ox oy ox' oy' p: what a complete session of the next mailboxes does with the entry p
     of the ORIGINAL outbox of x, by the logs of the first session: reported there (SetSent, either
     flag) -> nothing more in the owner's log and nothing handed to the peer; not reported but stored
     by the peer -> exactly [EvSetSent mid true] (the peer rejects what it has), no second transfer;
     neither -> as in a complete session (accept: exactly one SetSent false and exactly one Process
     with the entry's own message; reject: exactly one SetSent true, no transfer; defer: exactly one
     SetDeferred, no transfer, p is still in the outbox after the second session).
   - conv_entry = (EvSetSent mid false in the first log of x -> EvProcess mid (pm_data p) true in the
     first log of y) /\ resumed.

   MAIN RESULTS
   1. next_session_resumes: for opposite roles, compatible handshakes and two sound sides, after ANY
      two outcomes ox oy (nothing at all is assumed about the first session) a complete session of
      next_cfg x ox and next_cfg y oy exists, and every one ends with nil on both sides and resumes
      every entry of both original outboxes.
   2. convergence_sym (generic owner/peer, cut_session) and convergence (the shape of
      two_party_safety: any in_a, any k): additionally sent-only-if-received holds in the first
      session in BOTH directions (sent_only_if_received), with the entry's own message.
   3. Read off entry by entry (section Entry): conv_reported (reported sent exactly once in the second
      session if not in the first, never if it was; unless deferred), conv_not_duplicated (a MID stored
      in the first session is not handed over in the second; at most once in the second),
      conv_rejected, conv_deferred, conv_delivered / conv_delivered_cases.
   4. Examples by vm_compute (section 5): the link fails in the middle of a transfer of the second
      block (six messages one way, two the other, a rejecting and deferring policy); after the
      checksum of the last transfer but before the peer's next command (stored, not reported: the
      next session reports it as rejected, no second transfer); in the middle of the second transfer
      of a block; a storage error.  convergence_dx: the theorem instantiated (hypotheses decided by
      hs_check / sound_check).

   WHAT IS ASSUMED FOR "DELIVERED" AND IS NOT PROVED HERE (genuine_session, a hypothesis of
   conv_delivered only): in the FIRST (cut) session (A) whatever the peer stored under the MID of an
   entry is that entry's message, and (B) the owner records "rejected" only if the peer's policy
   rejects.  Both hold for every closed session of a ready pair (genuine_of_delivered) and in the
   examples; for cut sessions they need a joint induction like PairP.pair_run, but driven by the
   RECEIVER's log resp. by a sender turn that FAILS after the marks (PairP.turn_S / turn_R only
   describe turns that succeed, CutP's nm lemmas only EvSetSent _ false).  conv_delivered_cases is
   the statement without them: the entry's message was handed over unless the owner recorded
   "rejected" in the first session, or the peer stored the MID in the first session without the
   owner being told.  See also the end of the file. *)
From Coq Require Import List NArith ZArith Bool Lia ZifyN ZifyNat ZifyBool Sorting.Permutation.
From Verif Require Import Base.Bytes Base.BytesP gen.Tables Lzhuf.Dec Msg.Message B2F.Secure B2F.Side B2F.SideP
  B2F.TermP B2F.CodecP B2F.CutP B2F.PairDefs B2F.PairLines B2F.PairXfer B2F.PairHs B2F.PairP B2F.PairIter B2F.DeliverP.
Import ListNotations.
Open Scope N_scope.

(* ================================================================================== *)
(* 1. The mailbox carried from one session to the next                                 *)
(* ================================================================================== *)
Definition sent_ev (m : bytes) (e : event) : bool :=
  match e with EvSetSent m' _ => beq_bytes m' m | _ => false end.
Definition stored_ev (m : bytes) (e : event) : bool :=
  match e with EvProcess m' _ true => beq_bytes m' m | _ => false end.
Definition sent_in (E : list event) (m : bytes) : bool := existsb (sent_ev m) E.
Definition stored_in (E : list event) (m : bytes) : bool := existsb (stored_ev m) E.
Definition stored_mids (E : list event) : list bytes :=
  flat_map (fun e => match e with EvProcess m _ true => [m] | _ => [] end) E.

Definition next_handler (h : hstate) (o : outcome) : hstate :=
  {| h_present := h_present h; h_prepare_err := h_prepare_err h;
     h_outbox := filter (fun p => negb (sent_in (x_events o) (o_mid p))) (h_outbox h);
     h_gone := [];
     h_policy := map (fun m => (m, AReject)) (stored_mids (x_events o)) ++ h_policy h;
     h_fail := [] |}.
Definition next_cfg (c : side_cfg) (o : outcome) : side_cfg :=
  {| c_master := c_master c; c_motd := c_motd c; c_hs := c_hs c; c_handler := next_handler (c_handler c) o |}.


(* ---------- the policy and the outbox of the next session ---------- *)
Definition pol_go (mid : bytes) : list (bytes * answer) -> answer :=
  fix go (l : list (bytes * answer)) : answer :=
    match l with
    | [] => AAccept
    | (m, a) :: r => if beq_bytes m mid then a else go r
    end.
Lemma policy_of_go h mid : policy_of h mid = pol_go mid (h_policy h).
Proof. reflexivity. Qed.

Lemma stored_in_mids E m : stored_in E m = mem_bytes m (stored_mids E).
Proof.
  unfold stored_in, stored_mids. induction E as [|e E IH]; [reflexivity|].
  cbn [existsb flat_map]. unfold mem_bytes in *. rewrite existsb_app, <- IH. f_equal.
  destruct e as [| | | | |m' d [|]|]; try reflexivity.
  cbn [stored_ev existsb]. rewrite orb_false_r. apply beq_bytes_sym.
Qed.

Lemma pol_go_rejects mid L l :
  pol_go mid (map (fun m => (m, AReject)) L ++ l) = if mem_bytes mid L then AReject else pol_go mid l.
Proof.
  induction L as [|m L IH]; [reflexivity|]. cbn [map app pol_go mem_bytes existsb].
  fold (pol_go mid). fold (mem_bytes mid L). rewrite (beq_bytes_sym mid m).
  destruct (beq_bytes m mid); [reflexivity|exact IH].
Qed.

Lemma policy_of_next h o m :
  policy_of (next_handler h o) m = if stored_in (x_events o) m then AReject else policy_of h m.
Proof.
  rewrite !policy_of_go, stored_in_mids. unfold next_handler. cbn [h_policy]. apply pol_go_rejects.
Qed.

Lemma In_next_outbox h o p :
  In p (h_outbox (next_handler h o)) <-> In p (h_outbox h) /\ sent_in (x_events o) (o_mid p) = false.
Proof. unfold next_handler. cbn [h_outbox]. rewrite filter_In, negb_true_iff. reflexivity. Qed.

Lemma sent_in_true E m : sent_in E m = true <-> exists r, In (EvSetSent m r) E.
Proof.
  unfold sent_in. rewrite existsb_exists. split.
  - intros (e&He&Hs). destruct e as [| |m' r| | | |]; try discriminate. cbn [sent_ev] in Hs.
    apply beq_bytes_true in Hs. subst m'. exists r. exact He.
  - intros (r&Hr). exists (EvSetSent m r). split; [exact Hr|]. cbn [sent_ev]. apply beq_bytes_refl.
Qed.
Lemma stored_in_true E m : stored_in E m = true <-> exists d, In (EvProcess m d true) E.
Proof.
  unfold stored_in. rewrite existsb_exists. split.
  - intros (e&He&Hs). destruct e as [| | | | |m' d [|]|]; try discriminate. cbn [stored_ev] in Hs.
    apply beq_bytes_true in Hs. subst m'. exists d. exact He.
  - intros (d&Hd). exists (EvProcess m d true). split; [exact Hd|]. cbn [stored_ev]. apply beq_bytes_refl.
Qed.

(* the two tests only look at the events the filters `own` and `proc` keep *)
Lemma sent_in_own E m : sent_in E m = sent_in (filter (own m) E) m.
Proof.
  unfold sent_in. induction E as [|e E IH]; [reflexivity|]. cbn [existsb filter].
  destruct (own m e) eqn:Eo; cbn [existsb]; rewrite <- IH; [reflexivity|].
  destruct e as [| |m' r| | | |]; try reflexivity. cbn [own sent_ev] in *. rewrite Eo. reflexivity.
Qed.
Lemma stored_in_proc E m : stored_in E m = stored_in (filter (proc m) E) m.
Proof.
  unfold stored_in. induction E as [|e E IH]; [reflexivity|]. cbn [existsb filter].
  destruct (proc m e) eqn:Eo; cbn [existsb]; rewrite <- IH; [reflexivity|].
  destruct e as [| | | | |m' d [|]|]; try reflexivity. cbn [proc stored_ev] in *. rewrite Eo. reflexivity.
Qed.

(* ---------- what a side needs, by itself, to take part in a delivering session ---------- *)
Definition side_sound (x : side_cfg) : Prop :=
  h_present (c_handler x) = true /\ h_prepare_err (c_handler x) = false /\
  Forall prop_live (h_outbox (c_handler x)) /\ Forall prop_wf (h_outbox (c_handler x)) /\
  NoDup (map o_mid (h_outbox (c_handler x))).

Lemma Forall_filter {T} (P : T -> Prop) f l : Forall P l -> Forall P (filter f l).
Proof.
  intros H. apply Forall_forall. intros x Hx. apply filter_In in Hx. apply (proj1 (Forall_forall _ _) H), Hx.
Qed.

Lemma side_sound_next x ox : side_sound x -> side_sound (next_cfg x ox).
Proof.
  intros (H1&H2&H3&H4&H5). unfold side_sound, next_cfg, next_handler. cbn [c_handler h_present h_prepare_err h_outbox].
  split; [exact H1|]. split; [exact H2|]. split; [apply Forall_filter, H3|]. split; [apply Forall_filter, H4|].
  apply NoDup_map_filter, H5.
Qed.

(* after a session, whatever happened in it, the two mailboxes are ready for each other: the marks
   of the session (h_gone) and the storage fault (h_fail) do not outlive it *)
Lemma side_ready_next x y ox oy : side_sound x -> side_ready (next_cfg x ox) (next_cfg y oy).
Proof.
  intros Hs. destruct (side_sound_next x ox Hs) as (H1&H2&H3&H4&H5).
  split; [exact H2|]. split; [|intros p _ []].
  split; [exact H1|]. split; [exact H3|]. split; [exact H4|]. split; [exact H5|].
  intros p _. reflexivity.
Qed.

(* ---------- the handshake does not look at the handler ---------- *)
Definition rmap {A} (f : sess -> sess) (r : res sess (A * sess)) : res sess (A * sess) :=
  match r with ROk (a, s) => ROk (a, f s) | RFail e s => RFail e (f s) | RPanic => RPanic end.
Definition rmap1 (f : sess -> sess) (r : res sess sess) : res sess sess :=
  match r with ROk s => ROk (f s) | RFail e s => RFail e (f s) | RPanic => RPanic end.

Lemma next_line_set_h pe s h : next_line pe (set_h s h) = rmap (fun t => set_h t h) (next_line pe s).
Proof.
  unfold next_line. cbn [set_h s_in]. destruct (read_until 13 (s_in s)) as [[raw rest]|]; [|reflexivity].
  destruct (pe && err_line (clean_string raw)); reflexivity.
Qed.

Lemma read_handshake_set_h h : forall f s d,
  read_handshake f (set_h s h) d = rmap (fun t => set_h t h) (read_handshake f s d).
Proof.
  induction f as [|f IH]; intros s d; [reflexivity|]. cbn [read_handshake]. rewrite next_line_set_h.
  cbn [set_h s_in s_master]. destruct (s_in s) as [|b r]; [reflexivity|].
  destruct ((b =? 70) && s_master s); [reflexivity|].
  destruct (next_line false s) as [[line s1]|e s1|]; cbn [rmap]; try reflexivity.
  destruct (prefixb [91] line && suffixb [93] line).
  { destruct (parse_sid line) as [sid|]; [|reflexivity]. destruct (containsb sFBComp2 sid); [apply IH|reflexivity]. }
  destruct (prefixb str_FWp line).
  { destruct (prefixb str_FWfull line); [apply IH|reflexivity]. }
  destruct (prefixb str_PQ line).
  { destruct (length line <? 5)%nat; [reflexivity|]. destruct (slice_from 5 line); [apply IH|reflexivity]. }
  destruct (suffixb [62] line); [reflexivity|apply IH].
Qed.

Lemma fold_wr_set_h {B} (g : B -> bytes) h l : forall s,
  fold_left (fun acc x => wr acc (g x)) l (set_h s h) = set_h (fold_left (fun acc x => wr acc (g x)) l s) h.
Proof. induction l as [|x l IH]; intros s; cbn [fold_left]; [reflexivity|]. rewrite <- IH. reflexivity. Qed.

Lemma handshake_set_h s h : handshake (set_h s h) = rmap1 (fun t => set_h t h) (handshake s).
Proof.
  unfold handshake. cbv zeta. cbn [set_h s_master s_in s_motd]. destruct (s_master s).
  - change (fold_left (fun acc l => wr acc (l ++ [13])) (s_motd s)
              {| s_in := s_in s; s_out := s_out s; s_ev := s_ev s; s_h := h; s_master := s_master s;
                 s_remote_nomsgs := s_remote_nomsgs s; s_sent := s_sent s; s_recv := s_recv s; s_cfg := s_cfg s; s_motd := s_motd s |})
      with (fold_left (fun acc l => wr acc (l ++ [13])) (s_motd s) (set_h s h)).
    rewrite (fold_wr_set_h (fun l => l ++ [13])).
    set (s1 := fold_left (fun acc l => wr acc (l ++ [13])) (s_motd s) s).
    unfold do_send_handshake. cbn [set_h s_cfg]. destruct (send_handshake (s_cfg s1) []) as [b|]; [|reflexivity].
    change (wr (set_h s1 h) b) with (set_h (wr s1 b) h). rewrite read_handshake_set_h.
    destruct (read_handshake (S (length (s_in s))) (wr s1 b) _) as [[d s3]|e s3|]; cbn [rmap]; try reflexivity.
    destruct (hd_have_sid d && negb (beq_bytes (hd_sid d) [])); reflexivity.
  - change {| s_in := s_in s; s_out := s_out s; s_ev := s_ev s; s_h := h; s_master := s_master s;
              s_remote_nomsgs := s_remote_nomsgs s; s_sent := s_sent s; s_recv := s_recv s; s_cfg := s_cfg s; s_motd := s_motd s |}
      with (set_h s h).
    rewrite read_handshake_set_h.
    destruct (read_handshake (S (length (s_in s))) s _) as [[d s3]|e s3|]; cbn [rmap]; try reflexivity.
    destruct (hd_have_sid d && negb (beq_bytes (hd_sid d) [])); [|reflexivity].
    unfold do_send_handshake. cbn [set_h s_cfg]. destruct (send_handshake (s_cfg s3) (hd_challenge d)); reflexivity.
Qed.

Lemma init_state_next c o i : init_state (next_cfg c o) i = set_h (init_state c i) (next_handler (c_handler c) o).
Proof.
  unfold init_state, next_cfg. cbn [c_handler c_master c_hs c_motd next_handler h_present].
  destruct (h_present (c_handler c)); reflexivity.
Qed.

Lemma hs_compat_next m s om os : hs_compat m s -> hs_compat (next_cfg m om) (next_cfg s os).
Proof.
  intros (M&S&sm&ss&Hm1&Hm2&Hm3&Hs1&Hs2&Hs3).
  exists M, S, (set_h sm (next_handler (c_handler m) om)), (set_h ss (next_handler (c_handler s) os)).
  rewrite !init_state_next, !handshake_set_h, Hm1, Hs1. repeat split; assumption.
Qed.

(* ================================================================================== *)
(* 2. A session that may be cut, in either direction, and may hit a storage fault      *)
(* ================================================================================== *)
(* each side has received an initial part of what the other side wrote.  (`closed` is the case in
   which both have received everything.)  Symmetric in the two sides. *)
Definition cut_session (a b : side_cfg) (in_a in_b : bytes) : Prop :=
  prefix in_a (x_wire (exchange b in_b)) /\ prefix in_b (x_wire (exchange a in_a)).

Lemma cut_session_sym a b in_a in_b : cut_session a b in_a in_b -> cut_session b a in_b in_a.
Proof. intros [H1 H2]. split; assumption. Qed.

Lemma closed_cut_session a b in_a in_b : closed a b in_a in_b -> cut_session a b in_a in_b.
Proof. intros [H1 H2]. split; [rewrite H2|rewrite H1]; apply prefix_refl. Qed.

Lemma firstn_of_prefix {A} (x y : list A) : prefix x y -> x = firstn (length x) y.
Proof. intros [z ->]. rewrite firstn_app, Nat.sub_diag, firstn_all. cbn [firstn]. rewrite app_nil_r. reflexivity. Qed.

(* the hypothesis shape of PairP.two_party_safety is a cut session *)
Lemma safety_shape_cut_session a b in_a k :
  in_a = firstn (length in_a) (x_wire (exchange b (firstn k (x_wire (exchange a in_a))))) ->
  cut_session a b in_a (firstn k (x_wire (exchange a in_a))).
Proof. intros H. split; [rewrite H at 1|]; apply firstn_prefix. Qed.

(* and conversely, with the cut at the length of what b received *)
Lemma cut_session_safety_shape a b in_a in_b : cut_session a b in_a in_b ->
  in_b = firstn (length in_b) (x_wire (exchange a in_a)) /\
  in_a = firstn (length in_a) (x_wire (exchange b (firstn (length in_b) (x_wire (exchange a in_a))))).
Proof.
  intros [H1 H2]. pose proof (firstn_of_prefix _ _ H2) as E2. split; [exact E2|].
  rewrite <- E2. apply firstn_of_prefix, H1.
Qed.

(* SENT ONLY IF RECEIVED, for the owner x of a message and its peer y (PairP.two_party_safety_intact
   in both directions): the peer has stored the entry's own message *)
Theorem sent_only_if_received (x y : side_cfg) (in_x in_y : bytes) :
  c_master x = negb (c_master y) ->
  hs_compat (if c_master x then x else y) (if c_master x then y else x) ->
  Forall prop_syn (h_outbox (c_handler x)) -> Forall prop_syn (h_outbox (c_handler y)) ->
  Forall prop_wf (h_outbox (c_handler x)) -> NoDup (map o_mid (h_outbox (c_handler x))) ->
  cut_session x y in_x in_y ->
  forall p, In p (h_outbox (c_handler x)) ->
    In (EvSetSent (o_mid p) false) (x_events (exchange x in_x)) ->
    In (EvProcess (o_mid p) (pm_data p) true) (x_events (exchange y in_y)).
Proof.
  intros Hrole Hhs Sx Sy Wx Nx Hcut p Hp Hm.
  destruct (cut_session_safety_shape _ _ _ _ Hcut) as [E1 E2].
  assert (Wf : outbox_wf (c_handler x)).
  { intros q Hq. apply prop_wf_iff. apply (proj1 (Forall_forall _ _) Wx), Hq. }
  destruct (two_party_safety_intact x y in_x (length in_y) (o_mid p) Hrole Hhs Sx Sy Wf Hm E2) as (q&data&Hq&Hmid&Hpm&Hev).
  rewrite <- E1 in Hev.
  assert (q = p) by (eapply NoDup_map_inj; eassumption). subst q.
  unfold pm_data. rewrite Hpm. exact Hev.
Qed.

(* ================================================================================== *)
(* 3. The next session, after ANY first session                                        *)
(* ================================================================================== *)
(* What a delivering session of the two next mailboxes does with an entry p of the ORIGINAL outbox
   of x, by what the logs E1x (owner) and E1y (peer) of the first session say about its MID.
   Nothing is assumed about the first session: E1x and E1y are the logs of arbitrary outcomes. *)
Definition resumed (x y : side_cfg) (ox oy ox' oy' : outcome) (p : oprop) : Prop :=
  let mid := o_mid p in
  let own2 := filter (own mid) (x_events ox') in let proc2 := filter (proc mid) (x_events oy') in
  if sent_in (x_events ox) mid then
    (* reported in the first session: the entry has left the outbox, nothing more happens *)
    own2 = [] /\ proc2 = []
  else if stored_in (x_events oy) mid then
    (* stored by the peer but not reported: the peer answers "reject" (it has the message), the
       owner records it sent, no second transfer *)
    own2 = [EvSetSent mid true] /\ proc2 = []
  else
    (* untouched: the session does what a complete session does *)
    match policy_of (c_handler y) mid with
    | AAccept => own2 = [EvSetSent mid false] /\ proc2 = [EvProcess mid (pm_data p) true]
    | AReject => own2 = [EvSetSent mid true] /\ proc2 = []
    | ADefer => own2 = [EvSetDeferred mid] /\ proc2 = [] /\
                In p (h_outbox (c_handler (next_cfg (next_cfg x ox) ox')))
    end.

Lemma resumed_of_delivered x y ox oy ox' oy' :
  NoDup (map o_mid (h_outbox (c_handler x))) ->
  delivered (c_handler (next_cfg x ox)) (c_handler (next_cfg y oy)) ox' oy' ->
  forall p, In p (h_outbox (c_handler x)) -> resumed x y ox oy ox' oy' p.
Proof.
  intros Nd [HD HA] p Hp. unfold resumed. cbv zeta. cbn [next_cfg c_handler] in HD, HA |- *.
  destruct (sent_in (x_events ox) (o_mid p)) eqn:Es.
  - apply HA. intros Hin. apply in_map_iff in Hin. destruct Hin as (q&Eq&Hq).
    apply In_next_outbox in Hq. destruct Hq as [_ Hq]. rewrite Eq, Es in Hq. discriminate.
  - assert (Hp' : In p (h_outbox (next_handler (c_handler x) ox))) by (apply In_next_outbox; split; assumption).
    specialize (HD p Hp'). rewrite policy_of_next in HD.
    destruct (stored_in (x_events oy) (o_mid p)); [exact HD|].
    destruct (policy_of (c_handler y) (o_mid p)).
    + destruct HD as (H1&H2&_). split; assumption.
    + exact HD.
    + destruct HD as [H1 H2]. split; [exact H1|]. split; [exact H2|].
      apply In_next_outbox. split; [exact Hp'|]. rewrite sent_in_own, H1. reflexivity.
Qed.

(* THE NEXT SESSION.  Whatever the first session did (ox, oy: ANY outcomes), the two mailboxes it
   leaves are ready for each other: a complete session of them exists, and every complete session
   ends with nil on both sides and resumes every entry of both original outboxes. *)
Theorem next_session_resumes (x y : side_cfg) (ox oy : outcome) :
  c_master x = negb (c_master y) ->
  hs_compat (if c_master x then x else y) (if c_master x then y else x) ->
  side_sound x -> side_sound y ->
  let x' := next_cfg x ox in let y' := next_cfg y oy in
  (exists in_x' in_y', closed x' y' in_x' in_y') /\
  (forall in_x' in_y', closed x' y' in_x' in_y' ->
     let ox' := exchange x' in_x' in let oy' := exchange y' in_y' in
     x_res ox' = XNil /\ x_res oy' = XNil /\
     (forall p, In p (h_outbox (c_handler x)) -> resumed x y ox oy ox' oy' p) /\
     (forall p, In p (h_outbox (c_handler y)) -> resumed y x oy ox oy' ox' p)).
Proof.
  intros Hrole Hhs Sx Sy x' y'.
  assert (Hhs' : hs_compat (if c_master x' then x' else y') (if c_master x' then y' else x')).
  { unfold x', y'. cbn [next_cfg c_master]. destruct (c_master x); apply hs_compat_next, Hhs. }
  destruct (complete_exchange_delivers x' y' Hrole Hhs' (side_ready_next x y ox oy Sx) (side_ready_next y x oy ox Sy))
    as [Hex Hall].
  split; [exact Hex|]. intros ix iy Hc. cbv zeta. destruct (Hall ix iy Hc) as (R1&R2&D1&D2).
  split; [exact R1|]. split; [exact R2|]. split.
  - apply resumed_of_delivered; [apply Sx|exact D1].
  - apply resumed_of_delivered; [apply Sy|exact D2].
Qed.

(* ================================================================================== *)
(* 4. CONVERGENCE: a cut (or storage-faulted) session followed by a complete one        *)
(* ================================================================================== *)
(* what the two sessions together do with the entry p of the outbox of x (peer y):
   sent only if received in the first session, and resumed by the second *)
Definition conv_entry (x y : side_cfg) (ox oy ox' oy' : outcome) (p : oprop) : Prop :=
  (In (EvSetSent (o_mid p) false) (x_events ox) -> In (EvProcess (o_mid p) (pm_data p) true) (x_events oy)) /\
  resumed x y ox oy ox' oy' p.

Lemma side_sound_syn x : side_sound x -> Forall prop_syn (h_outbox (c_handler x)).
Proof.
  intros (_&_&H&_). apply Forall_forall. intros p Hp. apply (proj1 (Forall_forall _ _) H) in Hp. apply Hp.
Qed.

(* generic form: x and y are interchangeable *)
Theorem convergence_sym (x y : side_cfg) (in_x in_y in_x' in_y' : bytes) :
  c_master x = negb (c_master y) ->
  hs_compat (if c_master x then x else y) (if c_master x then y else x) ->
  side_sound x -> side_sound y ->
  cut_session x y in_x in_y ->
  let ox := exchange x in_x in let oy := exchange y in_y in
  let x' := next_cfg x ox in let y' := next_cfg y oy in
  closed x' y' in_x' in_y' ->
  let ox' := exchange x' in_x' in let oy' := exchange y' in_y' in
  x_res ox' = XNil /\ x_res oy' = XNil /\
  (forall p, In p (h_outbox (c_handler x)) -> conv_entry x y ox oy ox' oy' p) /\
  (forall p, In p (h_outbox (c_handler y)) -> conv_entry y x oy ox oy' ox' p).
Proof.
  intros Hrole Hhs Sx Sy Hcut ox oy x' y' Hc ox' oy'.
  destruct (next_session_resumes x y ox oy Hrole Hhs Sx Sy) as [_ Hall].
  destruct (Hall in_x' in_y' Hc) as (R1&R2&D1&D2).
  split; [exact R1|]. split; [exact R2|].
  assert (Hrole' : c_master y = negb (c_master x)) by (rewrite Hrole; destruct (c_master y); reflexivity).
  assert (Hhs' : hs_compat (if c_master y then y else x) (if c_master y then x else y)).
  { rewrite Hrole in Hhs. destruct (c_master y); exact Hhs. }
  split; intros p Hp; (split; [|auto]).
  - apply (sent_only_if_received x y in_x in_y); try assumption;
      [apply side_sound_syn, Sx|apply side_sound_syn, Sy|apply Sx|apply Sx].
  - apply (sent_only_if_received y x in_y in_x); try assumption;
      [apply side_sound_syn, Sy|apply side_sound_syn, Sx|apply Sy|apply Sy|apply cut_session_sym, Hcut].
Qed.

(* in the hypothesis shape of PairP.two_party_safety: a receives in_a, b the first k bytes a wrote *)
Theorem convergence (a b : side_cfg) (in_a : bytes) (k : nat) (in_a' in_b' : bytes) :
  c_master a = negb (c_master b) ->
  hs_compat (if c_master a then a else b) (if c_master a then b else a) ->
  side_sound a -> side_sound b ->
  let oa := exchange a in_a in let ob := exchange b (firstn k (x_wire oa)) in
  in_a = firstn (length in_a) (x_wire ob) ->
  let a' := next_cfg a oa in let b' := next_cfg b ob in
  closed a' b' in_a' in_b' ->
  let oa' := exchange a' in_a' in let ob' := exchange b' in_b' in
  x_res oa' = XNil /\ x_res ob' = XNil /\
  (forall p, In p (h_outbox (c_handler a)) -> conv_entry a b oa ob oa' ob' p) /\
  (forall p, In p (h_outbox (c_handler b)) -> conv_entry b a ob oa ob' oa' p).
Proof.
  intros Hrole Hhs Sa Sb oa ob Hin a' b' Hc.
  exact (convergence_sym a b in_a (firstn k (x_wire oa)) in_a' in_b' Hrole Hhs Sa Sb
           (safety_shape_cut_session a b in_a k Hin) Hc).
Qed.

(* ---------- the entry-wise statement read off in the words of the property ---------- *)
Section Entry.
Variables (x y : side_cfg) (ox oy ox' oy' : outcome) (p : oprop).
Hypothesis HC : conv_entry x y ox oy ox' oy' p.
Let mid := o_mid p.

(* REPORTED SENT exactly once in the second session when it was not reported in the first, never
   in the second when it was (unless the peer defers it) *)
Lemma conv_reported : policy_of (c_handler y) mid <> ADefer ->
  sent_in (x_events ox ++ x_events ox') mid = true /\
  (sent_in (x_events ox) mid = true -> filter (own mid) (x_events ox') = []) /\
  (sent_in (x_events ox) mid = false -> exists r, filter (own mid) (x_events ox') = [EvSetSent mid r]).
Proof.
  intros Hnd. destruct HC as [_ HR]. unfold resumed in HR. cbv zeta in HR. fold mid in HR.
  unfold sent_in at 1. rewrite existsb_app. fold (sent_in (x_events ox) mid) (sent_in (x_events ox') mid).
  destruct (sent_in (x_events ox) mid).
  - destruct HR as [H1 _]. split; [reflexivity|]. split; [intros _; exact H1|discriminate].
  - assert (K : exists r, filter (own mid) (x_events ox') = [EvSetSent mid r]).
    { destruct (stored_in (x_events oy) mid); [exists true; apply HR|].
      destruct (policy_of (c_handler y) mid); [exists false; apply HR|exists true; apply HR|congruence]. }
    destruct K as [r K]. split; [|split; [discriminate|intros _; exists r; exact K]].
    rewrite (sent_in_own (x_events ox') mid), K. cbn. rewrite beq_bytes_refl. reflexivity.
Qed.

(* NOT DUPLICATED across the sessions: a MID the peer stored in the first session is not given to
   its handler in the second, and the second gives it at most once *)
Lemma conv_not_duplicated :
  (stored_in (x_events oy) mid = true -> filter (proc mid) (x_events oy') = []) /\
  (length (filter (proc mid) (x_events oy')) <= 1)%nat.
Proof.
  destruct HC as [_ HR]. unfold resumed in HR. cbv zeta in HR. fold mid in HR.
  destruct (sent_in (x_events ox) mid).
  { destruct HR as [_ H2]. rewrite H2. split; [reflexivity|cbn; lia]. }
  destruct (stored_in (x_events oy) mid).
  { destruct HR as [_ H2]. rewrite H2. split; [reflexivity|cbn; lia]. }
  split; [discriminate|].
  destruct (policy_of (c_handler y) mid); [destruct HR as [_ H2]|destruct HR as [_ H2]|destruct HR as (_&H2&_)];
    rewrite H2; cbn; lia.
Qed.

(* a rejected message is reported sent and the second session does not transfer it *)
Lemma conv_rejected : policy_of (c_handler y) mid = AReject ->
  sent_in (x_events ox ++ x_events ox') mid = true /\ filter (proc mid) (x_events oy') = [].
Proof.
  intros Hr. split; [apply conv_reported; congruence|].
  destruct HC as [_ HR]. unfold resumed in HR. cbv zeta in HR. fold mid in HR. rewrite Hr in HR.
  destruct (sent_in (x_events ox) mid); [apply HR|]. destruct (stored_in (x_events oy) mid); apply HR.
Qed.

(* a deferred message that the first session did not touch is deferred again and stays in the outbox *)
Lemma conv_deferred : policy_of (c_handler y) mid = ADefer ->
  sent_in (x_events ox) mid = false -> stored_in (x_events oy) mid = false ->
  filter (own mid) (x_events ox') = [EvSetDeferred mid] /\ filter (proc mid) (x_events oy') = [] /\
  In p (h_outbox (c_handler (next_cfg (next_cfg x ox) ox'))).
Proof.
  intros Hd Hs Ht. destruct HC as [_ HR]. unfold resumed in HR. cbv zeta in HR. fold mid in HR.
  rewrite Hs, Ht, Hd in HR. exact HR.
Qed.

(* the first session was a session of two library sides that speak to each other only: what the peer
   stored under the MID of an entry of x is that entry's message, and the owner records "rejected"
   only for MIDs the peer's policy rejects.  (True of every closed session of a ready pair:
   genuine_of_delivered.  For cut sessions NOT proved here, see the end of the file.) *)
Definition genuine_session : Prop :=
  (forall d, In (EvProcess mid d true) (x_events oy) -> d = pm_data p) /\
  (In (EvSetSent mid true) (x_events ox) -> policy_of (c_handler y) mid = AReject).

(* DELIVERED: the peer's handler has been given the entry's own message, completely, in one of the
   two sessions *)
Lemma conv_delivered : genuine_session -> policy_of (c_handler y) mid = AAccept ->
  In (EvProcess mid (pm_data p) true) (x_events oy ++ x_events oy').
Proof.
  intros [GA GB] Ha. destruct HC as [HS HR]. unfold resumed in HR. cbv zeta in HR. fold mid in HR, HS.
  apply in_or_app.
  destruct (sent_in (x_events ox) mid) eqn:Es.
  { apply sent_in_true in Es. destruct Es as [[|] Hr]; [rewrite (GB Hr) in Ha; discriminate|left; apply HS, Hr]. }
  destruct (stored_in (x_events oy) mid) eqn:Et.
  { apply stored_in_true in Et. destruct Et as [d Hd]. left. rewrite <- (GA d Hd). exact Hd. }
  rewrite Ha in HR. destruct HR as [_ H2]. right.
  assert (K : In (EvProcess mid (pm_data p) true) (filter (proc mid) (x_events oy'))) by (rewrite H2; left; reflexivity).
  apply filter_In in K. apply K.
Qed.
(* without that hypothesis: the entry's own message has been handed over, except possibly in the two
   situations the hypothesis is about *)
Lemma conv_delivered_cases : policy_of (c_handler y) mid = AAccept ->
  In (EvProcess mid (pm_data p) true) (x_events oy ++ x_events oy') \/
  In (EvSetSent mid true) (x_events ox) \/
  (sent_in (x_events ox) mid = false /\ stored_in (x_events oy) mid = true /\
   filter (own mid) (x_events ox') = [EvSetSent mid true]).
Proof.
  intros Ha. destruct HC as [HS HR]. unfold resumed in HR. cbv zeta in HR. fold mid in HR, HS.
  destruct (sent_in (x_events ox) mid) eqn:Es.
  { apply sent_in_true in Es. destruct Es as [[|] Hr]; [right; left; exact Hr|left; apply in_or_app; left; apply HS, Hr]. }
  destruct (stored_in (x_events oy) mid) eqn:Et.
  { right. right. split; [reflexivity|]. split; [reflexivity|apply HR]. }
  rewrite Ha in HR. destruct HR as [_ H2]. left. apply in_or_app. right.
  assert (K : In (EvProcess mid (pm_data p) true) (filter (proc mid) (x_events oy'))) by (rewrite H2; left; reflexivity).
  apply filter_In in K. apply K.
Qed.
End Entry.

(* a closed session of a ready pair is genuine *)
Lemma genuine_of_delivered (x y : side_cfg) (ox oy : outcome) (p : oprop) :
  delivered (c_handler x) (c_handler y) ox oy -> In p (h_outbox (c_handler x)) -> genuine_session y ox oy p.
Proof.
  intros [HD _] Hp. specialize (HD p Hp). split.
  - intros d Hd.
    assert (K : In (EvProcess (o_mid p) d true) (filter (proc (o_mid p)) (x_events oy)))
      by (apply filter_In; split; [exact Hd|cbn; apply beq_bytes_refl]).
    destruct (policy_of (c_handler y) (o_mid p)); [destruct HD as (_&H2&_)|destruct HD as [_ H2]|destruct HD as [_ H2]];
      rewrite H2 in K; try (destruct K; fail).
    destruct K as [K|[]]. injection K as <-. reflexivity.
  - intros Hr.
    assert (K : In (EvSetSent (o_mid p) true) (filter (own (o_mid p)) (x_events ox)))
      by (apply filter_In; split; [exact Hr|cbn; apply beq_bytes_refl]).
    destruct (policy_of (c_handler y) (o_mid p)); [destruct HD as [H1 _]|reflexivity|destruct HD as [H1 _]];
      rewrite H1 in K; destruct K as [K|[]]; discriminate.
Qed.

(* ================================================================================== *)
(* 5. The hypotheses decided by computation; instances                                 *)
(* ================================================================================== *)
Definition sound_check (x : side_cfg) : bool :=
  h_present (c_handler x) && negb (h_prepare_err (c_handler x)) &&
  forallb prop_check (h_outbox (c_handler x)) && nodupb (map o_mid (h_outbox (c_handler x))).
Lemma sound_check_sound x : sound_check x = true -> side_sound x.
Proof.
  unfold sound_check. rewrite !andb_true_iff, negb_true_iff. intros [[[H1 H2] H3] H4].
  rewrite forallb_forall in H3.
  split; [exact H1|]. split; [exact H2|]. split; [|split].
  - apply Forall_forall. intros p Hp. apply prop_check_sound, H3, Hp.
  - apply Forall_forall. intros p Hp. apply prop_check_sound, H3, Hp.
  - apply nodupb_sound, H4.
Qed.

(* the complete streams of a pair (the iteration of Properties/C01.v from the empty input) *)
Definition cv_in (a b : side_cfg) : bytes := cx_in 10 a b.
(* a first session in which b receives only the first k bytes a wrote and a only the first j bytes b
   wrote, followed by the complete session of the two next mailboxes: the four logs *)
Definition cv_run (a b : side_cfg) (k j : nat) :=
  let ib0 := x_wire (exchange a (cv_in a b)) in
  let in_a := firstn j (x_wire (exchange b (firstn k ib0))) in
  let oa := exchange a in_a in let ob := exchange b (firstn k (x_wire oa)) in
  let a' := next_cfg a oa in let b' := next_cfg b ob in
  let in_a' := cv_in a' b' in let in_b' := x_wire (exchange a' in_a') in
  let oa' := exchange a' in_a' in let ob' := exchange b' in_b' in
  ((* the hypotheses of `convergence` *)
   (beq_bytes in_a (firstn (length in_a) (x_wire ob)),
    beq_bytes (x_wire oa') in_b' && beq_bytes (x_wire ob') in_a',
    (k <? length ib0)%nat),
   (x_res oa, map strip (x_events oa)), (x_res ob, map strip (x_events ob)),
   (x_res oa', map strip (x_events oa')), (x_res ob', map strip (x_events ob'))).

(* (1) DeliverP.dx_a (master; A1..A6) and dx_b (slave; B1, B2; rejects A2, defers A4).  The link
   from a to b fails in the middle of the transfer of A6 (second block), after 400 of the 426 bytes:
   in the first session B1, B2, A1, A3, A5 are stored and reported sent, A2 is reported rejected, A4
   deferred, A6 neither stored nor reported; the second session defers A4 again and delivers A6 --
   and nothing else. *)
Example dx_hypotheses :
  c_master dx_a = negb (c_master dx_b) /\ hs_check dx_a dx_b = true /\
  sound_check dx_a = true /\ sound_check dx_b = true.
Proof. vm_compute. repeat split. Qed.

Example converge_cut_in_transfer :
  cv_run dx_a dx_b 400 1000 =
  ((true, true, true),
   (XConnLost,
    [EvPrepare; EvAnswer [66;49] AAccept; EvAnswer [66;50] AAccept; EvProcess [66;49] [] true; EvProcess [66;50] [] true;
     EvGetOutbound; EvSetDeferred [65;52]; EvSetSent [65;50] true; EvSetSent [65;49] false; EvSetSent [65;51] false;
     EvSetSent [65;53] false; EvBlockEnd; EvGetOutbound; EvBlockEnd]),
   (XConnLost,
    [EvPrepare; EvGetOutbound; EvSetSent [66;49] false; EvSetSent [66;50] false; EvBlockEnd;
     EvAnswer [65;49] AAccept; EvAnswer [65;50] AReject; EvAnswer [65;51] AAccept; EvAnswer [65;52] ADefer;
     EvAnswer [65;53] AAccept; EvProcess [65;49] [] true; EvProcess [65;51] [] true; EvProcess [65;53] [] true;
     EvGetOutbound; EvAnswer [65;54] AAccept]),
   (XNil, [EvPrepare; EvGetOutbound; EvSetDeferred [65;52]; EvSetSent [65;54] false; EvBlockEnd; EvGetOutbound]),
   (XNil, [EvPrepare; EvGetOutbound; EvAnswer [65;52] ADefer; EvAnswer [65;54] AAccept; EvProcess [65;54] [] true;
           EvGetOutbound])).
Proof. vm_compute. reflexivity. Qed.

(* (2) a slave with A1, A2 against a master with an empty outbox.  b receives everything up to and
   including the checksum byte that follows the last EOT (210 of 213 bytes) and stores both messages;
   the link towards a fails before b's next command (a receives 45 of 48 bytes): a reports nothing
   sent.  In the second session b' answers "reject" to both proposals, a' records both as sent
   (rejected), there is no second transfer. *)
Definition cv_a2 : side_cfg := cx_side false (map dx_prop [[65;49];[65;50]]) [] [].
Definition cv_b0 (fail : list bytes) : side_cfg := cx_side true [] [] fail.

Example cv2_hypotheses fail :
  c_master cv_a2 = negb (c_master (cv_b0 fail)) /\ hs_check (cv_b0 fail) cv_a2 = true /\
  sound_check cv_a2 = true /\ sound_check (cv_b0 fail) = true.
Proof. vm_compute. repeat split. Qed.

Example converge_cut_before_next_command :
  cv_run cv_a2 (cv_b0 []) 210 45 =
  ((true, true, true),
   (XConnLost, [EvPrepare; EvGetOutbound; EvBlockEnd]),
   (XConnLost, [EvPrepare; EvAnswer [65;49] AAccept; EvAnswer [65;50] AAccept; EvProcess [65;49] [] true;
                EvProcess [65;50] [] true; EvGetOutbound]),
   (XNil, [EvPrepare; EvGetOutbound; EvSetSent [65;49] true; EvSetSent [65;50] true; EvBlockEnd; EvGetOutbound]),
   (XNil, [EvPrepare; EvAnswer [65;49] AReject; EvAnswer [65;50] AReject; EvGetOutbound])).
Proof. vm_compute. reflexivity. Qed.

(* (3) the same pair, the link fails in the middle of the transfer of A2 (180 of 213 bytes): A1 is
   stored but not reported (both are reported together, after the block); the second session reports
   A1 (rejected: b' has it) and delivers A2 *)
Example converge_cut_in_second_transfer :
  cv_run cv_a2 (cv_b0 []) 180 1000 =
  ((true, true, true),
   (XConnLost, [EvPrepare; EvGetOutbound; EvBlockEnd]),
   (XConnLost, [EvPrepare; EvAnswer [65;49] AAccept; EvAnswer [65;50] AAccept; EvProcess [65;49] [] true]),
   (XNil, [EvPrepare; EvGetOutbound; EvSetSent [65;49] true; EvSetSent [65;50] false; EvBlockEnd; EvGetOutbound]),
   (XNil, [EvPrepare; EvAnswer [65;49] AReject; EvAnswer [65;50] AAccept; EvProcess [65;50] [] true; EvGetOutbound])).
Proof. vm_compute. reflexivity. Qed.

(* (4) no link failure, but b's store fails for A2 (h_fail): both sides end with an error, A1 is
   stored and not reported; the fault is gone in the second session, which reports A1 (rejected) and
   delivers A2 *)
Example converge_after_storage_error :
  cv_run cv_a2 (cv_b0 [[65;50]]) 1000 1000 =
  ((true, true, false),
   (XOther, [EvPrepare; EvGetOutbound; EvBlockEnd]),
   (XOther, [EvPrepare; EvAnswer [65;49] AAccept; EvAnswer [65;50] AAccept; EvProcess [65;49] [] true;
             EvProcess [65;50] [] false]),
   (XNil, [EvPrepare; EvGetOutbound; EvSetSent [65;49] true; EvSetSent [65;50] false; EvBlockEnd; EvGetOutbound]),
   (XNil, [EvPrepare; EvAnswer [65;49] AReject; EvAnswer [65;50] AAccept; EvProcess [65;50] [] true; EvGetOutbound])).
Proof. vm_compute. reflexivity. Qed.

(* the theorem for the pair of example (1): every received string, every cut, every complete second session *)
Example convergence_dx (in_a : bytes) (k : nat) (in_a' in_b' : bytes) :
  let oa := exchange dx_a in_a in let ob := exchange dx_b (firstn k (x_wire oa)) in
  in_a = firstn (length in_a) (x_wire ob) ->
  let a' := next_cfg dx_a oa in let b' := next_cfg dx_b ob in
  closed a' b' in_a' in_b' ->
  let oa' := exchange a' in_a' in let ob' := exchange b' in_b' in
  x_res oa' = XNil /\ x_res ob' = XNil /\
  (forall p, In p (h_outbox (c_handler dx_a)) -> conv_entry dx_a dx_b oa ob oa' ob' p) /\
  (forall p, In p (h_outbox (c_handler dx_b)) -> conv_entry dx_b dx_a ob oa ob' oa' p).
Proof.
  destruct dx_hypotheses as (H1&H2&H3&H4).
  apply convergence; [exact H1|apply hs_check_sound; exact H2|apply sound_check_sound; exact H3|apply sound_check_sound; exact H4].
Qed.

(* and a complete second session exists, whatever the first one did *)
Example next_session_dx (oa ob : outcome) :
  exists in_a' in_b', closed (next_cfg dx_a oa) (next_cfg dx_b ob) in_a' in_b'.
Proof.
  destruct dx_hypotheses as (H1&H2&H3&H4).
  apply (next_session_resumes dx_a dx_b oa ob H1 (hs_check_sound _ _ H2) (sound_check_sound _ H3) (sound_check_sound _ H4)).
Qed.

Print Assumptions sent_only_if_received.
Print Assumptions next_session_resumes.
Print Assumptions convergence_sym.
Print Assumptions convergence.
Print Assumptions conv_reported.
Print Assumptions conv_not_duplicated.
Print Assumptions conv_rejected.
Print Assumptions conv_deferred.
Print Assumptions conv_delivered.
Print Assumptions conv_delivered_cases.
Print Assumptions genuine_of_delivered.
Print Assumptions hs_compat_next.
Print Assumptions converge_cut_in_transfer.
Print Assumptions converge_cut_before_next_command.
Print Assumptions converge_cut_in_second_transfer.
Print Assumptions converge_after_storage_error.
Print Assumptions convergence_dx.
Print Assumptions next_session_dx.

(* NOT DONE / POSSIBLE STRENGTHENINGS
   - genuine_session for cut sessions (see the header): (A) EvProcess mid d true in the log of y and
     o_mid p = mid for p in the outbox of x imply d = pm_data p; (B) EvSetSent m true in the log of x
     implies policy_of y m = AReject.  With them conv_delivered gives "delivered" unconditionally.
   - "Exactly once over BOTH sessions": that the cut session itself contains at most one
     EvSetSent per MID (a one-sided fact: a reported MID is in h_gone and is not proposed again) and
     at most one successful EvProcess per MID (a joint fact: the sender transfers an entry at most
     once per session) is not proved; what is proved is exactly-once in the second session, none in
     the second session for what the first one did, and (DeliverP) exactly-once in a complete first
     session.
   - For a rejecting / deferring ORIGINAL policy nothing is said about the first session's log of the
     peer (that it stores nothing for such a MID is again a joint fact about the cut session).
   - More than two sessions: next_session_resumes makes no assumption on the first session, so it
     applies to the mailboxes left by any sequence of sessions; the bookkeeping over n sessions
     (an entry that is deferred stays, everything else is gone after the first complete session) is
     not spelled out. *)
