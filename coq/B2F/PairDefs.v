(* B2F/PairDefs.v -- shared definitions for the two-party development (B2F/PairLines.v,
   B2F/PairXfer.v, B2F/PairP.v): the bytes a side has written, syntactic well-formedness of a
   prepared proposal, the proposal a receiver reconstructs from a sender's proposal line, and the
   byte strings the sender's phases put on the wire.  Definitions only. *)
From Coq Require Import List NArith ZArith Bool.
From Verif Require Import Base.Bytes gen.Tables Msg.Message B2F.Secure B2F.Side.
Import ListNotations.
Open Scope N_scope.

(* everything written so far, in order *)
Definition wire (s : sess) : bytes := concat (rev (s_out s)).

(* limits on the fields of a prepared proposal: the MID contains neither CR nor space (it is one
   field of a space separated line), the compressed message has at least the 6 byte header the
   writer insists on, and its length fits Go's int.  (Nothing is asked of the title: a title
   with a NUL among the 80 bytes sent makes the receiver refuse the transfer.) *)
Definition mid_ok (m : bytes) : Prop := ~ In 13 m /\ ~ In 32 m.
Definition prop_syn (p : oprop) : Prop :=
  mid_ok (o_mid p) /\
  (6 <= length (o_cdata p))%nat /\ (Z.of_nat (length (o_cdata p)) <= 9223372036854775807)%Z.

(* what parse_proposal makes of proposal_line p, with answer a *)
Definition iprop_of (p : oprop) (a : answer) : iprop :=
  {| i_code := Wl2kProposal; i_mid := o_mid p; i_size := atoi_ignore_err (dec_of_N (o_size p));
     i_csize := Z.of_nat (length (o_cdata p)); i_answer := a |}.
Definition zip_props (block : list oprop) (answers : list answer) : list iprop :=
  map (fun pa => iprop_of (fst pa) (snd pa)) (combine block answers).

(* the proposal block on the wire: one line per proposal, then the checksum line *)
Definition proposal_bytes (block : list oprop) : bytes :=
  let lines := map proposal_line block in
  concat (map (fun l => l ++ [13]) lines) ++ [70; 62; 32] ++ fmt_02X (block_checksum lines) ++ [13].

(* the answer line on the wire *)
Definition fs_line (answers : list answer) : bytes := [70; 83; 32] ++ map answer_byte answers ++ [13].

(* one framed transfer at offset 0 *)
Definition xfer_bytes (p : oprop) : bytes :=
  let title := firstn 80 (o_title p) in
  let d := o_cdata p in
  [CHRSOH; N.of_nat (length title + 3)] ++ title ++ [CHRNUL; 48; CHRNUL] ++
  data_chunks (S (length d)) d ++ [CHREOT; (256 - sumN d mod 256) mod 256].

(* the transfers of a block: one per accepted proposal, in order *)
Fixpoint xfers (block : list oprop) (answers : list answer) : bytes :=
  match block, answers with
  | p :: ps, a :: r => (match a with AAccept => xfer_bytes p | _ => [] end) ++ xfers ps r
  | _, _ => []
  end.

(* the (MID, rejected) list send_accepted accumulates, in order *)
Fixpoint sent_of (block : list oprop) (answers : list answer) : list (bytes * bool) :=
  match block, answers with
  | p :: ps, a :: r =>
      (match a with AAccept => [(o_mid p, false)] | AReject => [(o_mid p, true)] | ADefer => [] end)
      ++ sent_of ps r
  | _, _ => []
  end.

(* the state in which Exchange starts the handshake *)
Definition init_state (cfg : side_cfg) (input : bytes) : sess :=
  let s0 := {| s_in := input; s_out := []; s_ev := []; s_h := c_handler cfg; s_master := c_master cfg;
               s_remote_nomsgs := false; s_sent := []; s_recv := []; s_cfg := c_hs cfg; s_motd := c_motd cfg |} in
  if h_present (c_handler cfg) then ev s0 EvPrepare else s0.


(* COMPATIBLE HANDSHAKES.  m is the master, s the slave.  Fed the slave's greeting S followed by
   the first byte 'F' of a command, the master's handshake succeeds, has written M and stops in
   front of that byte; fed M, the slave's handshake succeeds, has read all of it and has written S.
   (Decidable by computation for given configurations, see hs_compat_cx.) *)
Definition hs_compat (m s : side_cfg) : Prop :=
  exists M S sm ss,
    handshake (init_state m (S ++ [70])) = ROk sm /\ s_in sm = [70] /\ wire sm = M /\
    handshake (init_state s M) = ROk ss /\ s_in ss = [] /\ wire ss = S.

