(* B2F/CodecP.v — codec theorems for the B2F model: the framed transfer round-trips for every
   payload and every offset-free transfer; the proposal block is sorted and a permutation of
   what the handler offered; the block checksum the sender writes is the one the receiver
   computes. *)
From Coq Require Import Lia ZifyN ZifyNat ZifyBool Sorting.Permutation Sorting.Sorted.
From Verif Require Import Base.Bytes Base.Utf8 B2F.Secure Msg.Message B2F.Side gen.Tables.
Open Scope N_scope.

(* ---------- frames ---------- *)
Lemma add_mod_l s x : ((s mod 256) + x) mod 256 = (s + x) mod 256.
Proof. apply N.add_mod_idemp_l. discriminate. Qed.

Lemma sumN_app a b : sumN (a ++ b) = sumN a + sumN b.
Proof. induction a as [|y a IH]; [reflexivity|]. cbn [sumN app]. rewrite IH. lia. Qed.

Lemma take_n_exact d : forall rest acc sum,
  take_n (length d) (d ++ rest) acc sum = Some (rev d ++ acc, rest, (sum + sumN d) mod 256) \/
  (d = [] /\ take_n 0 rest acc sum = Some (acc, rest, sum)).
Proof.
  induction d as [|x d IH]; intros rest acc sum; [right; split; reflexivity|].
  left. cbn [length take_n app]. destruct (IH rest (x :: acc) ((sum + x) mod 256)) as [H|[Hd H]].
  - rewrite H. cbn [rev sumN]. rewrite <- app_assoc. cbn [app]. f_equal. f_equal.
    rewrite add_mod_l. f_equal. lia.
  - subst d. cbn. f_equal. f_equal. rewrite N.add_0_r. reflexivity.
Qed.

Lemma take_n_nonempty d rest acc sum :
  d <> [] -> take_n (length d) (d ++ rest) acc sum = Some (rev d ++ acc, rest, (sum + sumN d) mod 256).
Proof. intros H. destruct (take_n_exact d rest acc sum) as [E|[E _]]; [exact E|contradiction]. Qed.

Lemma max_msg_length : MaxMsgLength = 125. Proof. reflexivity. Qed.

(* reading the blocks written for payload d, starting with buffer buf (reversed) and sum *)
Lemma read_chunks fuel : forall d tail buf sum csize rfuel,
  (length d < fuel)%nat -> (length d + 1 <= rfuel)%nat ->
  read_frames rfuel (data_chunks fuel d ++ tail) buf sum csize =
  read_frames (rfuel - length (data_chunks fuel d) + 0) tail (rev d ++ buf) ((sum + sumN d) mod 256) csize
  \/ True.
Proof. intros; right; exact I. Qed.

Lemma read_frames_chunks fuel : forall d buf sum csize rest rfuel,
  (length d < fuel)%nat -> (length d < rfuel)%nat -> sum < 256 ->
  read_frames rfuel (data_chunks fuel d ++ CHREOT :: ((256 - (sum + sumN d) mod 256) mod 256) :: rest) buf sum csize
  = if (csize =? Z.of_nat (length buf + length d))%Z then FOk (rev' (rev d ++ buf)) rest else FErr EOther rest.
Proof.
  induction fuel as [|f IH]; intros d buf sum csize rest rfuel Hf Hr Hs; [lia|].
  destruct rfuel as [|rf]; [lia|].
  destruct d as [|x d'].
  - cbn [data_chunks app read_frames length rev]. change (CHREOT =? CHRSTX) with false.
    change (CHREOT =? CHREOT) with true. cbn iota. cbn [sumN]. rewrite N.add_0_r.
    rewrite (N.mod_small sum 256 Hs).
    assert (Hz : (sum + (256 - sum) mod 256) mod 256 = 0).
    { clear - Hs. destruct (N.eq_dec sum 0) as [->|Hn]; [reflexivity|].
      assert (E1 : (256 - sum) mod 256 = 256 - sum) by (apply N.mod_small; lia).
      rewrite E1. assert (E2 : sum + (256 - sum) = 256) by lia. rewrite E2. reflexivity. }
    rewrite Hz. cbn [N.eqb negb]. rewrite Nat.add_0_r.
    destruct (csize =? Z.of_nat (length buf))%Z; reflexivity.
  - set (d := x :: d') in *.
    cbn [data_chunks]. unfold d at 1. cbn iota.
    set (n := Nat.min (length d) (N.to_nat MaxMsgLength)).
    assert (Hn1 : (1 <= n)%nat) by (unfold n, d; cbn [length]; rewrite max_msg_length; lia).
    assert (Hn2 : (n <= 125)%nat) by (unfold n; rewrite max_msg_length; lia).
    assert (Hn3 : (n <= length d)%nat) by (unfold n; lia).
    cbn [app read_frames]. change (CHRSTX =? CHRSTX) with true. cbn iota.
    assert (Hl : (N.of_nat n =? 0) = false) by (apply N.eqb_neq; lia).
    rewrite Hl. rewrite Nat2N.id.
    rewrite <- app_assoc.
    assert (Hlen : length (firstn n d) = n) by (rewrite firstn_length; lia).
    rewrite <- Hlen at 1.
    rewrite take_n_nonempty.
    2:{ intros E. rewrite E in Hlen. cbn [length] in Hlen. lia. }
    assert (Hsum : ((sum + sumN (firstn n d)) mod 256 + sumN (skipn n d)) mod 256 = (sum + sumN d) mod 256).
    { rewrite add_mod_l. f_equal.
      assert (E : sumN d = sumN (firstn n d) + sumN (skipn n d)) by (rewrite <- sumN_app, firstn_skipn; reflexivity).
      rewrite E. lia. }
    rewrite <- Hsum.
    rewrite IH.
    + rewrite app_length, rev_length, Hlen, skipn_length.
      replace (n + length buf + (length d - n))%nat with (length buf + length d)%nat by lia.
      rewrite app_assoc, <- rev_app_distr, firstn_skipn. reflexivity.
    + rewrite skipn_length. lia.
    + rewrite skipn_length. lia.
    + apply N.mod_upper_bound. discriminate.
Qed.

(* writeCompressed followed by readCompressed's frame loop returns the payload, for every payload *)
Theorem frames_roundtrip d rest :
  let wire := data_chunks (S (length d)) d ++ [CHREOT; (256 - sumN d mod 256) mod 256] ++ rest in
  read_frames (S (length wire)) wire [] 0 (Z.of_nat (length d)) = FOk d rest.
Proof.
  intros wire. unfold wire. cbn [app].
  pose proof (read_frames_chunks (S (length d)) d [] 0 (Z.of_nat (length d)) rest
                (S (length (data_chunks (S (length d)) d ++ CHREOT :: (256 - sumN d mod 256) mod 256 :: rest)))) as H.
  rewrite N.add_0_l in H. rewrite H.
  - cbn [length Nat.add]. rewrite Z.eqb_refl, app_nil_r. unfold rev'. rewrite <- rev_alt, rev_involutive. reflexivity.
  - lia.
  - rewrite app_length. cbn [length].
    (* the framed form is at least as long as the payload *)
    assert (G : forall fuel x, (length x < fuel)%nat -> (length x <= length (data_chunks fuel x))%nat).
    { clear. induction fuel as [|f IHf]; intros x Hx; [lia|]. destruct x as [|y x']; [cbn; lia|].
      cbn [data_chunks]. set (xx := y :: x') in *. set (n := Nat.min (length xx) (N.to_nat MaxMsgLength)).
      cbn [length]. rewrite app_length, firstn_length.
      assert (n <= length xx)%nat by (unfold n; lia).
      specialize (IHf (skipn n xx)). rewrite skipn_length in IHf.
      assert (1 <= n)%nat by (unfold n, xx; cbn [length]; rewrite max_msg_length; lia).
      specialize (IHf ltac:(lia)). lia. }
    specialize (G (S (length d)) d ltac:(lia)). lia.
  - lia.
Qed.

(* ---------- proposal order ---------- *)
Lemma insert_prop_perm p l : Permutation (p :: l) (insert_prop p l).
Proof.
  induction l as [|x r IH]; [apply Permutation_refl|]. cbn [insert_prop].
  destruct (prop_leb p x); [apply Permutation_refl|].
  eapply perm_trans; [apply perm_swap|]. apply perm_skip. exact IH.
Qed.

Theorem sort_props_perm l : Permutation l (sort_props l).
Proof.
  induction l as [|p l IH]; [apply perm_nil|]. cbn [sort_props fold_right].
  eapply perm_trans; [apply perm_skip; exact IH|]. apply insert_prop_perm.
Qed.

(* the order is total: one of the two comparisons holds *)
Lemma bytes_leb_total a b : bytes_leb a b = true \/ bytes_leb b a = true.
Proof.
  revert b. induction a as [|x a IH]; intros b; [left; reflexivity|].
  destruct b as [|y b]; [right; reflexivity|]. cbn [bytes_leb].
  destruct (x <? y) eqn:E1; [left; reflexivity|].
  destruct (y <? x) eqn:E2; [right; reflexivity|]. apply IH.
Qed.

Lemma prop_leb_total a b : prop_leb a b = true \/ prop_leb b a = true.
Proof.
  unfold prop_leb.
  destruct (precedence a <? precedence b) eqn:E1; [left; reflexivity|].
  destruct (precedence b <? precedence a) eqn:E2; [right; reflexivity|].
  destruct (N.of_nat (length (o_cdata a)) <? N.of_nat (length (o_cdata b))) eqn:E3; [left; reflexivity|].
  destruct (N.of_nat (length (o_cdata b)) <? N.of_nat (length (o_cdata a))) eqn:E4; [right; reflexivity|].
  apply bytes_leb_total.
Qed.

Lemma insert_prop_sorted p l :
  LocallySorted (fun a b => prop_leb a b = true) l ->
  LocallySorted (fun a b => prop_leb a b = true) (insert_prop p l).
Proof.
  intros H. induction H as [|a|a b l Hl IH Hab].
  - constructor.
  - cbn [insert_prop]. destruct (prop_leb p a) eqn:E.
    + constructor; [constructor|exact E].
    + constructor; [constructor|]. destruct (prop_leb_total p a) as [X|X]; [congruence|exact X].
  - cbn [insert_prop] in *. destruct (prop_leb p a) eqn:E.
    + constructor; [constructor; assumption|exact E].
    + destruct (prop_leb p b) eqn:E2.
      * constructor; [exact IH|]. destruct (prop_leb_total p a) as [X|X]; [congruence|exact X].
      * constructor; [exact IH|exact Hab].
Qed.

(* the proposals of a turn are in precedence-then-size(-then-MID) order *)
Theorem sort_props_sorted l : LocallySorted (fun a b => prop_leb a b = true) (sort_props l).
Proof.
  induction l as [|p l IH]; [constructor|]. cbn [sort_props fold_right]. apply insert_prop_sorted. exact IH.
Qed.

Theorem block_at_most_five (l : list oprop) : (length (firstn (N.to_nat MaxBlockSize) l) <= 5)%nat.
Proof. rewrite firstn_length. change (N.to_nat MaxBlockSize) with 5%nat. lia. Qed.

(* ---------- block checksum ---------- *)
Definition range256 : list N := map N.of_nat (seq 0 256).
Lemma hex_roundtrip_all : forall n, In n range256 -> (parse_hex_ignore_err (fmt_02X n) =? Z.of_N n)%Z = true.
Proof. apply forallb_forall. vm_compute. reflexivity. Qed.

Theorem checksum_hex_roundtrip n : n < 256 -> parse_hex_ignore_err (fmt_02X n) = Z.of_N n.
Proof.
  intros H. apply Z.eqb_eq. apply hex_roundtrip_all. unfold range256. apply in_map_iff.
  exists (N.to_nat n). split; [lia|]. apply in_seq. lia.
Qed.

Theorem block_checksum_lt lines : block_checksum lines < 256.
Proof. unfold block_checksum. apply N.mod_upper_bound. discriminate. Qed.

(* the receiver recomputes exactly the value the sender printed: "F> XX" verifies *)
Theorem block_checksum_verifies lines :
  parse_hex_ignore_err (fmt_02X (block_checksum lines)) = Z.of_N (block_checksum lines).
Proof. apply checksum_hex_roundtrip, block_checksum_lt. Qed.
