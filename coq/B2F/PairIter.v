(* B2F/PairIter.v — the executable two-party run (two model sides iterated on each other's
   complete output until stable) and the counting predicates of the property "delivered exactly
   once"; the statement of C01 as it was first written down (kept for its refutation).
   Definitions only. *)
From Verif Require Import Base.Bytes B2F.Secure B2F.Side gen.Tables.
Open Scope N_scope.

(* executable pair run: iterate the two sides on each other's output until it is stable *)
Fixpoint pair_iter (n : nat) (a b : side_cfg) (in_a : bytes) : outcome * outcome :=
  let oa := exchange a in_a in
  let ob := exchange b (x_wire oa) in
  match n with
  | O => (oa, ob)
  | S k => if beq_bytes (x_wire ob) in_a then (oa, ob) else pair_iter k a b (x_wire ob)
  end.

(* FULL STATEMENT (not asserted), for the reference handler: everything B's policy accepts is
   processed by B exactly once and reported sent to A exactly once, both results nil *)
Definition delivered_once (o : outcome) (mid : bytes) : Prop :=
  length (filter (fun e => match e with EvProcess m _ true => beq_bytes m mid | _ => false end) (x_events o)) = 1%nat.
Definition sent_once (o : outcome) (mid : bytes) : Prop :=
  length (filter (fun e => match e with EvSetSent m false => beq_bytes m mid | _ => false end) (x_events o)) = 1%nat.
Definition C01_exchange_statement : Prop :=
  forall a b n, c_master a = negb (c_master b) -> h_present (c_handler a) = true -> h_present (c_handler b) = true ->
    (n >= 4 * (length (h_outbox (c_handler a)) + length (h_outbox (c_handler b))) + 8)%nat ->
    let '(oa, ob) := pair_iter n a b [] in
    x_res oa = XNil /\ x_res ob = XNil /\
    forall p, In p (h_outbox (c_handler a)) -> policy_of (c_handler b) (o_mid p) = AAccept ->
              delivered_once ob (o_mid p) /\ sent_once oa (o_mid p).

