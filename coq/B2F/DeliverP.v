(* B2F/DeliverP.v -- LIVENESS AND EXACTLY-ONCE DELIVERY of the two-party B2F session model
   (B2F/Side.v, `exchange`): "a completed exchange delivers every accepted message exactly once,
   intact" (Properties/C01.v, C01_exchange_statement), the positive counterpart of the two-party
   safety theorem of B2F/PairP.v.  No axioms; everything called a lemma, theorem or example below
   is proved (Print Assumptions at the end: closed under the global context).

   THE COMPLETE RUN is given as a CLOSED PAIR OF STREAMS: in_a, in_b with
        x_wire (exchange a in_a) = in_b  and  x_wire (exchange b in_b) = in_a
   (`closed a b in_a in_b`: each side's input is exactly what the other side wrote -- a complete,
   uncut session).  The iteration `pair_iter` of Properties/C01.v stops exactly at such pairs.

   MAIN RESULTS
   1. complete_exchange_delivers (section 16; = complete_exchange + closed_exchange).  For all
      side configurations a, b:
        IF  the roles are opposite (c_master a = negb (c_master b)),
            the handshakes are compatible (PairDefs.hs_compat master slave; implied by the
              syntactic condition PairP.pair_text_ok: complete_exchange_delivers_text; decided by
              PairP.hs_check: complete_exchange_check),
            side_ready a b and side_ready b a, where side_ready x y (spelled out in
            side_ready_intro; decided by side_check) says:
              x has a handler (h_present) whose Prepare does not fail (h_prepare_err = false),
              every proposal of x's outbox respects the wire formats (PairDefs.prop_syn: MID
                without CR and space, compressed length at least 6 and at most MaxInt64),
              has no NUL among the 80 title bytes that are sent (NEW, necessary: example (2)),
              announces the MID of the message it contains (CutP.outbox_wf),
              the MIDs of x's outbox are pairwise distinct (NoDup),
              no MID of x's outbox is in y's h_fail (the store does not fail),
              no MID of x's outbox is already in x's h_gone,
        THEN (a) a closed pair of streams EXISTS, and
             (b) for EVERY closed pair (in_a, in_b), with oa = exchange a in_a, ob = exchange b in_b:
                 x_res oa = XNil and x_res ob = XNil, and in BOTH directions (`delivered`), for every
                 p of the owner's outbox, according to the peer's policy for o_mid p:
                   accept: the owner's log restricted to the events EvSetSent (o_mid p) _ and
                           EvSetDeferred (o_mid p) is exactly [EvSetSent (o_mid p) false], the peer's
                           log restricted to EvProcess (o_mid p) _ _ is exactly
                           [EvProcess (o_mid p) data true] where data is the decompressed message
                           of the outbox entry (proposal_message (o_cdata p) = MOk (o_mid p) data);
                   reject: the owner's log for the MID is exactly [EvSetSent (o_mid p) true], the
                           peer's handler is given nothing for the MID;
                   defer:  the owner's log for the MID is exactly [EvSetDeferred (o_mid p)], the
                           peer's handler is given nothing for the MID;
                 and NOTHING ELSE: for a MID that is not in the owner's outbox there is no
                 EvSetSent / EvSetDeferred in the owner's log and no EvProcess in the peer's.
      There is no restriction on the number of messages (several blocks of 5), on who sends
      (both sides may have messages; the same MID may be in both outboxes), on the policies.
   2. C01_exchange_delivers: the conclusion of Properties/C01.C01_exchange_statement
      (delivered_once / sent_once, both results nil), in both directions, for a closed pair.
      pair_iter_delivers: the result of `pair_iter n a b i`, for every n and every start i, is the
      pair of outcomes on its last input j, and if j is stable (the stop test of the iteration) it
      is a complete exchange with all of the above.  complete_exchange_iter: started at the closed
      pair, the iteration returns it.  NOT PROVED: that the iteration started at [] becomes stable
      within the n of C01_exchange_statement (see the end of the file).
   3. C01_exchange_statement AS STATED (roles and handlers only) IS FALSE:
      C01_exchange_statement_is_false.  Section 14: seven closed pairs, by vm_compute, each
      violating the conclusion when exactly one hypothesis is dropped: (1) the store fails (h_fail):
      both sides end with an error; (2) a NUL in the title: the transfer is refused; (3) a MID twice
      in an outbox: delivered once and reported sent once, but ALSO reported deferred; (4) a MID
      already in h_gone is never proposed; (5) the MID announced is not the MID inside: the peer
      stores another MID; (6) a space in the MID: the proposal cannot be parsed; (7) Prepare fails.
      (Since every closed pair of a ready pair delivers -- 1(b) -- these are counterexamples to the
      theorem without the hypothesis, not only to one particular run.)
   4. dx_complete / dx_iter: an instance with 6 messages one way (two blocks, one rejected, one
      deferred) and 2 the other way; the iteration from [] reaches the closed pair (computation).

   METHOD.  Forward versions of the phase lemmas of PairLines.v / PairXfer.v / PairP.v with the full
   effect on the state (log, h_gone, flags): send_upto, peek_fwd, send_fwd, send_none,
   answer_props_policy (distinct MIDs: the answers are the policy), recv_block_fwd, receive_fwd,
   recv_fwd.  The events of a block counted per MID (section 6).  The invariant on the two logs at
   a turn boundary (Inv, section 7): every outbox entry is either done (gone, exactly one owner
   event, the one for the peer's answer, exactly one / no EvProcess at the peer) or not yet
   touched; nothing for foreign MIDs.  joint_run (existence) and joint_closed (every closed pair):
   induction on 2 * (pending proposals of both sides) + (1 unless the sender knows that the peer has
   nothing more), one turn per step: FQ ends the session, FF passes the turn with the flag set, a
   block makes the outbox of the sender shrink.  joint_closed uses the invariant of PairP.v with
   equality: the unread input of each side IS what the other side will still write
   (tailw true sx = s_in sy, tailw false sy = s_in sx).  Sections 9-10, 15: the handshake. *)
From Coq Require Import List NArith ZArith Bool Lia ZifyN ZifyNat ZifyBool Sorting.Permutation.
From Verif Require Import Base.Bytes Base.BytesP gen.Tables Lzhuf.Dec Msg.Message B2F.Secure B2F.Side B2F.SideP
  B2F.TermP B2F.CodecP B2F.CutP B2F.PairDefs B2F.PairLines B2F.PairXfer B2F.PairHs B2F.PairP B2F.PairIter.
Import ListNotations.
Open Scope N_scope.

(* ================================================================================== *)
(* 1. Counting events                                                                  *)
(* ================================================================================== *)
Definition cnt (f : event -> bool) (l : list event) : nat := length (filter f l).

Lemma cnt_nil f : cnt f [] = 0%nat.
Proof. reflexivity. Qed.
Lemma cnt_cons f e l : cnt f (e :: l) = ((if f e then 1 else 0) + cnt f l)%nat.
Proof. unfold cnt. cbn [filter]. destruct (f e); reflexivity. Qed.
Lemma cnt_app f a b : cnt f (a ++ b) = (cnt f a + cnt f b)%nat.
Proof. unfold cnt. rewrite filter_app, app_length. reflexivity. Qed.
Lemma cnt_rev f l : cnt f (rev l) = cnt f l.
Proof.
  induction l as [|e l IH]; cbn [rev]; [reflexivity|].
  rewrite cnt_app, !cnt_cons, cnt_nil, IH. lia.
Qed.
Lemma cnt_one f l e : cnt f l = 1%nat -> In e l -> f e = true -> filter f l = [e].
Proof.
  unfold cnt. intros H Hi Hf.
  assert (Hin : In e (filter f l)) by (apply filter_In; split; assumption).
  destruct (filter f l) as [|x [|y r]]; try discriminate. destruct Hin as [->|[]]. reflexivity.
Qed.
Lemma cnt_zero f l : cnt f l = 0%nat -> filter f l = [].
Proof. unfold cnt. destruct (filter f l); [reflexivity|discriminate]. Qed.

(* the filters of interest: what the owner of a message records about it (sent, rejected,
   deferred), and what the peer's handler is given *)
Definition own (m : bytes) (e : event) : bool :=
  match e with EvSetSent m' _ => beq_bytes m' m | EvSetDeferred m' => beq_bytes m' m | _ => false end.
Definition proc (m : bytes) (e : event) : bool :=
  match e with EvProcess m' _ _ => beq_bytes m' m | _ => false end.

(* filters that do not see the bookkeeping events *)
Definition quiet (f : event -> bool) : Prop :=
  f EvPrepare = false /\ f EvGetOutbound = false /\ f EvBlockEnd = false /\ forall m a, f (EvAnswer m a) = false.
Lemma own_quiet m : quiet (own m).
Proof. repeat split. Qed.
Lemma proc_quiet m : quiet (proc m).
Proof. repeat split. Qed.

Definition is_answer (e : event) : Prop := exists m a, e = EvAnswer m a.
Lemma cnt_answers f E : quiet f -> Forall is_answer E -> cnt f E = 0%nat.
Proof.
  intros (_&_&_&Hq) H. induction H as [|e l (m&a&->) _ IH]; [reflexivity|].
  rewrite cnt_cons, Hq, IH. reflexivity.
Qed.

(* ================================================================================== *)
(* 2. The handler: what is still to be proposed                                        *)
(* ================================================================================== *)
Definition with_gone (h : hstate) (g : list bytes) : hstate :=
  {| h_present := h_present h; h_prepare_err := h_prepare_err h; h_outbox := h_outbox h;
     h_gone := g; h_policy := h_policy h; h_fail := h_fail h |}.
Definition pendh (h : hstate) : list oprop :=
  filter (fun p => negb (mem_bytes (o_mid p) (h_gone h))) (h_outbox h).
(* equal up to the set of MIDs that are gone *)
Definition hsame (h h' : hstate) : Prop := with_gone h [] = with_gone h' [].

Lemma with_gone_self h : with_gone h (h_gone h) = h.
Proof. destruct h; reflexivity. Qed.
Lemma hsame_refl h : hsame h h. Proof. reflexivity. Qed.
Lemma hsame_with_gone h g : hsame (with_gone h g) h. Proof. reflexivity. Qed.
Lemma hsame_trans a b c : hsame a b -> hsame b c -> hsame a c.
Proof. unfold hsame. congruence. Qed.
Lemma hsame_outbox h h' : hsame h h' -> h_outbox h = h_outbox h'.
Proof. intros H. apply (f_equal h_outbox) in H. exact H. Qed.
Lemma hsame_policy h h' m : hsame h h' -> policy_of h m = policy_of h' m.
Proof. intros H. apply (f_equal h_policy) in H. cbn in H. unfold policy_of. rewrite H. reflexivity. Qed.
Lemma hsame_fail h h' : hsame h h' -> h_fail h = h_fail h'.
Proof. intros H. apply (f_equal h_fail) in H. exact H. Qed.
Lemma hsame_present h h' : hsame h h' -> h_present h = h_present h'.
Proof. intros H. apply (f_equal h_present) in H. exact H. Qed.

Lemma mem_bytes_In x l : mem_bytes x l = true <-> In x l.
Proof.
  unfold mem_bytes. rewrite existsb_exists. split.
  - intros (y&Hy&E). apply beq_bytes_true in E. subst. exact Hy.
  - intros H. exists x. split; [exact H|apply beq_bytes_refl].
Qed.
Lemma mem_bytes_notin x l : mem_bytes x l = false <-> ~ In x l.
Proof.
  rewrite <- mem_bytes_In. destruct (mem_bytes x l); split; intros H; try reflexivity; try discriminate.
  exfalso. apply H. reflexivity.
Qed.

Lemma pendh_In h p : In p (pendh h) <-> In p (h_outbox h) /\ ~ In (o_mid p) (h_gone h).
Proof.
  unfold pendh. rewrite filter_In, negb_true_iff, mem_bytes_notin. reflexivity.
Qed.

Lemma outbound_present s : h_present (s_h s) = true ->
  outbound s = (sort_props (pendh (s_h s)), ev s EvGetOutbound).
Proof. intros H. unfold outbound. rewrite H. reflexivity. Qed.

Lemma sort_props_nil l : sort_props l = [] -> l = [].
Proof.
  intros H. pose proof (sort_props_perm l) as P. rewrite H in P. apply Permutation_nil. apply Permutation_sym. exact P.
Qed.

(* more MIDs gone: fewer proposals pending *)
Lemma pend_shrink (g g' : list bytes) : forall l : list oprop,
  (forall m, In m g -> In m g') ->
  (length (filter (fun p => negb (mem_bytes (o_mid p) g')) l) <= length (filter (fun p => negb (mem_bytes (o_mid p) g)) l))%nat.
Proof.
  intros l H. induction l as [|p l IH]; [cbn; lia|]. cbn [filter].
  destruct (mem_bytes (o_mid p) g) eqn:E.
  - apply mem_bytes_In, H, mem_bytes_In in E. rewrite E. cbn [negb]. exact IH.
  - cbn [negb]. destruct (negb (mem_bytes (o_mid p) g')); cbn [length]; lia.
Qed.
Lemma pend_shrink_strict (g g' : list bytes) : forall (l : list oprop) p0,
  (forall m, In m g -> In m g') -> In p0 l -> ~ In (o_mid p0) g -> In (o_mid p0) g' ->
  (length (filter (fun p => negb (mem_bytes (o_mid p) g')) l) < length (filter (fun p => negb (mem_bytes (o_mid p) g)) l))%nat.
Proof.
  intros l p0 H. induction l as [|p l IH]; intros Hi Hn Hg; [destruct Hi|]. cbn [filter].
  pose proof (pend_shrink g g' l H) as Hle.
  destruct Hi as [->|Hi].
  - apply mem_bytes_notin in Hn. apply mem_bytes_In in Hg. rewrite Hn, Hg. cbn [negb length]. lia.
  - specialize (IH Hi Hn Hg).
    destruct (mem_bytes (o_mid p) g) eqn:E.
    + apply mem_bytes_In, H, mem_bytes_In in E. rewrite E. cbn [negb]. exact IH.
    + cbn [negb]. destruct (negb (mem_bytes (o_mid p) g')); cbn [length]; lia.
Qed.

(* ================================================================================== *)
(* 3. A block and its answers: the MIDs by answer, the events                           *)
(* ================================================================================== *)
Definition ans_eqb (a b : answer) : bool :=
  match a, b with AAccept, AAccept => true | AReject, AReject => true | ADefer, ADefer => true | _, _ => false end.
Fixpoint sel (a0 : answer) (B : list oprop) (A : list answer) : list bytes :=
  match B, A with
  | p :: ps, a :: r => (if ans_eqb a a0 then [o_mid p] else []) ++ sel a0 ps r
  | _, _ => []
  end.
(* what the owner records for a proposal answered a *)
Definition ev_of (a : answer) (m : bytes) : event :=
  match a with AAccept => EvSetSent m false | AReject => EvSetSent m true | ADefer => EvSetDeferred m end.
Fixpoint own_evs (B : list oprop) (A : list answer) : list event :=
  match B, A with p :: ps, a :: r => ev_of a (o_mid p) :: own_evs ps r | _, _ => [] end.
(* the message inside a prepared proposal *)
Definition pm_data (p : oprop) : bytes :=
  match proposal_message (o_cdata p) with MOk _ d => d | _ => [] end.
Fixpoint proc_evs (B : list oprop) (A : list answer) : list event :=
  match B, A with
  | p :: ps, a :: r => (match a with AAccept => [EvProcess (o_mid p) (pm_data p) true] | _ => [] end) ++ proc_evs ps r
  | _, _ => []
  end.

Definition rejs (sent : list (bytes * bool)) : list bytes := map fst (filter (fun mr => snd mr) sent).
Definition accs (sent : list (bytes * bool)) : list bytes := map fst (filter (fun mr => negb (snd mr)) sent).

Lemma rejs_sent_of B : forall A, rejs (sent_of B A) = sel AReject B A.
Proof.
  unfold rejs. induction B as [|p ps IH]; intros [|a r]; try reflexivity.
  cbn [sent_of sel]. rewrite filter_app, map_app, IH. destruct a; reflexivity.
Qed.
Lemma accs_sent_of B : forall A, accs (sent_of B A) = sel AAccept B A.
Proof.
  unfold accs. induction B as [|p ps IH]; intros [|a r]; try reflexivity.
  cbn [sent_of sel]. rewrite filter_app, map_app, IH. destruct a; reflexivity.
Qed.

Lemma cnt_own_evs f B : forall A,
  (cnt f (map EvSetDeferred (sel ADefer B A)) + cnt f (map (fun m => EvSetSent m true) (sel AReject B A)) +
   cnt f (map (fun m => EvSetSent m false) (sel AAccept B A)))%nat = cnt f (own_evs B A).
Proof.
  induction B as [|p ps IH]; intros [|a r]; try reflexivity.
  cbn [sel own_evs]. rewrite !map_app, !cnt_app, cnt_cons, <- IH.
  destruct a; cbn [ans_eqb map ev_of]; rewrite ?cnt_cons, ?cnt_nil; lia.
Qed.

Lemma In_own_evs e B : forall A, In e (own_evs B A) ->
  In e (map EvSetDeferred (sel ADefer B A)) \/ In e (map (fun m => EvSetSent m true) (sel AReject B A)) \/
  In e (map (fun m => EvSetSent m false) (sel AAccept B A)).
Proof.
  induction B as [|p ps IH]; intros [|a r] H; try destruct H.
  - cbn [sel]. rewrite !map_app. subst e. destruct a; cbn [ans_eqb ev_of map app In]; auto.
  - cbn [sel]. rewrite !map_app. destruct (IH r H) as [K|[K|K]]; [left|right; left|right; right]; apply in_or_app; right; exact K.
Qed.

Lemma sel_In a0 B : forall A m, In m (sel a0 B A) -> exists p, In p B /\ o_mid p = m.
Proof.
  induction B as [|p ps IH]; intros [|a r] m H; try destruct H.
  cbn [sel] in H. apply in_app_or in H. destruct H as [H|H].
  - destruct (ans_eqb a a0); [|destruct H]. destruct H as [<-|[]]. exists p. split; [left|]; reflexivity.
  - destruct (IH r m H) as (q&Hq&E). exists q. split; [right; exact Hq|exact E].
Qed.

(* every MID of the block is in exactly one of the three classes *)
Lemma sel_cover B : forall A p, length A = length B -> In p B ->
  In (o_mid p) (sel ADefer B A) \/ In (o_mid p) (sel AReject B A) \/ In (o_mid p) (sel AAccept B A).
Proof.
  induction B as [|q ps IH]; intros [|a r] p Hl Hp; try destruct Hp; try discriminate.
  - subst q. cbn [sel]. destruct a; cbn [ans_eqb app In]; auto.
  - cbn [length] in Hl. injection Hl as Hl. cbn [sel].
    destruct (IH r p Hl H) as [K|[K|K]]; [left|right; left|right; right]; apply in_or_app; right; exact K.
Qed.

(* ================================================================================== *)
(* 4. The sender's turn, forwards                                                      *)
(* ================================================================================== *)
Lemma mark_gone_h s m : s_h (mark_gone s m) = with_gone (s_h s) (m :: h_gone (s_h s)).
Proof. reflexivity. Qed.

Lemma mark_rej_fields sent : forall s,
  s_ev (mark_rej sent s) = rev (map (fun m => EvSetSent m true) (rejs sent)) ++ s_ev s /\
  s_h (mark_rej sent s) = with_gone (s_h s) (rev (rejs sent) ++ h_gone (s_h s)) /\
  s_remote_nomsgs (mark_rej sent s) = s_remote_nomsgs s.
Proof.
  unfold mark_rej, rejs. induction sent as [|[m b] l IH]; intros s; cbn [fold_left filter snd fst].
  - cbn [map rev app]. rewrite with_gone_self. repeat split.
  - destruct b; [|apply IH].
    destruct (IH (ev (mark_gone s m) (EvSetSent m true))) as (I1&I2&I3). rewrite I1, I2, I3.
    cbn [map rev fst ev s_ev s_h s_remote_nomsgs mark_gone set_h h_gone with_gone h_present h_prepare_err h_outbox h_policy h_fail].
    rewrite <- !app_assoc. repeat split.
Qed.

Lemma mark_sent_fields sent : forall s,
  s_ev (mark_sent sent s) = rev (map (fun m => EvSetSent m false) (accs sent)) ++ s_ev s /\
  s_h (mark_sent sent s) = with_gone (s_h s) (rev (accs sent) ++ h_gone (s_h s)) /\
  s_remote_nomsgs (mark_sent sent s) = s_remote_nomsgs s.
Proof.
  unfold mark_sent, accs. induction sent as [|[m b] l IH]; intros s; cbn [fold_left filter snd fst negb].
  - cbn [map rev app]. rewrite with_gone_self. repeat split.
  - destruct b; cbn [negb]; [apply IH|].
    destruct (IH (add_sent (ev (mark_gone s m) (EvSetSent m false)) m)) as (I1&I2&I3). rewrite I1, I2, I3.
    cbn [map rev fst add_sent ev s_ev s_h s_remote_nomsgs mark_gone set_h h_gone with_gone h_present h_prepare_err h_outbox h_policy h_fail].
    rewrite <- !app_assoc. repeat split.
Qed.

Lemma write_compressed_nomsgs s p off :
  match write_compressed s p off with ROk s' => s_remote_nomsgs s' = s_remote_nomsgs s | _ => True end.
Proof.
  unfold write_compressed. destruct ((off <? 0)%Z || (Z.of_nat (length (o_cdata p)) <? off)%Z); [exact I|].
  cbv zeta. destruct (Z.of_nat (length (o_cdata p)) <? 6)%Z; [exact I|reflexivity].
Qed.

Lemma send_accepted_fwd B : forall A s sent, length A = length B -> Forall prop_syn B ->
  exists s4, send_accepted s B (map (fun a => PAns a 0%Z) A) sent = ROk (s4, rev (sent_of B A) ++ sent) /\
    wire s4 = wire s ++ xfers B A /\ s_in s4 = s_in s /\
    s_ev s4 = rev (map EvSetDeferred (sel ADefer B A)) ++ s_ev s /\
    s_h s4 = with_gone (s_h s) (rev (sel ADefer B A) ++ h_gone (s_h s)) /\
    s_remote_nomsgs s4 = s_remote_nomsgs s.
Proof.
  induction B as [|p ps IH]; intros A s sent Hl Hf.
  { destruct A; [|discriminate]. exists s. cbn [map send_accepted sent_of xfers sel rev app].
    rewrite app_nil_r, with_gone_self. repeat split. }
  destruct A as [|a r]; [discriminate|]. cbn [length] in Hl. injection Hl as Hl.
  inversion Hf as [|? ? Hp Hf']; subst.
  cbn [map send_accepted sent_of xfers sel]. destruct a; cbn [ans_eqb app].
  - destruct Hp as (_ & H6 & _).
    destruct (write_compressed_zero s p H6) as (s1 & Hw & W1 & I1 & E1 & Hh1).
    pose proof (write_compressed_nomsgs s p 0) as N1. rewrite Hw in N1. rewrite Hw.
    destruct (IH r s1 ((o_mid p, false) :: sent) Hl Hf') as (s4 & Hs & W4 & I4 & E4 & Hh4 & N4).
    exists s4. rewrite Hs. split; [cbn [app rev]; rewrite <- app_assoc; reflexivity|].
    rewrite W4, W1, I4, I1, E4, E1, Hh4, Hh1, N4, N1, app_assoc. repeat split.
  - destruct (IH r s ((o_mid p, true) :: sent) Hl Hf') as (s4 & Hs & W4 & I4 & E4 & Hh4 & N4).
    exists s4. rewrite Hs. split; [cbn [app rev]; rewrite <- app_assoc; reflexivity|].
    repeat (split; [assumption|]); assumption.
  - destruct (IH r (ev (mark_gone s (o_mid p)) (EvSetDeferred (o_mid p))) sent Hl Hf') as (s4 & Hs & W4 & I4 & E4 & Hh4 & N4).
    exists s4. rewrite Hs. split; [reflexivity|].
    rewrite W4, I4, E4, Hh4, N4.
    cbn [map rev ev s_ev s_h s_in s_remote_nomsgs mark_gone set_h h_gone with_gone h_present h_prepare_err h_outbox h_policy h_fail].
    rewrite <- !app_assoc. repeat split.
Qed.

Lemma ho_propose_fields B s0 :
  s_ev (ho_propose B s0) = s_ev s0 /\ s_h (ho_propose B s0) = s_h s0 /\
  s_remote_nomsgs (ho_propose B s0) = s_remote_nomsgs s0.
Proof.
  unfold ho_propose. cbv zeta. cbn [wr s_ev s_h s_remote_nomsgs].
  assert (K : forall l s, s_ev (fold_left (fun acc (x : bytes) => wr acc (x ++ [13])) l s) = s_ev s /\
                          s_h (fold_left (fun acc (x : bytes) => wr acc (x ++ [13])) l s) = s_h s /\
                          s_remote_nomsgs (fold_left (fun acc (x : bytes) => wr acc (x ++ [13])) l s) = s_remote_nomsgs s).
  { induction l as [|x l IH]; intros s; cbn [fold_left]; [repeat split|]. apply (IH (wr s (x ++ [13]))). }
  apply K.
Qed.

(* the sender's turn with a block B, up to the transfers: the answer line for A comes in *)
Lemma send_upto sx p ps A T3 :
  h_present (s_h sx) = true -> sort_props (pendh (s_h sx)) = p :: ps ->
  let B := firstn (N.to_nat MaxBlockSize) (p :: ps) in
  Forall prop_syn B -> length A = length B -> s_in sx = fs_line A ++ T3 ->
  exists s4, handle_outbound sx = ho_peek (sent_of B A) s4 /\
    wire s4 = wire sx ++ proposal_bytes B ++ xfers B A /\ s_in s4 = T3 /\
    s_ev s4 = rev (map EvSetDeferred (sel ADefer B A)) ++ EvGetOutbound :: s_ev sx /\
    s_h s4 = with_gone (s_h sx) (rev (sel ADefer B A) ++ h_gone (s_h sx)) /\
    s_remote_nomsgs s4 = s_remote_nomsgs sx.
Proof.
  intros Hpr Hsort B Hsyn Hlen Hin.
  pose proof (outbound_present sx Hpr) as Eo. rewrite Hsort in Eo.
  destruct (send_start _ _ _ _ Eo) as (Hbne&_&E2&W2&_&_&Hstep). cbv zeta in Hstep. fold B in Hbne, E2, W2, Hstep.
  destruct (ho_propose_fields B (ev sx EvGetOutbound)) as (V2&H2&N2).
  set (s2 := ho_propose B (ev sx EvGetOutbound)) in *.
  assert (Hane : A <> []) by (intros ->; destruct B; [congruence|discriminate]).
  rewrite (read_reply_fs A s2 T3 (S (length (s_in s2))) Hane) in Hstep by (first [rewrite E2; exact Hin | lia]).
  unfold ho_transfer in Hstep.
  assert (Hs : slice_from 3 ([70; 83; 32] ++ map answer_byte A) = Some (map answer_byte A)) by reflexivity.
  rewrite Hs in Hstep.
  rewrite (parse_answers_bytes A (S (length (map answer_byte A))) (length B) []) in Hstep
    by (rewrite ?map_length; lia).
  cbn [rev' rev_append app] in Hstep.
  destruct (send_accepted_fwd B A (set_in s2 T3) [] Hlen Hsyn) as (s4&E&W4&I4&V4&H4&N4).
  rewrite E in Hstep. rewrite app_nil_r, rev'_rev, rev_involutive in Hstep.
  exists s4. split; [exact Hstep|].
  split; [rewrite W4; change (wire (set_in s2 T3)) with (wire s2); rewrite W2, <- app_assoc; reflexivity|].
  split; [exact I4|].
  split; [rewrite V4; cbn [set_in s_ev]; rewrite V2; reflexivity|].
  split; [rewrite H4; cbn [set_in s_h]; rewrite H2; reflexivity|].
  rewrite N4. cbn [set_in s_remote_nomsgs]. rewrite N2. reflexivity.
Qed.

(* the peek finds the 'F' of the peer's next command: everything is marked *)
Lemma peek_fwd sx B A s4 r :
  wire s4 = wire sx ++ proposal_bytes B ++ xfers B A -> s_in s4 = 70 :: r ->
  s_ev s4 = rev (map EvSetDeferred (sel ADefer B A)) ++ EvGetOutbound :: s_ev sx ->
  s_h s4 = with_gone (s_h sx) (rev (sel ADefer B A) ++ h_gone (s_h sx)) ->
  s_remote_nomsgs s4 = s_remote_nomsgs sx ->
  exists sx' E, ho_peek (sent_of B A) s4 = ROk (false, sx') /\
    wire sx' = wire sx ++ proposal_bytes B ++ xfers B A /\ s_in sx' = 70 :: r /\
    s_ev sx' = E ++ s_ev sx /\
    (forall f, quiet f -> cnt f E = cnt f (own_evs B A)) /\ (forall e, In e (own_evs B A) -> In e E) /\
    s_h sx' = with_gone (s_h sx) (rev (sel AAccept B A) ++ rev (sel AReject B A) ++ rev (sel ADefer B A) ++ h_gone (s_h sx)) /\
    s_remote_nomsgs sx' = s_remote_nomsgs sx.
Proof.
  intros W4 I4 V4 H4 N4. set (sent := sent_of B A).
  assert (Hstep : ho_peek sent s4 = ROk (false, ev (mark_sent sent (mark_rej sent s4)) EvBlockEnd)).
  { unfold ho_peek. cbv zeta. rewrite mark_rej_in, I4. reflexivity. }
  destruct (mark_rej_fields sent s4) as (V5&H5&N5).
  destruct (mark_sent_fields sent (mark_rej sent s4)) as (V6&H6&N6).
  unfold sent in V5, H5, V6, H6. rewrite rejs_sent_of in V5, H5. rewrite accs_sent_of in V6, H6. fold sent in V5, H5, V6, H6.
  exists (ev (mark_sent sent (mark_rej sent s4)) EvBlockEnd).
  exists (EvBlockEnd :: rev (map (fun m => EvSetSent m false) (sel AAccept B A)) ++
          rev (map (fun m => EvSetSent m true) (sel AReject B A)) ++ rev (map EvSetDeferred (sel ADefer B A)) ++ [EvGetOutbound]).
  split; [exact Hstep|]. split.
  { assert (Wx : wire (ev (mark_sent sent (mark_rej sent s4)) EvBlockEnd) = wire s4).
    { apply wire_out. cbn [ev s_out]. rewrite (proj1 (mark_sent_out _ _)), (proj1 (mark_rej_out _ _)). reflexivity. }
    rewrite Wx, W4. reflexivity. }
  split; [cbn [ev s_in]; rewrite mark_sent_in, mark_rej_in, I4; reflexivity|].
  split.
  { cbn [ev s_ev]. rewrite V6, V5, V4. cbn [app]. rewrite <- !app_assoc. reflexivity. }
  split.
  { intros f Hq. pose proof Hq as (_&Hq2&Hq3&_).
    rewrite cnt_cons, Hq3, !cnt_app, !cnt_rev, cnt_cons, Hq2, cnt_nil, <- cnt_own_evs. lia. }
  split.
  { intros e He. right. apply In_own_evs in He.
    destruct He as [K|[K|K]]; rewrite !in_app_iff, <- !in_rev; auto. }
  split.
  { cbn [ev s_h]. rewrite H6, H5, H4.
    unfold with_gone. cbn [h_present h_prepare_err h_outbox h_gone h_policy h_fail]. rewrite <- ?app_assoc. reflexivity. }
  cbn [ev s_remote_nomsgs]. rewrite N6, N5, N4. reflexivity.
Qed.

(* the sender's whole turn with a block B, when the answer line for A and then a byte 'F' come in *)
Lemma send_fwd sx p ps A r :
  h_present (s_h sx) = true -> sort_props (pendh (s_h sx)) = p :: ps ->
  let B := firstn (N.to_nat MaxBlockSize) (p :: ps) in
  Forall prop_syn B -> length A = length B -> s_in sx = fs_line A ++ 70 :: r ->
  exists sx' E, handle_outbound sx = ROk (false, sx') /\
    wire sx' = wire sx ++ proposal_bytes B ++ xfers B A /\ s_in sx' = 70 :: r /\
    s_ev sx' = E ++ s_ev sx /\
    (forall f, quiet f -> cnt f E = cnt f (own_evs B A)) /\ (forall e, In e (own_evs B A) -> In e E) /\
    s_h sx' = with_gone (s_h sx) (rev (sel AAccept B A) ++ rev (sel AReject B A) ++ rev (sel ADefer B A) ++ h_gone (s_h sx)) /\
    s_remote_nomsgs sx' = s_remote_nomsgs sx.
Proof.
  intros Hpr Hsort B Hsyn Hlen Hin.
  destruct (send_upto sx p ps A (70 :: r) Hpr Hsort Hsyn Hlen Hin) as (s4&Hho&W4&I4&V4&H4&N4). fold B in Hho, W4, V4, H4.
  destruct (peek_fwd sx B A s4 r W4 I4 V4 H4 N4) as (sx'&E&Hp&R). exists sx', E. split; [rewrite Hho; exact Hp|exact R].
Qed.

(* nothing left to propose: FF, or FQ when the peer has nothing either *)
Lemma send_none sx : h_present (s_h sx) = true -> pendh (s_h sx) = [] ->
  handle_outbound sx = ROk (s_remote_nomsgs sx,
                            wr (ev sx EvGetOutbound) (if s_remote_nomsgs sx then [70; 81; 13] else [70; 70; 13])).
Proof. intros Hp He. rewrite handle_outbound_eq, (outbound_present sx Hp), He. reflexivity. Qed.

(* ================================================================================== *)
(* 5. The receiver's turn, forwards                                                    *)
(* ================================================================================== *)
(* a prepared proposal that the peer can receive: the wire formats are respected and the 80
   bytes of the title that are sent contain no NUL (see title_nul_refused below) *)
Definition prop_live (p : oprop) : Prop := prop_syn p /\ ~ In 0 (firstn 80 (o_title p)).
(* the MID announced is the MID of the message inside *)
Definition prop_wf (p : oprop) : Prop := proposal_message (o_cdata p) = MOk (o_mid p) (pm_data p).

Lemma prop_wf_iff p : prop_wf p <-> exists data, proposal_message (o_cdata p) = MOk (o_mid p) data.
Proof.
  unfold prop_wf, pm_data. split.
  - intros H. eexists. exact H.
  - intros [d H]. rewrite H. reflexivity.
Qed.

(* distinct MIDs, a handler: every proposal is answered by the policy *)
Lemma answer_props_policy B : forall s seen acc,
  h_present (s_h s) = true -> NoDup (map o_mid B) -> (forall p, In p B -> ~ In (o_mid p) seen) ->
  exists s' E, answer_props s (map (fun p => iprop_of p ADefer) B) seen acc =
      (s', rev' acc ++ zip_props B (map (fun p => policy_of (s_h s) (o_mid p)) B)) /\
    s_ev s' = E ++ s_ev s /\ Forall is_answer E /\ s_in s' = s_in s /\ s_out s' = s_out s /\ s_h s' = s_h s /\
    s_remote_nomsgs s' = s_remote_nomsgs s.
Proof.
  induction B as [|p ps IH]; intros s seen acc Hpr Hnd Hseen.
  { exists s, []. cbn [map answer_props zip_props combine app]. rewrite app_nil_r. repeat split. constructor. }
  cbn [map answer_props]. cbn [iprop_of i_mid i_code].
  assert (E1 : mem_bytes (o_mid p) seen = false) by (apply mem_bytes_notin, Hseen; left; reflexivity).
  rewrite E1, Hpr. change ((Wl2kProposal =? Wl2kProposal) || (Wl2kProposal =? GzipProposal)) with true.
  cbn [negb orb]. cbv iota.
  inversion Hnd as [|? ? Hnot Hnd']; subst.
  set (a := policy_of (s_h s) (o_mid p)).
  destruct (IH (ev s (EvAnswer (o_mid p) a)) (o_mid p :: seen) (with_answer (iprop_of p ADefer) a :: acc) Hpr Hnd')
    as (s'&E&Eq&V&Fa&I'&O'&H'&N').
  { intros q Hq [Hx|Hx].
    - apply Hnot. rewrite Hx. apply in_map. exact Hq.
    - apply (Hseen q); [right; exact Hq|exact Hx]. }
  exists s', (E ++ [EvAnswer (o_mid p) a]). split.
  { fold a. change (iprop_of p ADefer) with (iprop_of p ADefer) in Eq. rewrite Eq. f_equal.
    rewrite !rev'_rev. cbn [rev map]. rewrite <- app_assoc. reflexivity. }
  split; [rewrite V; cbn [ev s_ev]; rewrite <- app_assoc; reflexivity|].
  split; [apply Forall_app; split; [exact Fa|constructor; [exists (o_mid p), a; reflexivity|constructor]]|].
  repeat (split; [assumption|]); assumption.
Qed.

Lemma recv_block_fwd sy B R :
  B <> [] -> Forall prop_syn B -> h_present (s_h sy) = true -> NoDup (map o_mid B) ->
  s_in sy = proposal_bytes B ++ R ->
  let A := map (fun p => policy_of (s_h sy) (o_mid p)) B in
  exists sy1 E, inbound_loop (S (length (s_in sy))) sy [] [] = ROk (false, zip_props B A, sy1) /\
    s_in sy1 = R /\ wire sy1 = wire sy ++ fs_line A /\ s_h sy1 = s_h sy /\ s_remote_nomsgs sy1 = false /\
    s_ev sy1 = E ++ s_ev sy /\ Forall is_answer E.
Proof.
  intros Hne Hsyn Hpr Hnd Hin A.
  rewrite (inbound_block B sy R (S (length (s_in sy))) Hne Hsyn Hin) by lia.
  destruct (answer_props_policy B (set_nomsgs (set_in sy R) false) [] [] Hpr Hnd) as (s'&E&Eq&V&Fa&I'&O'&H'&N').
  { intros q _ []. }
  rewrite Eq. cbn [rev' rev_append app]. cbn [set_nomsgs set_in s_h]. fold A.
  rewrite (zip_answers B A) by (unfold A; apply map_length).
  exists (wr s' ([70; 83; 32] ++ map answer_byte A ++ [13])), E. split; [reflexivity|].
  split; [cbn [wr s_in]; rewrite I'; reflexivity|].
  split; [rewrite wire_wr; unfold wire; rewrite O'; reflexivity|].
  split; [cbn [wr s_h]; rewrite H'; reflexivity|].
  split; [cbn [wr s_remote_nomsgs]; rewrite N'; reflexivity|].
  split; [cbn [wr s_ev]; rewrite V; reflexivity|exact Fa].
Qed.

Lemma receive_fwd B : forall A s Y, length A = length B -> Forall prop_live B -> Forall prop_wf B ->
  (forall p, In p B -> mem_bytes (o_mid p) (h_fail (s_h s)) = false) ->
  s_in s = xfers B A ++ Y ->
  exists s', receive_accepted s (zip_props B A) = RcOk s' /\ s_in s' = Y /\ s_out s' = s_out s /\ s_h s' = s_h s /\
    s_remote_nomsgs s' = s_remote_nomsgs s /\ s_ev s' = rev (proc_evs B A) ++ s_ev s.
Proof.
  induction B as [|p ps IH]; intros A s Y Hl Hlive Hwf Hfail Hin.
  { destruct A; [|discriminate]. exists s. cbn in Hin. repeat split. exact Hin. }
  destruct A as [|a r]; [discriminate|]. cbn [length] in Hl. injection Hl as Hl.
  inversion Hlive as [|? ? [Hsyn Ht] Hlive']; subst. inversion Hwf as [|? ? Hw Hwf']; subst.
  rewrite zip_props_cons. cbn [receive_accepted]. change (i_answer (iprop_of p a)) with a.
  cbn [xfers proc_evs] in *.
  assert (Hf' : forall q, In q ps -> mem_bytes (o_mid q) (h_fail (s_h s)) = false) by (intros q Hq; apply Hfail; right; exact Hq).
  destruct a; [|apply (IH r s Y Hl Hlive' Hwf' Hf' Hin)..].
  rewrite <- app_assoc in Hin.
  rewrite (read_compressed_xfer s p (iprop_of p AAccept) (xfers ps r ++ Y) Ht eq_refl Hin).
  unfold prop_wf in Hw. rewrite Hw. cbn [set_in s_h]. rewrite (Hfail p (or_introl eq_refl)). cbn [negb].
  destruct (IH r (add_recv (ev (set_in s (xfers ps r ++ Y)) (EvProcess (o_mid p) (pm_data p) true)) (i_mid (iprop_of p AAccept))) Y
              Hl Hlive' Hwf' Hf' eq_refl) as (s'&E&I'&O'&H'&N'&V').
  exists s'. split; [exact E|]. split; [exact I'|]. split; [exact O'|]. split; [exact H'|]. split; [exact N'|].
  rewrite V'. cbn [add_recv ev set_in s_ev]. rewrite rev_app_distr. cbn [rev app]. rewrite <- app_assoc. reflexivity.
Qed.

(* the whole turn of the receiver of a block *)
Lemma recv_fwd sy B Y :
  B <> [] -> Forall prop_live B -> Forall prop_wf B -> h_present (s_h sy) = true -> NoDup (map o_mid B) ->
  (forall p, In p B -> mem_bytes (o_mid p) (h_fail (s_h sy)) = false) ->
  let A := map (fun p => policy_of (s_h sy) (o_mid p)) B in
  s_in sy = proposal_bytes B ++ xfers B A ++ Y ->
  exists sy1 sy2 E, inbound_loop (S (length (s_in sy))) sy [] [] = ROk (false, zip_props B A, sy1) /\
    receive_accepted sy1 (zip_props B A) = RcOk sy2 /\
    s_in sy2 = Y /\ wire sy2 = wire sy ++ fs_line A /\ s_h sy2 = s_h sy /\ s_remote_nomsgs sy2 = false /\
    s_ev sy2 = E ++ s_ev sy /\
    (forall f, quiet f -> cnt f E = cnt f (proc_evs B A)) /\ (forall e, In e (proc_evs B A) -> In e E).
Proof.
  intros Hne Hlive Hwf Hpr Hnd Hfail A Hin.
  assert (Hsyn : Forall prop_syn B) by (eapply Forall_impl; [|exact Hlive]; intros q [Hq _]; exact Hq).
  destruct (recv_block_fwd sy B (xfers B A ++ Y) Hne Hsyn Hpr Hnd Hin) as (sy1&E1&Ei&I1&W1&H1&N1&V1&F1).
  fold A in Ei, W1.
  destruct (receive_fwd B A sy1 Y) as (sy2&Er&I2&O2&H2&N2&V2); try assumption.
  { unfold A. apply map_length. }
  { rewrite H1. exact Hfail. }
  exists sy1, sy2, (rev (proc_evs B A) ++ E1). split; [exact Ei|]. split; [exact Er|].
  split; [exact I2|]. split; [rewrite <- W1; apply wire_out; exact O2|]. split; [congruence|]. split; [congruence|].
  split; [rewrite V2, V1, <- app_assoc; reflexivity|]. split.
  - intros f Hq. rewrite cnt_app, cnt_rev, (cnt_answers f E1 Hq F1). lia.
  - intros e He. apply in_or_app. left. apply in_rev in He. exact He.
Qed.

(* ================================================================================== *)
(* 6. The events of a block whose MIDs are distinct                                    *)
(* ================================================================================== *)
Lemma beq_bytes_sym a b : beq_bytes a b = beq_bytes b a.
Proof.
  destruct (beq_bytes a b) eqn:E.
  - apply beq_bytes_true in E. subst. symmetry. apply beq_bytes_refl.
  - apply beq_bytes_false in E. symmetry. apply beq_bytes_neq. congruence.
Qed.

Lemma own_ev_of m a m' : own m (ev_of a m') = beq_bytes m' m.
Proof. destruct a; reflexivity. Qed.

Lemma cnt_own_notin m B : forall A, ~ In m (map o_mid B) -> cnt (own m) (own_evs B A) = 0%nat.
Proof.
  induction B as [|p ps IH]; intros [|a r] H; try reflexivity.
  cbn [own_evs]. rewrite cnt_cons, own_ev_of, IH by (intros X; apply H; right; exact X).
  rewrite beq_bytes_neq; [reflexivity|]. intros X. apply H. left. exact X.
Qed.
Lemma cnt_own_in m B : forall A, length A = length B -> NoDup (map o_mid B) -> In m (map o_mid B) ->
  cnt (own m) (own_evs B A) = 1%nat.
Proof.
  induction B as [|p ps IH]; intros [|a r] Hl Hnd Hin; try destruct Hin; try discriminate.
  - cbn [own_evs]. rewrite cnt_cons, own_ev_of, H, beq_bytes_refl. inversion Hnd; subst.
    rewrite cnt_own_notin by assumption. reflexivity.
  - cbn [own_evs]. inversion Hnd as [|? ? Hnot Hnd']; subst. cbn [length] in Hl. injection Hl as Hl.
    rewrite cnt_cons, own_ev_of, (IH r Hl Hnd' H). rewrite beq_bytes_neq; [reflexivity|]. intros X. apply Hnot. rewrite X. exact H.
Qed.
Lemma In_own_pol (pol : bytes -> answer) B p : In p B ->
  In (ev_of (pol (o_mid p)) (o_mid p)) (own_evs B (map (fun q => pol (o_mid q)) B)).
Proof.
  induction B as [|q ps IH]; intros H; [destruct H|]. cbn [map own_evs].
  destruct H as [->|H]; [left; reflexivity|right; apply IH, H].
Qed.
Lemma cnt_proc_own m B : forall A, cnt (proc m) (own_evs B A) = 0%nat.
Proof.
  induction B as [|p ps IH]; intros [|a r]; try reflexivity.
  cbn [own_evs]. rewrite cnt_cons, IH. destruct a; reflexivity.
Qed.
Lemma cnt_own_proc m B : forall A, cnt (own m) (proc_evs B A) = 0%nat.
Proof.
  induction B as [|p ps IH]; intros [|a r]; try reflexivity.
  cbn [proc_evs]. rewrite cnt_app, IH. destruct a; reflexivity.
Qed.
Lemma cnt_proc_notin m B : forall A, ~ In m (map o_mid B) -> cnt (proc m) (proc_evs B A) = 0%nat.
Proof.
  induction B as [|p ps IH]; intros [|a r] H; try reflexivity.
  cbn [proc_evs]. rewrite cnt_app, IH by (intros X; apply H; right; exact X).
  destruct a; try reflexivity. rewrite cnt_cons, cnt_nil. cbn [proc].
  rewrite beq_bytes_neq; [reflexivity|]. intros X. apply H. left. exact X.
Qed.
Lemma cnt_proc_in (pol : bytes -> answer) B p : NoDup (map o_mid B) -> In p B ->
  cnt (proc (o_mid p)) (proc_evs B (map (fun q => pol (o_mid q)) B)) =
  match pol (o_mid p) with AAccept => 1%nat | _ => 0%nat end.
Proof.
  induction B as [|q ps IH]; intros Hnd H; [destruct H|]. cbn [map proc_evs]. rewrite cnt_app.
  inversion Hnd as [|? ? Hnot Hnd']; subst. destruct H as [->|H].
  - rewrite cnt_proc_notin by exact Hnot. destruct (pol (o_mid p)); try reflexivity.
    rewrite cnt_cons, cnt_nil. cbn [proc]. rewrite beq_bytes_refl. reflexivity.
  - rewrite (IH Hnd' H).
    assert (Hne : o_mid q <> o_mid p) by (intros X; apply Hnot; rewrite X; apply in_map, H).
    destruct (pol (o_mid q)); rewrite ?cnt_nil; try reflexivity.
    rewrite cnt_cons, cnt_nil. cbn [proc]. rewrite (beq_bytes_neq _ _ Hne). reflexivity.
Qed.
Lemma In_proc_pol (pol : bytes -> answer) B p : In p B -> pol (o_mid p) = AAccept ->
  In (EvProcess (o_mid p) (pm_data p) true) (proc_evs B (map (fun q => pol (o_mid q)) B)).
Proof.
  induction B as [|q ps IH]; intros H Ha; [destruct H|]. cbn [map proc_evs]. apply in_or_app.
  destruct H as [->|H]; [left; rewrite Ha; left; reflexivity|right; apply IH; assumption].
Qed.

(* the MIDs that are gone after the block *)
Lemma gone_after B A g m : length A = length B ->
  In m (rev (sel AAccept B A) ++ rev (sel AReject B A) ++ rev (sel ADefer B A) ++ g) <-> In m (map o_mid B) \/ In m g.
Proof.
  intros Hl. rewrite !in_app_iff, <- !in_rev. split.
  - intros [H|[H|[H|H]]]; try (right; exact H); left;
      destruct (sel_In _ _ _ _ H) as (p&Hp&<-); apply in_map, Hp.
  - intros [H|H]; [|tauto]. apply in_map_iff in H. destruct H as (p&<-&Hp).
    destruct (sel_cover B A p Hl Hp) as [K|[K|K]]; tauto.
Qed.

Lemma NoDup_map_inj {T U} (f : T -> U) l a b : NoDup (map f l) -> In a l -> In b l -> f a = f b -> a = b.
Proof.
  induction l as [|x l IH]; intros Hnd Ha Hb E; [destruct Ha|]. cbn [map] in Hnd.
  inversion Hnd as [|? ? Hnot Hnd']; subst.
  destruct Ha as [->|Ha], Hb as [->|Hb]; try reflexivity.
  - exfalso. apply Hnot. rewrite E. apply in_map, Hb.
  - exfalso. apply Hnot. rewrite <- E. apply in_map, Ha.
  - apply IH; assumption.
Qed.

Lemma NoDup_map_filter {T U} (f : T -> U) g l : NoDup (map f l) -> NoDup (map f (filter g l)).
Proof.
  induction l as [|x l IH]; intros H; [constructor|]. cbn [map] in H. inversion H as [|? ? Hnot Hnd]; subst.
  cbn [filter]. destruct (g x); [|apply IH, Hnd]. cbn [map]. constructor; [|apply IH, Hnd].
  intros K. apply Hnot. apply in_map_iff in K. destruct K as (y&E&Hy). apply filter_In in Hy.
  rewrite <- E. apply in_map, Hy.
Qed.
Lemma NoDup_firstn {T} n (l : list T) : NoDup l -> NoDup (firstn n l).
Proof.
  revert l. induction n as [|n IH]; intros l H; [constructor|]. destruct l as [|x l]; [constructor|].
  cbn [firstn]. inversion H as [|? ? Hnot Hnd]; subst. constructor; [|apply IH, Hnd].
  intros K. apply Hnot. eapply In_firstn. exact K.
Qed.

(* ================================================================================== *)
(* 7. The invariant on the logs                                                        *)
(* ================================================================================== *)
Definition gone (s : sess) : list bytes := h_gone (s_h s).

(* p, of the outbox of sx, has been dealt with: the owner has recorded exactly one event for
   its MID, the one that corresponds to the peer's answer; the peer's handler was given the
   message exactly once, intact, if the answer was "accept", and not at all otherwise *)
Definition done_p (sx sy : sess) (p : oprop) : Prop :=
  In (o_mid p) (gone sx) /\ cnt (own (o_mid p)) (s_ev sx) = 1%nat /\
  In (ev_of (policy_of (s_h sy) (o_mid p)) (o_mid p)) (s_ev sx) /\
  match policy_of (s_h sy) (o_mid p) with
  | AAccept => cnt (proc (o_mid p)) (s_ev sy) = 1%nat /\ In (EvProcess (o_mid p) (pm_data p) true) (s_ev sy)
  | _ => cnt (proc (o_mid p)) (s_ev sy) = 0%nat
  end.
Definition notyet_p (sx sy : sess) (p : oprop) : Prop :=
  ~ In (o_mid p) (gone sx) /\ cnt (own (o_mid p)) (s_ev sx) = 0%nat /\ cnt (proc (o_mid p)) (s_ev sy) = 0%nat.
(* nothing is recorded, and nothing is handed to the peer's handler, for a MID that is not in the outbox *)
Definition alien (sx sy : sess) : Prop :=
  forall m, ~ In m (map o_mid (hob sx)) -> cnt (own m) (s_ev sx) = 0%nat /\ cnt (proc m) (s_ev sy) = 0%nat.
Definition Inv (sx sy : sess) : Prop :=
  (forall p, In p (hob sx) -> done_p sx sy p \/ notyet_p sx sy p) /\ alien sx sy.

Lemma keep_p sx sy sx' sy' Ex Ey p :
  (In (o_mid p) (gone sx') <-> In (o_mid p) (gone sx)) -> hsame (s_h sy') (s_h sy) ->
  s_ev sx' = Ex ++ s_ev sx -> cnt (own (o_mid p)) Ex = 0%nat ->
  s_ev sy' = Ey ++ s_ev sy -> cnt (proc (o_mid p)) Ey = 0%nat ->
  done_p sx sy p \/ notyet_p sx sy p -> done_p sx' sy' p \/ notyet_p sx' sy' p.
Proof.
  intros Hg Hy Vx Cx Vy Cy [(D1&D2&D3&D4)|(N1&N2&N3)]; [left|right].
  - unfold done_p. rewrite (hsame_policy _ _ (o_mid p) Hy), Vx, Vy, !cnt_app, Cx, Cy.
    split; [apply Hg, D1|]. split; [exact D2|]. split; [apply in_or_app; right; exact D3|].
    destruct (policy_of (s_h sy) (o_mid p)); try exact D4.
    destruct D4 as [D4 D5]. split; [exact D4|apply in_or_app; right; exact D5].
  - unfold notyet_p. rewrite Vx, Vy, !cnt_app, Cx, Cy. split; [rewrite Hg; exact N1|]. split; assumption.
Qed.

Lemma Inv_neutral sx sy sx' sy' Ex Ey :
  hsame (s_h sx') (s_h sx) -> (forall m, In m (gone sx') <-> In m (gone sx)) -> hsame (s_h sy') (s_h sy) ->
  s_ev sx' = Ex ++ s_ev sx -> (forall m, cnt (own m) Ex = 0%nat) ->
  s_ev sy' = Ey ++ s_ev sy -> (forall m, cnt (proc m) Ey = 0%nat) ->
  Inv sx sy -> Inv sx' sy'.
Proof.
  intros Hx Hg Hy Vx Cx Vy Cy [H HA]. split.
  - intros p Hp. unfold hob in Hp. rewrite (hsame_outbox _ _ Hx) in Hp. eapply keep_p; eauto.
  - intros m Hm. unfold hob in Hm. rewrite (hsame_outbox _ _ Hx) in Hm.
    rewrite Vx, Vy, !cnt_app, Cx, Cy. apply HA, Hm.
Qed.

Lemma Inv_block sx sy sx' sy' B Ex Ey :
  let A := map (fun p => policy_of (s_h sy) (o_mid p)) B in
  NoDup (map o_mid (hob sx)) -> NoDup (map o_mid B) ->
  (forall p, In p B -> In p (hob sx) /\ ~ In (o_mid p) (gone sx)) ->
  hsame (s_h sx') (s_h sx) -> (forall m, In m (gone sx') <-> In m (map o_mid B) \/ In m (gone sx)) ->
  hsame (s_h sy') (s_h sy) ->
  s_ev sx' = Ex ++ s_ev sx -> (forall f, quiet f -> cnt f Ex = cnt f (own_evs B A)) -> (forall e, In e (own_evs B A) -> In e Ex) ->
  s_ev sy' = Ey ++ s_ev sy -> (forall f, quiet f -> cnt f Ey = cnt f (proc_evs B A)) -> (forall e, In e (proc_evs B A) -> In e Ey) ->
  Inv sx sy -> Inv sx' sy'.
Proof.
  intros A Hnd HndB HB Hx Hg Hy Vx Cx Ix Vy Cy Iy [H HA].
  assert (Hl : length A = length B) by (unfold A; apply map_length).
  split.
  2:{ intros m Hm. unfold hob in Hm. rewrite (hsame_outbox _ _ Hx) in Hm.
      assert (HmB : ~ In m (map o_mid B)).
      { intros K. apply Hm. apply in_map_iff in K. destruct K as (q&E&Hq). rewrite <- E. apply in_map, HB, Hq. }
      rewrite Vx, Vy, !cnt_app, (Cx _ (own_quiet _)), (Cy _ (proc_quiet _)).
      rewrite (cnt_own_notin _ _ _ HmB), (cnt_proc_notin _ _ _ HmB). apply HA, Hm. }
  intros p Hp. unfold hob in Hp. rewrite (hsame_outbox _ _ Hx) in Hp.
  destruct (in_dec (list_eq_dec N.eq_dec) (o_mid p) (map o_mid B)) as [Hin|Hnin].
  - (* p is in the block *)
    assert (HpB : In p B).
    { apply in_map_iff in Hin. destruct Hin as (q&E&Hq). destruct (HB q Hq) as [Hq' _].
      rewrite <- (NoDup_map_inj o_mid _ q p Hnd Hq' Hp E). exact Hq. }
    destruct (HB p HpB) as [_ Hng].
    destruct (H p Hp) as [(D1&_)|(N1&N2&N3)]; [contradiction|]. left.
    unfold done_p. rewrite (hsame_policy _ _ (o_mid p) Hy), Vx, Vy, !cnt_app, N2, N3.
    rewrite (Cx _ (own_quiet _)), (Cy _ (proc_quiet _)), (cnt_own_in _ B A Hl HndB Hin).
    unfold A. rewrite (cnt_proc_in (policy_of (s_h sy)) B p HndB HpB).
    split; [apply Hg; left; exact Hin|]. split; [reflexivity|].
    split; [apply in_or_app; left; apply Ix, (In_own_pol (policy_of (s_h sy)) B p HpB)|].
    destruct (policy_of (s_h sy) (o_mid p)) eqn:Ea; try reflexivity.
    split; [reflexivity|]. apply in_or_app. left. apply Iy. apply (In_proc_pol (policy_of (s_h sy)) B p HpB Ea).
  - eapply (keep_p sx sy sx' sy' Ex Ey p); try eassumption.
    + rewrite Hg. tauto.
    + rewrite (Cx _ (own_quiet _)). apply cnt_own_notin, Hnin.
    + rewrite (Cy _ (proc_quiet _)). apply cnt_proc_notin, Hnin.
    + apply H, Hp.
Qed.

(* ================================================================================== *)
(* 8. The complete run of the pair from a turn boundary                                *)
(* ================================================================================== *)
(* hx owns an outbox that hy can receive: a handler on the owner's side, proposals that respect
   the formats, announce the MID they contain, have pairwise distinct MIDs, and whose store
   does not fail at the peer *)
Definition okdir (hx hy : hstate) : Prop :=
  h_present hx = true /\ Forall prop_live (h_outbox hx) /\ Forall prop_wf (h_outbox hx) /\
  NoDup (map o_mid (h_outbox hx)) /\ (forall p, In p (h_outbox hx) -> mem_bytes (o_mid p) (h_fail hy) = false).

Lemma okdir_hsame hx hy hx' hy' : hsame hx' hx -> hsame hy' hy -> okdir hx hy -> okdir hx' hy'.
Proof.
  intros Hx Hy (H1&H2&H3&H4&H5). unfold okdir.
  rewrite (hsame_present _ _ Hx), (hsame_outbox _ _ Hx), (hsame_fail _ _ Hy). repeat (split; [assumption|]); assumption.
Qed.

Lemma block_facts hx p ps :
  Forall prop_live (h_outbox hx) -> Forall prop_wf (h_outbox hx) -> NoDup (map o_mid (h_outbox hx)) ->
  sort_props (pendh hx) = p :: ps ->
  let B := firstn (N.to_nat MaxBlockSize) (p :: ps) in
  B <> [] /\ In p B /\ (forall q, In q B -> In q (h_outbox hx) /\ ~ In (o_mid q) (h_gone hx)) /\
  NoDup (map o_mid B) /\ Forall prop_live B /\ Forall prop_wf B /\ (exists r, proposal_bytes B = 70 :: r).
Proof.
  intros Hlive Hwf Hnd Hs B.
  assert (HB : forall q, In q B -> In q (h_outbox hx) /\ ~ In (o_mid q) (h_gone hx)).
  { intros q Hq. apply In_firstn in Hq. rewrite <- Hs in Hq.
    apply (Permutation_in _ (Permutation_sym (sort_props_perm _))) in Hq. apply pendh_In, Hq. }
  split; [unfold B; change (N.to_nat MaxBlockSize) with 5%nat; cbn [firstn]; discriminate|].
  split; [unfold B; change (N.to_nat MaxBlockSize) with 5%nat; cbn [firstn]; left; reflexivity|].
  split; [exact HB|]. split.
  { unfold B. rewrite <- firstn_map. apply NoDup_firstn. rewrite <- Hs.
    eapply Permutation_NoDup; [apply Permutation_map, sort_props_perm|]. apply NoDup_map_filter, Hnd. }
  split; [apply Forall_forall; intros q Hq; apply (proj1 (Forall_forall _ _) Hlive), HB, Hq|].
  split; [apply Forall_forall; intros q Hq; apply (proj1 (Forall_forall _ _) Hwf), HB, Hq|].
  unfold B. change (N.to_nat MaxBlockSize) with 5%nat. cbn [firstn].
  eexists. unfold proposal_bytes. cbv zeta. cbn [map concat]. rewrite proposal_line_eq. cbn [app]. reflexivity.
Qed.

Lemma pend_after hx G p :
  In p (h_outbox hx) -> ~ In (o_mid p) (h_gone hx) -> In (o_mid p) (G ++ h_gone hx) ->
  (length (pendh (with_gone hx (G ++ h_gone hx))) < length (pendh hx))%nat.
Proof.
  intros H1 H2 H3. unfold pendh. cbn [with_gone h_gone h_outbox].
  apply (pend_shrink_strict (h_gone hx) (G ++ h_gone hx) (h_outbox hx) p); try assumption.
  intros m Hm. apply in_or_app. right. exact Hm.
Qed.

Lemma run_quit_send sx s1 : handle_outbound sx = ROk (true, s1) -> run true sx = (XNil, s1).
Proof. intros H. rewrite run_send, H. reflexivity. Qed.
Lemma run_go_send sx s1 : handle_outbound sx = ROk (false, s1) -> run true sx = run false s1.
Proof. intros H. rewrite run_send, H. reflexivity. Qed.
Lemma run_go_recv sy props s1 s2 :
  inbound_loop (S (length (s_in sy))) sy [] [] = ROk (false, props, s1) -> receive_accepted s1 props = RcOk s2 ->
  run false sy = run true s2.
Proof. intros H1 H2. rewrite run_recv, H1, H2. reflexivity. Qed.
Lemma run_quit_recv sy props s1 s2 :
  inbound_loop (S (length (s_in sy))) sy [] [] = ROk (true, props, s1) -> receive_accepted s1 props = RcOk s2 ->
  run false sy = (XNil, s2).
Proof. intros H1 H2. rewrite run_recv, H1, H2. reflexivity. Qed.

(* THE JOINT RUN.  hx is the handler of the side whose turn it is, qx its "the peer has nothing
   more" flag.  There are byte strings Tx, Ty such that the side with hx, fed Ty, writes Tx and
   ends with nil, and the other side, fed Tx, writes Ty and ends with nil; nothing is pending at
   the end and the invariant on the logs is kept. *)
Lemma joint_run : forall n hx hy (qx : bool),
  (2 * (length (pendh hx) + length (pendh hy)) + (if qx then 0 else 1) < n)%nat ->
  okdir hx hy -> okdir hy hx -> (qx = true -> pendh hy = []) ->
  exists Tx Ty, (exists r, Tx = 70 :: r) /\
    forall sx sy, s_h sx = hx -> s_h sy = hy -> s_remote_nomsgs sx = qx -> s_in sx = Ty -> s_in sy = Tx ->
      Inv sx sy -> Inv sy sx ->
      exists fx fy, run true sx = (XNil, fx) /\ run false sy = (XNil, fy) /\
        wire fx = wire sx ++ Tx /\ wire fy = wire sy ++ Ty /\
        hsame (s_h fx) hx /\ hsame (s_h fy) hy /\ pendh (s_h fx) = [] /\ pendh (s_h fy) = [] /\
        Inv fx fy /\ Inv fy fx.
Proof.
  induction n as [|n IH]; intros hx hy qx Hn Oxy Oyx Hq; [lia|].
  pose proof Oxy as (Px&Lx&Wx&Nx&Fx). pose proof Oyx as (Py&Ly&Wy&Ny&Fy).
  destruct (sort_props (pendh hx)) as [|p ps] eqn:Es.
  - (* nothing to propose *)
    apply sort_props_nil in Es. destruct qx.
    + (* FQ *)
      specialize (Hq eq_refl).
      exists [70; 81; 13], []. split; [eexists; reflexivity|].
      intros sx sy Hx Hy Qx Ix Iy I1 I2.
      assert (Hho : handle_outbound sx = ROk (true, wr (ev sx EvGetOutbound) [70; 81; 13])).
      { rewrite send_none by (rewrite Hx; assumption). rewrite Qx. reflexivity. }
      assert (Hil : inbound_loop (S (length (s_in sy))) sy [] [] = ROk (true, [], set_in sy [])).
      { apply inbound_fq; [rewrite Iy; reflexivity|lia]. }
      exists (wr (ev sx EvGetOutbound) [70; 81; 13]), (set_in sy []).
      split; [apply run_quit_send, Hho|]. split; [eapply run_quit_recv; [exact Hil|reflexivity]|].
      split; [rewrite wire_wr; reflexivity|]. split; [rewrite app_nil_r; reflexivity|].
      cbn [wr ev set_in s_h]. rewrite Hx, Hy.
      split; [apply hsame_refl|]. split; [apply hsame_refl|]. split; [exact Es|]. split; [exact Hq|].
      split.
      * eapply (Inv_neutral sx sy _ _ [EvGetOutbound] []); first [exact I1 | reflexivity | intros m; reflexivity].
      * eapply (Inv_neutral sy sx _ _ [] [EvGetOutbound]); first [exact I2 | reflexivity | intros m; reflexivity].
    + (* FF, then the peer's turn *)
      destruct (IH hy hx true) as (Ty&Tx&[r Er]&Hrun); try assumption.
      { rewrite Es in *. cbn [length] in *. lia. }
      { intros _. exact Es. }
      exists ([70; 70; 13] ++ Tx), Ty. split; [eexists; reflexivity|].
      intros sx sy Hx Hy Qx Ix Iy I1 I2.
      assert (Hho : handle_outbound sx = ROk (false, wr (ev sx EvGetOutbound) [70; 70; 13])).
      { rewrite send_none by (rewrite Hx; assumption). rewrite Qx. reflexivity. }
      assert (Hil : inbound_loop (S (length (s_in sy))) sy [] [] = ROk (false, [], set_nomsgs (set_in sy Tx) true)).
      { apply inbound_ff; [rewrite Iy; reflexivity|lia]. }
      set (sx1 := wr (ev sx EvGetOutbound) [70; 70; 13]) in *. set (sy1 := set_nomsgs (set_in sy Tx) true) in *.
      destruct (Hrun sy1 sx1) as (fy&fx&R1&R2&W1&W2&S1&S2&P1&P2&J1&J2); try reflexivity; try assumption.
      * eapply (Inv_neutral sy sx _ _ [] [EvGetOutbound]); first [exact I2 | reflexivity | intros m; reflexivity].
      * eapply (Inv_neutral sx sy _ _ [EvGetOutbound] []); first [exact I1 | reflexivity | intros m; reflexivity].
      * exists fx, fy. split; [rewrite (run_go_send _ _ Hho); exact R2|].
        split; [rewrite (run_go_recv _ _ _ _ Hil eq_refl); exact R1|].
        split; [rewrite W2; unfold sx1; rewrite wire_wr, <- app_assoc; reflexivity|].
        split; [exact W1|]. repeat (split; [assumption|]); assumption.
  - (* a block of proposals *)
    destruct (block_facts hx p ps Lx Wx Nx Es) as (Bne&HpB&HB&NdB&LB&WB&[rB ErB]). cbv zeta in *.
    set (B := firstn (N.to_nat MaxBlockSize) (p :: ps)) in *.
    set (A := map (fun q => policy_of hy (o_mid q)) B).
    assert (Hl : length A = length B) by (unfold A; apply map_length).
    set (G := rev (sel AAccept B A) ++ rev (sel AReject B A) ++ rev (sel ADefer B A)).
    set (hx' := with_gone hx (G ++ h_gone hx)).
    assert (HG : forall m, In m (G ++ h_gone hx) <-> In m (map o_mid B) \/ In m (h_gone hx)).
    { intros m. unfold G. rewrite <- !app_assoc. apply gone_after, Hl. }
    assert (Hlt : (length (pendh hx') < length (pendh hx))%nat).
    { destruct (HB p HpB) as [Hp1 Hp2]. apply (pend_after hx G p); try assumption. apply HG. left. apply in_map, HpB. }
    destruct (IH hy hx' false) as (Ty&Tx&[r Er]&Hrun).
    { destruct qx; lia. }
    { eapply okdir_hsame; [apply hsame_refl|apply hsame_with_gone|exact Oyx]. }
    { eapply okdir_hsame; [apply hsame_with_gone|apply hsame_refl|exact Oxy]. }
    { discriminate. }
    exists (proposal_bytes B ++ xfers B A ++ Tx), (fs_line A ++ Ty).
    split; [rewrite ErB; eexists; reflexivity|].
    intros sx sy Hx Hy Qx Ix Iy I1 I2.
    assert (Hsyn : Forall prop_syn B) by (eapply Forall_impl; [|exact LB]; intros q [Hq' _]; exact Hq').
    destruct (send_fwd sx p ps A r) as (sx'&Ex&Hho&Wsx&Isx&Vsx&Cx&Inx&Hsx&Qsx).
    { rewrite Hx. exact Px. } { rewrite Hx. exact Es. } { exact Hsyn. } { exact Hl. } { rewrite Ix, Er. reflexivity. }
    fold B in Hho, Wsx, Cx, Inx, Hsx.
    assert (Hsx' : s_h sx' = hx') by (rewrite Hsx, Hx; unfold hx', G; rewrite <- !app_assoc; reflexivity).
    clear Hsx.
    destruct (recv_fwd sy B Tx) as (sy1&sy2&Ey&Hil&Hrc&Isy&Wsy&Hsy&Qsy&Vsy&Cy&Iny); try assumption.
    { rewrite Hy. exact Py. }
    { intros q Hq'. rewrite Hy. apply Fx, HB, Hq'. }
    { rewrite Hy. fold A. exact Iy. }
    rewrite Hy in Hil, Hrc, Wsy, Cy, Iny. fold A in Hil, Hrc, Wsy, Cy, Iny.
    destruct (Hrun sy2 sx') as (fy&fx&R1&R2&W1&W2&S1&S2&P1&P2&J1&J2).
    { congruence. } { exact Hsx'. } { exact Qsy. } { exact Isy. } { rewrite Isx, Er. reflexivity. }
    { (* the receiver's own outbox: nothing happened to it *)
      eapply (Inv_neutral sy sx sy2 sx' Ey Ex); try eassumption.
      - rewrite Hsy. apply hsame_refl.
      - intros m. unfold gone. rewrite Hsy. reflexivity.
      - rewrite Hsx', Hx. apply hsame_with_gone.
      - intros m. rewrite (Cy _ (own_quiet m)). apply cnt_own_proc.
      - intros m. rewrite (Cx _ (proc_quiet m)). apply cnt_proc_own. }
    { (* the block *)
      eapply (Inv_block sx sy sx' sy2 B Ex Ey); try eassumption.
      - unfold hob. rewrite Hx. exact Nx.
      - unfold hob, gone. rewrite Hx. exact HB.
      - rewrite Hsx', Hx. apply hsame_with_gone.
      - intros m. unfold gone. rewrite Hsx', Hx. unfold hx'. cbn [with_gone h_gone]. apply HG.
      - rewrite Hsy. apply hsame_refl.
      - rewrite Hy. exact Cx.
      - rewrite Hy. exact Inx.
      - rewrite Hy. exact Cy.
      - rewrite Hy. exact Iny. }
    exists fx, fy. split; [rewrite (run_go_send _ _ Hho); exact R2|].
    split; [rewrite (run_go_recv _ _ _ _ Hil Hrc); exact R1|].
    split; [rewrite W2, Wsx, <- !app_assoc; reflexivity|].
    split; [rewrite W1, Wsy, <- app_assoc; reflexivity|].
    split; [eapply hsame_trans; [exact S2|apply hsame_with_gone]|].
    repeat (split; [assumption|]); assumption.
Qed.

(* ================================================================================== *)
(* 9. From Exchange to the turn loop                                                   *)
(* ================================================================================== *)
Lemma handshake_proj {T} (g : sess -> T) :
  (forall s b, g (wr s b) = g s) -> (forall a b, eqo a b -> g a = g b) ->
  forall s s', handshake s = ROk s' -> g s' = g s.
Proof.
  intros Gw Ge s s'. unfold handshake, do_send_handshake. cbv zeta. destruct (s_master s).
  - assert (K : forall l s0, g (fold_left (fun acc (x : bytes) => wr acc (x ++ [13])) l s0) = g s0).
    { induction l as [|x l IH]; intros s0; cbn [fold_left]; [reflexivity|]. rewrite IH. apply Gw. }
    set (s1 := fold_left (fun acc l => wr acc (l ++ [13])) (s_motd s) s).
    destruct (send_handshake (s_cfg s1) []) as [b|]; [|discriminate].
    match goal with |- context [read_handshake ?f ?s2 ?d] =>
      pose proof (read_handshake_eqo f s2 d) as Hr; destruct (read_handshake f s2 d) as [[d1 s3]|e s3|] end;
      cbn [res_eqo] in Hr; try discriminate.
    destruct (hd_have_sid d1 && negb (beq_bytes (hd_sid d1) [])); [|discriminate].
    intros H. injection H as <-. rewrite <- (Ge _ _ Hr), Gw. apply K.
  - match goal with |- context [read_handshake ?f ?s2 ?d] =>
      pose proof (read_handshake_eqo f s2 d) as Hr; destruct (read_handshake f s2 d) as [[d1 s3]|e s3|] end;
      cbn [res_eqo] in Hr; try discriminate.
    destruct (hd_have_sid d1 && negb (beq_bytes (hd_sid d1) [])); [|discriminate].
    destruct (send_handshake (s_cfg s3) (hd_challenge d1)); [|discriminate].
    intros H. injection H as <-. rewrite Gw. symmetry. apply Ge, Hr.
Qed.

Lemma handshake_ev s s' : handshake s = ROk s' -> s_ev s' = s_ev s.
Proof. apply (handshake_proj s_ev); [reflexivity|apply eqo_ev]. Qed.
Lemma handshake_nomsgs s s' : handshake s = ROk s' -> s_remote_nomsgs s' = s_remote_nomsgs s.
Proof.
  apply (handshake_proj s_remote_nomsgs); [reflexivity|]. intros a b H. apply (f_equal s_remote_nomsgs) in H. exact H.
Qed.

Lemma exchange_ok3 cfg input s2 :
  h_present (c_handler cfg) && h_prepare_err (c_handler cfg) = false ->
  handshake (init_state cfg input) = ROk s2 ->
  x_res (exchange cfg input) = fst (run (negb (c_master cfg)) s2) /\
  x_wire (exchange cfg input) = wire (final (negb (c_master cfg)) s2) /\
  x_events (exchange cfg input) = rev (s_ev (final (negb (c_master cfg)) s2)).
Proof.
  intros Hp Hh. split; [|apply exchange_ok; assumption].
  unfold exchange. cbv zeta. fold (init_state cfg input). rewrite Hp, Hh.
  pose proof (handshake_inlen (init_state cfg input)) as Hl. rewrite Hh in Hl.
  unfold inlen in Hl at 2. rewrite (proj1 (init_state_facts cfg input)) in Hl.
  rewrite (turns_run _ (negb (c_master cfg)) s2) by (destruct (negb (c_master cfg)); lia).
  destruct (run (negb (c_master cfg)) s2) as [r s3]. cbn [fst snd]. apply finish_res.
Qed.

Lemma init_state_present cfg i : h_present (c_handler cfg) = true ->
  s_ev (init_state cfg i) = [EvPrepare] /\ s_remote_nomsgs (init_state cfg i) = false.
Proof. intros H. unfold init_state. rewrite H. split; reflexivity. Qed.

(* ================================================================================== *)
(* 10. THE COMPLETE EXCHANGE                                                           *)
(* ================================================================================== *)
(* side x can deliver its outbox to side y *)
Definition side_ready (x y : side_cfg) : Prop :=
  h_prepare_err (c_handler x) = false /\ okdir (c_handler x) (c_handler y) /\
  (forall p, In p (h_outbox (c_handler x)) -> ~ In (o_mid p) (h_gone (c_handler x))).

(* what the logs of the owner (ox) and of the peer (oy) say about the owner's outbox *)
Definition delivered (hx hy : hstate) (ox oy : outcome) : Prop :=
  (forall p, In p (h_outbox hx) ->
    match policy_of hy (o_mid p) with
    | AAccept => filter (own (o_mid p)) (x_events ox) = [EvSetSent (o_mid p) false] /\
                 filter (proc (o_mid p)) (x_events oy) = [EvProcess (o_mid p) (pm_data p) true] /\
                 proposal_message (o_cdata p) = MOk (o_mid p) (pm_data p)
    | AReject => filter (own (o_mid p)) (x_events ox) = [EvSetSent (o_mid p) true] /\
                 filter (proc (o_mid p)) (x_events oy) = []
    | ADefer => filter (own (o_mid p)) (x_events ox) = [EvSetDeferred (o_mid p)] /\
                filter (proc (o_mid p)) (x_events oy) = []
    end) /\
  (* and nothing else: no event of these kinds for a MID that is not in the outbox *)
  (forall m, ~ In m (map o_mid (h_outbox hx)) ->
     filter (own m) (x_events ox) = [] /\ filter (proc m) (x_events oy) = []).

Lemma filter_one_rev f l e : cnt f l = 1%nat -> In e l -> f e = true -> filter f (rev l) = [e].
Proof. intros H1 H2 H3. apply cnt_one; [rewrite cnt_rev; exact H1|apply in_rev in H2; exact H2|exact H3]. Qed.
Lemma filter_zero_rev f l : cnt f l = 0%nat -> filter f (rev l) = [].
Proof. intros H. apply cnt_zero. rewrite cnt_rev. exact H. Qed.

Lemma done_delivered hx hy fx fy ox oy :
  hsame (s_h fx) hx -> hsame (s_h fy) hy -> pendh (s_h fx) = [] -> Inv fx fy ->
  Forall prop_wf (h_outbox hx) ->
  x_events ox = rev (s_ev fx) -> x_events oy = rev (s_ev fy) ->
  delivered hx hy ox oy.
Proof.
  intros Sx Sy Pe [HI HA] Hwf Ex Ey. unfold delivered. rewrite Ex, Ey. split.
  2:{ intros m Hm. destruct (HA m) as [A1 A2]; [unfold hob; rewrite (hsame_outbox _ _ Sx); exact Hm|].
      split; apply filter_zero_rev; assumption. }
  intros p Hp.
  assert (Hp' : In p (hob fx)) by (unfold hob; rewrite (hsame_outbox _ _ Sx); exact Hp).
  destruct (HI p Hp') as [(D1&D2&D3&D4)|(N1&_)].
  2:{ exfalso. assert (K : In p (pendh (s_h fx))) by (apply pendh_In; split; assumption). rewrite Pe in K. exact K. }
  rewrite (hsame_policy _ _ (o_mid p) Sy) in D3, D4.
  destruct (policy_of hy (o_mid p)).
  - destruct D4 as [D4 D5]. split; [|split].
    + apply filter_one_rev; [exact D2|exact D3|]. cbn [own]. apply beq_bytes_refl.
    + apply filter_one_rev; [exact D4|exact D5|]. cbn [proc]. apply beq_bytes_refl.
    + apply (proj1 (Forall_forall _ _) Hwf), Hp.
  - split; [|apply filter_zero_rev, D4].
    apply filter_one_rev; [exact D2|exact D3|]. cbn [own]. apply beq_bytes_refl.
  - split; [|apply filter_zero_rev, D4].
    apply filter_one_rev; [exact D2|exact D3|]. cbn [own]. apply beq_bytes_refl.
Qed.

(* master m, slave s *)
Theorem complete_exchange_ms (m s : side_cfg) :
  c_master m = true -> c_master s = false -> hs_compat m s -> side_ready m s -> side_ready s m ->
  exists in_m in_s,
    x_wire (exchange m in_m) = in_s /\ x_wire (exchange s in_s) = in_m /\
    x_res (exchange m in_m) = XNil /\ x_res (exchange s in_s) = XNil /\
    delivered (c_handler m) (c_handler s) (exchange m in_m) (exchange s in_s) /\
    delivered (c_handler s) (c_handler m) (exchange s in_s) (exchange m in_m).
Proof.
  intros Mm Ms (M&S&sm&ss&Hm1&Hm2&Hm3&Hs1&Hs2&Hs3) (Em&Om&Gm) (Es&Os&Gs).
  pose proof Om as (Pm&_&Wm&_). pose proof Os as (Ps&_&Ws&_).
  destruct (joint_run (Datatypes.S (2 * (length (pendh (c_handler s)) + length (pendh (c_handler m))) + 1))%nat
              (c_handler s) (c_handler m) false) as (Tx&Ty&[r Er]&Hrun); try assumption.
  { lia. } { discriminate. }
  exists (S ++ Tx), (M ++ Ty).
  (* the handshakes *)
  assert (Hhs : handshake (init_state s (M ++ Ty)) = ROk (ext Ty ss)) by (rewrite init_state_ext; apply hs_forward, Hs1).
  assert (Hhm : handshake (init_state m (S ++ Tx)) = ROk (ext r sm)).
  { rewrite Er. change (70 :: r) with ([70] ++ r). rewrite app_assoc, init_state_ext. apply hs_forward, Hm1. }
  destruct (init_state_facts s M) as (_&_&Fs&_). destruct (init_state_facts m (S ++ [70])) as (_&_&Fm&_).
  destruct (init_state_present s M Ps) as [Vs Qs]. destruct (init_state_present m (S ++ [70]) Pm) as [Vm Qm].
  destruct (Hrun (ext Ty ss) (ext r sm)) as (fx&fy&R1&R2&W1&W2&S1&S2&P1&P2&J1&J2).
  { cbn [ext set_in s_h]. rewrite (handshake_h _ _ Hs1). exact Fs. }
  { cbn [ext set_in s_h]. rewrite (handshake_h _ _ Hm1). exact Fm. }
  { cbn [ext set_in s_remote_nomsgs]. rewrite (handshake_nomsgs _ _ Hs1). exact Qs. }
  { cbn [ext set_in s_in]. rewrite Hs2. reflexivity. }
  { cbn [ext set_in s_in]. rewrite Hm2, Er. reflexivity. }
  { split; [|intros k _; cbn [ext set_in s_ev]; rewrite (handshake_ev _ _ Hs1), (handshake_ev _ _ Hm1), Vs, Vm; split; reflexivity].
    intros p Hp. right. unfold notyet_p, gone. unfold hob in Hp. cbn [ext set_in s_h s_ev] in Hp |- *.
    rewrite (handshake_h _ _ Hs1), Fs in Hp |- *. rewrite (handshake_ev _ _ Hs1), (handshake_ev _ _ Hm1), Vs, Vm.
    split; [apply Gs, Hp|split; reflexivity]. }
  { split; [|intros k _; cbn [ext set_in s_ev]; rewrite (handshake_ev _ _ Hs1), (handshake_ev _ _ Hm1), Vs, Vm; split; reflexivity].
    intros p Hp. right. unfold notyet_p, gone. unfold hob in Hp. cbn [ext set_in s_h s_ev] in Hp |- *.
    rewrite (handshake_h _ _ Hm1), Fm in Hp |- *. rewrite (handshake_ev _ _ Hs1), (handshake_ev _ _ Hm1), Vs, Vm.
    split; [apply Gm, Hp|split; reflexivity]. }
  assert (Bm : h_present (c_handler m) && h_prepare_err (c_handler m) = false) by (rewrite Em; apply andb_false_r).
  assert (Bs : h_present (c_handler s) && h_prepare_err (c_handler s) = false) by (rewrite Es; apply andb_false_r).
  destruct (exchange_ok3 m (S ++ Tx) _ Bm Hhm) as (Rm&Wrm&Evm).
  destruct (exchange_ok3 s (M ++ Ty) _ Bs Hhs) as (Rs&Wrs&Evs).
  rewrite Mm in Rm, Wrm, Evm. rewrite Ms in Rs, Wrs, Evs. cbn [negb] in *.
  unfold final in Wrm, Evm, Wrs, Evs. rewrite R1 in Rs, Wrs, Evs. rewrite R2 in Rm, Wrm, Evm. cbn [fst snd fin_state] in *.
  change (wire (ext Ty ss)) with (wire ss) in W1. change (wire (ext r sm)) with (wire sm) in W2.
  split; [rewrite Wrm, W2, Hm3; reflexivity|]. split; [rewrite Wrs, W1, Hs3; reflexivity|].
  split; [exact Rm|]. split; [exact Rs|]. split.
  - eapply (done_delivered _ _ fy fx); eassumption.
  - eapply (done_delivered _ _ fx fy); eassumption.
Qed.

(* either side may be the master *)
Theorem complete_exchange (a b : side_cfg) :
  c_master a = negb (c_master b) ->
  hs_compat (if c_master a then a else b) (if c_master a then b else a) ->
  side_ready a b -> side_ready b a ->
  exists in_a in_b,
    x_wire (exchange a in_a) = in_b /\ x_wire (exchange b in_b) = in_a /\
    x_res (exchange a in_a) = XNil /\ x_res (exchange b in_b) = XNil /\
    delivered (c_handler a) (c_handler b) (exchange a in_a) (exchange b in_b) /\
    delivered (c_handler b) (c_handler a) (exchange b in_b) (exchange a in_a).
Proof.
  intros Hrole Hhs Ra Rb. destruct (c_master a) eqn:Ma.
  - assert (Mb : c_master b = false) by (destruct (c_master b); [discriminate|reflexivity]).
    destruct (complete_exchange_ms a b Ma Mb Hhs Ra Rb) as (ia&ib&H1&H2&H3&H4&H5&H6).
    exists ia, ib. repeat (split; [assumption|]); assumption.
  - assert (Mb : c_master b = true) by (destruct (c_master b); [reflexivity|discriminate]).
    destruct (complete_exchange_ms b a Mb Ma Hhs Rb Ra) as (ib&ia&H1&H2&H3&H4&H5&H6).
    exists ia, ib. repeat (split; [assumption|]); assumption.
Qed.

(* the hypotheses on a side spelled out with the definitions of PairDefs.v / CutP.v *)
Lemma side_ready_intro (x y : side_cfg) :
  h_present (c_handler x) = true -> h_prepare_err (c_handler x) = false ->
  Forall prop_syn (h_outbox (c_handler x)) ->
  (forall p, In p (h_outbox (c_handler x)) -> ~ In 0 (firstn 80 (o_title p))) ->
  outbox_wf (c_handler x) ->
  NoDup (map o_mid (h_outbox (c_handler x))) ->
  (forall p, In p (h_outbox (c_handler x)) -> ~ In (o_mid p) (h_fail (c_handler y))) ->
  (forall p, In p (h_outbox (c_handler x)) -> ~ In (o_mid p) (h_gone (c_handler x))) ->
  side_ready x y.
Proof.
  intros H1 H2 H3 H4 H5 H6 H7 H8. split; [exact H2|]. split; [|exact H8].
  split; [exact H1|]. split; [|split; [|split; [exact H6|]]].
  - apply Forall_forall. intros p Hp. split; [apply (proj1 (Forall_forall _ _) H3), Hp|apply H4, Hp].
  - apply Forall_forall. intros p Hp. apply prop_wf_iff, H5, Hp.
  - intros p Hp. apply mem_bytes_notin, H7, Hp.
Qed.

(* ---------- in the terms of Properties/C01.v ---------- *)
(* delivered_once, sent_once: Properties/C01.v *)
Lemma filter_filter_imp {T} (f g : T -> bool) l : (forall e, g e = true -> f e = true) -> filter g (filter f l) = filter g l.
Proof.
  intros H. induction l as [|x l IH]; [reflexivity|]. cbn [filter].
  destruct (f x) eqn:Ef; cbn [filter].
  - rewrite IH. reflexivity.
  - destruct (g x) eqn:Eg; [rewrite (H _ Eg) in Ef; discriminate|exact IH].
Qed.

Lemma delivered_once_of hx hy ox oy p :
  delivered hx hy ox oy -> In p (h_outbox hx) -> policy_of hy (o_mid p) = AAccept ->
  delivered_once oy (o_mid p) /\ sent_once ox (o_mid p).
Proof.
  intros [H _] Hp Ha. specialize (H p Hp). rewrite Ha in H. destruct H as (H1&H2&_). split.
  - unfold delivered_once. rewrite <- (filter_filter_imp (proc (o_mid p))).
    + rewrite H2. cbn [filter]. rewrite beq_bytes_refl. reflexivity.
    + intros [| | | | |m d [|]|]; try discriminate. intros E; exact E.
  - unfold sent_once. rewrite <- (filter_filter_imp (own (o_mid p))).
    + rewrite H1. cbn [filter]. rewrite beq_bytes_refl. reflexivity.
    + intros [| |m [|]| | | |]; try discriminate. intros E; exact E.
Qed.

(* the statement kept unproved in Properties/C01.v (C01_exchange_statement), with the hypotheses
   that make it true, for the complete run given as the pair of streams, in both directions *)
Theorem C01_exchange_delivers (a b : side_cfg) :
  c_master a = negb (c_master b) ->
  hs_compat (if c_master a then a else b) (if c_master a then b else a) ->
  side_ready a b -> side_ready b a ->
  exists in_a in_b,
    let oa := exchange a in_a in let ob := exchange b in_b in
    x_wire oa = in_b /\ x_wire ob = in_a /\ x_res oa = XNil /\ x_res ob = XNil /\
    (forall p, In p (h_outbox (c_handler a)) -> policy_of (c_handler b) (o_mid p) = AAccept ->
       delivered_once ob (o_mid p) /\ sent_once oa (o_mid p)) /\
    (forall p, In p (h_outbox (c_handler b)) -> policy_of (c_handler a) (o_mid p) = AAccept ->
       delivered_once oa (o_mid p) /\ sent_once ob (o_mid p)).
Proof.
  intros H1 H2 H3 H4. destruct (complete_exchange a b H1 H2 H3 H4) as (ia&ib&W1&W2&R1&R2&D1&D2).
  exists ia, ib. cbv zeta. repeat split; try assumption.
  - eapply delivered_once_of; eassumption.
  - eapply delivered_once_of; eassumption.
  - eapply delivered_once_of; eassumption.
  - eapply delivered_once_of; eassumption.
Qed.

(* ================================================================================== *)
(* 11. The iteration of Properties/C01.v                                               *)
(* ================================================================================== *)
(* a closed pair of streams: each side's input is exactly what the other side wrote *)
Definition closed (a b : side_cfg) (in_a in_b : bytes) : Prop :=
  x_wire (exchange a in_a) = in_b /\ x_wire (exchange b in_b) = in_a.

(* the iteration stops exactly at the closed pairs, and stays there *)
Lemma pair_iter_closed n a b in_a in_b : closed a b in_a in_b ->
  pair_iter n a b in_a = (exchange a in_a, exchange b in_b).
Proof.
  intros [H1 H2]. destruct n as [|n]; cbn [pair_iter]; rewrite H1; [reflexivity|].
  rewrite H2, beq_bytes_refl. reflexivity.
Qed.

Fixpoint iter_in (n : nat) (a b : side_cfg) (i : bytes) : bytes :=
  match n with O => i | S k => iter_in k a b (x_wire (exchange b (x_wire (exchange a i)))) end.

Lemma pair_iter_stable n a b : forall i, let '(oa, ob) := pair_iter n a b i in
  x_wire (exchange a (x_wire ob)) = x_wire oa -> closed a b (x_wire ob) (x_wire oa).
Proof.
  induction n as [|n IH]; intros i; cbn [pair_iter].
  - intros H. split; [exact H|reflexivity].
  - destruct (beq_bytes _ i) eqn:E; [|apply IH].
    apply beq_bytes_true in E. intros _. unfold closed. rewrite E. split; reflexivity.
Qed.

(* for a pair as in complete_exchange, the iteration started at the closed pair of the theorem
   returns its two outcomes, whatever n *)
Corollary complete_exchange_iter (a b : side_cfg) :
  c_master a = negb (c_master b) ->
  hs_compat (if c_master a then a else b) (if c_master a then b else a) ->
  side_ready a b -> side_ready b a ->
  exists in_a, forall n, let '(oa, ob) := pair_iter n a b in_a in
    closed a b in_a (x_wire oa) /\ x_res oa = XNil /\ x_res ob = XNil /\
    delivered (c_handler a) (c_handler b) oa ob /\ delivered (c_handler b) (c_handler a) ob oa.
Proof.
  intros H1 H2 H3 H4. destruct (complete_exchange a b H1 H2 H3 H4) as (ia&ib&W1&W2&R1&R2&D1&D2).
  exists ia. intros n. rewrite (pair_iter_closed n a b ia ib (conj W1 W2)).
  split; [split; [reflexivity|rewrite W1; exact W2]|]. repeat (split; [assumption|]); assumption.
Qed.

(* ================================================================================== *)
(* 12. The hypotheses decided by computation                                           *)
(* ================================================================================== *)
Definition prop_check (p : oprop) : bool :=
  negb (in_list 13 (o_mid p)) && negb (in_list 32 (o_mid p)) &&
  (6 <=? length (o_cdata p))%nat && (N.of_nat (length (o_cdata p)) <=? 9223372036854775807) &&
  negb (in_list 0 (firstn 80 (o_title p))) &&
  match proposal_message (o_cdata p) with MOk m _ => beq_bytes m (o_mid p) | _ => false end.
Fixpoint nodupb (l : list bytes) : bool :=
  match l with [] => true | x :: r => negb (mem_bytes x r) && nodupb r end.
Definition side_check (x y : side_cfg) : bool :=
  h_present (c_handler x) && negb (h_prepare_err (c_handler x)) &&
  forallb prop_check (h_outbox (c_handler x)) && nodupb (map o_mid (h_outbox (c_handler x))) &&
  forallb (fun p => negb (mem_bytes (o_mid p) (h_fail (c_handler y))) && negb (mem_bytes (o_mid p) (h_gone (c_handler x))))
          (h_outbox (c_handler x)).

Lemma prop_check_sound p : prop_check p = true -> prop_live p /\ prop_wf p.
Proof.
  unfold prop_check. rewrite !andb_true_iff, !negb_true_iff. intros [[[[[H1 H2] H3] H4] H5] H6].
  split; [split; [split; [split|split]|]|].
  - apply in_list_false, H1.
  - apply in_list_false, H2.
  - apply Nat.leb_le, H3.
  - apply N.leb_le in H4. lia.
  - apply in_list_false, H5.
  - unfold prop_wf, pm_data. destruct (proposal_message (o_cdata p)) as [m d| |]; try discriminate.
    apply beq_bytes_true in H6. subst m. reflexivity.
Qed.
Lemma nodupb_sound l : nodupb l = true -> NoDup l.
Proof.
  induction l as [|x r IH]; intros H; [constructor|]. cbn [nodupb] in H. apply andb_true_iff in H.
  destruct H as [H1 H2]. apply negb_true_iff, mem_bytes_notin in H1. constructor; [exact H1|apply IH, H2].
Qed.
Lemma side_check_sound x y : side_check x y = true -> side_ready x y.
Proof.
  unfold side_check. rewrite !andb_true_iff, negb_true_iff. intros [[[[H1 H2] H3] H4] H5].
  rewrite forallb_forall in H3, H5.
  split; [exact H2|]. split.
  - split; [exact H1|]. split; [|split; [|split]].
    + apply Forall_forall. intros p Hp. apply prop_check_sound, H3, Hp.
    + apply Forall_forall. intros p Hp. apply prop_check_sound, H3, Hp.
    + apply nodupb_sound, H4.
    + intros p Hp. specialize (H5 p Hp). apply andb_true_iff in H5. apply negb_true_iff, (proj1 H5).
  - intros p Hp. specialize (H5 p Hp). apply andb_true_iff in H5. apply mem_bytes_notin, negb_true_iff, (proj2 H5).
Qed.

Theorem complete_exchange_check (a b : side_cfg) :
  c_master a = negb (c_master b) ->
  hs_check (if c_master a then a else b) (if c_master a then b else a) = true ->
  side_check a b = true -> side_check b a = true ->
  exists in_a in_b,
    closed a b in_a in_b /\ x_res (exchange a in_a) = XNil /\ x_res (exchange b in_b) = XNil /\
    delivered (c_handler a) (c_handler b) (exchange a in_a) (exchange b in_b) /\
    delivered (c_handler b) (c_handler a) (exchange b in_b) (exchange a in_a).
Proof.
  intros H1 H2 H3 H4.
  destruct (complete_exchange a b H1 (hs_check_sound _ _ H2) (side_check_sound _ _ H3) (side_check_sound _ _ H4))
    as (ia&ib&W1&W2&R). exists ia, ib. split; [split; assumption|exact R].
Qed.

(* ================================================================================== *)
(* 13. Instances                                                                       *)
(* ================================================================================== *)
(* "Mid: <m>\r\nBody: 5\r\nDate: 2016/12/30 01:00\r\n\r\nhAR\r\n" *)
Definition dx_msg (m : bytes) : bytes :=
  [77;105;100;58;32] ++ m ++ [13;10;66;111;100;121;58;32;53;13;10;68;97;116;101;58;32;50;48;49;54;47;49;50;47;
   51;48;32;48;49;58;48;48;13;10;13;10;104;65;82;13;10].
Definition dx_prop (m : bytes) : oprop :=
  {| o_mid := m; o_title := [116]; o_plain_title := [116]; o_size := 50; o_cdata := Dec.compress true (dx_msg m) |}.
(* six messages A1..A6 (more than one block) one way, two messages B1, B2 the other way; the slave
   rejects A2 and defers A4 *)
Definition dx_a : side_cfg := cx_side true (map dx_prop [[65;49];[65;50];[65;51];[65;52];[65;53];[65;54]]) [] [].
Definition dx_b : side_cfg := cx_side false (map dx_prop [[66;49];[66;50]]) [([65;50], AReject); ([65;52], ADefer)] [].

Example dx_complete :
  exists in_a in_b,
    closed dx_a dx_b in_a in_b /\ x_res (exchange dx_a in_a) = XNil /\ x_res (exchange dx_b in_b) = XNil /\
    delivered (c_handler dx_a) (c_handler dx_b) (exchange dx_a in_a) (exchange dx_b in_b) /\
    delivered (c_handler dx_b) (c_handler dx_a) (exchange dx_b in_b) (exchange dx_a in_a).
Proof. apply complete_exchange_check; vm_compute; reflexivity. Qed.

(* the iteration of Properties/C01.v, started with the empty input, reaches a closed pair for this
   instance (by computation), with the events in the order of the session *)
Definition strip (e : event) : event := match e with EvProcess m _ ok => EvProcess m [] ok | _ => e end.
Example dx_iter :
  let '(oa, ob) := pair_iter 20 dx_a dx_b [] in
  closed dx_a dx_b (x_wire ob) (x_wire oa) /\ x_res oa = XNil /\ x_res ob = XNil /\
  map strip (x_events oa) =
    [EvPrepare; EvAnswer [66;49] AAccept; EvAnswer [66;50] AAccept; EvProcess [66;49] [] true; EvProcess [66;50] [] true;
     EvGetOutbound; EvSetDeferred [65;52]; EvSetSent [65;50] true; EvSetSent [65;49] false; EvSetSent [65;51] false;
     EvSetSent [65;53] false; EvBlockEnd; EvGetOutbound; EvSetSent [65;54] false; EvBlockEnd; EvGetOutbound] /\
  map strip (x_events ob) =
    [EvPrepare; EvGetOutbound; EvSetSent [66;49] false; EvSetSent [66;50] false; EvBlockEnd;
     EvAnswer [65;49] AAccept; EvAnswer [65;50] AReject; EvAnswer [65;51] AAccept; EvAnswer [65;52] ADefer;
     EvAnswer [65;53] AAccept; EvProcess [65;49] [] true; EvProcess [65;51] [] true; EvProcess [65;53] [] true;
     EvGetOutbound; EvAnswer [65;54] AAccept; EvProcess [65;54] [] true; EvGetOutbound].
Proof. vm_compute. repeat split. Qed.

(* ================================================================================== *)
(* 14. The hypotheses cannot simply be dropped: counterexamples                        *)
(* ================================================================================== *)
(* Each example exhibits a CLOSED pair of streams (the one the iteration reaches from the empty
   input) for two sides with opposite roles, compatible handshakes and handlers on both sides,
   that violates the conclusion of complete_exchange; exactly one hypothesis fails in each. *)
Definition cx_in (n : nat) (a b : side_cfg) : bytes := iter_in n a b [].

(* (1) the peer's store fails for the MID (h_fail): both sides end with an error *)
Example store_failure_breaks :
  let a := cx_side false [dx_prop [65;49]] [] [] in let b := cx_side true [] [] [[65;49]] in
  let ia := cx_in 6 a b in let ib := x_wire (exchange a ia) in
  closed a b ia ib /\ x_res (exchange a ia) = XOther /\ x_res (exchange b ib) = XOther /\
  side_check a b = false /\ side_check b a = true.
Proof. vm_compute. repeat split. Qed.

(* (2) a NUL among the 80 title bytes that are sent: the receiver refuses the transfer *)
Definition nul_title_prop : oprop :=
  {| o_mid := [65;49]; o_title := [116;0;116]; o_plain_title := [116]; o_size := 50;
     o_cdata := Dec.compress true (dx_msg [65;49]) |}.
Example title_nul_refused :
  let a := cx_side false [nul_title_prop] [] [] in let b := cx_side true [] [] [] in
  let ia := cx_in 6 a b in let ib := x_wire (exchange a ia) in
  closed a b ia ib /\ x_res (exchange a ia) = XOther /\ x_res (exchange b ib) = XOther /\
  Forall prop_syn (h_outbox (c_handler a)) /\ side_check a b = false /\ side_check b a = true.
Proof.
  cbv zeta. split; [vm_compute; split; reflexivity|]. split; [vm_compute; reflexivity|]. split; [vm_compute; reflexivity|].
  split; [|split; vm_compute; reflexivity].
  cbn [cx_side c_handler h_outbox]. constructor; [|constructor]. unfold prop_syn, mid_ok. cbn [nul_title_prop o_mid o_cdata].
  assert (L : length (compress true (dx_msg [65; 49])) = 56%nat) by (vm_compute; reflexivity). rewrite L.
  repeat split; try lia; intros H; cbn in H; intuition discriminate.
Qed.

(* (3) the same MID twice in an outbox: both results are nil and the message is delivered once
   and reported sent once, but it is ALSO reported deferred (the receiver defers the second
   proposal of a MID in a block), so "exactly one event for the MID" fails *)
Example duplicate_mid_also_deferred :
  let a := cx_side false [dx_prop [65;49]; dx_prop [65;49]] [] [] in let b := cx_side true [] [] [] in
  let ia := cx_in 6 a b in let ib := x_wire (exchange a ia) in
  closed a b ia ib /\ x_res (exchange a ia) = XNil /\ x_res (exchange b ib) = XNil /\
  filter (own [65;49]) (x_events (exchange a ia)) = [EvSetDeferred [65;49]; EvSetSent [65;49] false] /\
  delivered_once (exchange b ib) [65;49] /\ sent_once (exchange a ia) [65;49] /\
  side_check a b = false /\ side_check b a = true.
Proof. vm_compute. repeat split. Qed.

(* (4) a MID that is already marked gone is never proposed *)
Example gone_mid_not_sent :
  let a := {| c_master := false; c_motd := []; c_hs := c_hs (cx_side false [] [] []);
              c_handler := {| h_present := true; h_prepare_err := false; h_outbox := [dx_prop [65;49]];
                              h_gone := [[65;49]]; h_policy := []; h_fail := [] |} |} in
  let b := cx_side true [] [] [] in
  let ia := cx_in 6 a b in let ib := x_wire (exchange a ia) in
  closed a b ia ib /\ x_res (exchange a ia) = XNil /\ x_res (exchange b ib) = XNil /\
  filter (own [65;49]) (x_events (exchange a ia)) = [] /\ filter (proc [65;49]) (x_events (exchange b ib)) = [] /\
  side_check a b = false /\ side_check b a = true.
Proof. vm_compute. repeat split. Qed.

(* (5) the MID announced is not the MID inside (CutP.cx_bad_prop): XYZ is reported sent, the
   peer stores ABC *)
Example wrong_mid_inside :
  let a := cx_side false [cx_bad_prop] [] [] in let b := cx_side true [] [] [] in
  let ia := cx_in 6 a b in let ib := x_wire (exchange a ia) in
  closed a b ia ib /\ x_res (exchange a ia) = XNil /\ x_res (exchange b ib) = XNil /\
  filter (own [88;89;90]) (x_events (exchange a ia)) = [EvSetSent [88;89;90] false] /\
  filter (proc [88;89;90]) (x_events (exchange b ib)) = [] /\
  side_check a b = false /\ side_check b a = true.
Proof. vm_compute. repeat split. Qed.

(* (6) a space in the MID (prop_syn fails): the peer cannot parse the proposal *)
Definition space_mid_prop : oprop :=
  {| o_mid := [65;32;49]; o_title := [116]; o_plain_title := [116]; o_size := 50;
     o_cdata := Dec.compress true (dx_msg [65;32;49]) |}.
Example space_in_mid_breaks :
  let a := cx_side false [space_mid_prop] [] [] in let b := cx_side true [] [] [] in
  let ia := cx_in 6 a b in let ib := x_wire (exchange a ia) in
  closed a b ia ib /\ x_res (exchange a ia) <> XNil /\ x_res (exchange b ib) <> XNil /\
  side_check a b = false /\ side_check b a = true.
Proof. vm_compute. repeat split; discriminate. Qed.

(* (7) Prepare fails *)
Example prepare_error_breaks :
  let a := {| c_master := false; c_motd := []; c_hs := c_hs (cx_side false [] [] []);
              c_handler := {| h_present := true; h_prepare_err := true; h_outbox := [dx_prop [65;49]];
                              h_gone := []; h_policy := []; h_fail := [] |} |} in
  let b := cx_side true [] [] [] in
  let ia := cx_in 6 a b in let ib := x_wire (exchange a ia) in
  closed a b ia ib /\ x_res (exchange a ia) = XOther /\ x_res (exchange b ib) <> XNil.
Proof. vm_compute. repeat split; discriminate. Qed.

(* Properties/C01.C01_exchange_statement (roles and handlers only) is false: (1) again *)
Example C01_exchange_statement_is_false : ~ C01_exchange_statement.
Proof.
  intros H.
  pose (a := cx_side false [dx_prop [65;49]] [] []). pose (b := cx_side true [] [] [[65;49]]).
  specialize (H a b 12%nat eq_refl eq_refl eq_refl).
  assert (Hn : (12 >= 4 * (length (h_outbox (c_handler a)) + length (h_outbox (c_handler b))) + 8)%nat)
    by (unfold a, b; cbn [cx_side c_handler h_outbox length]; lia).
  specialize (H Hn).
  assert (E : x_res (fst (pair_iter 12 a b [])) = XOther) by (vm_compute; reflexivity).
  destruct (pair_iter 12 a b []) as [oa ob]. cbn [fst] in E. destruct H as [H _]. congruence.
Qed.

(* ================================================================================== *)
(* 15. EVERY closed pair of streams is the complete exchange                           *)
(* ================================================================================== *)
Lemma final_after_peek sx sent s4 : handle_outbound sx = ho_peek sent s4 -> grows s4 (final true sx).
Proof.
  intros H. pose proof (ho_peek_grows sent s4) as G. pose proof (handle_outbound_nopanic sx) as Np.
  destruct (ho_peek sent s4) as [[q s']|e s'|] eqn:E; cbn [res_grows] in G; [| |congruence].
  - destruct q.
    + rewrite (final_send_quit _ _ H). exact G.
    + rewrite (final_send_ok _ _ H). eapply grows_trans; [exact G|apply final_grows].
  - rewrite (final_send_fail _ _ _ H). eapply grows_trans; [exact G|apply fin_state_grows].
Qed.

(* THE JOINT RUN, for streams that are not given: whenever, at a turn boundary, the unread input
   of each side is exactly what the other side will still write, both sides end with nil, nothing
   is pending at the end and the invariant on the logs is kept. *)
Lemma joint_closed : forall n hx hy (qx : bool),
  (2 * (length (pendh hx) + length (pendh hy)) + (if qx then 0 else 1) < n)%nat ->
  okdir hx hy -> okdir hy hx -> (qx = true -> pendh hy = []) ->
  forall sx sy, s_h sx = hx -> s_h sy = hy -> s_remote_nomsgs sx = qx ->
    tailw true sx = s_in sy -> tailw false sy = s_in sx -> Inv sx sy -> Inv sy sx ->
    exists fx fy, run true sx = (XNil, fx) /\ run false sy = (XNil, fy) /\
      hsame (s_h fx) hx /\ hsame (s_h fy) hy /\ pendh (s_h fx) = [] /\ pendh (s_h fy) = [] /\
      Inv fx fy /\ Inv fy fx.
Proof.
  induction n as [|n IH]; intros hx hy qx Hn Oxy Oyx Hq sx sy Hx Hy Qx C1 C2 I1 I2; [lia|].
  pose proof Oxy as (Px&Lx&Wx&Nx&Fx). pose proof Oyx as (Py&Ly&Wy&Ny&Fy).
  destruct (sort_props (pendh hx)) as [|p ps] eqn:Es.
  - (* nothing to propose *)
    apply sort_props_nil in Es. destruct qx.
    + (* FQ *)
      specialize (Hq eq_refl).
      assert (Hho : handle_outbound sx = ROk (true, wr (ev sx EvGetOutbound) [70; 81; 13])).
      { rewrite send_none by (rewrite Hx; assumption). rewrite Qx. reflexivity. }
      assert (Ht : tailw true sx = [70; 81; 13]).
      { apply tailw_intro. rewrite (final_send_quit _ _ Hho), wire_wr. reflexivity. }
      assert (Hil : inbound_loop (S (length (s_in sy))) sy [] [] = ROk (true, [], set_in sy [])).
      { apply inbound_fq; [rewrite <- C1, Ht; reflexivity|lia]. }
      exists (wr (ev sx EvGetOutbound) [70; 81; 13]), (set_in sy []).
      split; [apply run_quit_send, Hho|]. split; [eapply run_quit_recv; [exact Hil|reflexivity]|].
      cbn [wr ev set_in s_h]. rewrite Hx, Hy.
      split; [apply hsame_refl|]. split; [apply hsame_refl|]. split; [exact Es|]. split; [exact Hq|].
      split.
      * eapply (Inv_neutral sx sy _ _ [EvGetOutbound] []); first [exact I1 | reflexivity | intros m; reflexivity].
      * eapply (Inv_neutral sy sx _ _ [] [EvGetOutbound]); first [exact I2 | reflexivity | intros m; reflexivity].
    + (* FF, then the peer's turn *)
      assert (Hho : handle_outbound sx = ROk (false, wr (ev sx EvGetOutbound) [70; 70; 13])).
      { rewrite send_none by (rewrite Hx; assumption). rewrite Qx. reflexivity. }
      set (sx1 := wr (ev sx EvGetOutbound) [70; 70; 13]) in *.
      assert (Ht : tailw true sx = [70; 70; 13] ++ tailw false sx1).
      { apply tailw_intro. rewrite (final_send_ok _ _ Hho), tailw_eq. unfold sx1. rewrite wire_wr, <- app_assoc. reflexivity. }
      assert (Hil : inbound_loop (S (length (s_in sy))) sy [] [] =
                    ROk (false, [], set_nomsgs (set_in sy (tailw false sx1)) true)).
      { apply inbound_ff; [rewrite <- C1, Ht; reflexivity|lia]. }
      set (sy1 := set_nomsgs (set_in sy (tailw false sx1)) true) in *.
      destruct (IH hy hx true) with (sx := sy1) (sy := sx1) as (fy&fx&R1&R2&S1&S2&P1&P2&J1&J2); try assumption; try reflexivity.
      { rewrite Es in *. cbn [length] in *. lia. }
      { intros _. exact Es. }
      { change (s_in sx1) with (s_in sx). rewrite <- C2. symmetry. apply tailw_intro.
        rewrite (final_recv_ok _ _ _ _ Hil eq_refl), tailw_eq. reflexivity. }
      { eapply (Inv_neutral sy sx _ _ [] [EvGetOutbound]); first [exact I2 | reflexivity | intros m; reflexivity]. }
      { eapply (Inv_neutral sx sy _ _ [EvGetOutbound] []); first [exact I1 | reflexivity | intros m; reflexivity]. }
      exists fx, fy. split; [rewrite (run_go_send _ _ Hho); exact R2|].
      split; [rewrite (run_go_recv _ _ _ _ Hil eq_refl); exact R1|]. repeat (split; [assumption|]); assumption.
  - (* a block of proposals *)
    destruct (block_facts hx p ps Lx Wx Nx Es) as (Bne&HpB&HB&NdB&LB&WB&_). cbv zeta in *.
    set (B := firstn (N.to_nat MaxBlockSize) (p :: ps)) in *.
    set (A := map (fun q => policy_of hy (o_mid q)) B).
    assert (Hl : length A = length B) by (unfold A; apply map_length).
    set (G := rev (sel AAccept B A) ++ rev (sel AReject B A) ++ rev (sel ADefer B A)).
    set (hx' := with_gone hx (G ++ h_gone hx)).
    assert (HG : forall m, In m (G ++ h_gone hx) <-> In m (map o_mid B) \/ In m (h_gone hx)).
    { intros m. unfold G. rewrite <- !app_assoc. apply gone_after, Hl. }
    assert (Hlt : (length (pendh hx') < length (pendh hx))%nat).
    { destruct (HB p HpB) as [Hp1 Hp2]. apply (pend_after hx G p); try assumption. apply HG. left. apply in_map, HpB. }
    assert (Hsyn : Forall prop_syn B) by (eapply Forall_impl; [|exact LB]; intros q [Hq' _]; exact Hq').
    assert (Hprx : h_present (s_h sx) = true) by (rewrite Hx; exact Px).
    assert (Hsx0 : sort_props (pendh (s_h sx)) = p :: ps) by (rewrite Hx; exact Es).
    (* (1) the block is on its way *)
    pose proof (outbound_present sx Hprx) as Eo. rewrite Hsx0 in Eo.
    destruct (send_start _ _ _ _ Eo) as (_&_&_&W2&_&_&_). pose proof (send_grows _ _ _ _ Eo) as G2. cbv zeta in W2, G2.
    fold B in W2, G2. destruct (grows_wire _ _ G2) as [T2 HT2].
    assert (Ht : tailw true sx = proposal_bytes B ++ T2).
    { apply tailw_intro. rewrite HT2, W2, <- app_assoc. reflexivity. }
    (* (2) the receiver answers *)
    destruct (recv_block_fwd sy B T2) as (sy1&E1&Hil&Isy1&Wsy1&_&_&_&_); try assumption.
    { rewrite Hy. exact Py. } { rewrite <- C1. exact Ht. }
    rewrite Hy in Hil, Wsy1. fold A in Hil, Wsy1.
    destruct (recv_tail _ _ _ Hil) as (T3&HT3&_).
    assert (Hty : tailw false sy = fs_line A ++ T3).
    { apply tailw_intro. rewrite HT3, Wsy1, <- app_assoc. reflexivity. }
    (* (3) the sender reads the answer and transfers *)
    destruct (send_upto sx p ps A T3 Hprx Hsx0 Hsyn Hl) as (s4&Hho&W4&I4&V4&H4&N4).
    { rewrite <- C2. exact Hty. }
    fold B in Hho, W4, V4, H4.
    destruct (grows_wire _ _ (final_after_peek _ _ _ Hho)) as [T4 HT4].
    assert (E24 : T2 = xfers B A ++ T4).
    { rewrite HT2, W2, W4, <- !app_assoc in HT4. apply app_inv_head in HT4. apply app_inv_head in HT4. exact HT4. }
    (* (4) the receiver takes the transfers *)
    destruct (recv_fwd sy B T4) as (sy1'&sy2&Ey&Hil'&Hrc&Isy&Wsy&Hsy&Qsy&Vsy&Cy&Iny); try assumption.
    { rewrite Hy. exact Py. }
    { intros q Hq'. rewrite Hy. apply Fx, HB, Hq'. }
    { rewrite Hy. fold A. rewrite <- C1, Ht, E24. reflexivity. }
    rewrite Hy in Hil', Hrc, Wsy, Cy, Iny. fold A in Hil', Hrc, Wsy, Cy, Iny.
    rewrite Hil in Hil'. injection Hil' as <-.
    assert (E3 : T3 = tailw true sy2).
    { rewrite (final_recv_ok _ _ _ _ Hil Hrc), tailw_eq, Wsy, Wsy1 in HT3. apply app_inv_head in HT3. symmetry. exact HT3. }
    destruct (tailw_send_F sy2) as [rF HF].
    (* (5) the peek *)
    destruct (peek_fwd sx B A s4 rF W4) as (sx'&Ex&Hpk&Wsx&Isx&Vsx&Cx&Inx&Hsx&Qsx); try assumption.
    { rewrite I4, E3. exact HF. }
    rewrite Hpk in Hho.
    assert (Hsx' : s_h sx' = hx') by (rewrite Hsx, Hx; unfold hx', G; rewrite <- !app_assoc; reflexivity).
    destruct (IH hy hx' false) with (sx := sy2) (sy := sx') as (fy&fx&R1&R2&S1&S2&P1&P2&J1&J2).
    { destruct qx; lia. }
    { eapply okdir_hsame; [apply hsame_refl|apply hsame_with_gone|exact Oyx]. }
    { eapply okdir_hsame; [apply hsame_with_gone|apply hsame_refl|exact Oxy]. }
    { discriminate. }
    { congruence. } { exact Hsx'. } { exact Qsy. }
    { rewrite Isx, <- HF. reflexivity. }
    { rewrite Isy. apply tailw_intro. rewrite <- (final_send_ok _ _ Hho), HT4, Wsx, W4. reflexivity. }
    { eapply (Inv_neutral sy sx sy2 sx' Ey Ex); try eassumption.
      - rewrite Hsy. apply hsame_refl.
      - intros m. unfold gone. rewrite Hsy. reflexivity.
      - rewrite Hsx', Hx. apply hsame_with_gone.
      - intros m. rewrite (Cy _ (own_quiet m)). apply cnt_own_proc.
      - intros m. rewrite (Cx _ (proc_quiet m)). apply cnt_proc_own. }
    { eapply (Inv_block sx sy sx' sy2 B Ex Ey); try eassumption.
      - unfold hob. rewrite Hx. exact Nx.
      - unfold hob, gone. rewrite Hx. exact HB.
      - rewrite Hsx', Hx. apply hsame_with_gone.
      - intros m. unfold gone. rewrite Hsx', Hx. unfold hx'. cbn [with_gone h_gone]. apply HG.
      - rewrite Hsy. apply hsame_refl.
      - rewrite Hy. exact Cx.
      - rewrite Hy. exact Inx.
      - rewrite Hy. exact Cy.
      - rewrite Hy. exact Iny. }
    exists fx, fy. split; [rewrite (run_go_send _ _ Hho); exact R2|].
    split; [rewrite (run_go_recv _ _ _ _ Hil Hrc); exact R1|].
    split; [eapply hsame_trans; [exact S2|apply hsame_with_gone]|].
    repeat (split; [assumption|]); assumption.
Qed.

(* master m, slave s: any closed pair *)
Theorem closed_exchange_ms (m s : side_cfg) :
  c_master m = true -> c_master s = false -> hs_compat m s -> side_ready m s -> side_ready s m ->
  forall in_m in_s, closed m s in_m in_s ->
    x_res (exchange m in_m) = XNil /\ x_res (exchange s in_s) = XNil /\
    delivered (c_handler m) (c_handler s) (exchange m in_m) (exchange s in_s) /\
    delivered (c_handler s) (c_handler m) (exchange s in_s) (exchange m in_m).
Proof.
  intros Mm Ms (M&S&sm&ss&Hm1&Hm2&Hm3&Hs1&Hs2&Hs3) (Em&Om&Gm) (Es&Os&Gs) in_m in_s [Cm Cs].
  pose proof Om as (Pm&_&Wm&_). pose proof Os as (Ps&_&Ws&_).
  assert (Bm : h_present (c_handler m) && h_prepare_err (c_handler m) = false) by (rewrite Em; apply andb_false_r).
  assert (Bs : h_present (c_handler s) && h_prepare_err (c_handler s) = false) by (rewrite Es; apply andb_false_r).
  (* whatever the master receives, it writes its greeting first *)
  assert (HX : exists X, in_s = M ++ X).
  { rewrite <- Cm.
    pose proof (handshake_master_out (init_state m (S ++ [70])) in_m sm
                  (eq_trans (proj1 (proj2 (proj2 (proj2 (init_state_facts m (S ++ [70])))))) Mm) Hm1) as Ho.
    rewrite init_state_set_in in Ho. pose proof (handshake_nopanic (init_state m in_m)) as Np.
    destruct (handshake (init_state m in_m)) as [sb0|e sB|] eqn:Hb; [| |congruence].
    - destruct (exchange_ok _ _ _ Bm Hb) as [W _]. eexists. rewrite W, tailw_eq, <- Hm3, (wire_out _ _ Ho). reflexivity.
    - destruct (exchange_fail _ _ _ _ Bm Hb) as [W _]. destruct (grows_wire _ _ (fin_state_grows (xerr e) sB)) as [d Hd].
      exists d. rewrite W, Hd, <- Hm3, (wire_out _ _ Ho). reflexivity. }
  destruct HX as [X HX].
  (* the slave reads it, answers and takes the first turn *)
  assert (Hhs : handshake (init_state s in_s) = ROk (ext X ss)) by (rewrite HX, init_state_ext; apply hs_forward, Hs1).
  destruct (exchange_ok3 s in_s _ Bs Hhs) as (Rs&Wrs&Evs). rewrite Ms in Rs, Wrs, Evs. cbn [negb] in Rs, Wrs, Evs.
  destruct (tailw_send_F (ext X ss)) as [rF HF].
  assert (Hinm : in_m = S ++ 70 :: rF).
  { rewrite <- Cs, Wrs, tailw_eq, HF. change (wire (ext X ss)) with (wire ss). rewrite Hs3. reflexivity. }
  (* the master reads the slave's greeting *)
  assert (Hhm : handshake (init_state m in_m) = ROk (ext rF sm)).
  { rewrite Hinm. change (70 :: rF) with ([70] ++ rF). rewrite app_assoc, init_state_ext. apply hs_forward, Hm1. }
  destruct (exchange_ok3 m in_m _ Bm Hhm) as (Rm&Wrm&Evm). rewrite Mm in Rm, Wrm, Evm. cbn [negb] in Rm, Wrm, Evm.
  assert (EX : X = tailw false (ext rF sm)).
  { rewrite <- Cm, Wrm, tailw_eq in HX. change (wire (ext rF sm)) with (wire sm) in HX. rewrite Hm3 in HX.
    apply app_inv_head in HX. symmetry. exact HX. }
  destruct (init_state_facts s M) as (_&_&Fs&_). destruct (init_state_facts m (S ++ [70])) as (_&_&Fm&_).
  destruct (init_state_present s M Ps) as [Vs Qs]. destruct (init_state_present m (S ++ [70]) Pm) as [Vm Qm].
  destruct (joint_closed (Datatypes.S (2 * (length (pendh (c_handler s)) + length (pendh (c_handler m))) + 1))%nat
              (c_handler s) (c_handler m) false) with (sx := ext X ss) (sy := ext rF sm)
    as (fx&fy&R1&R2&S1&S2&P1&P2&J1&J2); try assumption.
  { lia. } { discriminate. }
  { cbn [ext set_in s_h]. rewrite (handshake_h _ _ Hs1). exact Fs. }
  { cbn [ext set_in s_h]. rewrite (handshake_h _ _ Hm1). exact Fm. }
  { cbn [ext set_in s_remote_nomsgs]. rewrite (handshake_nomsgs _ _ Hs1). exact Qs. }
  { rewrite HF. cbn [ext set_in s_in]. rewrite Hm2. reflexivity. }
  { rewrite <- EX. cbn [ext set_in s_in]. rewrite Hs2. reflexivity. }
  { split; [|intros k _; cbn [ext set_in s_ev]; rewrite (handshake_ev _ _ Hs1), (handshake_ev _ _ Hm1), Vs, Vm; split; reflexivity].
    intros p Hp. right. unfold notyet_p, gone. unfold hob in Hp. cbn [ext set_in s_h s_ev] in Hp |- *.
    rewrite (handshake_h _ _ Hs1), Fs in Hp |- *. rewrite (handshake_ev _ _ Hs1), (handshake_ev _ _ Hm1), Vs, Vm.
    split; [apply Gs, Hp|split; reflexivity]. }
  { split; [|intros k _; cbn [ext set_in s_ev]; rewrite (handshake_ev _ _ Hs1), (handshake_ev _ _ Hm1), Vs, Vm; split; reflexivity].
    intros p Hp. right. unfold notyet_p, gone. unfold hob in Hp. cbn [ext set_in s_h s_ev] in Hp |- *.
    rewrite (handshake_h _ _ Hm1), Fm in Hp |- *. rewrite (handshake_ev _ _ Hs1), (handshake_ev _ _ Hm1), Vs, Vm.
    split; [apply Gm, Hp|split; reflexivity]. }
  unfold final in Evm, Evs. rewrite R1 in Rs, Evs. rewrite R2 in Rm, Evm. cbn [fst snd fin_state] in *.
  split; [exact Rm|]. split; [exact Rs|]. split.
  - eapply (done_delivered _ _ fy fx); eassumption.
  - eapply (done_delivered _ _ fx fy); eassumption.
Qed.

(* EVERY complete, uncut session of a ready pair delivers: either side may be the master *)
Theorem closed_exchange (a b : side_cfg) :
  c_master a = negb (c_master b) ->
  hs_compat (if c_master a then a else b) (if c_master a then b else a) ->
  side_ready a b -> side_ready b a ->
  forall in_a in_b, closed a b in_a in_b ->
    x_res (exchange a in_a) = XNil /\ x_res (exchange b in_b) = XNil /\
    delivered (c_handler a) (c_handler b) (exchange a in_a) (exchange b in_b) /\
    delivered (c_handler b) (c_handler a) (exchange b in_b) (exchange a in_a).
Proof.
  intros Hrole Hhs Ra Rb ia ib Hc. destruct (c_master a) eqn:Ma.
  - assert (Mb : c_master b = false) by (destruct (c_master b); [discriminate|reflexivity]).
    exact (closed_exchange_ms a b Ma Mb Hhs Ra Rb ia ib Hc).
  - assert (Mb : c_master b = true) by (destruct (c_master b); [reflexivity|discriminate]).
    destruct Hc as [H1 H2].
    destruct (closed_exchange_ms b a Mb Ma Hhs Rb Ra ib ia (conj H2 H1)) as (R1&R2&D1&D2). repeat (split; [assumption|]); assumption.
Qed.

(* the iteration of Properties/C01.v: its result is the pair of outcomes for its last input j, and
   whenever that input is stable (the test with which the iteration stops), whatever n and wherever
   the iteration started, this is the complete exchange *)
Lemma pair_iter_shape a b : forall n i,
  exists j, pair_iter n a b i = (exchange a j, exchange b (x_wire (exchange a j))).
Proof.
  induction n as [|n IH]; intros i; cbn [pair_iter]; [exists i; reflexivity|].
  destruct (beq_bytes _ i); [exists i; reflexivity|apply IH].
Qed.

Theorem pair_iter_delivers (a b : side_cfg) n i :
  c_master a = negb (c_master b) ->
  hs_compat (if c_master a then a else b) (if c_master a then b else a) ->
  side_ready a b -> side_ready b a ->
  exists j, let oa := exchange a j in let ob := exchange b (x_wire oa) in
    pair_iter n a b i = (oa, ob) /\
    (x_wire ob = j ->
     x_res oa = XNil /\ x_res ob = XNil /\
     delivered (c_handler a) (c_handler b) oa ob /\ delivered (c_handler b) (c_handler a) ob oa /\
     (forall p, In p (h_outbox (c_handler a)) -> policy_of (c_handler b) (o_mid p) = AAccept ->
        delivered_once ob (o_mid p) /\ sent_once oa (o_mid p))).
Proof.
  intros H1 H2 H3 H4. destruct (pair_iter_shape a b n i) as [j Hj]. exists j. cbv zeta. split; [exact Hj|].
  intros Hst. destruct (closed_exchange a b H1 H2 H3 H4 j (x_wire (exchange a j)) (conj eq_refl Hst)) as (R1&R2&D1&D2).
  split; [exact R1|]. split; [exact R2|]. split; [exact D1|]. split; [exact D2|].
  intros p Hp Ha. eapply delivered_once_of; eassumption.
Qed.

(* ================================================================================== *)
(* 16. Summary statements                                                              *)
(* ================================================================================== *)
(* what a complete exchange achieves *)
Definition exchange_delivers (a b : side_cfg) (in_a in_b : bytes) : Prop :=
  let oa := exchange a in_a in let ob := exchange b in_b in
  x_res oa = XNil /\ x_res ob = XNil /\
  delivered (c_handler a) (c_handler b) oa ob /\ delivered (c_handler b) (c_handler a) ob oa.

(* THE RESULT: for a ready pair there is a complete, uncut session (a closed pair of streams), and
   every such session ends with nil on both sides and delivers, in both directions *)
Theorem complete_exchange_delivers (a b : side_cfg) :
  c_master a = negb (c_master b) ->
  hs_compat (if c_master a then a else b) (if c_master a then b else a) ->
  side_ready a b -> side_ready b a ->
  (exists in_a in_b, closed a b in_a in_b) /\
  (forall in_a in_b, closed a b in_a in_b -> exchange_delivers a b in_a in_b).
Proof.
  intros H1 H2 H3 H4. split.
  - destruct (complete_exchange a b H1 H2 H3 H4) as (ia&ib&W1&W2&_). exists ia, ib. split; assumption.
  - intros ia ib Hc. exact (closed_exchange a b H1 H2 H3 H4 ia ib Hc).
Qed.

(* the same with the handshake hypothesis in syntactic form (PairP.pair_text_ok: no MOTD, the
   master's greeting ends with the prompt, printable handshake fields) *)
Theorem complete_exchange_delivers_text (a b : side_cfg) :
  c_master a = negb (c_master b) -> pair_text_ok a b -> side_ready a b -> side_ready b a ->
  (exists in_a in_b, closed a b in_a in_b) /\
  (forall in_a in_b, closed a b in_a in_b -> exchange_delivers a b in_a in_b).
Proof.
  intros Hrole (Hmo&Hhm&Hom&Hos). apply complete_exchange_delivers; [exact Hrole|].
  destruct (c_master a) eqn:Ma.
  - apply hs_compat_text_gen; try assumption. destruct (c_master b); [discriminate|reflexivity].
  - apply hs_compat_text_gen; try assumption. destruct (c_master b); [reflexivity|discriminate].
Qed.

Print Assumptions joint_run.
Print Assumptions joint_closed.
Print Assumptions complete_exchange_ms.
Print Assumptions complete_exchange.
Print Assumptions closed_exchange.
Print Assumptions complete_exchange_delivers.
Print Assumptions complete_exchange_delivers_text.
Print Assumptions C01_exchange_delivers.
Print Assumptions complete_exchange_iter.
Print Assumptions pair_iter_delivers.
Print Assumptions complete_exchange_check.
Print Assumptions dx_complete.
Print Assumptions dx_iter.
Print Assumptions store_failure_breaks.
Print Assumptions title_nul_refused.
Print Assumptions duplicate_mid_also_deferred.
Print Assumptions gone_mid_not_sent.
Print Assumptions wrong_mid_inside.
Print Assumptions space_in_mid_breaks.
Print Assumptions prepare_error_breaks.
Print Assumptions C01_exchange_statement_is_false.

(* NOT DONE / POSSIBLE STRENGTHENINGS
   - Convergence of the iteration: that `pair_iter n a b []` becomes stable within
     n >= 4 * (messages of both outboxes) + 8 steps (the shape of C01_exchange_statement) is not
     proved.  It needs the monotonicity of `exchange` in its input along the iteration (each round
     extends the streams by at least one phase of a turn); CutP.exchange_cut gives causality only
     away from the corner "input ends with the byte EOT", which an arbitrary checksum byte can hit,
     so the rounds would have to be characterised phase by phase.  What is proved: the iteration
     stops exactly at closed pairs, every closed pair delivers (closed_exchange), one exists
     (complete_exchange), and for the instance dx_iter the iteration from [] reaches it.
   - Uniqueness of the closed pair is not stated (joint_closed determines both runs turn by turn,
     so it would follow with the streams of joint_run made explicit).
   - The traffic statistics x_sent / x_recv are not described (they are extended exactly where
     EvSetSent _ false / a successful EvProcess are logged).
   - MIDs already in h_gone: the theorem asks that no outbox MID is gone at the start (example (4):
     such a message is never proposed); a version that simply skips those messages would do.
   - h_present = false on a side (no handler: nothing is proposed, everything is deferred) is not
     covered.
   - The hypotheses are shown necessary one by one (section 14) only in the sense that dropping
     any single one of: no store failure, NUL-free title, distinct MIDs, fresh MIDs, outbox_wf,
     prop_syn (space in a MID), no Prepare error -- allows a counterexample; the length conditions
     of prop_syn (at least 6 bytes, at most MaxInt64) are not examined; hs_compat and "no CR in a
     MID" are shown necessary for safety in PairP.v, section 10b. *)
