(* B2F/Secure.v — model of fbb/secure.go (secureLoginResponse) and of the lines
   fbb/handshake.go sendHandshake writes; plus the specification of the Winlink secure
   login recipe written from the property text. Definitions only. *)
From Verif Require Import Base.Bytes B2F.Md5 gen.Tables.
Open Scope N_scope.

(* ---------- model: secureLoginResponse as written (int32 arithmetic, %08d, last 8) ---- *)
Definition wrap32 (z : Z) : Z := ((z + 2147483648) mod 4294967296 - 2147483648)%Z.

Definition pr_step (sum : bytes) (pr : Z) (i : nat) : Z :=
  wrap32 (Z.lor (wrap32 (Z.shiftl pr 8)) (Z.of_N (nth i sum 0))).

Definition response_of_sum (sum : bytes) : bytes :=
  let pr0 := wrap32 (Z.of_N (N.land (nth 3 sum 0) 63)) in
  let pr := pr_step sum (pr_step sum (pr_step sum pr0 2) 1) 0 in
  lastn 8 (fmt_0wd 8 pr).

Definition secure_response (challenge password : bytes) : bytes :=
  response_of_sum (md5 (challenge ++ password ++ winlinkSecureSalt)).

(* ---------- specification (from the property statement) ---------- *)
Definition digits8 (v : N) : bytes :=
  map (fun k => digit_char ((v / 10 ^ k) mod 10)) [7; 6; 5; 4; 3; 2; 1; 0].

Definition spec_of_sum (sum : bytes) : bytes :=
  digits8 ((le_to_N (firstn 4 sum) mod 2 ^ 30) mod 10 ^ 8).

Definition spec_response (salt challenge password : bytes) : bytes :=
  spec_of_sum (md5 (challenge ++ password ++ salt)).

(* ---------- model: sendHandshake ---------- *)
Record hs_cfg := {
  hs_fw      : list bytes;            (* localFW[i].Addr; hs_fw[0] is mycall *)
  hs_name    : bytes;  hs_version : bytes;
  hs_target  : bytes;  hs_mycall  : bytes;  hs_locator : bytes;
  hs_master  : bool;   hs_gzip    : bool;
  (* password callback: None = not registered; otherwise its result per localFW index *)
  hs_cb      : option (list (bytes * bool))   (* (password, returned-an-error) *)
}.

Definition str_FW   : bytes := [59; 70; 87; 58].            (* ";FW:" *)
Definition str_PR   : bytes := [59; 80; 82; 58; 32].        (* ";PR: " *)
Definition str_DE   : bytes := [32; 68; 69; 32].            (* " DE " *)
Definition CR : N := 13.

Definition sid_line (cfg : hs_cfg) : bytes :=
  let sid := if hs_gzip cfg
             then firstn (length localSID - 1) localSID ++ sGzip ++ lastn 1 localSID
             else localSID in
  [91] ++ hs_name cfg ++ [45] ++ hs_version cfg ++ [45] ++ sid ++ [93; CR].

Fixpoint fw_items (challenge : bytes) (cb : list (bytes * bool)) (i : nat) (fw : list bytes)
  : bytes :=
  match fw with
  | [] => []
  | a :: r =>
      let item :=
        match i, challenge with
        | O, _ | _, [] => 32 :: a
        | S _, _ :: _ =>
            match nth i cb ([], true) with
            | ([], _) => 32 :: a
            | (pw, _) => 32 :: a ++ [124] ++ secure_response challenge pw
            end
        end in
      item ++ fw_items challenge cb (S i) r
  end.

Definition de_line (cfg : hs_cfg) : bytes :=
  [59; 32] ++ hs_target cfg ++ str_DE ++ hs_mycall cfg ++ [32; 40] ++ hs_locator cfg ++ [41]
  ++ (if hs_master cfg then [62; CR] else [CR]).

(* result: Some wire-bytes on success, None on error (nothing is flushed) *)
Definition send_handshake (cfg : hs_cfg) (challenge : bytes) : option bytes :=
  match challenge, hs_cb cfg with
  | _ :: _, None => None
  | _, _ =>
      let cb := match hs_cb cfg with Some l => l | None => [] end in
      let fwl := str_FW ++ fw_items challenge cb 0 (hs_fw cfg) ++ [CR] in
      match challenge with
      | [] => Some (fwl ++ sid_line cfg ++ de_line cfg)
      | _ :: _ =>
          match nth 0 cb ([], true) with
          | (_, true) => None
          | (pw, false) =>
              Some (fwl ++ sid_line cfg ++ str_PR ++ secure_response challenge pw ++ [CR]
                    ++ de_line cfg)
          end
      end
  end.

(* expected lines, written from the property text *)
Definition expected_fw_item (salt challenge : bytes) (a : bytes) (pw : bytes) : bytes :=
  match pw with
  | [] => 32 :: a
  | _ => 32 :: a ++ [124] ++ spec_response salt challenge pw
  end.
