(* B2F/Side.v — model of one side of a B2F session: fbb/wl2k.go Exchange, fbb/handshake.go,
   fbb/b2f.go (handleOutbound, sendOutbound, parseProposalAnswer, writeCompressed,
   handleInbound, writeProposalsAnswer, readCompressed), fbb/proposal.go (parseProposal,
   Message = decompress + ReadFrom), fbb/helpers.go (cleanString, errLine), as a function of
   the complete byte sequence received from the remote.  After the fix: commits listed in
   known_findings.json.  Definitions only.

   The mailbox handler is the reference in-memory handler (outbox of prepared proposals, an
   answer policy per MID, a set of MIDs at which ProcessInbound fails).  Every index or slice
   expression of the Go code on remote-controlled data is written with a checked operation
   that yields RPanic when out of range. *)
From Verif Require Import Base.Bytes Base.Utf8 Base.Arr B2F.Md5 B2F.Secure Lzhuf.Huff Lzhuf.Enc Lzhuf.Crc Lzhuf.Dec
  Msg.Message gen.Tables.
Open Scope N_scope.

(* ---------- outcomes ---------- *)
Inductive ecls := EConnLost | EOther.           (* how Exchange maps the error *)
Inductive res (S A : Type) := ROk (a : A) | RFail (e : ecls) (s : S) | RPanic.
Arguments ROk {S A}. Arguments RFail {S A}. Arguments RPanic {S A}.

(* ---------- handler ---------- *)
Record oprop := { o_mid : bytes; o_title : bytes (* Q-encoded *); o_plain_title : bytes;
                  o_size : N; o_cdata : bytes }.
Inductive answer := AAccept | AReject | ADefer.
Record hstate := {
  h_present : bool;                       (* a handler is installed *)
  h_prepare_err : bool;
  h_outbox : list oprop;
  h_gone : list bytes;                    (* MIDs marked sent or deferred in this session *)
  h_policy : list (bytes * answer);       (* default: accept *)
  h_fail : list bytes;                    (* ProcessInbound fails for these MIDs *)
}.

Inductive event :=
| EvPrepare
| EvGetOutbound
| EvSetSent (mid : bytes) (rejected : bool)
| EvSetDeferred (mid : bytes)
| EvAnswer (mid : bytes) (a : answer)
| EvProcess (mid : bytes) (payload : bytes) (ok : bool)      (* payload = decompressed bytes *)
| EvBlockEnd.                                               (* separates SetSent groups *)

(* ---------- session state ---------- *)
Record sess := {
  s_in : bytes;                 (* input not yet consumed *)
  s_out : list bytes;           (* writes, reversed *)
  s_ev : list event;            (* reversed *)
  s_h : hstate;
  s_master : bool;
  s_remote_nomsgs : bool;
  s_sent : list bytes;          (* trafficStats.Sent, reversed *)
  s_recv : list bytes;          (* trafficStats.Received, reversed *)
  s_cfg : hs_cfg;
  s_motd : list bytes;
}.

Definition wr (s : sess) (b : bytes) : sess :=
  {| s_in := s_in s; s_out := b :: s_out s; s_ev := s_ev s; s_h := s_h s; s_master := s_master s;
     s_remote_nomsgs := s_remote_nomsgs s; s_sent := s_sent s; s_recv := s_recv s; s_cfg := s_cfg s;
     s_motd := s_motd s |}.
Definition ev (s : sess) (e : event) : sess :=
  {| s_in := s_in s; s_out := s_out s; s_ev := e :: s_ev s; s_h := s_h s; s_master := s_master s;
     s_remote_nomsgs := s_remote_nomsgs s; s_sent := s_sent s; s_recv := s_recv s; s_cfg := s_cfg s;
     s_motd := s_motd s |}.
Definition set_in (s : sess) (i : bytes) : sess :=
  {| s_in := i; s_out := s_out s; s_ev := s_ev s; s_h := s_h s; s_master := s_master s;
     s_remote_nomsgs := s_remote_nomsgs s; s_sent := s_sent s; s_recv := s_recv s; s_cfg := s_cfg s;
     s_motd := s_motd s |}.
Definition set_h (s : sess) (h : hstate) : sess :=
  {| s_in := s_in s; s_out := s_out s; s_ev := s_ev s; s_h := h; s_master := s_master s;
     s_remote_nomsgs := s_remote_nomsgs s; s_sent := s_sent s; s_recv := s_recv s; s_cfg := s_cfg s;
     s_motd := s_motd s |}.
Definition set_nomsgs (s : sess) (b : bool) : sess :=
  {| s_in := s_in s; s_out := s_out s; s_ev := s_ev s; s_h := s_h s; s_master := s_master s;
     s_remote_nomsgs := b; s_sent := s_sent s; s_recv := s_recv s; s_cfg := s_cfg s;
     s_motd := s_motd s |}.
Definition add_sent (s : sess) (m : bytes) : sess :=
  {| s_in := s_in s; s_out := s_out s; s_ev := s_ev s; s_h := s_h s; s_master := s_master s;
     s_remote_nomsgs := s_remote_nomsgs s; s_sent := m :: s_sent s; s_recv := s_recv s; s_cfg := s_cfg s;
     s_motd := s_motd s |}.
Definition add_recv (s : sess) (m : bytes) : sess :=
  {| s_in := s_in s; s_out := s_out s; s_ev := s_ev s; s_h := s_h s; s_master := s_master s;
     s_remote_nomsgs := s_remote_nomsgs s; s_sent := s_sent s; s_recv := m :: s_recv s; s_cfg := s_cfg s;
     s_motd := s_motd s |}.

(* ---------- strings ---------- *)
Definition in_list (x : N) (l : list N) : bool := existsb (fun y => y =? x) l.
(* strings.TrimSpace on bytes (the Unicode white space that is ASCII, NEL and NBSP excluded:
   lines are compared only when they are ASCII) *)
Definition is_space (b : N) : bool := in_list b [9; 10; 11; 12; 13; 32].
Definition trim_space (s : bytes) : bytes := trim_space_go s.       (* strings.TrimSpace *)

(* cleanString (after the fix: commit) *)
Definition clean_string (raw : bytes) : bytes :=
  let s := trim_space raw in
  match s with
  | [] => []
  | x :: r =>
      let s1 := if x =? 0 then r else s in
      match rev' s1 with
      | 0 :: back => match back with [] => [] | _ :: back' => rev' back' end
      | _ => s1
      end
  end.

(* errLine: Some = the line is an error report *)
Fixpoint last_index (c : N) (s : bytes) (i : nat) (best : option nat) : option nat :=
  match s with
  | [] => best
  | x :: r => last_index c r (S i) (if x =? c then Some i else best)
  end.
Definition err_line (s : bytes) : bool :=
  match s with
  | 42 :: _ =>
      match last_index 42 s 0 None with
      | Some idx => negb (length s <=? idx + 1)%nat
      | None => false
      end
  | _ => false
  end.

(* ReadString(delim): (data including delim, rest) or EOF *)
Definition read_until (c : N) (inp : bytes) : option (bytes * bytes) :=
  match split_at c inp with
  | (a, Some r) => Some (a, r)
  | (_, None) => None
  end.

(* nextLineRemoteErr(parseErr) *)
Definition next_line (parse_err : bool) (s : sess) : res sess (bytes * sess) :=
  match read_until 13 (s_in s) with
  | None => RFail EConnLost (set_in s [])
  | Some (raw, rest) =>
      let line := clean_string raw in
      if parse_err && err_line line then RFail EOther (set_in s rest) else ROk (line, set_in s rest)
  end.

(* checked slicing: s[n:] *)
Definition slice_from (n : nat) (s : bytes) : option bytes :=
  if (n <=? length s)%nat then Some (skipn n s) else None.

(* ---------- handshake ---------- *)
Definition str_FWp : bytes := [59;70;87].              (* ";FW" *)
Definition str_FWfull : bytes := [59;70;87;58;32].     (* ";FW: " *)
Definition str_PQ : bytes := [59;80;81].               (* ";PQ" *)
Definition str_PM : bytes := [59;80;77].               (* ";PM" *)

(* parseSID: a regular expression (open bracket, anything, dash, captured anything, close bracket;
   leftmost match, greedy, the dot does not match LF): for the
   first open bracket whose LF-free continuation contains a dash followed later by a close bracket,
   the text between the last such dash and the last close bracket of that continuation, upper-cased; None = "Bad SID line" *)
Fixpoint take_until_lf (s : bytes) : bytes :=
  match s with [] => [] | x :: r => if x =? 10 then [] else x :: take_until_lf r end.
Definition sid_at (rest : bytes) : option bytes :=
  match split_at 93 (rev' (take_until_lf rest)) with
  | (_, Some before_rev) =>
      match split_at 45 before_rev with
      | (code_rev, Some _) => Some (upper (rev' code_rev))
      | (_, None) => None
      end
  | (_, None) => None
  end.
Fixpoint parse_sid (line : bytes) : option bytes :=
  match line with
  | [] => None
  | x :: r => if x =? 91 then match sid_at r with Some c => Some c | None => parse_sid r end
              else parse_sid r
  end.

Record hsdata := { hd_sid : bytes; hd_have_sid : bool; hd_challenge : bytes }.

Fixpoint read_handshake (fuel : nat) (s : sess) (d : hsdata) : res sess (hsdata * sess) :=
  match fuel with
  | O => RFail EOther s
  | S f =>
      match s_in s with
      | [] => RFail EConnLost s
      | b :: _ =>
          if (b =? 70) && s_master s then ROk (d, s)
          else
            match next_line false s with
            | RFail e s' => RFail e s'
            | RPanic => RPanic
            | ROk (line, s1) =>
                if prefixb [91] line && suffixb [93] line then
                  match parse_sid line with
                  | None => RFail EOther s1
                  | Some sid =>
                      if containsb sFBComp2 sid
                      then read_handshake f s1 {| hd_sid := sid; hd_have_sid := true; hd_challenge := hd_challenge d |}
                      else RFail EOther s1
                  end
                else if prefixb str_FWp line then
                  (if prefixb str_FWfull line then read_handshake f s1 d else RFail EOther s1)
                else if prefixb str_PQ line then
                  (if (length line <? 5)%nat then RFail EOther s1
                   else match slice_from 5 line with
                        | None => RPanic
                        | Some c => read_handshake f s1 {| hd_sid := hd_sid d; hd_have_sid := hd_have_sid d; hd_challenge := c |}
                        end)
                else if suffixb [62] line then ROk (d, s1)
                else read_handshake f s1 d
            end
      end
  end.

Definition do_send_handshake (s : sess) (challenge : bytes) : res sess sess :=
  match send_handshake (s_cfg s) challenge with
  | None => RFail EOther s
  | Some b => ROk (wr s b)
  end.

Definition handshake (s : sess) : res sess sess :=
  let fuel := S (length (s_in s)) in
  let d0 := {| hd_sid := []; hd_have_sid := false; hd_challenge := [] |} in
  if s_master s then
    let s1 := fold_left (fun acc l => wr acc (l ++ [13])) (s_motd s) s in
    match do_send_handshake s1 [] with
    | ROk s2 =>
        match read_handshake fuel s2 d0 with
        | ROk (d, s3) => if hd_have_sid d && negb (beq_bytes (hd_sid d) []) then ROk s3 else RFail EOther s3
        | RFail e s' => RFail e s'
        | RPanic => RPanic
        end
    | RFail e s' => RFail e s'
    | RPanic => RPanic
    end
  else
    match read_handshake fuel s d0 with
    | ROk (d, s1) =>
        if hd_have_sid d && negb (beq_bytes (hd_sid d) []) then do_send_handshake s1 (hd_challenge d)
        else RFail EOther s1
    | RFail e s' => RFail e s'
    | RPanic => RPanic
    end.

(* ---------- proposals out ---------- *)
Definition str_WL2K_Z : bytes := [47;47;87;76;50;75;32;90;47].
Definition str_WL2K_O : bytes := [47;47;87;76;50;75;32;79;47].
Definition str_WL2K_P : bytes := [47;47;87;76;50;75;32;80;47].
Definition precedence (p : oprop) : N :=
  if containsb str_WL2K_Z (o_plain_title p) then 0
  else if containsb str_WL2K_O (o_plain_title p) then 1
  else if containsb str_WL2K_P (o_plain_title p) then 2 else 3.

Definition prop_leb (a b : oprop) : bool :=
  let pa := precedence a in let pb := precedence b in
  if pa <? pb then true else if pb <? pa then false
  else let ca := N.of_nat (length (o_cdata a)) in let cb := N.of_nat (length (o_cdata b)) in
       if ca <? cb then true else if cb <? ca then false
       else bytes_leb (o_mid a) (o_mid b).
Fixpoint insert_prop (p : oprop) (l : list oprop) : list oprop :=
  match l with
  | [] => [p]
  | x :: r => if prop_leb p x then p :: l else x :: insert_prop p r
  end.
Definition sort_props (l : list oprop) : list oprop := fold_right insert_prop [] l.

Definition mem_bytes (x : bytes) (l : list bytes) : bool := existsb (beq_bytes x) l.

Definition outbound (s : sess) : list oprop * sess :=
  if h_present (s_h s) then
    (sort_props (filter (fun p => negb (mem_bytes (o_mid p) (h_gone (s_h s)))) (h_outbox (s_h s))),
     ev s EvGetOutbound)
  else ([], s).

Definition str_EM : bytes := [69;77].
Definition proposal_line (p : oprop) : bytes :=
  [70; Wl2kProposal; 32] ++ str_EM ++ [32] ++ o_mid p ++ [32] ++ dec_of_N (o_size p) ++ [32]
  ++ dec_of_N (N.of_nat (length (o_cdata p))) ++ [32; 48].

(* the code sums the runes of each line ("for _, c := range sp"), not its bytes *)
Definition block_checksum (lines : list bytes) : N :=
  let sum := fold_left (fun acc l => acc + rune_sum l + 13) lines 0 in
  (256 - sum mod 256) mod 256.

(* the run of digits at the start of s *)
Fixpoint leading_digits (s : bytes) : bytes :=
  match s with
  | x :: r => if is_digit x then x :: leading_digits r else []
  | [] => []
  end.

Inductive pans := PUnset | PAns (a : answer) (offset : Z).

(* parseProposalAnswer: one entry per answered proposal; None = error *)
Fixpoint parse_answers (fuel : nat) (str : bytes) (nprops : nat) (acc : list pans) : option (list pans) :=
  match fuel with
  | O => None
  | S f =>
      match str with
      | [] => Some (rev' acc)
      | c :: rest =>
          match nprops with
          | O => None
          | S np =>
              if in_list c [89; 121; 43] then parse_answers f rest np (PAns AAccept 0 :: acc)
              else if in_list c [78; 110; 82; 114; 45] then parse_answers f rest np (PAns AReject 0 :: acc)
              else if in_list c [76; 108; 61; 72; 104] then parse_answers f rest np (PAns ADefer 0 :: acc)
              else if in_list c [65; 97; 33] then
                match leading_digits rest with
                | [] => None
                | ds =>
                    let off := atoi_ignore_err ds in
                    let off' := if (Z.of_N ProtocolOffsetSizeLimit <? off)%Z then 0%Z else off in
                    parse_answers f (skipn (length ds) rest) np (PAns AAccept off' :: acc)
                end
              else None
          end
      end
  end.

Fixpoint data_chunks (fuel : nat) (d : bytes) : bytes :=
  match fuel with
  | O => []
  | S f =>
      match d with
      | [] => []
      | _ => let n := Nat.min (length d) (N.to_nat MaxMsgLength) in
             CHRSTX :: N.of_nat n :: firstn n d ++ data_chunks f (skipn n d)
      end
  end.

Definition write_compressed (s : sess) (p : oprop) (offset : Z) : res sess sess :=
  let clen := Z.of_nat (length (o_cdata p)) in
  if (offset <? 0)%Z || (clen <? offset)%Z then RFail EOther s
  else
    let title := firstn 80 (o_title p) in
    let off := dec_of_Z offset in
    let len := (N.of_nat (length title + length off + 2)) mod 256 in
    let s1 := wr s ([CHRSOH; len] ++ title ++ [CHRNUL] ++ off ++ [CHRNUL]) in
    if (clen <? 6)%Z then RFail EOther s1
    else
      let d := skipn (Z.to_nat offset) (o_cdata p) in
      let sum := (256 - sumN d mod 256) mod 256 in
      ROk (wr s1 (data_chunks (S (length d)) d ++ [CHREOT; sum])).

Definition mark_gone (s : sess) (mid : bytes) : sess :=
  let h := s_h s in
  set_h s {| h_present := h_present h; h_prepare_err := h_prepare_err h; h_outbox := h_outbox h;
             h_gone := mid :: h_gone h; h_policy := h_policy h; h_fail := h_fail h |}.

Fixpoint send_accepted (s : sess) (props : list oprop) (ans : list pans)
                       (sent : list (bytes * bool)) : res sess (sess * list (bytes * bool)) :=
  match props with
  | [] => ROk (s, sent)
  | p :: ps =>
      let '(a, ans') := match ans with [] => (PUnset, []) | a :: r => (a, r) end in
      match a with
      | PUnset => send_accepted s ps ans' sent
      | PAns ADefer _ => send_accepted (ev (mark_gone s (o_mid p)) (EvSetDeferred (o_mid p))) ps ans' sent
      | PAns AReject _ => send_accepted s ps ans' ((o_mid p, true) :: sent)
      | PAns AAccept off =>
          match write_compressed s p off with
          | ROk s1 => send_accepted s1 ps ans' ((o_mid p, false) :: sent)
          | RFail e s' => RFail e s'
          | RPanic => RPanic
          end
      end
  end.

Fixpoint read_reply (fuel : nat) (s : sess) : res sess (bytes * sess) :=
  match fuel with
  | O => RFail EOther s
  | S f =>
      match next_line true s with
      | RFail e s' => RFail e s'
      | RPanic => RPanic
      | ROk (line, s1) =>
          if prefixb [70; 83; 32] line then ROk (line, s1)
          else if prefixb [59] line then read_reply f s1
          else RFail EOther s1
      end
  end.

(* handleOutbound: quitSent *)
Definition handle_outbound (s : sess) : res sess (bool * sess) :=
  let '(props, s0) := outbound s in
  match props with
  | [] =>
      let q := s_remote_nomsgs s0 in
      ROk (q, wr s0 (if q then [70; 81; 13] else [70; 70; 13]))
  | _ =>
      let block := firstn (N.to_nat MaxBlockSize) props in
      let lines := map proposal_line block in
      let s1 := fold_left (fun acc l => wr acc (l ++ [13])) lines s0 in
      let s2 := wr s1 ([70; 62; 32] ++ fmt_02X (block_checksum lines) ++ [13]) in
      match read_reply (S (length (s_in s2))) s2 with
      | RFail e s' => RFail e s'
      | RPanic => RPanic
      | ROk (reply, s3) =>
          match slice_from 3 reply with
          | None => RPanic
          | Some astr =>
              match parse_answers (S (length astr)) astr (length block) [] with
              | None => RFail EOther s3
              | Some ans =>
                  match send_accepted s3 block ans [] with
                  | RFail e s' => RFail e s'
                  | RPanic => RPanic
                  | ROk (s4, sent_rev) =>
                      let sent := rev' sent_rev in
                      let s5 := fold_left (fun acc (mr : bytes * bool) =>
                                  if snd mr then ev (mark_gone acc (fst mr)) (EvSetSent (fst mr) true) else acc)
                                  sent s4 in
                      match s_in s5 with
                      | [] => RFail EConnLost (ev s5 EvBlockEnd)
                      | b :: _ =>
                          if negb ((b =? 70) || (b =? 59)) then
                            match next_line true s5 with
                            | ROk (_, s') => RFail EOther (ev s' EvBlockEnd)
                            | RFail e s' => RFail e (ev s' EvBlockEnd)
                            | RPanic => RPanic
                            end
                          else
                            let s6 := fold_left (fun acc (mr : bytes * bool) =>
                                        if snd mr then acc
                                        else add_sent (ev (mark_gone acc (fst mr)) (EvSetSent (fst mr) false)) (fst mr))
                                        sent s5 in
                            ROk (false, ev s6 EvBlockEnd)
                      end
                  end
              end
          end
      end
  end.

(* ---------- proposals in ---------- *)
Record iprop := { i_code : N; i_mid : bytes; i_size : Z; i_csize : Z; i_answer : answer }.

Definition type_ok (t : bytes) : bool :=
  ((length t =? 1)%nat || (length t =? 2)%nat) && (beq_bytes t str_EM || beq_bytes t [67;77]).

(* parseProposal on a line "F?..." : Some prop, or None = error; RPanic if a slice is out of range *)
Definition parse_proposal (s : sess) (line : bytes) : res sess iprop :=
  match line with
  | c0 :: code :: _ =>
      if negb (c0 =? 70) then RFail EOther s
      else if (code =? BasicProposal) || (code =? AsciiProposal) then
        ROk {| i_code := code; i_mid := []; i_size := 0; i_csize := 0; i_answer := ADefer |}
      else if (code =? Wl2kProposal) || (code =? GzipProposal) then
        if (length line <? 4)%nat then RFail EOther s
        else match slice_from 3 line with
             | None => RPanic
             | Some rest =>
                 match split_on 32 rest with
                 | [t; mid; sz; csz; _] =>
                     if type_ok t then
                       ROk {| i_code := code; i_mid := mid; i_size := atoi_ignore_err sz;
                              i_csize := atoi_ignore_err csz; i_answer := ADefer |}
                     else RFail EOther s
                 | _ => RFail EOther s          (* fewer than five parts, or more *)
                 end
             end
      else RFail EOther s
  | _ => RFail EOther s
  end.

Definition policy_of (h : hstate) (mid : bytes) : answer :=
  let fix go (l : list (bytes * answer)) :=
    match l with
    | [] => AAccept
    | (m, a) :: r => if beq_bytes m mid then a else go r
    end in go (h_policy h).

Definition with_answer (p : iprop) (a : answer) : iprop :=
  {| i_code := i_code p; i_mid := i_mid p; i_size := i_size p; i_csize := i_csize p; i_answer := a |}.

(* writeProposalsAnswer *)
Fixpoint answer_props (s : sess) (props : list iprop) (seen : list bytes) (acc : list iprop) : sess * list iprop :=
  match props with
  | [] => (s, rev' acc)
  | p :: r =>
      let supported := (i_code p =? Wl2kProposal) || (i_code p =? GzipProposal) in
      if mem_bytes (i_mid p) seen || negb supported || negb (h_present (s_h s)) then
        answer_props s r (i_mid p :: seen) (with_answer p ADefer :: acc)
      else
        let a := policy_of (s_h s) (i_mid p) in
        answer_props (ev s (EvAnswer (i_mid p) a)) r (i_mid p :: seen) (with_answer p a :: acc)
  end.

Definition answer_byte (a : answer) : N :=
  match a with AAccept => AnsAccept | AReject => AnsReject | ADefer => AnsDefer end.

(* strconv.ParseInt(s, 16, 64) with the error ignored *)
Definition hex_val (b : N) : option N :=
  if is_digit b then Some (b - 48)
  else if (97 <=? b) && (b <=? 102) then Some (b - 87)
  else if (65 <=? b) && (b <=? 70) then Some (b - 55) else None.
Fixpoint hex_digits (l : bytes) (acc : N) : option N :=
  match l with
  | [] => Some acc
  | d :: r => match hex_val d with Some v => hex_digits r (acc * 16 + v) | None => None end
  end.
Definition parse_hex_ignore_err (s : bytes) : Z :=
  let '(neg, ds) := match s with 45 :: r => (true, r) | 43 :: r => (false, r) | _ => (false, s) end in
  match ds with
  | [] => 0%Z
  | _ => match hex_digits ds 0 with
         | None => 0%Z
         | Some v => if neg then (if 9223372036854775808 <? v then (-9223372036854775808)%Z else (- Z.of_N v)%Z)
                     else (if 9223372036854775807 <? v then 9223372036854775807%Z else Z.of_N v)
         end
  end.

(* ---------- readCompressed ---------- *)
Fixpoint take_n (n : nat) (inp : bytes) (acc : bytes) (sum : N) : option (bytes * bytes * N) :=
  match n with
  | O => Some (acc, inp, sum)
  | S k => match inp with [] => None | x :: r => take_n k r (x :: acc) ((sum + x) mod 256) end
  end.

Inductive fres := FOk (data rest : bytes) | FErr (e : ecls) (rest : bytes).

Fixpoint read_frames (fuel : nat) (inp : bytes) (buf : bytes (* reversed *)) (sum : N) (csize : Z) : fres :=
  match fuel with
  | O => FErr EOther inp
  | S f =>
      match inp with
      | [] => FErr EConnLost []
      | c :: r =>
          if c =? CHRSTX then
            let '(len, r1) := match r with
                              | [] => (256%nat, [])                       (* ReadByte error ignored: 0 -> 256 *)
                              | l :: r1 => ((if l =? 0 then 256%nat else N.to_nat l), r1) end in
            match take_n len r1 buf sum with
            | None => FErr EConnLost []
            | Some (buf', r2, sum') => read_frames f r2 buf' sum' csize
            end
          else if c =? CHREOT then
            let '(ck, r1) := match r with [] => (0, []) | k :: r1 => (k, r1) end in
            if negb ((sum + ck) mod 256 =? 0) then FErr EOther r1
            else if negb (csize =? Z.of_nat (length buf))%Z then FErr EOther r1
            else FOk (rev' buf) r1
          else FErr EOther r
      end
  end.

Definition read_compressed (s : sess) (p : iprop) : res sess (bytes * sess) :=
  match s_in s with
  | [] => RFail EConnLost s
  | c :: r =>
      if c =? CHRSOH then
        match r with
        | [] => RFail EConnLost (set_in s [])
        | hl :: r1 =>
            match read_until CHRNUL r1 with
            | None => RFail EConnLost (set_in s [])
            | Some (title, r2) =>
                match read_until CHRNUL r2 with
                | None => RFail EConnLost (set_in s [])
                | Some (offs, r3) =>
                    if negb (N.to_nat hl =? length title + length offs + 2)%nat then RFail EOther (set_in s r3)
                    else
                      let digits := match offs with 45 :: d => d | 43 :: d => d | _ => offs end in
                      match digits, num_of_digits digits 0 with
                      | _ :: _, Some v =>
                          if 9223372036854775807 <? v then RFail EOther (set_in s r3)
                          else if negb (v =? 0) then RFail EOther (set_in s r3)
                          else
                            match read_frames (S (length r3)) r3 [] 0 (i_csize p) with
                            | FOk data r4 => ROk (data, set_in s r4)
                            | FErr e r4 => RFail e (set_in s r4)
                            end
                      | _, _ => RFail EOther (set_in s r3)
                      end
                end
            end
        end
      else if c =? 42 then
        (* an error report from the remote: the line is consumed *)
        match next_line true (set_in s r) with
        | ROk (_, s') => RFail EOther s'
        | RFail _ s' => RFail EOther s'
        | RPanic => RPanic
        end
      else RFail EOther (set_in s r)
  end.

(* Proposal.Message(): decompress (B2 LZHUF reader, io.Copy, Close), then ReadFrom.
   MUnknown: the Date header is outside the modelled layouts (the harness skips such cases) *)
Inductive mres := MOk (mid : bytes) (data : bytes) | MErr (e : ecls) | MUnknown.

Definition decompress (cdata : bytes) : option bytes + ecls :=
  if (length cdata <? 6)%nat then inr EConnLost                  (* io.EOF / io.ErrUnexpectedEOF *)
  else match new_reader true [cdata] with
       | None => inr EOther                                      (* invalid size in header *)
       | Some d =>
           let '(out, st, d') := read_all_loop (S (S (length cdata * 8))) d 512 [] in
           match st with
           | REof => match close_reader d' with
                     | ErrNone => inl (Some out)
                     | ErrUnexpectedEOF => inr EConnLost
                     | _ => inr EOther
                     end
           | Dec.RErr ErrUnexpectedEOF => inr EConnLost
           | _ => inr EOther
           end
       end.

Definition serr_cls (e : serr) : ecls :=
  match e with SUnexpectedEOF => EConnLost | _ => EOther end.

Definition proposal_message (cdata : bytes) : mres :=
  match decompress cdata with
  | inr e => MErr e
  | inl None => MErr EOther
  | inl (Some data) =>
      let p := read_from data in
      match p_status p with
      | RfOk => MOk (hget (p_hdr p) str_Mid) data
      | RfDateUnknown => MUnknown
      | RfHeaderErr eof => MErr (if eof then EConnLost else EOther)
      | RfSectionErr e => MErr (serr_cls e)
      | RfDateErr => MErr EOther
      end
  end.

Inductive rres := RcOk (s : sess) | RcErr (e : ecls) (s : sess) | RcPanic | RcUnknown.

Fixpoint receive_accepted (s : sess) (props : list iprop) : rres :=
  match props with
  | [] => RcOk s
  | p :: r =>
      match i_answer p with
      | AAccept =>
          match read_compressed s p with
          | RFail e s' => RcErr e s'
          | RPanic => RcPanic
          | ROk (cdata, s1) =>
              match proposal_message cdata with
              | MErr e => RcErr e s1
              | MUnknown => RcUnknown
              | MOk mid data =>
                  let fails := mem_bytes mid (h_fail (s_h s1)) in
                  let s2 := ev s1 (EvProcess mid data (negb fails)) in
                  if fails then RcErr EOther s2
                  else receive_accepted (add_recv s2 (i_mid p)) r
              end
          end
      | _ => receive_accepted s r
      end
  end.

(* the proposal/command loop of handleInbound *)
Fixpoint inbound_loop (fuel : nat) (s : sess) (props : list iprop) (lines : list bytes)
  : res sess (bool * list iprop * sess) :=
  match fuel with
  | O => RFail EOther s
  | S f =>
      match next_line true s with
      | RFail e s' => RFail e s'
      | RPanic => RPanic
      | ROk (line, s1) =>
          if prefixb str_PM line then inbound_loop f s1 props lines
          else match line with
               | [] => inbound_loop f s1 props lines
               | 59 :: _ => inbound_loop f s1 props lines
               | c0 :: rest0 =>
                   if (length line <? 2)%nat || negb (c0 =? 70) then RFail EOther s1
                   else
                     match rest0 with
                     | [] => RPanic                      (* line[:2] of a one byte line: excluded above *)
                     | c1 :: _ =>
                         if in_list c1 [65; 66; 67; 68] then
                           match parse_proposal s1 line with
                           | ROk p => inbound_loop f s1 (p :: props) (line :: lines)
                           | RFail e s' => RFail e s'
                           | RPanic => RPanic
                           end
                         else if c1 =? 70 then ROk (false, [], set_nomsgs s1 true)      (* FF *)
                         else if c1 =? 81 then ROk (true, [], s1)                        (* FQ *)
                         else if c1 =? 62 then                                           (* F> *)
                           match slice_from 2 line with
                           | None => RPanic
                           | Some ck =>
                               let ours := Z.of_N (block_checksum (rev' lines)) in
                               let theirs := parse_hex_ignore_err (trim_space ck) in
                               if negb (ours =? theirs)%Z then RFail EOther s1
                               else
                                 match props with
                                 | [] => ROk (false, [], set_nomsgs s1 true)
                                 | _ =>
                                     let '(s2, answered) := answer_props (set_nomsgs s1 false) (rev' props) [] [] in
                                     let s3 := wr s2 ([70; 83; 32] ++ map (fun p => answer_byte (i_answer p)) answered ++ [13]) in
                                     ROk (false, answered, s3)
                                 end
                           end
                         else RFail EOther s1
                     end
               end
      end
  end.

(* ---------- Exchange ---------- *)
Inductive xres := XNil | XConnLost | XOther | XPanic | XOutOfFuel | XUnknown.

Definition xerr (e : ecls) : xres := match e with EConnLost => XConnLost | EOther => XOther end.

Fixpoint turns (fuel : nat) (my_turn : bool) (s : sess) : xres * sess :=
  match fuel with
  | O => (XOutOfFuel, s)
  | S f =>
      if my_turn then
        match handle_outbound s with
        | ROk (quit, s1) => if quit then (XNil, s1) else turns f false s1
        | RFail e s' => (xerr e, s')
        | RPanic => (XPanic, s)
        end
      else
        match inbound_loop (S (length (s_in s))) s [] [] with
        | RFail e s' => (xerr e, s')
        | RPanic => (XPanic, s)
        | ROk (quit, props, s1) =>
            match receive_accepted s1 props with
            | RcOk s2 => if quit then (XNil, s2) else turns f true s2
            | RcErr e s' => (xerr e, s')
            | RcPanic => (XPanic, s1)
            | RcUnknown => (XUnknown, s1)
            end
        end
  end.

Record outcome := { x_res : xres; x_wire : bytes; x_events : list event;
                    x_sent : list bytes; x_recv : list bytes; x_consumed : nat }.

Definition echo : bytes := [42;42;42;32;95;13;10].     (* "*** _\r\n": the error text is not compared *)

Definition finish (input_len : nat) (r : xres) (s : sess) : outcome :=
  let s' := match r with XOther => wr s echo | _ => s end in
  {| x_res := r; x_wire := concat (rev' (s_out s')); x_events := rev' (s_ev s');
     x_sent := rev' (s_sent s'); x_recv := rev' (s_recv s');
     x_consumed := (input_len - length (s_in s'))%nat |}.

Record side_cfg := {
  c_master : bool; c_motd : list bytes; c_hs : hs_cfg; c_handler : hstate
}.

Definition exchange (cfg : side_cfg) (input : bytes) : outcome :=
  let s0 := {| s_in := input; s_out := []; s_ev := []; s_h := c_handler cfg; s_master := c_master cfg;
               s_remote_nomsgs := false; s_sent := []; s_recv := []; s_cfg := c_hs cfg; s_motd := c_motd cfg |} in
  let n := length input in
  let fuel := (2 * n + length (h_outbox (c_handler cfg)) + 8)%nat in
  let s1 := if h_present (c_handler cfg) then ev s0 EvPrepare else s0 in
  if h_present (c_handler cfg) && h_prepare_err (c_handler cfg) then finish n XOther s1
  else
    match handshake s1 with
    | RFail e s' => finish n (xerr e) s'
    | RPanic => finish n XPanic s1
    | ROk s2 =>
        let '(r, s3) := turns fuel (negb (c_master cfg)) s2 in
        finish n r s3
    end.
