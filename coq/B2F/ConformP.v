(* B2F/ConformP.v -- CONFORMANCE of the session model (B2F/Side.v, `exchange`) to the independent
   grammar (B2F/Grammar.v, `validate master_stream slave_stream`): Properties/C05.v.  No axioms;
   everything called a lemma, theorem or example below is proved (Print Assumptions at the end:
   closed under the global context).

   MAIN RESULTS
   1. TWO LIBRARY SIDES CONFORM (pair_conforms, pair_conforms_ms; section 7).  For side
      configurations a, b with
        opposite roles (c_master a = negb (c_master b)),
        PairP.pair_text_ok a b (the master has no MOTD, its greeting ends with the prompt, the
          greeting fields of both sides are printable text without blanks),
        DeliverP.side_ready a b and side_ready b a (the hypotheses of complete_exchange_delivers),
        side_conf a and side_conf b, i.e. what the GRAMMAR asks of a configuration:
          hs_conf: SID name and version non-empty and without '-' (sid_conf), forwarding addresses
            non-empty, without '|' and '>' (fw_conf);
          for every prepared proposal (blk_conf): the MID is 1 to 12 letters or digits (mid_conf),
            the title is not empty and has no NUL among the 80 bytes sent, o_size is the length of
            the message that the reference decoder Canon.decode finds in o_cdata (size_conf),
            the compressed length is below 10^41,
      EVERY complete session (every closed pair of streams in_a, in_b: DeliverP.closed) satisfies
        validate <what the master wrote> <what the slave wrote> = VOk.
      (One exists and both sides end with nil: DeliverP.complete_exchange_delivers.)  Every
      hypothesis of side_conf is needed: section 10, one closed counterexample each (the examples kx_...), which
      are at the same time counterexamples to C05_conforming_statement as written (the configuration
      of the library side is arbitrary there).
      Method: `script` (section 4) describes the two streams after the greetings turn by turn;
      turns_script: the grammar accepts every script; joint_shape (the induction of
      DeliverP.joint_closed, keeping the bytes instead of the logs): the remaining streams of a
      ready pair at a turn boundary form a script; master_hs_ok / slave_hs_ok: the greetings.
   2. ELEMENT-LEVEL CONFORMANCE (sections 1, 2, 8): the tokeniser has ample fuel (tokens_fuel) and
      reads a line written by the library as one Line (toks_line), the bytes of write_compressed at
      offset 0 (toks_xfer) and at any offset (toks_xbytes) as one Transfer element with well formed
      blocks and checksum; proposal_line_parses (parse_prop), transfer_valid / transfer_valid_off
      (valid_transfer, any offset within the compressed length), sid_line_valid (valid_sid),
      fw_line_valid (valid_fw), with GrammarP.prompt_valid and answer_line_valid.
   3. ONE SIDE AGAINST ANY PEER (C05 proper), sections 8-10.
      - Properties/C05.C05_conforming_statement IS FALSE even for a conforming configuration
        (C05_statement_is_false): greeting_desync_cx (the master's line ";FW: X>" ends the greeting
        for the grammar and not for the library: the grammar later misses a command of the library)
        and offset_limit_cx (the peer asks for an offset above 999999: the library restarts at 0,
        the grammar blames the library).
      - The answer 'H' is NOT a deviation for this grammar (answer_H_accepted: both parse_answers
        and parse_fs read 'H' as a deferral, no transfer is due), so no exclusion is needed for it.
      - fs_agree: whenever both parsers accept an answer string whose offsets respect the limit,
        they read the same answers.  reply_sync: while the library waits for the answer line, the
        grammar either blames the peer or has read the same line.
      - sender_turn: the SENDING TURN of the library against an ARBITRARY peer restricted only by
        elem_ok (lines that are comments for the grammar are comments for the library after
        cleanString -- false only for lines like ";<NUL>", clean_comment_cx, true whenever the line
        ends with a printable non-blank byte, comment_clean_ok -- and offsets within the limit): from
        a synchronised state, if handle_outbound succeeds, the validator does not blame the library
        or reaches the peer's turn in a synchronised state again.
      The receiving turn, the induction over turns and the greetings are NOT done: see the end of
      the file for what is missing and how it is meant to go. *)
From Coq Require Import List NArith ZArith Bool Lia ZifyN ZifyNat ZifyBool Sorting.Permutation.
From Verif Require Import Base.Bytes Base.BytesP Base.Utf8 gen.Tables Lzhuf.Dec Lzhuf.Canon Msg.Message B2F.Secure B2F.Side B2F.SideP
  B2F.TermP B2F.CodecP B2F.CutP B2F.PairDefs B2F.PairLines B2F.PairXfer B2F.PairHs B2F.PairP B2F.PairIter B2F.DeliverP
  B2F.Grammar B2F.GrammarP.
Import ListNotations.
Open Scope N_scope.

(* ================================================================================== *)
(* 1. The tokeniser                                                                    *)
(* ================================================================================== *)
Definition toks (s : bytes) : list elem := tokens (S (length s)) s.

Lemma take_until_len c : forall s acc a r, take_until c s acc = Some (a, r) -> (length r < length s)%nat.
Proof.
  induction s as [|x s IH]; intros acc a r H; cbn [take_until] in H; [discriminate|].
  destruct (x =? c).
  - injection H as _ <-. cbn [length]. lia.
  - apply IH in H. cbn [length]. lia.
Qed.

Lemma take_until_notin c : forall l r acc, ~ In c l -> take_until c (l ++ c :: r) acc = Some (rev acc ++ l, r).
Proof.
  induction l as [|x l IH]; intros r acc Hn; cbn [app take_until].
  - rewrite N.eqb_refl, rev'_rev, app_nil_r. reflexivity.
  - assert (E : (x =? c) = false) by (apply N.eqb_neq; intros ->; apply Hn; left; reflexivity).
    rewrite E, IH by (intros K; apply Hn; right; exact K). cbn [rev]. rewrite <- app_assoc. reflexivity.
Qed.

Lemma take_until_none c : forall s acc, ~ In c s -> take_until c s acc = None.
Proof.
  induction s as [|x s IH]; intros acc Hn; cbn [take_until]; [reflexivity|].
  assert (E : (x =? c) = false) by (apply N.eqb_neq; intros ->; apply Hn; left; reflexivity).
  rewrite E. apply IH. intros K. apply Hn. right. exact K.
Qed.

(* the result of take_until: the first occurrence of c splits the string *)
Lemma take_until_some c : forall s acc a r, take_until c s acc = Some (a, r) ->
  exists l, a = rev acc ++ l /\ s = l ++ c :: r /\ ~ In c l.
Proof.
  induction s as [|x s IH]; intros acc a r H; cbn [take_until] in H; [discriminate|].
  destruct (x =? c) eqn:E.
  - apply N.eqb_eq in E. subst x. injection H as <- <-. exists []. rewrite rev'_rev, app_nil_r. repeat split. intros [].
  - apply IH in H. destruct H as (l&Ha&Hs&Hn). exists (x :: l). cbn [rev] in Ha. rewrite <- app_assoc in Ha.
    split; [exact Ha|]. split; [rewrite Hs; reflexivity|]. intros [K|K]; [subst x; rewrite N.eqb_refl in E; discriminate|exact (Hn K)].
Qed.

Lemma take_k_app : forall k a X acc, length a = k -> take_k k (a ++ X) acc = Some (rev acc ++ a, X).
Proof.
  induction k as [|k IH]; intros a X acc Hl.
  - destruct a; [|discriminate]. cbn [take_k app]. rewrite rev'_rev, app_nil_r. reflexivity.
  - destruct a as [|x a]; [discriminate|]. cbn [app take_k]. rewrite IH by (cbn in Hl; lia).
    cbn [rev]. rewrite <- app_assoc. reflexivity.
Qed.

Lemma take_k_len : forall k s acc a r, take_k k s acc = Some (a, r) -> (length r <= length s)%nat.
Proof.
  induction k as [|k IH]; intros s acc a r H; cbn [take_k] in H.
  - injection H as _ <-. lia.
  - destruct s as [|x s]; [discriminate|]. apply IH in H. cbn [length]. lia.
Qed.

Lemma blocks_len : forall f s acc sum d b c r, blocks f s acc sum = Some (d, b, c, r) -> (length r < length s)%nat.
Proof.
  induction f as [|f IH]; intros s acc sum d b c r H; [discriminate|].
  cbn [blocks] in H.
  destruct s as [|x s]; [discriminate|].
  destruct x as [|[p|[p|[p|p|]|]|]]; try discriminate; destruct s as [|l s]; try discriminate.
  2:{ destruct (take_k (if l =? 0 then 256%nat else N.to_nat l) s []) as [[dd r']|] eqn:E; [|discriminate].
      apply take_k_len in E. apply IH in H. cbn [length]. lia. }
  - injection H as _ _ _ <-. cbn [length]. lia.
Qed.

(* the three shapes of a non-empty stream for the tokeniser *)
Lemma tokens_soh f hl r : tokens (S f) (1 :: hl :: r) =
  match take_until 0 r [] with
  | Some (title, r1) =>
      match take_until 0 r1 [] with
      | Some (offs, r2) =>
          match blocks (S (length r2)) r2 [] 0 with
          | Some (d, bok, cok, r3) => Transfer hl title offs d bok cok :: tokens f r3
          | None => [Garbage (1 :: hl :: r)]
          end
      | None => [Garbage (1 :: hl :: r)]
      end
  | None => [Garbage (1 :: hl :: r)]
  end.
Proof. reflexivity. Qed.

Definition not_soh (s : bytes) : Prop := forall hl r, s <> 1 :: hl :: r.

Lemma tokens_line f s : s <> [] -> not_soh s -> tokens (S f) s =
  match take_until 13 s [] with
  | Some (l, r) => Line l :: tokens f r
  | None => [Garbage s]
  end.
Proof.
  intros H1 H2. destruct s as [|x s]; [congruence|].
  destruct s as [|y s]; [destruct x as [|[p|p|]]; reflexivity|].
  destruct x as [|[p|p|]]; try reflexivity. exfalso. exact (H2 y s eq_refl).
Qed.

Lemma stream_shape (s : bytes) : s = [] \/ (exists hl r, s = 1 :: hl :: r) \/ (s <> [] /\ not_soh s).
Proof.
  destruct s as [|x s]; [left; reflexivity|right].
  destruct (N.eq_dec x 1) as [->|Hx].
  - destruct s as [|y s]; [right|left; eauto]. split; [discriminate|]. intros hl r; discriminate.
  - right. split; [discriminate|]. intros hl r E. injection E as E _. contradiction.
Qed.

(* the fuel of the tokeniser is ample: any amount above the length gives the same elements *)
Lemma tokens_fuel : forall f1 f2 s, (length s < f1)%nat -> (length s < f2)%nat -> tokens f1 s = tokens f2 s.
Proof.
  induction f1 as [|f1 IH]; intros f2 s H1 H2; [lia|]. destruct f2 as [|f2]; [lia|].
  destruct (stream_shape s) as [->|[(hl&r&->)|[Hne Hns]]]; [reflexivity| |].
  - rewrite !tokens_soh.
    destruct (take_until 0 r []) as [[title r1]|] eqn:E1; [|reflexivity].
    destruct (take_until 0 r1 []) as [[offs r2]|] eqn:E2; [|reflexivity].
    destruct (blocks (S (length r2)) r2 [] 0) as [[[[d bok] cok] r3]|] eqn:E3; [|reflexivity].
    apply take_until_len in E1, E2. apply blocks_len in E3. cbn [length] in H1, H2.
    f_equal. apply IH; lia.
  - rewrite !tokens_line by assumption.
    destruct (take_until 13 s []) as [[l r]|] eqn:E; [|reflexivity].
    apply take_until_len in E. f_equal. apply IH; lia.
Qed.

Lemma tokens_toks f s : (length s < f)%nat -> tokens f s = toks s.
Proof. intros H. apply tokens_fuel; [exact H|lia]. Qed.

Lemma toks_nil : toks [] = [].
Proof. reflexivity. Qed.

(* a line: no CR inside, not beginning with SOH *)
Definition line_ok (l : bytes) : Prop := ~ In 13 l /\ (forall r, l <> 1 :: r).

Lemma toks_line l r : line_ok l -> toks (l ++ 13 :: r) = Line l :: toks r.
Proof.
  intros [Hn Hs]. unfold toks at 1. rewrite tokens_line.
  - rewrite (take_until_notin 13 l r [] Hn). cbn [rev app]. f_equal. apply tokens_toks.
    rewrite app_length. cbn [length]. lia.
  - destruct l; discriminate.
  - intros hl r' E. destruct l as [|x l]; [discriminate|]. cbn [app] in E. injection E as -> _. exact (Hs l eq_refl).
Qed.

(* a stream without CR and not beginning with SOH is one piece of garbage *)
Lemma toks_garbage s : s <> [] -> (forall r, s <> 1 :: r) -> ~ In 13 s -> toks s = [Garbage s].
Proof.
  intros H1 H2 H3. unfold toks. rewrite tokens_line; [rewrite take_until_none by exact H3; reflexivity|exact H1|].
  intros hl r E. exact (H2 (hl :: r) E).
Qed.

(* ---------- the frames of a transfer ---------- *)
Lemma data_chunks_blocks : forall g d f acc sum ck rest, (length d <= g)%nat -> (length d < f)%nat ->
  blocks f (data_chunks g d ++ 4 :: ck :: rest) acc sum =
  Some (concat (rev acc) ++ d, true, ((sum + sumN d + ck) mod 256 =? 0), rest).
Proof.
  induction g as [|g IH]; intros d f acc sum ck rest Hg Hf.
  - destruct d; [|cbn in Hg; lia]. destruct f as [|f]; [lia|]. cbn [data_chunks app blocks sumN].
    rewrite rev'_rev, app_nil_r, N.add_0_r. reflexivity.
  - destruct f as [|f]; [lia|]. destruct d as [|x d].
    { cbn [data_chunks app blocks sumN]. rewrite rev'_rev, app_nil_r, N.add_0_r. reflexivity. }
    cbn [data_chunks]. set (D := x :: d) in *.
    set (n := Nat.min (length D) (N.to_nat MaxMsgLength)).
    assert (Hn1 : (1 <= n)%nat) by (unfold n, D, MaxMsgLength; cbn [length]; lia).
    assert (Hn2 : (n <= 125)%nat) by (unfold n, MaxMsgLength; lia).
    assert (Hn3 : (n <= length D)%nat) by (unfold n; lia).
    change (CHRSTX :: N.of_nat n :: firstn n D ++ data_chunks g (skipn n D)) with
           (2 :: N.of_nat n :: firstn n D ++ data_chunks g (skipn n D)).
    cbn [app blocks].
    assert (E0 : (N.of_nat n =? 0) = false) by lia. rewrite E0, Nat2N.id.
    rewrite <- app_assoc.
    rewrite (take_k_app n (firstn n D) _ []) by (apply firstn_length_le; exact Hn3).
    cbn [rev app].
    assert (Hsk : length (skipn n D) = (length D - n)%nat) by apply skipn_length.
    rewrite IH by lia.
    cbn [rev]. rewrite concat_app. cbn [concat]. rewrite app_nil_r, <- app_assoc.
    rewrite (firstn_skipn n D).
    f_equal. f_equal.
    assert (Es : sumN D = sumN (firstn n D) + sumN (skipn n D)).
    { rewrite <- (firstn_skipn n D) at 1. generalize (firstn n D) as a. intros a.
      induction a as [|y a IHa]; [reflexivity|]. cbn [app sumN]. rewrite IHa. lia. }
    rewrite Es.
    rewrite <- (N.add_mod_idemp_l ((sum + sumN (firstn n D)) mod 256 + sumN (skipn n D)) ck 256) by discriminate.
    rewrite (N.add_mod_idemp_l (sum + sumN (firstn n D)) (sumN (skipn n D)) 256) by discriminate.
    rewrite (N.add_mod_idemp_l) by discriminate.
    f_equal. f_equal. lia.
Qed.

Lemma data_chunks_length : forall g d, (length d <= g)%nat -> (length d <= length (data_chunks g d))%nat.
Proof.
  induction g as [|g IH]; intros d H; [destruct d; [cbn; lia|cbn in H; lia]|].
  destruct d as [|x d]; [cbn; lia|]. cbn [data_chunks]. set (D := x :: d) in *.
  set (n := Nat.min (length D) (N.to_nat MaxMsgLength)).
  assert (Hn1 : (1 <= n)%nat) by (unfold n, D, MaxMsgLength; cbn [length]; lia).
  assert (Hn3 : (n <= length D)%nat) by (unfold n; lia).
  cbn [length]. rewrite app_length, firstn_length_le by exact Hn3.
  assert (Hsk : length (skipn n D) = (length D - n)%nat) by apply skipn_length.
  specialize (IH (skipn n D) ltac:(lia)). lia.
Qed.

Lemma eot_checksum d : ((0 + sumN d + (256 - sumN d mod 256) mod 256) mod 256 =? 0) = true.
Proof.
  apply N.eqb_eq. rewrite N.add_0_l.
  rewrite <- (N.add_mod_idemp_l (sumN d)) by discriminate.
  pose proof (N.mod_upper_bound (sumN d) 256 ltac:(discriminate)) as Hm.
  set (m := sumN d mod 256) in *. clearbody m.
  destruct (N.eq_dec m 0) as [->|E]; [reflexivity|].
  rewrite (N.mod_small (256 - m)) by lia. replace (m + (256 - m)) with 256 by lia. reflexivity.
Qed.

(* what write_compressed writes at offset 0 is one well-formed transfer element *)
Lemma toks_xfer p r : ~ In 0 (firstn 80 (o_title p)) ->
  toks (xfer_bytes p ++ r) =
  Transfer (N.of_nat (length (firstn 80 (o_title p)) + 3)) (firstn 80 (o_title p)) [48] (o_cdata p) true true :: toks r.
Proof.
  intros Ht. rewrite xfer_bytes_eq. unfold toks at 1.
  change CHRSOH with 1. change CHRNUL with 0. change CHREOT with 4.
  rewrite tokens_soh.
  rewrite (take_until_notin 0 _ _ [] Ht). cbn [rev app].
  change (48 :: 0 :: ?x) with ([48] ++ 0 :: x).
  rewrite (take_until_notin 0 [48] _ []) by (intros [K|[]]; discriminate). cbn [rev app].
  rewrite data_chunks_blocks;
    [|lia|rewrite app_length; pose proof (data_chunks_length (S (length (o_cdata p))) (o_cdata p) ltac:(lia)); lia].
  cbn [rev concat app]. rewrite eot_checksum. f_equal. apply tokens_toks.
  cbn [length]. rewrite !app_length. cbn [length]. rewrite !app_length. cbn [length]. lia.
Qed.

(* ================================================================================== *)
(* 2. Element-level conformance                                                        *)
(* ================================================================================== *)
(* ---------- the proposal line ---------- *)
Definition gprop_of (p : oprop) : prop :=
  {| g_mid := o_mid p; g_usize := o_size p; g_csize := N.of_nat (length (o_cdata p)) |}.

(* the MID alphabet of the grammar: 1 to 12 letters or digits *)
Definition mid_conf (m : bytes) : Prop := m <> [] /\ (length m <= 12)%nat /\ forallb is_alnum m = true.

Lemma alnum_notin c m : forallb is_alnum m = true -> is_alnum c = false -> ~ In c m.
Proof. intros H Hc Hi. rewrite forallb_forall in H. rewrite (H c Hi) in Hc. discriminate. Qed.

Lemma all_digits_nonnil s : all_digits s = true -> s <> [].
Proof. destruct s; [discriminate|discriminate]. Qed.

Theorem proposal_line_parses p :
  mid_conf (o_mid p) -> o_size p < 10 ^ 41 -> N.of_nat (length (o_cdata p)) < 10 ^ 41 ->
  parse_prop (proposal_line p) = Some (gprop_of p).
Proof.
  intros (Hm1&Hm2&Hm3) Hs Hc. unfold parse_prop. rewrite proposal_line_eq.
  change (70 :: 67 :: 32 :: 69 :: 77 :: 32 :: ?x) with ([70; 67] ++ 32 :: [69; 77] ++ 32 :: x).
  rewrite (split_on_app 32 [70; 67]) by (intros [K|[K|[]]]; discriminate).
  rewrite (split_on_app 32 [69; 77]) by (intros [K|[K|[]]]; discriminate).
  rewrite (split_on_app 32 (o_mid p)) by (apply alnum_notin; [exact Hm3|reflexivity]).
  rewrite (split_on_app 32 (dec_of_N (o_size p))) by (apply dec_notin; reflexivity).
  change [32; 48] with (32 :: [48]).
  rewrite (split_on_app 32 (dec_of_N (N.of_nat (length (o_cdata p))))) by (apply dec_notin; reflexivity).
  rewrite (split_on_notin 32 [48]) by (intros [K|[]]; discriminate).
  change (beq_bytes [70; 67] [70; 67]) with true. change (beq_bytes [69; 77] [69; 77]) with true.
  cbn [orb andb].
  rewrite (beq_bytes_neq _ _ Hm1). cbn [negb andb].
  assert (E2 : (length (o_mid p) <=? 12)%nat = true) by (apply Nat.leb_le; exact Hm2). rewrite E2, Hm3, !dec_all_digits.
  cbn [andb]. change (all_digits [48]) with true. cbv iota.
  rewrite !dec_roundtrip by assumption. reflexivity.
Qed.

Lemma alnum_ascii m : forallb is_alnum m = true -> ascii_line m.
Proof.
  intros H. apply Forall_forall. intros b Hb. rewrite forallb_forall in H. specialize (H b Hb).
  unfold is_alnum, is_digit, is_upper, is_lower in H. lia.
Qed.
Lemma digits_ascii s : forallb is_digit s = true -> ascii_line s.
Proof.
  intros H. apply Forall_forall. intros b Hb. rewrite forallb_forall in H. specialize (H b Hb).
  unfold is_digit in H. lia.
Qed.
Lemma dec_ascii n : ascii_line (dec_of_N n).
Proof. apply digits_ascii. unfold dec_of_N. apply digitsk_all_digits. Qed.

Lemma proposal_line_ascii p : forallb is_alnum (o_mid p) = true -> ascii_line (proposal_line p).
Proof.
  intros H. rewrite proposal_line_eq. unfold ascii_line.
  repeat (apply Forall_cons; [lia|]).
  apply Forall_app. split; [apply alnum_ascii, H|]. apply Forall_cons; [lia|].
  apply Forall_app. split; [apply dec_ascii|]. apply Forall_cons; [lia|].
  apply Forall_app. split; [apply dec_ascii|]. repeat (apply Forall_cons; [lia|]). constructor.
Qed.

Lemma proposal_line_ok p : mid_ok (o_mid p) -> line_ok (proposal_line p).
Proof.
  intros H. destruct (proposal_line_fline p H) as [Hn _]. split; [exact Hn|].
  intros r. rewrite proposal_line_eq. discriminate.
Qed.

Lemma mid_conf_ok m : mid_conf m -> mid_ok m.
Proof. intros (_&_&H). split; apply alnum_notin; try exact H; reflexivity. Qed.

(* ---------- the transfer ---------- *)
Definition xfer_elem (p : oprop) : elem :=
  Transfer (N.of_nat (length (firstn 80 (o_title p)) + 3)) (firstn 80 (o_title p)) [48] (o_cdata p) true true.

(* the size announced is the size of the message that the reference decoder finds inside *)
Definition size_conf (p : oprop) : Prop :=
  exists x, Canon.decode true (o_cdata p) = Some x /\ N.of_nat (length x) = o_size p.

Lemma decode_size s x : Canon.decode true s = Some x -> N.of_nat (length x) < 2147483648.
Proof.
  unfold Canon.decode. destruct (length s <? 6)%nat; [discriminate|]. cbv zeta.
  destruct (2147483648 <=? le_to_N (firstn 4 (skipn 2 s))) eqn:E; [discriminate|].
  match goal with |- (if ?c then _ else _) = _ -> _ => destruct c end; [discriminate|].
  match goal with |- (if ?c then _ else _) = _ -> _ => destruct c eqn:E2 end; [|discriminate].
  intros H. apply N.eqb_eq in E2. apply N.leb_gt in E.
  match type of E2 with N.of_nat (length ?b) = _ => assert (Hx : b = x) by congruence end.
  rewrite <- Hx, E2. exact E.
Qed.

Theorem transfer_valid p :
  o_title p <> [] -> size_conf p ->
  valid_transfer (xfer_elem p) (gprop_of p) 0 = true.
Proof.
  intros Ht (x&Hd&Hx). unfold valid_transfer, xfer_elem. cbn [g_csize g_usize gprop_of].
  rewrite Hd, Hx, N.add_0_r, !N.eqb_refl. change (dec_value [48] 0 =? 0) with true. change (all_digits [48]) with true.
  pose proof (firstn_le_length 80 (o_title p)) as H1.
  assert (H2 : (1 <= length (firstn 80 (o_title p)))%nat).
  { destruct (o_title p); [congruence|]. cbn [firstn length]. lia. }
  assert (H3 : (length (firstn 80 (o_title p)) <= 80)%nat) by (rewrite firstn_length; lia).
  cbn [length andb]. rewrite Nat2N.id.
  assert (E1 : (length (firstn 80 (o_title p)) + 3 =? length (firstn 80 (o_title p)) + 1 + 2)%nat = true) by (apply Nat.eqb_eq; lia).
  assert (E2 : (1 <=? length (firstn 80 (o_title p)))%nat = true) by (apply Nat.leb_le; exact H2).
  assert (E3 : (length (firstn 80 (o_title p)) <=? 80)%nat = true) by (apply Nat.leb_le; exact H3).
  rewrite E1, E2, E3. reflexivity.
Qed.

(* ---------- the greeting ---------- *)
(* name and version of the SID: non-empty, without the separator '-' *)
Definition sid_conf (h : hs_cfg) : Prop :=
  hs_name h <> [] /\ hs_version h <> [] /\ ~ In 45 (hs_name h) /\ ~ In 45 (hs_version h).

Theorem sid_line_valid h : sid_conf h -> valid_sid (line2 h) = true.
Proof.
  intros (H1&H2&H3&H4). unfold valid_sid, line2.
  set (X := if hs_gzip h then [66; 50; 70; 72; 77; 71] else [66; 50; 70; 72; 77]).
  assert (EX : sid_of h = X ++ [36]) by (unfold sid_of, X; destruct (hs_gzip h); reflexivity).
  rewrite EX.
  assert (Er : rev' ((hs_name h ++ 45 :: hs_version h) ++ 45 :: (X ++ [36]) ++ [93]) =
               93 :: 36 :: rev (hs_name h ++ 45 :: hs_version h ++ 45 :: X)).
  { rewrite rev'_rev. replace ((hs_name h ++ 45 :: hs_version h) ++ 45 :: (X ++ [36]) ++ [93])
      with ((hs_name h ++ 45 :: hs_version h ++ 45 :: X) ++ [36; 93]).
    - rewrite rev_app_distr. reflexivity.
    - rewrite <- !app_assoc. cbn [app]. rewrite <- !app_assoc. reflexivity. }
  rewrite Er, rev'_rev, rev_involutive.
  rewrite (split_on_app 45 (hs_name h)) by exact H3.
  rewrite (split_on_app 45 (hs_version h)) by exact H4.
  rewrite (split_on_notin 45 X) by (unfold X; destruct (hs_gzip h); cbn [In]; intuition discriminate).
  rewrite (beq_bytes_neq _ _ H1), (beq_bytes_neq _ _ H2). cbn [negb andb].
  unfold X. destruct (hs_gzip h); reflexivity.
Qed.

(* a forwarding address: non-empty printable text without '|' (which separates the secure-login
   response) and without '>' (with which the greeting of the master ends) *)
Definition fw_conf (fw : list bytes) : Prop :=
  fw <> [] /\ Forall (fun a => a <> [] /\ text_ok a /\ ~ In 124 a /\ ~ In 62 a) fw.

Lemma text_notin c a : text_ok a -> c < 33 -> ~ In c a.
Proof. intros H Hc Hi. unfold text_ok in H. rewrite Forall_forall in H. specialize (H c Hi). lia. Qed.

Lemma split_fw_text : forall rest a, ~ In 32 a -> Forall (fun a => ~ In 32 a) rest ->
  split_on 32 (a ++ fw_text rest) = a :: rest.
Proof.
  induction rest as [|b rest IH]; intros a Ha Hr.
  - unfold fw_text. cbn [map concat]. rewrite app_nil_r. apply split_on_notin, Ha.
  - inversion Hr as [|? ? Hb Hr']; subst.
    change (fw_text (b :: rest)) with (32 :: b ++ fw_text rest).
    rewrite (split_on_app 32 a) by exact Ha. rewrite IH by assumption. reflexivity.
Qed.

Theorem fw_line_valid h : fw_conf (hs_fw h) -> valid_fw (line1 h) = true.
Proof.
  intros [Hne Hf]. unfold line1. destruct (hs_fw h) as [|a rest]; [congruence|].
  change (fw_text (a :: rest)) with (32 :: a ++ fw_text rest). unfold valid_fw.
  inversion Hf as [|? ? (Ha1&Ha2&Ha3&Ha4) Hf']; subst.
  rewrite split_fw_text.
  - apply forallb_forall. intros x Hx.
    assert (Hx' : x <> [] /\ text_ok x /\ ~ In 124 x /\ ~ In 62 x) by (apply (proj1 (Forall_forall _ _) Hf), Hx).
    destruct Hx' as (X1&X2&X3&X4). rewrite (split_on_notin 124 x X3), (beq_bytes_neq _ _ X1). reflexivity.
  - apply text_notin; [exact Ha2|reflexivity].
  - eapply Forall_impl; [|exact Hf']. intros x (_&X2&_). apply text_notin; [exact X2|reflexivity].
Qed.

(* ================================================================================== *)
(* 3. The validator's state seen from the station whose turn it is                     *)
(* ================================================================================== *)
Definition mkst (who : bool) (mine theirs : list elem) (a b : nat) : gst :=
  if who then {| gm := mine; gs := theirs; nm := a; ns := b |}
  else {| gm := theirs; gs := mine; nm := b; ns := a |}.

Lemma mkst_swap who mine theirs a b : mkst (negb who) theirs mine b a = mkst who mine theirs a b.
Proof. destruct who; reflexivity. Qed.
Lemma pop_mine who e mine theirs a b :
  pop (mkst who (e :: mine) theirs a b) who = Some (e, mkst who mine theirs (S a) b).
Proof. destruct who; reflexivity. Qed.
Lemma pop_theirs who e mine theirs a b :
  pop (mkst who mine (e :: theirs) a b) (negb who) = Some (e, mkst who mine theirs a (S b)).
Proof. destruct who; reflexivity. Qed.
Lemma mkst_len who mine theirs a b :
  (length (gm (mkst who mine theirs a b)) + length (gs (mkst who mine theirs a b)) = length mine + length theirs)%nat.
Proof. destruct who; cbn [mkst gm gs]; lia. Qed.

Lemma next_cmd_mine who l mine theirs a b f : is_comment l = false ->
  next_cmd (S f) (mkst who (Line l :: mine) theirs a b) who = inl (Some (l, mkst who mine theirs (S a) b)).
Proof. intros H. cbn [next_cmd]. rewrite pop_mine, H. reflexivity. Qed.
Lemma next_cmd_theirs who l mine theirs a b f : is_comment l = false ->
  next_cmd (S f) (mkst who mine (Line l :: theirs) a b) (negb who) = inl (Some (l, mkst who mine theirs a (S b))).
Proof. intros H. cbn [next_cmd]. rewrite pop_theirs, H. reflexivity. Qed.

(* the dispatch of read_block on the prompt *)
Lemma match_70_62 {T} (l : bytes) (A B : T) :
  match l with 70 :: 62 :: _ => A | _ => B end = if prefixb [70; 62] l then A else B.
Proof.
  destruct l as [|x l]; [reflexivity|].
  destruct x as [|p]; [reflexivity|].
  do 7 (destruct p as [p|p|]; try reflexivity).
  destruct l as [|y l]; [reflexivity|].
  destruct y as [|p]; [reflexivity|].
  do 6 (destruct p as [p|p|]; try reflexivity).
Qed.

Lemma read_block_S f st who first acc props :
  read_block (S f) st who first acc props =
  match parse_prop first with
  | None => inr (VBad who 5 (pos st who))
  | Some p =>
      if (5 <? length (props ++ [p]))%nat then inr (VBad who 6 (pos st who))
      else
        match next_cmd (S (length (gm st) + length (gs st))) st who with
        | inr v => inr v
        | inl None => inr (VBad who 7 (pos st who))
        | inl (Some (l, st')) =>
            if prefixb [70; 62] l then
              (if valid_prompt l (acc ++ [first]) then inl (props ++ [p], st') else inr (VBad who 8 (pos st who)))
            else read_block f st' who l (acc ++ [first]) (props ++ [p])
        end
  end.
Proof.
  cbn [read_block]. destruct (parse_prop first) as [p|]; [|reflexivity].
  destruct (5 <? length (props ++ [p]))%nat; [reflexivity|].
  destruct (next_cmd (S (length (gm st) + length (gs st))) st who) as [[[l st']|]|v]; try reflexivity.
  apply match_70_62.
Qed.

(* ---------- a block of proposals ---------- *)
(* a prepared proposal as the grammar wants it *)
Definition blk_conf (p : oprop) : Prop :=
  mid_conf (o_mid p) /\ size_conf p /\ o_title p <> [] /\ ~ In 0 (firstn 80 (o_title p)) /\
  N.of_nat (length (o_cdata p)) < 10 ^ 41.

Lemma blk_conf_size p : blk_conf p -> o_size p < 10 ^ 41.
Proof.
  intros (_&(x&Hd&Hx)&_). rewrite <- Hx. pose proof (decode_size _ _ Hd) as H.
  eapply N.lt_trans; [exact H|reflexivity].
Qed.
Lemma blk_conf_parses p : blk_conf p -> parse_prop (proposal_line p) = Some (gprop_of p).
Proof.
  intros H. pose proof (blk_conf_size p H) as Hs. destruct H as (Hm&_&_&_&Hc).
  apply proposal_line_parses; assumption.
Qed.
Lemma proposal_line_cmd p : is_comment (proposal_line p) = false /\ prefixb [70; 62] (proposal_line p) = false /\
  beq_bytes (proposal_line p) [70; 70] = false /\ beq_bytes (proposal_line p) [70; 81] = false.
Proof. rewrite proposal_line_eq. repeat split. Qed.

Lemma read_block_lines who theirs pl rest : forall todo p acc props a b f,
  Forall blk_conf (p :: todo) -> (length props + length (p :: todo) <= 5)%nat -> (length todo < f)%nat ->
  prefixb [70; 62] pl = true -> valid_prompt pl (acc ++ map proposal_line (p :: todo)) = true ->
  read_block f (mkst who (map Line (map proposal_line todo) ++ Line pl :: rest) theirs a b) who (proposal_line p) acc props =
  inl (props ++ map gprop_of (p :: todo), mkst who rest theirs (a + S (length todo)) b).
Proof.
  induction todo as [|q todo IH]; intros p acc props a b f Hc Hl Hf Hp Hv; (destruct f as [|f]; [lia|]);
    rewrite read_block_S; inversion Hc as [|? ? Hcp Hc']; subst; rewrite (blk_conf_parses p Hcp).
  - assert (E5 : (5 <? length (props ++ [gprop_of p]))%nat = false) by (rewrite app_length; cbn [length] in *; apply Nat.ltb_ge; lia).
    rewrite E5. cbn [map app].
    assert (Hcm : is_comment pl = false) 
      by (destruct pl as [|x pl]; [discriminate|]; cbn [prefixb] in Hp; apply andb_true_iff in Hp; destruct Hp as [Hx _];
          apply N.eqb_eq in Hx; subst x; reflexivity).
    rewrite next_cmd_mine by exact Hcm. rewrite Hp. cbn [map] in Hv. rewrite Hv.
    cbn [length]. replace (a + 1)%nat with (S a) by lia. reflexivity.
  - assert (E5 : (5 <? length (props ++ [gprop_of p]))%nat = false) by (rewrite app_length; cbn [length] in *; apply Nat.ltb_ge; lia).
    rewrite E5. cbn [map app].
    destruct (proposal_line_cmd q) as (Q1&Q2&_).
    rewrite next_cmd_mine by exact Q1. rewrite Q2.
    rewrite IH.
    + rewrite <- app_assoc. cbn [app map length]. replace (S a + S (length todo))%nat with (a + S (S (length todo)))%nat by lia. reflexivity.
    + exact Hc'.
    + rewrite app_length. cbn [length] in *. lia.
    + cbn [length] in Hf. lia.
    + exact Hp.
    + rewrite <- app_assoc. exact Hv.
Qed.

(* ---------- the transfers of a block ---------- *)
Fixpoint xfer_elems (B : list oprop) (A : list answer) : list elem :=
  match B, A with
  | p :: ps, a :: r => (match a with AAccept => [xfer_elem p] | _ => [] end) ++ xfer_elems ps r
  | _, _ => []
  end.

Lemma toks_xfers : forall B A r, Forall blk_conf B -> toks (xfers B A ++ r) = xfer_elems B A ++ toks r.
Proof.
  induction B as [|p ps IH]; intros A r Hc; [reflexivity|]. destruct A as [|a A]; [reflexivity|].
  inversion Hc as [|? ? Hp Hc']; subst. cbn [xfers xfer_elems]. destruct a; cbn [app]; try (apply IH; exact Hc').
  rewrite <- app_assoc, toks_xfer by (apply Hp). rewrite IH by exact Hc'. reflexivity.
Qed.

Lemma send_transfers_block who theirs rest : forall B A a b, length A = length B -> Forall blk_conf B ->
  exists a', send_transfers (mkst who (xfer_elems B A ++ rest) theirs a b) who (map gprop_of B) (map to_gans A) =
             inl (mkst who rest theirs a' b).
Proof.
  induction B as [|p ps IH]; intros A a b Hl Hc.
  - destruct A; [|discriminate]. exists a. reflexivity.
  - destruct A as [|x A]; [discriminate|]. cbn [length] in Hl. injection Hl as Hl.
    inversion Hc as [|? ? Hp Hc']; subst. cbn [map send_transfers xfer_elems].
    destruct x; cbn [to_gans app]; try (apply IH; assumption).
    rewrite pop_mine. destruct Hp as (_&Hs&Ht&_). rewrite (transfer_valid p Ht Hs). apply IH; assumption.
Qed.

(* ================================================================================== *)
(* 4. The shape of a session after the greetings, and its verdict                      *)
(* ================================================================================== *)
(* script Tx Ty: Tx is what the station whose turn it is will write, Ty what the other writes *)
Inductive script : bytes -> bytes -> Prop :=
| sc_fq : script [70; 81; 13] []
| sc_ff Tx Ty : script Ty Tx -> script ([70; 70; 13] ++ Tx) Ty
| sc_block B A Tx Ty : B <> [] -> (length B <= 5)%nat -> Forall blk_conf B -> length A = length B ->
    script Ty Tx -> script (proposal_bytes B ++ xfers B A ++ Tx) (fs_line A ++ Ty).

Lemma toks_lines : forall ls R, Forall line_ok ls -> toks (concat (map (fun l => l ++ [13]) ls) ++ R) = map Line ls ++ toks R.
Proof.
  induction ls as [|l ls IH]; intros R H; [reflexivity|]. inversion H; subst.
  cbn [map concat]. rewrite <- !app_assoc. cbn [app]. rewrite toks_line by assumption. rewrite IH by assumption. reflexivity.
Qed.

Lemma block_checksum_lt lines : block_checksum lines < 256.
Proof. unfold block_checksum. cbv zeta. apply N.mod_upper_bound. discriminate. Qed.

Lemma ck_line_ok' n : n < 256 -> line_ok (ck_line n).
Proof. intros H. destruct (ck_line_facts n H) as (_&Hn&_). split; [exact Hn|]. intros r. discriminate. Qed.

Lemma toks_proposal_bytes B R : Forall blk_conf B ->
  toks (proposal_bytes B ++ R) =
  map Line (map proposal_line B) ++ Line (ck_line (block_checksum (map proposal_line B))) :: toks R.
Proof.
  intros Hc. unfold proposal_bytes. cbv zeta. rewrite <- app_assoc, toks_lines.
  - f_equal. change ([70; 62; 32] ++ fmt_02X ?n ++ [13]) with (ck_line n ++ [13]).
    rewrite <- app_assoc. cbn [app]. apply toks_line, ck_line_ok', block_checksum_lt.
  - apply Forall_forall. intros l Hl. apply in_map_iff in Hl. destruct Hl as (p&<-&Hp).
    apply proposal_line_ok, mid_conf_ok. apply (proj1 (Forall_forall _ _) Hc p Hp).
Qed.

Lemma fs_line_ok A : line_ok ([70; 83; 32] ++ map answer_byte A).
Proof.
  split; [|intros r; discriminate]. cbn [app In]. intros [K|[K|[K|K]]]; try discriminate.
  apply in_map_iff in K. destruct K as (a&E&_). destruct a; discriminate.
Qed.

Theorem turns_script Tx Ty : script Tx Ty -> forall who f a b,
  (length (toks Tx) + length (toks Ty) < f)%nat ->
  Grammar.turns f (mkst who (toks Tx) (toks Ty) a b) who = VOk.
Proof.
  induction 1 as [|Tx Ty Hs IH|B A Tx Ty Hne Hl5 Hc Hl Hs IH]; intros who f a b Hf; (destruct f as [|f]; [lia|]).
  - (* FQ *)
    change (toks [70; 81; 13]) with [Line [70; 81]]. rewrite toks_nil. cbn [Grammar.turns].
    rewrite next_cmd_mine by reflexivity. change (beq_bytes [70; 81] [70; 70]) with false.
    change (beq_bytes [70; 81] [70; 81]) with true. cbv iota. destruct who; reflexivity.
  - (* FF *)
    change ([70; 70; 13] ++ Tx) with ([70; 70] ++ 13 :: Tx) in *.
    rewrite toks_line in * by (split; [cbn [In]; intuition discriminate|intros r; discriminate]).
    cbn [Grammar.turns]. rewrite next_cmd_mine by reflexivity.
    change (beq_bytes [70; 70] [70; 70]) with true. cbv iota.
    rewrite <- mkst_swap. apply IH. cbn [length] in Hf. lia.
  - (* a block *)
    destruct B as [|p ps]; [congruence|].
    set (B := p :: ps) in *. set (lines := map proposal_line B).
    rewrite toks_proposal_bytes in * by exact Hc. fold lines in Hf |- *.
    rewrite toks_xfers in * by exact Hc.
    unfold fs_line in *. replace ([70; 83; 32] ++ map answer_byte A ++ [13]) with (([70; 83; 32] ++ map answer_byte A) ++ [13]) in * by (rewrite <- app_assoc; reflexivity).
    rewrite <- (app_assoc _ [13] Ty) in *. cbn [app] in Hf |- *.
    change (70 :: 83 :: 32 :: map answer_byte A ++ 13 :: Ty) with (([70; 83; 32] ++ map answer_byte A) ++ 13 :: Ty) in *.
    rewrite (toks_line _ Ty (fs_line_ok A)) in *.
    assert (El : map Line lines = Line (proposal_line p) :: map Line (map proposal_line ps)) by reflexivity.
    rewrite El. cbn [Grammar.turns app].
    destruct (proposal_line_cmd p) as (P1&P2&P3&P4).
    rewrite next_cmd_mine by exact P1. rewrite P3, P4.
    assert (Hv : valid_prompt (ck_line (block_checksum lines)) ([] ++ map proposal_line (p :: ps)) = true).
    { cbn [app]. change (map proposal_line (p :: ps)) with lines. unfold ck_line. apply prompt_valid.
      apply Forall_forall. intros l Hin. apply in_map_iff in Hin. destruct Hin as (q&<-&Hq).
      apply proposal_line_ascii. apply (proj1 (Forall_forall _ _) Hc q Hq). }
    assert (Hl5a : (length (@nil prop) + length (p :: ps) <= 5)%nat) by (unfold B in Hl5; cbn [length] in Hl5 |- *; lia).
    assert (Hl5b : (length ps < 6)%nat) by (unfold B in Hl5; cbn [length] in Hl5; lia).
    rewrite (read_block_lines who _ (ck_line (block_checksum lines)) _ ps p [] [] (S a) b 6 Hc Hl5a Hl5b eq_refl Hv).
    cbn [app].
    rewrite next_cmd_theirs by reflexivity.
    change (70 :: 83 :: 32 :: map answer_byte A) with ([70; 83; 32] ++ map answer_byte A).
    rewrite answer_line_valid, !map_length, Hl.
    fold B. rewrite Nat.eqb_refl. cbn [negb]. cbv iota.
    change (gprop_of p :: map gprop_of ps) with (map gprop_of B).
    destruct (send_transfers_block who (toks Ty) (toks Tx) B A (S a + S (length ps)) (S b) Hl Hc) as [a' Ha']. rewrite Ha'.
    rewrite <- mkst_swap. apply IH.
    cbn [app length] in Hf. rewrite ?app_length in Hf. cbn [app length] in Hf. rewrite ?app_length in Hf. lia.
Qed.

(* ================================================================================== *)
(* 5. Every complete run of a ready pair has such a shape                              *)
(* ================================================================================== *)
(* as DeliverP.joint_closed (same induction, same phase lemmas), keeping the bytes instead of the
   logs: whenever, at a turn boundary, the unread input of each side is exactly what the other
   side will still write, the two remaining streams form a script *)
Lemma joint_shape : forall n hx hy (qx : bool),
  (2 * (length (pendh hx) + length (pendh hy)) + (if qx then 0 else 1) < n)%nat ->
  okdir hx hy -> okdir hy hx -> (qx = true -> pendh hy = []) ->
  Forall blk_conf (h_outbox hx) -> Forall blk_conf (h_outbox hy) ->
  forall sx sy, s_h sx = hx -> s_h sy = hy -> s_remote_nomsgs sx = qx ->
    tailw true sx = s_in sy -> tailw false sy = s_in sx ->
    script (tailw true sx) (tailw false sy).
Proof.
  induction n as [|n IH]; intros hx hy qx Hn Oxy Oyx Hq Cfx Cfy sx sy Hx Hy Qx C1 C2; [lia|].
  pose proof Oxy as (Px&Lx&Wx&Nx&Fx). pose proof Oyx as (Py&Ly&Wy&Ny&Fy).
  destruct (sort_props (pendh hx)) as [|p ps] eqn:Es.
  - (* nothing to propose *)
    apply sort_props_nil in Es. destruct qx.
    + (* FQ *)
      specialize (Hq eq_refl).
      assert (Hho : handle_outbound sx = ROk (true, wr (ev sx EvGetOutbound) [70; 81; 13])).
      { rewrite send_none by (rewrite Hx; assumption). rewrite Qx. reflexivity. }
      assert (Ht : tailw true sx = [70; 81; 13]).
      { apply tailw_intro. rewrite (final_send_quit _ _ Hho), wire_wr. reflexivity. }
      assert (Hil : inbound_loop (S (length (s_in sy))) sy [] [] = ROk (true, [], set_in sy [])).
      { apply inbound_fq; [rewrite <- C1, Ht; reflexivity|lia]. }
      assert (Hty : tailw false sy = []).
      { apply tailw_intro. rewrite (final_recv_quit _ _ _ _ Hil eq_refl), app_nil_r. reflexivity. }
      rewrite Ht, Hty. constructor.
    + (* FF, then the peer's turn *)
      assert (Hho : handle_outbound sx = ROk (false, wr (ev sx EvGetOutbound) [70; 70; 13])).
      { rewrite send_none by (rewrite Hx; assumption). rewrite Qx. reflexivity. }
      set (sx1 := wr (ev sx EvGetOutbound) [70; 70; 13]) in *.
      assert (Ht : tailw true sx = [70; 70; 13] ++ tailw false sx1).
      { apply tailw_intro. rewrite (final_send_ok _ _ Hho), tailw_eq. unfold sx1. rewrite wire_wr, <- app_assoc. reflexivity. }
      assert (Hil : inbound_loop (S (length (s_in sy))) sy [] [] =
                    ROk (false, [], set_nomsgs (set_in sy (tailw false sx1)) true)).
      { apply inbound_ff; [rewrite <- C1, Ht; reflexivity|lia]. }
      set (sy1 := set_nomsgs (set_in sy (tailw false sx1)) true) in *.
      assert (Hty : tailw false sy = tailw true sy1).
      { apply tailw_intro. rewrite (final_recv_ok _ _ _ _ Hil eq_refl), tailw_eq. reflexivity. }
      rewrite Ht, Hty. apply sc_ff.
      apply (IH hy hx true) with (sx := sy1) (sy := sx1); try assumption; try reflexivity.
      { rewrite Es in *. cbn [length] in *. lia. }
      { intros _. exact Es. }
      { change (s_in sx1) with (s_in sx). rewrite <- C2. symmetry. exact Hty. }
  - (* a block of proposals *)
    destruct (block_facts hx p ps Lx Wx Nx Es) as (Bne&HpB&HB&NdB&LB&WB&_). cbv zeta in *.
    set (B := firstn (N.to_nat MaxBlockSize) (p :: ps)) in *.
    set (A := map (fun q => policy_of hy (o_mid q)) B).
    assert (Hl : length A = length B) by (unfold A; apply map_length).
    set (G := rev (sel AAccept B A) ++ rev (sel AReject B A) ++ rev (sel ADefer B A)).
    set (hx' := with_gone hx (G ++ h_gone hx)).
    assert (HG : forall m, In m (G ++ h_gone hx) <-> In m (map o_mid B) \/ In m (h_gone hx)).
    { intros m. unfold G. rewrite <- !app_assoc. apply gone_after, Hl. }
    assert (Hlt : (length (pendh hx') < length (pendh hx))%nat).
    { destruct (HB p HpB) as [Hp1 Hp2]. apply (pend_after hx G p); try assumption. apply HG. left. apply in_map, HpB. }
    assert (Hsyn : Forall prop_syn B) by (eapply Forall_impl; [|exact LB]; intros q [Hq' _]; exact Hq').
    assert (Hprx : h_present (s_h sx) = true) by (rewrite Hx; exact Px).
    assert (Hsx0 : sort_props (pendh (s_h sx)) = p :: ps) by (rewrite Hx; exact Es).
    assert (HcB : Forall blk_conf B).
    { apply Forall_forall. intros q Hq'. apply (proj1 (Forall_forall _ _) Cfx), HB, Hq'. }
    assert (Hl5 : (length B <= 5)%nat) by (unfold B; change (N.to_nat MaxBlockSize) with 5%nat; apply firstn_le_length).
    (* (1) the block is on its way *)
    pose proof (outbound_present sx Hprx) as Eo. rewrite Hsx0 in Eo.
    destruct (send_start _ _ _ _ Eo) as (_&_&_&W2&_&_&_). pose proof (send_grows _ _ _ _ Eo) as G2. cbv zeta in W2, G2.
    fold B in W2, G2. destruct (grows_wire _ _ G2) as [T2 HT2].
    assert (Ht : tailw true sx = proposal_bytes B ++ T2).
    { apply tailw_intro. rewrite HT2, W2, <- app_assoc. reflexivity. }
    (* (2) the receiver answers *)
    destruct (recv_block_fwd sy B T2) as (sy1&E1&Hil&Isy1&Wsy1&_&_&_&_); try assumption.
    { rewrite Hy. exact Py. } { rewrite <- C1. exact Ht. }
    rewrite Hy in Hil, Wsy1. fold A in Hil, Wsy1.
    destruct (recv_tail _ _ _ Hil) as (T3&HT3&_).
    assert (Hty : tailw false sy = fs_line A ++ T3).
    { apply tailw_intro. rewrite HT3, Wsy1, <- app_assoc. reflexivity. }
    (* (3) the sender reads the answer and transfers *)
    destruct (send_upto sx p ps A T3 Hprx Hsx0 Hsyn Hl) as (s4&Hho&W4&I4&V4&H4&N4).
    { rewrite <- C2. exact Hty. }
    fold B in Hho, W4, V4, H4.
    destruct (grows_wire _ _ (final_after_peek _ _ _ Hho)) as [T4 HT4].
    assert (E24 : T2 = xfers B A ++ T4).
    { rewrite HT2, W2, W4, <- !app_assoc in HT4. apply app_inv_head in HT4. apply app_inv_head in HT4. exact HT4. }
    (* (4) the receiver takes the transfers *)
    destruct (recv_fwd sy B T4) as (sy1'&sy2&Ey&Hil'&Hrc&Isy&Wsy&Hsy&Qsy&Vsy&Cy&Iny); try assumption.
    { rewrite Hy. exact Py. }
    { intros q Hq'. rewrite Hy. apply Fx, HB, Hq'. }
    { rewrite Hy. fold A. rewrite <- C1, Ht, E24. reflexivity. }
    rewrite Hy in Hil', Hrc, Wsy, Cy, Iny. fold A in Hil', Hrc, Wsy, Cy, Iny.
    rewrite Hil in Hil'. injection Hil' as <-.
    assert (E3 : T3 = tailw true sy2).
    { rewrite (final_recv_ok _ _ _ _ Hil Hrc), tailw_eq, Wsy, Wsy1 in HT3. apply app_inv_head in HT3. symmetry. exact HT3. }
    destruct (tailw_send_F sy2) as [rF HF].
    (* (5) the peek *)
    destruct (peek_fwd sx B A s4 rF W4) as (sx'&Ex&Hpk&Wsx&Isx&Vsx&Cx&Inx&Hsx&Qsx); try assumption.
    { rewrite I4, E3. exact HF. }
    rewrite Hpk in Hho.
    assert (Hsx' : s_h sx' = hx') by (rewrite Hsx, Hx; unfold hx', G; rewrite <- !app_assoc; reflexivity).
    assert (E4 : tailw false sx' = T4).
    { apply tailw_intro. rewrite <- (final_send_ok _ _ Hho), HT4, Wsx, W4. reflexivity. }
    rewrite Ht, E24, Hty, E3, <- E4.
    apply sc_block; try assumption.
    apply (IH hy hx' false) with (sx := sy2) (sy := sx').
    { destruct qx; lia. }
    { eapply okdir_hsame; [apply hsame_refl|apply hsame_with_gone|exact Oyx]. }
    { eapply okdir_hsame; [apply hsame_with_gone|apply hsame_refl|exact Oxy]. }
    { discriminate. }
    { exact Cfy. } { exact Cfx. }
    { congruence. } { exact Hsx'. } { exact Qsy. }
    { rewrite Isx, <- HF. reflexivity. }
    { rewrite Isy. exact E4. }
Qed.

(* ================================================================================== *)
(* 6. The greetings                                                                    *)
(* ================================================================================== *)
Lemma pr_line_ok l x m : l = x :: m -> x <> 1 -> Forall pr l -> line_ok l.
Proof. intros -> Hx Hp. split; [apply (pr_notin 13 _ eq_refl Hp)|]. intros r E. injection E as E _. contradiction. Qed.

Lemma hello_toks h X : hs_cfg_ok h ->
  toks (hello h ++ X) = Line (line1 h) :: Line (line2 h) :: Line (line3 h) :: toks X.
Proof.
  intros H. unfold hello. rewrite <- app_assoc. cbn [app]. rewrite <- app_assoc. cbn [app]. rewrite <- app_assoc. cbn [app].
  rewrite toks_line by (eapply pr_line_ok; [reflexivity|discriminate|apply line1_pr, H]).
  rewrite toks_line by (eapply pr_line_ok; [reflexivity|discriminate|apply line2_pr, H]).
  rewrite toks_line by (eapply pr_line_ok; [reflexivity|discriminate|apply line3_pr, H]).
  reflexivity.
Qed.

Lemma fw_last_conf fw : fw_conf fw -> exists y, y <> 62 /\ ends_with y (fw_text fw).
Proof.
  intros [Hne H]. destruct (exists_last Hne) as [fw' [a ->]].
  apply Forall_app in H. destruct H as [_ H]. inversion H as [|? ? (Ha&_&_&H62) _]; subst.
  destruct (exists_last Ha) as [a' [y ->]].
  exists y. split; [intros ->; apply H62, in_or_app; right; left; reflexivity|].
  unfold fw_text. rewrite map_app, concat_app. apply ends_with_app. cbn [map concat].
  rewrite app_nil_r. apply ends_with_cons, ends_with_app, ends_with_one.
Qed.

Lemma line2_ends h : ends_with 93 (line2 h).
Proof. unfold line2. apply ends_with_cons, ends_with_app, ends_with_cons, ends_with_app, ends_with_one. Qed.

(* what the grammar asks of the configuration of a greeting *)
Definition hs_conf (h : hs_cfg) : Prop := hs_cfg_ok h /\ fw_conf (hs_fw h) /\ sid_conf h.

Lemma master_hs_ok h rest gsv f : hs_conf h -> hs_master h = true ->
  master_handshake (S (S (S f))) {| gm := Line (line1 h) :: Line (line2 h) :: Line (line3 h) :: rest; gs := gsv; nm := 0; ns := 0 |} 0 =
  inl {| gm := rest; gs := gsv; nm := 3; ns := 0 |}.
Proof.
  intros (Hok&Hfw&Hsid) Hm.
  destruct (fw_last_conf _ Hfw) as (y&Hy&Ey).
  assert (A1 : prefixb [91] (line1 h) = false) by reflexivity.
  assert (A2 : prefixb [59; 70; 87] (line1 h) = true) by reflexivity.
  assert (A3 : suffixb [62] (line1 h) = false).
  { rewrite (suffixb_one 62 y); [apply N.eqb_neq; congruence|]. unfold line1. do 4 apply ends_with_cons. exact Ey. }
  assert (B1 : prefixb [91] (line2 h) = true) by reflexivity.
  assert (B2 : suffixb [93] (line2 h) = true) by (rewrite (suffixb_one 93 93 _ (line2_ends h)); reflexivity).
  assert (B3 : prefixb [59; 70; 87] (line2 h) = false) by reflexivity.
  assert (B4 : suffixb [62] (line2 h) = false) by (rewrite (suffixb_one 62 93 _ (line2_ends h)); reflexivity).
  assert (C1 : prefixb [91] (line3 h) = false) by reflexivity.
  assert (C2 : prefixb [59; 70; 87] (line3 h) = false) by reflexivity.
  assert (C3 : suffixb [62] (line3 h) = true).
  { pose proof (line3_ends h) as E. rewrite Hm in E. rewrite (suffixb_one 62 62 _ E). reflexivity. }
  cbn [master_handshake pop gm gs nm ns].
  rewrite A1, A2, A3, (fw_line_valid h Hfw). cbn [andb negb].
  rewrite B1, B2, B3, B4, (sid_line_valid h Hsid). cbn [andb negb].
  rewrite C1, C2, C3. cbn [andb negb Nat.eqb]. reflexivity.
Qed.

Lemma slave_hs_S f gv l r a b sids :
  slave_handshake (S f) {| gm := gv; gs := Line l :: r; nm := a; ns := b |} sids =
  if prefixb [70] l then
    (if (sids =? 1)%nat then inl {| gm := gv; gs := Line l :: r; nm := a; ns := b |} else inr (VBad false 33 b))
  else
    let st' := {| gm := gv; gs := r; nm := a; ns := S b |} in
    if prefixb [91] l && suffixb [93] l then
      (if valid_sid l then slave_handshake f st' (S sids) else inr (VBad false 31 b))
    else if prefixb [59; 70; 87] l then
      (if valid_fw l then slave_handshake f st' sids else inr (VBad false 32 b))
    else if prefixb [59; 80; 82] l then
      (if valid_pr l then slave_handshake f st' sids else inr (VBad false 35 b))
    else if is_comment l then slave_handshake f st' sids
    else inr (VBad false 34 b).
Proof.
  destruct l as [|x l]; [reflexivity|]. destruct x as [|p]; [reflexivity|].
  do 7 (destruct p as [p|p|]; try reflexivity).
Qed.

Lemma slave_hs_ok h l rest gmv f a : hs_conf h ->
  slave_handshake (S (S (S (S f)))) {| gm := gmv; gs := Line (line1 h) :: Line (line2 h) :: Line (line3 h) :: Line (70 :: l) :: rest; nm := a; ns := 0 |} 0 =
  inl {| gm := gmv; gs := Line (70 :: l) :: rest; nm := a; ns := 3 |}.
Proof.
  intros (Hok&Hfw&Hsid).
  assert (A0 : prefixb [70] (line1 h) = false) by reflexivity.
  assert (A1 : prefixb [91] (line1 h) = false) by reflexivity.
  assert (A2 : prefixb [59; 70; 87] (line1 h) = true) by reflexivity.
  assert (B0 : prefixb [70] (line2 h) = false) by reflexivity.
  assert (B1 : prefixb [91] (line2 h) = true) by reflexivity.
  assert (B2 : suffixb [93] (line2 h) = true) by (rewrite (suffixb_one 93 93 _ (line2_ends h)); reflexivity).
  assert (C0 : prefixb [70] (line3 h) = false) by reflexivity.
  assert (C1 : prefixb [91] (line3 h) = false) by reflexivity.
  assert (C2 : prefixb [59; 70; 87] (line3 h) = false) by reflexivity.
  assert (C3 : prefixb [59; 80; 82] (line3 h) = false) by reflexivity.
  assert (C4 : is_comment (line3 h) = true) by reflexivity.
  rewrite slave_hs_S, A0, A1, A2, (fw_line_valid h Hfw). cbv zeta. cbn [andb].
  rewrite slave_hs_S, B0, B1, B2, (sid_line_valid h Hsid). cbv zeta. cbn [andb].
  rewrite slave_hs_S, C0, C1, C2, C3, C4. cbv zeta. cbn [andb].
  rewrite slave_hs_S. reflexivity.
Qed.

(* ================================================================================== *)
(* 7. TWO LIBRARY SIDES CONFORM                                                        *)
(* ================================================================================== *)
Lemma script_head Tx Ty : script Tx Ty -> exists l r, toks Tx = Line (70 :: l) :: r.
Proof.
  intros [|Tx' Ty' _|B A Tx' Ty' Hne _ Hc _ _].
  - exists [81], []. reflexivity.
  - exists [70], (toks Tx'). change ([70; 70; 13] ++ Tx') with ([70; 70] ++ 13 :: Tx').
    apply toks_line. split; [cbn [In]; intuition discriminate|intros r; discriminate].
  - destruct B as [|p ps]; [congruence|]. rewrite toks_proposal_bytes by exact Hc. cbn [map app].
    rewrite proposal_line_eq. eexists. eexists. reflexivity.
Qed.

(* what the grammar asks of a side: the greeting and every prepared proposal *)
Definition side_conf (x : side_cfg) : Prop :=
  hs_conf (c_hs x) /\ Forall blk_conf (h_outbox (c_handler x)).

(* master m, slave s: the grammar accepts every complete session *)
Theorem pair_conforms_ms (m s : side_cfg) :
  c_master m = true -> c_master s = false ->
  c_motd m = [] -> hs_master (c_hs m) = true ->
  side_conf m -> side_conf s -> side_ready m s -> side_ready s m ->
  forall in_m in_s, closed m s in_m in_s -> validate in_s in_m = VOk.
Proof.
  intros Mm Ms Hmo Hhm ((Hokm&Hfwm&Hsidm)&Cfm) ((Hoks&Hfws&Hsids)&Cfs) (Em&Om&Gm) (Es&Os&Gs) in_m in_s [Cm Cs].
  destruct (hs_compat_text_wire m s Mm Ms Hmo Hhm Hokm Hoks) as (sm&ss&Hm1&Hm2&Hm3&Hs1&Hs2&Hs3).
  set (M := hello (c_hs m)) in *. set (S := hello (c_hs s)) in *.
  pose proof Om as (Pm&_&Wm&_). pose proof Os as (Ps&_&Ws&_).
  assert (Bm : h_present (c_handler m) && h_prepare_err (c_handler m) = false) by (rewrite Em; apply andb_false_r).
  assert (Bs : h_present (c_handler s) && h_prepare_err (c_handler s) = false) by (rewrite Es; apply andb_false_r).
  (* whatever the master receives, it writes its greeting first *)
  assert (HX : exists X, in_s = M ++ X).
  { rewrite <- Cm.
    pose proof (handshake_master_out (init_state m (S ++ [70])) in_m sm
                  (eq_trans (proj1 (proj2 (proj2 (proj2 (PairP.init_state_facts m (S ++ [70])))))) Mm) Hm1) as Ho.
    rewrite init_state_set_in in Ho. pose proof (handshake_nopanic (init_state m in_m)) as Np.
    destruct (handshake (init_state m in_m)) as [sb0|e sB|] eqn:Hb; [| |congruence].
    - destruct (exchange_ok _ _ _ Bm Hb) as [W _]. eexists. rewrite W, tailw_eq, <- Hm3, (wire_out _ _ Ho). reflexivity.
    - destruct (exchange_fail _ _ _ _ Bm Hb) as [W _]. destruct (grows_wire _ _ (fin_state_grows (xerr e) sB)) as [d Hd].
      exists d. rewrite W, Hd, <- Hm3, (wire_out _ _ Ho). reflexivity. }
  destruct HX as [X HX].
  (* the slave reads it, answers and takes the first turn *)
  assert (Hhs : handshake (init_state s in_s) = ROk (ext X ss)) by (rewrite HX, init_state_ext; apply hs_forward, Hs1).
  destruct (exchange_ok3 s in_s _ Bs Hhs) as (Rs&Wrs&Evs). rewrite Ms in Rs, Wrs, Evs. cbn [negb] in Rs, Wrs, Evs.
  destruct (tailw_send_F (ext X ss)) as [rF HF].
  assert (Hinm : in_m = S ++ 70 :: rF).
  { rewrite <- Cs, Wrs, tailw_eq, HF. change (wire (ext X ss)) with (wire ss). rewrite Hs3. reflexivity. }
  (* the master reads the slave's greeting *)
  assert (Hhm' : handshake (init_state m in_m) = ROk (ext rF sm)).
  { rewrite Hinm. change (70 :: rF) with ([70] ++ rF). rewrite app_assoc, init_state_ext. apply hs_forward, Hm1. }
  destruct (exchange_ok3 m in_m _ Bm Hhm') as (Rm&Wrm&Evm). rewrite Mm in Rm, Wrm, Evm. cbn [negb] in Rm, Wrm, Evm.
  assert (EX : X = tailw false (ext rF sm)).
  { rewrite <- Cm, Wrm, tailw_eq in HX. change (wire (ext rF sm)) with (wire sm) in HX. rewrite Hm3 in HX.
    apply app_inv_head in HX. symmetry. exact HX. }
  destruct (PairP.init_state_facts s M) as (_&_&Fs&_). destruct (PairP.init_state_facts m (S ++ [70])) as (_&_&Fm&_).
  destruct (init_state_present s M Ps) as [Vs Qs].
  assert (Hscript : script (tailw true (ext X ss)) (tailw false (ext rF sm))).
  { apply (joint_shape (Datatypes.S (2 * (length (pendh (c_handler s)) + length (pendh (c_handler m))) + 1))%nat
                (c_handler s) (c_handler m) false); try assumption.
    - lia.
    - discriminate.
    - cbn [ext set_in s_h]. rewrite (handshake_h _ _ Hs1). exact Fs.
    - cbn [ext set_in s_h]. rewrite (handshake_h _ _ Hm1). exact Fm.
    - cbn [ext set_in s_remote_nomsgs]. rewrite (handshake_nomsgs _ _ Hs1). exact Qs.
    - rewrite HF. cbn [ext set_in s_in]. rewrite Hm2. reflexivity.
    - rewrite <- EX. cbn [ext set_in s_in]. rewrite Hs2. reflexivity. }
  rewrite <- EX in Hscript. set (Y := tailw true (ext X ss)) in *.
  assert (HinmY : in_m = S ++ Y) by (rewrite HF; exact Hinm).
  destruct (script_head _ _ Hscript) as (l&r&Ehead).
  (* the verdict *)
  unfold validate. cbv zeta.
  change (tokens (Datatypes.S (length in_s)) in_s) with (toks in_s).
  change (tokens (Datatypes.S (length in_m)) in_m) with (toks in_m).
  rewrite HX, HinmY. unfold M, S. rewrite !hello_toks by assumption.
  cbn [length].
  rewrite master_hs_ok by (first [exact (conj Hokm (conj Hfwm Hsidm)) | exact Hhm]).
  rewrite Ehead. rewrite slave_hs_ok by exact (conj Hoks (conj Hfws Hsids)). rewrite <- Ehead.
  change {| gm := toks X; gs := toks Y; nm := 3; ns := 3 |} with (mkst false (toks Y) (toks X) 3 3).
  apply turns_script; [exact Hscript|]. rewrite Ehead. cbn [length]. lia.
Qed.

(* either side may be the master: the complete session of a ready, conforming pair is accepted *)
Theorem pair_conforms (a b : side_cfg) :
  c_master a = negb (c_master b) -> pair_text_ok a b ->
  side_conf a -> side_conf b -> side_ready a b -> side_ready b a ->
  forall in_a in_b, closed a b in_a in_b ->
    let '(ms, ss) := if c_master a then (in_b, in_a) else (in_a, in_b) in validate ms ss = VOk.
Proof.
  intros Hrole (Hmo&Hhm&_&_) Ca Cb Ra Rb in_a in_b Hc. destruct (c_master a) eqn:Ma.
  - assert (Mb : c_master b = false) by (destruct (c_master b); [discriminate|reflexivity]).
    exact (pair_conforms_ms a b Ma Mb Hmo Hhm Ca Cb Ra Rb in_a in_b Hc).
  - assert (Mb : c_master b = true) by (destruct (c_master b); [reflexivity|discriminate]).
    destruct Hc as [H1 H2].
    exact (pair_conforms_ms b a Mb Ma Hmo Hhm Cb Ca Rb Ra in_b in_a (conj H2 H1)).
Qed.

(* ================================================================================== *)
(* 8. ONE SIDE AGAINST ANY PEER: how both readers read the peer's bytes                *)
(* ================================================================================== *)
Definition notblame (r : bool) (v : verdict) : Prop :=
  match v with VOk => True | VBad who _ _ => who <> r end.

(* ---------- the first element of a stream ---------- *)
Inductive first_elem (s : bytes) : Prop :=
| fe_nil : s = [] -> toks s = [] -> first_elem s
| fe_line l r : s = l ++ 13 :: r -> ~ In 13 l -> toks s = Line l :: toks r -> first_elem s
| fe_xfer hl title offs r2 d bok cok r3 :
    s = 1 :: hl :: title ++ 0 :: offs ++ 0 :: r2 -> ~ In 0 title -> ~ In 0 offs ->
    blocks (S (length r2)) r2 [] 0 = Some (d, bok, cok, r3) ->
    toks s = Transfer hl title offs d bok cok :: toks r3 -> first_elem s
| fe_garbage g : toks s = [Garbage g] -> first_elem s.

Lemma first_elem_cases s : first_elem s.
Proof.
  destruct (stream_shape s) as [->|[(hl&r&->)|[Hne Hns]]].
  - apply fe_nil; reflexivity.
  - unfold toks. pose proof (tokens_soh (length (1 :: hl :: r)) hl r) as E.
    destruct (take_until 0 r []) as [[title r1]|] eqn:E1; [|eapply fe_garbage; unfold toks; exact E].
    destruct (take_until 0 r1 []) as [[offs r2]|] eqn:E2; [|eapply fe_garbage; unfold toks; exact E].
    destruct (blocks (S (length r2)) r2 [] 0) as [[[[d bok] cok] r3]|] eqn:E3; [|eapply fe_garbage; unfold toks; exact E].
    destruct (take_until_some _ _ _ _ _ E1) as (t&Ht&Hr&Hnt). destruct (take_until_some _ _ _ _ _ E2) as (o&Ho&Hr1&Hno).
    cbn [rev app] in Ht, Ho. subst title offs.
    eapply (fe_xfer _ hl t o r2 d bok cok r3); try assumption.
    + rewrite Hr, Hr1. reflexivity.
    + unfold toks. rewrite E. f_equal. apply tokens_toks.
      apply take_until_len in E1, E2. apply blocks_len in E3. cbn [length]. lia.
  - unfold toks. pose proof (tokens_line (length s) s Hne Hns) as E.
    destruct (take_until 13 s []) as [[l r]|] eqn:E1; [|eapply fe_garbage; unfold toks; exact E].
    destruct (take_until_some _ _ _ _ _ E1) as (l0&Hl&Hs&Hn). cbn [rev app] in Hl. subst l.
    eapply (fe_line _ l0 r); try assumption. unfold toks. rewrite E. f_equal. apply tokens_toks.
    apply take_until_len in E1. lia.
Qed.

(* the library reads the same raw line *)
Lemma next_line_raw pe s l r : s_in s = l ++ 13 :: r -> ~ In 13 l ->
  next_line pe s = if pe && err_line (clean_string l) then RFail EOther (set_in s r) else ROk (clean_string l, set_in s r).
Proof. intros Hs Hn. unfold next_line. rewrite Hs, PairLines.read_until_notin by exact Hn. reflexivity. Qed.

Lemma split_at_some c : forall s a r, split_at c s = (a, Some r) -> s = a ++ c :: r /\ ~ In c a.
Proof.
  induction s as [|x i IH]; intros a r E; cbn [split_at] in E; [discriminate|].
  destruct (x =? c) eqn:Ex.
  - apply N.eqb_eq in Ex. subst x. assert (a = [] /\ r = i) as [-> ->] by (split; congruence). split; [reflexivity|intros []].
  - destruct (split_at c i) as [a' b'] eqn:E'. assert (a = x :: a' /\ b' = Some r) as [-> ->] by (split; congruence).
    destruct (IH a' r eq_refl) as [-> Hn]. split; [reflexivity|]. intros [K|K]; [subst x; rewrite N.eqb_refl in Ex; discriminate|exact (Hn K)].
Qed.

Lemma next_line_ok_inv pe s line s1 : next_line pe s = ROk (line, s1) ->
  exists l r, s_in s = l ++ 13 :: r /\ ~ In 13 l /\ line = clean_string l /\ s1 = set_in s r.
Proof.
  unfold next_line, read_until. destruct (split_at 13 (s_in s)) as [a [r|]] eqn:E; [|discriminate].
  cbv zeta. destruct (pe && err_line (clean_string a)); [discriminate|]. intros H.
  assert (line = clean_string a /\ s1 = set_in s r) as [-> ->] by (split; congruence).
  destruct (split_at_some _ _ _ _ E) as [E1 E2]. exists a, r. repeat split; assumption.
Qed.

(* a line of the peer as both readers see it: if the line is raw l, the element is Line l or the
   peer is at fault *)
Lemma line_elem s l r : s_in s = l ++ 13 :: r -> ~ In 13 l ->
  toks (s_in s) = Line l :: toks r \/ (exists e rest, toks (s_in s) = e :: rest /\ forall l', e <> Line l').
Proof.
  intros Hs Hn. destruct (first_elem_cases (s_in s)) as [E _|l0 r0 E Hn0 Ht|hl t o r2 d bok cok r3 E _ _ _ Ht|g Ht].
  - rewrite Hs in E. destruct l; discriminate.
  - left. rewrite Hs in E.
    assert (l = l0 /\ r = r0) as [-> ->].
    { clear -E Hn Hn0. revert l0 E Hn0. induction l as [|x l IH]; intros [|y l0] E Hn0; cbn [app] in E.
      - injection E as ->. split; reflexivity.
      - injection E as <- _. exfalso. apply Hn0. left. reflexivity.
      - injection E as -> _. exfalso. apply Hn. left. reflexivity.
      - injection E as -> E. destruct (IH (fun K => Hn (or_intror K)) l0 E (fun K => Hn0 (or_intror K))) as [-> ->]. split; reflexivity. }
    exact Ht.
  - right. eexists. eexists. split; [exact Ht|discriminate].
  - right. eexists. eexists. split; [exact Ht|discriminate].
Qed.

(* ---------- the answer line: the two parsers agree ---------- *)
Definition off_small (g : gans) : Prop := match g with GAccept off => off <= 999999 | _ => True end.
Definition conv (g : gans) : pans :=
  match g with GAccept off => PAns AAccept (Z.of_N off) | GReject => PAns AReject 0 | GDefer => PAns ADefer 0 end.

Lemma parse_fs_S f c r : parse_fs (S f) (c :: r) =
  let more (a : gans) (rest : bytes) := match parse_fs f rest with Some l => Some (a :: l) | None => None end in
  if existsb (fun x => x =? c) [43; 89; 121] then more (GAccept 0) r
  else if existsb (fun x => x =? c) [45; 78; 110; 82; 114; 69; 101] then more GReject r
  else if existsb (fun x => x =? c) [61; 76; 108; 72; 104] then more GDefer r
  else if existsb (fun x => x =? c) [33; 65; 97] then
    let ds := leading_digits r in
    match ds with
    | [] => None
    | _ => more (GAccept (dec_value ds 0)) (skipn (length ds) r)
    end
  else None.
Proof. reflexivity. Qed.

Lemma leading_digits_digits r : forallb is_digit (leading_digits r) = true.
Proof. induction r as [|x r IH]; [reflexivity|]. cbn [leading_digits]. destruct (is_digit x) eqn:E; [cbn [forallb]; rewrite E, IH; reflexivity|reflexivity]. Qed.

Lemma num_of_digits_dec ds : forall acc, forallb is_digit ds = true -> num_of_digits ds acc = Some (dec_value ds acc).
Proof.
  induction ds as [|d ds IH]; intros acc H; [reflexivity|]. cbn [forallb] in H. apply andb_true_iff in H. destruct H as [Hd H].
  cbn [num_of_digits dec_value]. unfold digit_val. rewrite Hd. apply IH, H.
Qed.

Lemma atoi_nosign d ds : d <> 45 -> d <> 43 ->
  atoi_ignore_err (d :: ds) =
  match num_of_digits (d :: ds) 0 with
  | None => 0%Z
  | Some v => if 9223372036854775807 <? v then max_int else Z.of_N v
  end.
Proof.
  intros H1 H2. unfold atoi_ignore_err. destruct d as [|p]; [reflexivity|].
  do 6 (destruct p as [p|p|]; try reflexivity); congruence.
Qed.

Lemma atoi_digits ds : ds <> [] -> forallb is_digit ds = true ->
  atoi_ignore_err ds = if 9223372036854775807 <? dec_value ds 0 then max_int else Z.of_N (dec_value ds 0).
Proof.
  intros Hne H. destruct ds as [|d ds]; [congruence|].
  assert (Hd : is_digit d = true) by (cbn [forallb] in H; apply andb_true_iff in H; apply H).
  unfold is_digit in Hd. rewrite atoi_nosign by lia. rewrite (num_of_digits_dec _ 0 H). reflexivity.
Qed.

Lemma alpha_accept c : in_list c [89; 121; 43] = existsb (fun x => x =? c) [43; 89; 121].
Proof. unfold in_list. cbn [existsb]. destruct (43 =? c), (89 =? c), (121 =? c); reflexivity. Qed.
Lemma alpha_reject c : existsb (fun x => x =? c) [45; 78; 110; 82; 114; 69; 101] =
  in_list c [78; 110; 82; 114; 45] || (69 =? c) || (101 =? c).
Proof. unfold in_list. cbn [existsb]. destruct (45 =? c), (78 =? c), (110 =? c), (82 =? c), (114 =? c), (69 =? c), (101 =? c); reflexivity. Qed.
Lemma alpha_defer c : in_list c [76; 108; 61; 72; 104] = existsb (fun x => x =? c) [61; 76; 108; 72; 104].
Proof. unfold in_list. cbn [existsb]. destruct (61 =? c), (76 =? c), (108 =? c), (72 =? c), (104 =? c); reflexivity. Qed.
Lemma alpha_offset c : in_list c [65; 97; 33] = existsb (fun x => x =? c) [33; 65; 97].
Proof. unfold in_list. cbn [existsb]. destruct (33 =? c), (65 =? c), (97 =? c); reflexivity. Qed.
Lemma alpha_E c : (69 =? c) || (101 =? c) = true ->
  in_list c [89; 121; 43] = false -> in_list c [78; 110; 82; 114; 45] = false ->
  in_list c [76; 108; 61; 72; 104] = false /\ in_list c [65; 97; 33] = false.
Proof.
  intros H _ _. apply orb_true_iff in H. destruct H as [H|H]; apply N.eqb_eq in H; subst c; split; reflexivity.
Qed.

(* whenever both parsers accept an answer string (offsets within the protocol limit), they read the
   same answers *)
Theorem fs_agree : forall f r G, parse_fs f r = Some G -> Forall off_small G ->
  forall f' n acc L, parse_answers f' r n acc = Some L -> L = rev acc ++ map conv G.
Proof.
  induction f as [|f IH]; intros r G Hg Hs f' n acc L Hl; [discriminate|].
  destruct f' as [|f']; [discriminate|].
  destruct r as [|c r].
  { cbn in Hg, Hl. injection Hg as <-. injection Hl as <-. rewrite rev'_rev, app_nil_r. reflexivity. }
  rewrite parse_fs_S in Hg. cbv zeta in Hg. cbn [parse_answers] in Hl.
  destruct n as [|n]; [discriminate|].
  rewrite alpha_accept in Hl. rewrite alpha_reject in Hg.
  destruct (existsb (fun x => x =? c) [43; 89; 121]).
  { destruct (parse_fs f r) as [G'|] eqn:Eg; [|discriminate]. injection Hg as <-. inversion Hs; subst.
    rewrite (IH r G' Eg H2 f' n _ L Hl). cbn [rev map conv]. rewrite <- app_assoc. reflexivity. }
  destruct (in_list c [78; 110; 82; 114; 45]) eqn:Er.
  { cbn [orb] in Hg. destruct (parse_fs f r) as [G'|] eqn:Eg; [|discriminate]. injection Hg as <-. inversion Hs; subst.
    rewrite (IH r G' Eg H2 f' n _ L Hl). cbn [rev map conv]. rewrite <- app_assoc. reflexivity. }
  cbn [orb] in Hg.
  destruct ((69 =? c) || (101 =? c)) eqn:EE.
  { exfalso. apply orb_true_iff in EE. destruct EE as [H|H]; apply N.eqb_eq in H; subst c; cbn in Hl; discriminate. }
  rewrite alpha_defer in Hl.
  destruct (existsb (fun x => x =? c) [61; 76; 108; 72; 104]).
  { destruct (parse_fs f r) as [G'|] eqn:Eg; [|discriminate]. injection Hg as <-. inversion Hs; subst.
    rewrite (IH r G' Eg H2 f' n _ L Hl). cbn [rev map conv]. rewrite <- app_assoc. reflexivity. }
  rewrite alpha_offset in Hl.
  destruct (existsb (fun x => x =? c) [33; 65; 97]); [|discriminate].
  pose proof (leading_digits_digits r) as Hd.
  destruct (leading_digits r) as [|d ds] eqn:El; [discriminate|].
  set (D := d :: ds) in *.
  destruct (parse_fs f (skipn (length D) r)) as [G'|] eqn:Eg; [|discriminate]. injection Hg as <-.
  inversion Hs as [|? ? Ho Hs']; subst. cbn [off_small] in Ho. change (dec_value ds (d - 48)) with (dec_value D 0) in Ho.
  rewrite (atoi_digits D) in Hl by (unfold D; try discriminate; exact Hd).
  assert (E1 : (9223372036854775807 <? dec_value D 0) = false) by lia. rewrite E1 in Hl.
  assert (E2 : (Z.of_N ProtocolOffsetSizeLimit <? Z.of_N (dec_value D 0))%Z = false) by (unfold ProtocolOffsetSizeLimit; lia).
  rewrite E2 in Hl.
  rewrite (IH _ G' Eg Hs' f' n _ L Hl). cbn [rev map conv]. rewrite <- app_assoc. reflexivity.
Qed.

(* ---------- the transfer the library writes at a requested offset ---------- *)
Definition xbytes (p : oprop) (off : N) : bytes :=
  let title := firstn 80 (o_title p) in
  let d := skipn (N.to_nat off) (o_cdata p) in
  1 :: N.of_nat (length title + length (dec_of_N off) + 2) :: title ++ 0 :: dec_of_N off ++ 0 ::
  data_chunks (S (length d)) d ++ [4; (256 - sumN d mod 256) mod 256].
Definition xelem (p : oprop) (off : N) : elem :=
  Transfer (N.of_nat (length (firstn 80 (o_title p)) + length (dec_of_N off) + 2)) (firstn 80 (o_title p))
           (dec_of_N off) (skipn (N.to_nat off) (o_cdata p)) true true.

Lemma dec_of_Z_N n : dec_of_Z (Z.of_N n) = dec_of_N n.
Proof. destruct n; reflexivity. Qed.

Lemma ndigits_aux_le f : forall n, (ndigits_aux f n <= S f)%nat.
Proof. induction f as [|f IH]; intros n; cbn [ndigits_aux]; [lia|]. destruct (n <? 10); [lia|]. specialize (IH (n / 10)). lia. Qed.
Lemma dec_len n : (length (dec_of_N n) <= 41)%nat.
Proof.
  unfold dec_of_N, digitsk. rewrite map_length, rev_length, seq_length. unfold ndigits. apply ndigits_aux_le.
Qed.

Lemma write_compressed_off s p off s1 : write_compressed s p (Z.of_N off) = ROk s1 ->
  off <= N.of_nat (length (o_cdata p)) /\ wire s1 = wire s ++ xbytes p off /\ s_in s1 = s_in s /\ s_h s1 = s_h s.
Proof.
  unfold write_compressed, xbytes. cbv zeta. set (t := firstn 80 (o_title p)).
  destruct ((Z.of_N off <? 0)%Z || (Z.of_nat (length (o_cdata p)) <? Z.of_N off)%Z) eqn:E1; [discriminate|].
  destruct (Z.of_nat (length (o_cdata p)) <? 6)%Z; [discriminate|].
  rewrite dec_of_Z_N. replace (Z.to_nat (Z.of_N off)) with (N.to_nat off) by lia.
  pose proof (dec_len off) as Hl. pose proof (firstn_le_length 80 (o_title p)) as Ht.
  assert (Hm : N.of_nat (length t + length (dec_of_N off) + 2) mod 256 = N.of_nat (length t + length (dec_of_N off) + 2)).
  { apply N.mod_small. unfold t. rewrite firstn_length. lia. }
  rewrite Hm. set (d := skipn (N.to_nat off) (o_cdata p)).
  intros H. assert (Hs : s1 = wr (wr s ([CHRSOH; N.of_nat (length t + length (dec_of_N off) + 2)] ++ t ++ [CHRNUL] ++ dec_of_N off ++ [CHRNUL]))
                            (data_chunks (S (length d)) d ++ [CHREOT; (256 - sumN d mod 256) mod 256])) by congruence.
  subst s1. split; [lia|]. split; [|split; reflexivity].
  rewrite !wire_wr, <- app_assoc. f_equal. change CHRSOH with 1. change CHRNUL with 0. change CHREOT with 4.
  cbn [app]. repeat (rewrite <- app_assoc; cbn [app]). reflexivity.
Qed.

Lemma toks_xbytes p off r : ~ In 0 (firstn 80 (o_title p)) -> toks (xbytes p off ++ r) = xelem p off :: toks r.
Proof.
  intros Ht. unfold xbytes, xelem. cbv zeta. set (d := skipn (N.to_nat off) (o_cdata p)).
  cbn [app]. repeat (rewrite <- app_assoc; cbn [app]). unfold toks at 1.
  rewrite tokens_soh.
  rewrite (take_until_notin 0 _ _ [] Ht). cbn [rev app].
  rewrite (take_until_notin 0 (dec_of_N off) _ []) by (apply dec_notin; reflexivity). cbn [rev app].
  rewrite data_chunks_blocks;
    [|lia|rewrite app_length; pose proof (data_chunks_length (S (length d)) d ltac:(lia)); lia].
  cbn [rev concat app]. rewrite eot_checksum. f_equal. apply tokens_toks.
  cbn [length]. rewrite !app_length. cbn [length]. rewrite !app_length. cbn [length]. rewrite !app_length. cbn [length]. lia.
Qed.

Theorem transfer_valid_off p off : blk_conf p -> off <= N.of_nat (length (o_cdata p)) ->
  valid_transfer (xelem p off) (gprop_of p) off = true.
Proof.
  intros (_&(x&Hd&Hx)&Ht&_&Hc) Ho. unfold valid_transfer, xelem. cbn [g_csize g_usize gprop_of].
  pose proof (firstn_le_length 80 (o_title p)) as H1.
  assert (H2 : (1 <= length (firstn 80 (o_title p)))%nat).
  { destruct (o_title p); [congruence|]. cbn [firstn length]. lia. }
  assert (H3 : (length (firstn 80 (o_title p)) <= 80)%nat) by (rewrite firstn_length; lia).
  rewrite Nat2N.id, Nat.eqb_refl.
  assert (E2 : (1 <=? length (firstn 80 (o_title p)))%nat = true) by (apply Nat.leb_le; exact H2).
  assert (E3 : (length (firstn 80 (o_title p)) <=? 80)%nat = true) by (apply Nat.leb_le; exact H3).
  rewrite E2, E3, dec_all_digits, dec_roundtrip by (eapply N.le_lt_trans; [exact Ho|exact Hc]).
  rewrite N.eqb_refl. cbn [andb].
  assert (E4 : (N.of_nat (length (skipn (N.to_nat off) (o_cdata p))) + off =? N.of_nat (length (o_cdata p))) = true).
  { apply N.eqb_eq. rewrite skipn_length. lia. }
  rewrite E4. destruct (off =? 0) eqn:E0; [|reflexivity].
  apply N.eqb_eq in E0. subst off. cbn [N.to_nat skipn]. rewrite Hd, Hx, N.eqb_refl. reflexivity.
Qed.

(* what send_accepted writes for the answers read by the grammar, and how the grammar reads it *)
Fixpoint xbytes_all (B : list oprop) (G : list gans) : bytes :=
  match B, G with
  | p :: ps, g :: r => (match g with GAccept off => xbytes p off | _ => [] end) ++ xbytes_all ps r
  | _, _ => []
  end.

Lemma send_accepted_conv : forall B G s sent s4 sent', length G = length B ->
  send_accepted s B (map conv G) sent = ROk (s4, sent') ->
  wire s4 = wire s ++ xbytes_all B G /\ s_in s4 = s_in s /\
  Forall2 (fun p g => match g with GAccept off => off <= N.of_nat (length (o_cdata p)) | _ => True end) B G.
Proof.
  induction B as [|p ps IH]; intros G s sent s4 sent' Hl H.
  - destruct G; [|discriminate]. cbn in H. injection H as <- _. cbn [xbytes_all]. rewrite app_nil_r. repeat split. constructor.
  - destruct G as [|g G]; [discriminate|]. cbn [length] in Hl. injection Hl as Hl.
    cbn [map send_accepted] in H. destruct g as [off| |]; cbn [conv] in H.
    + destruct (write_compressed s p (Z.of_N off)) as [s1|e s1|] eqn:Ew; try discriminate.
      destruct (write_compressed_off _ _ _ _ Ew) as (Ho&W1&I1&_).
      destruct (IH G s1 _ s4 sent' Hl H) as (W4&I4&F). cbn [xbytes_all].
      split; [rewrite W4, W1, <- app_assoc; reflexivity|]. split; [congruence|]. constructor; assumption.
    + destruct (IH G s _ s4 sent' Hl H) as (W4&I4&F). cbn [xbytes_all app]. repeat split; try assumption. constructor; [exact I|assumption].
    + destruct (IH G _ _ s4 sent' Hl H) as (W4&I4&F). cbn [xbytes_all app]. repeat split; try assumption. constructor; [exact I|assumption].
Qed.

Lemma send_transfers_off who theirs rest : forall B G a b, Forall blk_conf B ->
  Forall2 (fun p g => match g with GAccept off => off <= N.of_nat (length (o_cdata p)) | _ => True end) B G ->
  exists E a', (forall R, toks (xbytes_all B G ++ R) = E ++ toks R) /\
    send_transfers (mkst who (E ++ rest) theirs a b) who (map gprop_of B) G = inl (mkst who rest theirs a' b).
Proof.
  induction B as [|p ps IH]; intros G a b Hc HF; inversion HF as [|? g ? G' Hg HF']; subst.
  - exists [], a. split; [intros R; reflexivity|reflexivity].
  - inversion Hc as [|? ? Hp Hc']; subst. cbn [xbytes_all map send_transfers].
    destruct g as [off| |].
    + destruct (IH G' (S a) b Hc' HF') as (E&a'&HE&Hst).
      exists (xelem p off :: E), a'. split.
      * intros R. rewrite <- app_assoc, toks_xbytes by apply Hp. rewrite HE. reflexivity.
      * cbn [app]. rewrite pop_mine, (transfer_valid_off p off Hp Hg). exact Hst.
    + destruct (IH G' a b Hc' HF') as (E&a'&HE&Hst). exists E, a'. split; [exact HE|exact Hst].
    + destruct (IH G' a b Hc' HF') as (E&a'&HE&Hst). exists E, a'. split; [exact HE|exact Hst].
Qed.

(* ---------- the peer's lines: where the two readers are assumed / shown to agree ---------- *)
(* The restricted class of peers.  For every line element l of the peer's stream:
   (1) if the grammar takes l for a comment (first byte ';'), so does the library after its
       cleanString (this fails only for lines like ";<NUL>", see clean_comment_cx);
   (2) the offsets the peer asks for in an answer line respect the protocol limit 999999
       (above it the library restarts at 0 and the grammar blames the library: offset_limit_cx). *)
Definition elem_ok (e : elem) : Prop :=
  match e with
  | Line l => (is_comment l = true -> prefixb [59] (clean_string l) = true) /\
              (forall G, fs_answers l = Some G -> Forall off_small G)
  | _ => True
  end.

Example clean_comment_cx : clean_string [59; 0] = [].
Proof. vm_compute. reflexivity. Qed.

Lemma leading_digits_split r : r = leading_digits r ++ skipn (length (leading_digits r)) r.
Proof. induction r as [|x r IH]; [reflexivity|]. cbn [leading_digits]. destruct (is_digit x); [cbn [length skipn app]; f_equal; exact IH|reflexivity]. Qed.

Lemma okb_alpha c L : existsb (fun x => x =? c) L = true -> forallb okb L = true -> okb c = true.
Proof.
  intros H1 H2. apply existsb_exists in H1. destruct H1 as (x&Hx&E). apply N.eqb_eq in E. subst x.
  rewrite forallb_forall in H2. apply H2, Hx.
Qed.

Lemma parse_fs_okb : forall f r G, parse_fs f r = Some G -> Forall (fun c => okb c = true) r.
Proof.
  induction f as [|f IH]; intros r G H; [discriminate|]. destruct r as [|c r]; [constructor|].
  rewrite parse_fs_S in H. cbv zeta in H.
  destruct (existsb (fun x => x =? c) [43; 89; 121]) eqn:E1.
  { destruct (parse_fs f r) as [G'|] eqn:Eg; [|discriminate]. constructor; [eapply okb_alpha; [exact E1|reflexivity]|eapply IH; exact Eg]. }
  destruct (existsb (fun x => x =? c) [45; 78; 110; 82; 114; 69; 101]) eqn:E2.
  { destruct (parse_fs f r) as [G'|] eqn:Eg; [|discriminate]. constructor; [eapply okb_alpha; [exact E2|reflexivity]|eapply IH; exact Eg]. }
  destruct (existsb (fun x => x =? c) [61; 76; 108; 72; 104]) eqn:E3.
  { destruct (parse_fs f r) as [G'|] eqn:Eg; [|discriminate]. constructor; [eapply okb_alpha; [exact E3|reflexivity]|eapply IH; exact Eg]. }
  destruct (existsb (fun x => x =? c) [33; 65; 97]) eqn:E4; [|discriminate].
  constructor; [eapply okb_alpha; [exact E4|reflexivity]|].
  pose proof (leading_digits_digits r) as Hd. pose proof (leading_digits_split r) as Hs.
  destruct (leading_digits r) as [|d ds] eqn:El; [discriminate|]. set (D := d :: ds) in *.
  destruct (parse_fs f (skipn (length D) r)) as [G'|] eqn:Eg; [|discriminate].
  rewrite Hs. apply Forall_app. split; [|eapply IH; exact Eg].
  apply Forall_forall. intros x Hx. rewrite forallb_forall in Hd. specialize (Hd x Hx).
  unfold is_digit in Hd. unfold okb, is_space_rune. lia.
Qed.

Lemma fs_line_clean l g G : fs_answers l = Some (g :: G) -> clean_string l = l /\ prefixb [70; 83; 32] l = true.
Proof.
  unfold fs_answers. intros H.
  assert (exists r, l = 70 :: 83 :: 32 :: r) as [r ->].
  { destruct l as [|a l]; [discriminate|]. destruct a as [|p]; [discriminate|].
    do 7 (destruct p as [p|p|]; try discriminate).
    destruct l as [|b l]; [discriminate|]. destruct b as [|p]; [discriminate|].
    do 7 (destruct p as [p|p|]; try discriminate).
    destruct l as [|c l]; [discriminate|]. destruct c as [|p]; [discriminate|].
    do 6 (destruct p as [p|p|]; try discriminate).
    eexists; reflexivity. }
  split; [|reflexivity].
  pose proof (parse_fs_okb _ _ _ H) as Hok.
  destruct (exists_last (l := r)) as (r'&y&->).
  { intros ->. cbn in H. discriminate. }
  apply Forall_app in Hok. destruct Hok as [_ Hy]. inversion Hy as [|? ? Hy' _]; subst.
  apply (clean_string_id 70 _ y); [reflexivity|exact Hy'|].
  do 3 apply ends_with_cons. exists r'. reflexivity.
Qed.

Lemma next_cmd_theirs_bad who mine e theirs a b f : (forall l, e <> Line l) ->
  exists k, next_cmd (S f) (mkst who mine (e :: theirs) a b) (negb who) = inr (VBad (negb who) 3 k).
Proof. intros H. cbn [next_cmd]. rewrite pop_theirs. destruct e; [exfalso; eapply H; reflexivity|eexists; reflexivity..]. Qed.

Lemma negb_neq r : negb r <> r.
Proof. destruct r; discriminate. Qed.

(* the library waits for the answer line, the grammar looks for the peer's next command: either
   the grammar finds fault with the peer, or both have read the same line *)
Lemma reply_sync r mine : forall f s reply s3, read_reply f s = ROk (reply, s3) -> Forall elem_ok (toks (s_in s)) ->
  forall F a b, (length (toks (s_in s)) < F)%nat ->
  match next_cmd F (mkst r mine (toks (s_in s)) a b) (negb r) with
  | inr v => notblame r v
  | inl None => True
  | inl (Some (l, st3)) =>
      match fs_answers l with
      | Some (g :: G) => l = reply /\ Forall off_small (g :: G) /\ Forall elem_ok (toks (s_in s3)) /\
                         (length (toks (s_in s3)) < length (toks (s_in s)))%nat /\
                         exists b', st3 = mkst r mine (toks (s_in s3)) a b'
      | _ => True
      end
  end.
Proof.
  induction f as [|f IH]; intros s reply s3 H Hok F a b HF; [discriminate|]. cbn [read_reply] in H.
  destruct (next_line true s) as [[line s1]|e s1|] eqn:En; try discriminate.
  destruct (next_line_ok_inv _ _ _ _ En) as (l&rr&Hs&Hn&->&->).
  destruct F as [|F]; [lia|].
  destruct (line_elem s l rr Hs Hn) as [Ht|(e&rest&Ht&Hne)].
  2:{ rewrite Ht. destruct (next_cmd_theirs_bad r mine e rest a b F Hne) as [k ->]. apply negb_neq. }
  rewrite Ht in *. inversion Hok as [|? ? He Hok']; subst. cbn [elem_ok] in He. destruct He as [Hc Ho]. cbn [length] in HF.
  cbn [next_cmd]. rewrite pop_theirs. destruct (is_comment l) eqn:Ec.
  - specialize (Hc eq_refl).
    assert (E1 : prefixb [70; 83; 32] (clean_string l) = false).
    { destruct (clean_string l) as [|x m]; [discriminate|]. cbn [prefixb] in Hc. apply andb_true_iff in Hc. destruct Hc as [Hx _].
      apply N.eqb_eq in Hx. subst x. reflexivity. }
    rewrite E1, Hc in H.
    specialize (IH (set_in s rr) reply s3 H Hok' F a (S b) ltac:(cbn [set_in s_in]; lia)).
    cbn [set_in s_in] in IH.
    destruct (next_cmd F (mkst r mine (toks rr) a (S b)) (negb r)) as [[[l' st3]|]|v]; try exact IH.
    destruct (fs_answers l') as [[|g G]|]; try exact I.
    destruct IH as (I1&I2&I3&I4&I5). repeat split; try assumption. cbn [length]. lia.
  - destruct (fs_answers l) as [[|g G]|] eqn:Ef; try exact I.
    destruct (fs_line_clean l g G Ef) as [Hcl Hp]. rewrite Hcl, Hp in H. injection H as <- <-.
    split; [reflexivity|]. split; [apply Ho; reflexivity|]. cbn [set_in s_in]. split; [exact Hok'|]. split; [cbn [length]; lia|].
    eexists. reflexivity.
Qed.

(* ================================================================================== *)
(* 9. ONE SIDE AGAINST ANY PEER: the library's sending turn                            *)
(* ================================================================================== *)
(* r is the role of the library (true = master).  The validator's state is synchronised with
   the library's state s at the start of a turn of the library: the elements of the library
   still to be examined are those of what the library will write from now on (tailw true s),
   the elements of the peer those of the library's unread input.  Whatever the peer sends,
   if the library's turn succeeds then either the validator does not blame the library, or the
   validator reaches the peer's turn in a state synchronised with the library's. *)
Theorem sender_turn r s q s1 f a b :
  handle_outbound s = ROk (q, s1) -> Forall blk_conf (hob s) -> Forall elem_ok (toks (s_in s)) ->
  (length (toks (tailw true s)) + length (toks (s_in s)) < S f)%nat ->
  notblame r (Grammar.turns (S f) (mkst r (toks (tailw true s)) (toks (s_in s)) a b) r) \/
  (q = false /\ exists a' b',
     Grammar.turns (S f) (mkst r (toks (tailw true s)) (toks (s_in s)) a b) r =
     Grammar.turns f (mkst r (toks (tailw false s1)) (toks (s_in s1)) a' b') (negb r) /\
     Forall elem_ok (toks (s_in s1)) /\ Forall blk_conf (hob s1) /\
     (length (toks (tailw false s1)) + length (toks (s_in s1)) < f)%nat).
Proof.
  intros Hho Hc Hok Hf. pose proof (handle_outbound_hob _ _ _ Hho) as Hhob.
  destruct (outbound s) as [props s0] eqn:Eo. destruct props as [|p ps].
  - (* nothing to propose: FF or FQ *)
    pose proof Hho as Hho'. rewrite handle_outbound_eq, Eo in Hho'. cbv zeta in Hho'.
    destruct (outbound_block _ _ _ Eo) as (_&I0&O0&_&_).
    assert (Eq : q = s_remote_nomsgs s0) by congruence.
    assert (Es1 : s1 = wr s0 (if q then [70; 81; 13] else [70; 70; 13])) by (rewrite Eq; congruence).
    destruct q.
    + left. assert (Ht : tailw true s = [70; 81; 13]).
      { apply tailw_intro. rewrite (final_send_quit _ _ Hho), Es1, wire_wr, (wire_out _ _ O0). reflexivity. }
      rewrite Ht. change (toks [70; 81; 13]) with [Line [70; 81]]. cbn [Grammar.turns].
      rewrite next_cmd_mine by reflexivity.
      change (beq_bytes [70; 81] [70; 70]) with false. change (beq_bytes [70; 81] [70; 81]) with true. cbv iota.
      destruct r; cbn [mkst gm gs nm ns]; destruct (toks (s_in s)); cbn [notblame]; try exact I; discriminate.
    + right. split; [reflexivity|].
      assert (Ht : tailw true s = [70; 70] ++ 13 :: tailw false s1).
      { apply tailw_intro. rewrite (final_send_ok _ _ Hho), tailw_eq, Es1, wire_wr, (wire_out _ _ O0), <- app_assoc. reflexivity. }
      assert (Hi : s_in s1 = s_in s) by (rewrite Es1; exact I0).
      rewrite Ht in *. rewrite toks_line in * by (split; [cbn [In]; intuition discriminate|intros x; discriminate]).
      exists (S a), b. cbn [Grammar.turns]. rewrite next_cmd_mine by reflexivity.
      change (beq_bytes [70; 70] [70; 70]) with true. cbv iota. rewrite Hi, Hhob.
      split; [reflexivity|]. split; [exact Hok|]. split; [exact Hc|]. cbn [length] in Hf. lia.
  - (* a block *)
    destruct (send_start _ _ _ _ Eo) as (Bne&HB&I2&W2&_&_&Hstep). cbv zeta in *.
    set (B := firstn (N.to_nat MaxBlockSize) (p :: ps)) in *.
    set (s2 := ho_propose B s0) in *. rewrite Hho in Hstep.
    assert (HcB : Forall blk_conf B) by (apply Forall_forall; intros x Hx; apply (proj1 (Forall_forall _ _) Hc), HB, Hx).
    assert (Hl5 : (length B <= 5)%nat) by (unfold B; change (N.to_nat MaxBlockSize) with 5%nat; apply firstn_le_length).
    pose proof (read_reply_eqo (S (length (s_in s2))) s2) as Hq.
    destruct (read_reply (S (length (s_in s2))) s2) as [[reply s3]|e s3|] eqn:Er; try discriminate.
    cbn [res_eqo] in Hq. pose proof (wire_eqo _ _ Hq) as W3.
    symmetry in Hstep. unfold ho_transfer in Hstep.
    destruct (slice_from 3 reply) as [astr|] eqn:Esl; [|discriminate].
    destruct (parse_answers (S (length astr)) astr (length B) []) as [ans|] eqn:Epa; [|discriminate].
    destruct (send_accepted s3 B ans []) as [[s4 sent_rev]|e s4|] eqn:Esa; try discriminate.
    destruct (peek_cases (rev' sent_rev) s4) as [[_ Hp]|[(b0&r0&I4&_&Hp)|(b0&r0&e&s'&_&_&_&Hp)]]; rewrite Hp in Hstep; try discriminate.
    assert (Eq : q = false) by congruence.
    assert (Es1 : s1 = ev (mark_sent (rev' sent_rev) (mark_rej (rev' sent_rev) s4)) EvBlockEnd) by congruence.
    assert (W1 : wire s1 = wire s4).
    { rewrite Es1. apply wire_out. cbn [ev s_out]. rewrite (proj1 (mark_sent_out _ _)), (proj1 (mark_rej_out _ _)). reflexivity. }
    assert (I1 : s_in s1 = s_in s4) by (rewrite Es1; cbn [ev s_in]; rewrite mark_sent_in, mark_rej_in; reflexivity).
    subst q.
    (* what the library writes in this turn begins with the block *)
    destruct (grows_wire _ _ (send_grows _ _ _ _ Eo)) as [T2 HT2]. cbv zeta in HT2. fold B in HT2. fold s2 in HT2.
    assert (Ht : tailw true s = proposal_bytes B ++ T2).
    { apply tailw_intro. rewrite HT2, W2, <- app_assoc. reflexivity. }
    rewrite Ht in *. rewrite toks_proposal_bytes in * by exact HcB.
    destruct B as [|p0 ps0] eqn:EB; [congruence|]. rewrite <- EB in *.
    set (lines := map proposal_line B) in *.
    assert (El : map Line lines = Line (proposal_line p0) :: map Line (map proposal_line ps0)) by (unfold lines; rewrite EB; reflexivity).
    rewrite El in *. cbn [Grammar.turns app].
    destruct (proposal_line_cmd p0) as (P1&P2&P3&P4).
    rewrite next_cmd_mine by exact P1. rewrite P3, P4.
    assert (Hv : valid_prompt (ck_line (block_checksum lines)) ([] ++ map proposal_line (p0 :: ps0)) = true).
    { cbn [app]. rewrite <- EB. fold lines. unfold ck_line. apply prompt_valid.
      apply Forall_forall. intros l Hin. apply in_map_iff in Hin. destruct Hin as (x&<-&Hx).
      apply proposal_line_ascii. apply (proj1 (Forall_forall _ _) HcB x Hx). }
    assert (Hl5a : (length (@nil prop) + length (p0 :: ps0) <= 5)%nat) by (rewrite <- EB; cbn [length]; lia).
    assert (Hl5b : (length ps0 < 6)%nat) by (rewrite EB in Hl5; cbn [length] in Hl5; lia).
    assert (HcB' : Forall blk_conf (p0 :: ps0)) by (rewrite <- EB; exact HcB).
    rewrite (read_block_lines r _ (ck_line (block_checksum lines)) _ ps0 p0 [] [] (S a) b 6 HcB' Hl5a Hl5b eq_refl Hv).
    cbn [app].
    (* the peer's answer line *)
    assert (Hok2 : Forall elem_ok (toks (s_in s2))) by (rewrite I2; exact Hok).
    pose proof (reply_sync r (toks T2) _ _ _ _ Er Hok2
                  (S (length (gm (mkst r (toks T2) (toks (s_in s)) (S a + S (length ps0)) b)) +
                      length (gs (mkst r (toks T2) (toks (s_in s)) (S a + S (length ps0)) b))))
                  (S a + S (length ps0))%nat b) as Hrs.
    rewrite I2 in Hrs. specialize (Hrs ltac:(rewrite mkst_len; lia)).
    destruct (next_cmd _ (mkst r (toks T2) (toks (s_in s)) (S a + S (length ps0)) b) (negb r)) as [[[l st3]|]|v];
      [|left; cbn [notblame]; apply negb_neq|left; exact Hrs].
    destruct (fs_answers l) as [G|] eqn:Ef; [|left; cbn [notblame]; apply negb_neq].
    destruct (negb (length G =? length (map gprop_of (p0 :: ps0)))%nat) eqn:Elen; [left; cbn [notblame]; apply negb_neq|].
    apply negb_false_iff, Nat.eqb_eq in Elen. rewrite map_length, <- EB in Elen.
    destruct G as [|g G]; [rewrite EB in Elen; discriminate|].
    destruct Hrs as (->&Hsmall&Hok3&Hlen3&b'&->).
    (* both parsers read the same answers *)
    assert (Eastr : exists rr, reply = 70 :: 83 :: 32 :: rr /\ astr = rr /\ parse_fs (S (length rr)) rr = Some (g :: G)).
    { destruct (fs_line_clean _ _ _ Ef) as [_ Hpf]. destruct reply as [|x1 [|x2 [|x3 rr]]]; try discriminate.
      cbn [prefixb] in Hpf. repeat (apply andb_true_iff in Hpf; destruct Hpf as [? Hpf]).
      repeat match goal with H : (_ =? _) = true |- _ => apply N.eqb_eq in H end. subst x1 x2 x3.
      exists rr. split; [reflexivity|]. split; [cbn in Esl; congruence|exact Ef]. }
    destruct Eastr as (rr&->&->&Epf).
    pose proof (fs_agree _ _ _ Epf Hsmall _ _ _ _ Epa) as Eans. cbn [rev app] in Eans. subst ans.
    destruct (send_accepted_conv B (g :: G) s3 [] s4 sent_rev Elen Esa) as (W4&I43&HF2).
    destruct (send_transfers_off r (toks (s_in s3)) (toks (tailw false s1)) B (g :: G) (S a + S (length ps0)) b' HcB HF2) as (E&a'&HE&Hst).
    assert (ET2 : T2 = xbytes_all B (g :: G) ++ tailw false s1).
    { pose proof (tailw_eq false s1) as Hw. rewrite <- (final_send_ok _ _ Hho), HT2, W1, W4, <- W3 in Hw.
      rewrite <- app_assoc in Hw. apply app_inv_head in Hw. exact Hw. }
    rewrite ET2, HE in *. rewrite <- EB. rewrite Hst.
    right. split; [reflexivity|]. exists a', b'. rewrite I1, I43, Hhob.
    split; [reflexivity|]. split; [exact Hok3|]. split; [exact Hc|].
    cbn [app length] in Hf. rewrite ?app_length in Hf. cbn [app length] in Hf. rewrite ?app_length in Hf. lia.
Qed.

(* ================================================================================== *)
(* 10. Counterexamples (closed, by computation)                                        *)
(* ================================================================================== *)
(* a prepared proposal with the right size field, and a side with a given SID name, forwarding
   list, MOTD and outbox *)
Definition kx_prop (m t : bytes) : oprop :=
  {| o_mid := m; o_title := t; o_plain_title := t; o_size := N.of_nat (length (dx_msg m)); o_cdata := Dec.compress true (dx_msg m) |}.
Definition kx_side (master : bool) (name : bytes) (fw : list bytes) (motd : list bytes) (ob : list oprop) : side_cfg :=
  {| c_master := master; c_motd := motd;
     c_hs := {| hs_fw := fw; hs_name := name; hs_version := [49]; hs_target := [88];
                hs_mycall := [76;65;49;66]; hs_locator := []; hs_master := master; hs_gzip := false; hs_cb := None |};
     c_handler := {| h_present := true; h_prepare_err := false; h_outbox := ob; h_gone := []; h_policy := []; h_fail := [] |} |}.
Definition kx_good (m : bool) (ob : list oprop) : side_cfg := kx_side m [119] [[76;65;49;66]] [] ob.
(* the complete session of two sides (reached by the iteration from the empty input): it is a closed
   pair, both results are nil, and the verdict of the grammar *)
Definition kx_run (a b : side_cfg) : bool * xres * xres * verdict :=
  let ia := cx_in 8 a b in let ib := x_wire (exchange a ia) in
  (beq_bytes (x_wire (exchange b ib)) ia, x_res (exchange a ia), x_res (exchange b ib),
   if c_master a then validate ib ia else validate ia ib).

(* an instance of pair_conforms, by computation: one message each way *)
Example kx_conforming : kx_run (kx_good true [kx_prop [65;49] [116]]) (kx_good false [kx_prop [66;49] [116]]) = (true, XNil, XNil, VOk).
Proof. vm_compute. reflexivity. Qed.

(* EACH HYPOTHESIS OF side_conf IS NEEDED (and each of these complete sessions of two library sides,
   both ending with nil, refutes Properties/C05.C05_conforming_statement, whose configuration is
   arbitrary): the side at fault is a library side *)
(* size_conf: the size field is not the size of the message inside (DeliverP.dx_a, dx_b: 50 for 49) *)
Example kx_wrong_size : kx_run dx_a dx_b = (true, XNil, XNil, VBad false 9 6).
Proof. vm_compute. reflexivity. Qed.
(* sid_conf: a '-' in the name of the SID, slave and master *)
Example kx_dash_in_name_slave : kx_run (kx_good true []) (kx_side false [119;45;120] [[76;65;49;66]] [] []) = (true, XNil, XNil, VBad false 31 1).
Proof. vm_compute. reflexivity. Qed.
Example kx_dash_in_name_master : kx_run (kx_side true [119;45;120] [[76;65;49;66]] [] []) (kx_good false []) = (true, XNil, XNil, VBad true 21 1).
Proof. vm_compute. reflexivity. Qed.
(* fw_conf: a '|' in a forwarding address; a '>' at the end of the master's ;FW line *)
Example kx_bar_in_fw : kx_run (kx_good true []) (kx_side false [119] [[76;65;124;66]] [] []) = (true, XNil, XNil, VBad false 32 0).
Proof. vm_compute. reflexivity. Qed.
Example kx_prompt_in_fw : kx_run (kx_side true [119] [[76;65;62]] [] []) (kx_good false []) = (true, XNil, XNil, VBad true 23 0).
Proof. vm_compute. reflexivity. Qed.
(* mid_conf: a MID that is not alphanumeric; a MID of 13 bytes *)
Example kx_dash_in_mid : kx_run (kx_good true [kx_prop [65;45;49] [116]]) (kx_good false []) = (true, XNil, XNil, VBad true 5 4).
Proof. vm_compute. reflexivity. Qed.
Example kx_long_mid : kx_run (kx_good true [kx_prop [65;66;67;68;69;70;71;72;73;74;75;76;77] [116]]) (kx_good false []) = (true, XNil, XNil, VBad true 5 4).
Proof. vm_compute. reflexivity. Qed.
(* an empty title *)
Example kx_empty_title : kx_run (kx_good true [kx_prop [65;49] []]) (kx_good false []) = (true, XNil, XNil, VBad true 9 5).
Proof. vm_compute. reflexivity. Qed.
(* the MOTD: a line ";FW: a|b" is harmless for the library slave (the handshakes are compatible) and
   refused by the grammar *)
Example kx_motd : kx_run (kx_side true [119] [[76;65;49;66]] [[59;70;87;58;32;97;124;98]] []) (kx_good false []) = (true, XNil, XNil, VBad true 22 0).
Proof. vm_compute. reflexivity. Qed.

(* ---------- C05 proper: a conforming library side against a peer ---------- *)
Definition kx_hello_m : bytes := [91;82;45;49;45;66;50;70;36;93;13] ++ [88;62;13].        (* "[R-1-B2F$]" "X>" *)
Definition kx_verdict (cfg : side_cfg) (peer : bytes) : xres * verdict :=
  let o := exchange cfg peer in (x_res o, if c_master cfg then validate (x_wire o) peer else validate peer (x_wire o)).

(* (1) the two readers of the GREETING disagree: the master's line ";FW: X>" ends the greeting for the
   grammar (it ends with '>'), while the library goes on reading ("FF" and "Z>" are greeting lines for
   it); the library then says FF, reads FQ and ends with nil; the grammar takes the peer's "FF" for the
   answer to the library's FF and then misses a command of the LIBRARY: the library is blamed *)
Definition kx_peer_greeting : bytes :=
  [91;82;45;49;45;66;50;70;36;93;13] ++ [59;70;87;58;32;88;62;13] ++ [70;70;13] ++ [90;62;13] ++ [70;81;13].
Example greeting_desync_cx : kx_verdict (kx_good false []) kx_peer_greeting = (XNil, VBad false 2 4).
Proof. vm_compute. reflexivity. Qed.

(* (2) an OFFSET above the protocol limit: the peer answers "FS !1000000"; the library sends the whole
   message at offset 0 (parse_answers), the grammar expects offset 1000000: the library is blamed *)
Definition kx_peer_offset : bytes := kx_hello_m ++ [70;83;32;33;49;48;48;48;48;48;48;13] ++ [70;70;13].
Example offset_limit_cx : kx_verdict (kx_good false [kx_prop [65;49] [116]]) kx_peer_offset = (XNil, VBad false 9 5).
Proof. vm_compute. reflexivity. Qed.

(* (3) the answer 'H' is NOT a deviation for this grammar: parse_answers and parse_fs both read it as a
   deferral (no transfer is due), the session is accepted; likewise small offsets, with leading zeros *)
Example answer_H_accepted : kx_verdict (kx_good false [kx_prop [65;49] [116]]) (kx_hello_m ++ [70;83;32;72;13] ++ [70;70;13]) = (XNil, VOk).
Proof. vm_compute. reflexivity. Qed.
Example offset_accepted : kx_verdict (kx_good false [kx_prop [65;49] [116]]) (kx_hello_m ++ [70;83;32;33;48;48;55;13] ++ [70;70;13]) = (XNil, VOk).
Proof. vm_compute. reflexivity. Qed.

(* Properties/C05.C05_conforming_statement (copied here: Properties/C05.v is compiled after this
   file) is false, even for a conforming configuration of the library side: (1) and (2) *)
Definition C05_statement_copy : Prop :=
  forall (cfg : side_cfg) (peer_stream : bytes),
    let o := exchange cfg peer_stream in
    x_res o = XNil ->
    let '(m, s) := if c_master cfg then (x_wire o, peer_stream) else (peer_stream, x_wire o) in
    match validate m s with
    | VOk => True
    | VBad who _ _ => who <> c_master cfg
    end.

Theorem C05_statement_is_false : ~ C05_statement_copy.
Proof.
  intros H. specialize (H (kx_good false []) kx_peer_greeting). cbv zeta in H.
  assert (E1 : x_res (exchange (kx_good false []) kx_peer_greeting) = XNil) by (vm_compute; reflexivity).
  assert (E2 : validate kx_peer_greeting (x_wire (exchange (kx_good false []) kx_peer_greeting)) = VBad false 2 4)
    by (vm_compute; reflexivity).
  specialize (H E1). change (c_master (kx_good false [])) with false in H. cbv iota in H. rewrite E2 in H.
  apply H. reflexivity.
Qed.

(* the configuration of the counterexamples (1)-(3) is conforming *)
Example kx_good_conf m : hs_conf (c_hs (kx_good m [])) /\ side_conf (kx_good m []).
Proof.
  assert (H : hs_conf (c_hs (kx_good m []))).
  { unfold kx_good, kx_side, hs_conf, hs_cfg_ok, fw_conf, sid_conf, text_ok. cbn [c_hs hs_fw hs_name hs_version hs_target hs_mycall hs_locator].
    repeat split; try discriminate; repeat constructor; try discriminate; try lia; cbn [In]; intuition discriminate. }
  split; [exact H|]. split; [exact H|constructor].
Qed.

(* a sufficient condition for the first half of elem_ok: a comment line that ends with a printable,
   non-blank ASCII byte is a comment for the library too *)
Lemma comment_clean_ok l y : is_comment l = true -> ends_with y l -> okb y = true -> prefixb [59] (clean_string l) = true.
Proof.
  intros Hc He Hy. destruct l as [|x m]; [discriminate|].
  assert (x = 59) as ->.
  { destruct x as [|p]; [discriminate|]. do 6 (destruct p as [p|p|]; try discriminate). reflexivity. }
  rewrite (clean_string_id 59 m y eq_refl Hy He). reflexivity.
Qed.

Print Assumptions turns_script.
Print Assumptions joint_shape.
Print Assumptions pair_conforms_ms.
Print Assumptions pair_conforms.
Print Assumptions proposal_line_parses.
Print Assumptions transfer_valid.
Print Assumptions transfer_valid_off.
Print Assumptions sid_line_valid.
Print Assumptions fw_line_valid.
Print Assumptions toks_xfer.
Print Assumptions fs_agree.
Print Assumptions reply_sync.
Print Assumptions sender_turn.
Print Assumptions C05_statement_is_false.
Print Assumptions greeting_desync_cx.
Print Assumptions offset_limit_cx.
Print Assumptions kx_conforming.
Print Assumptions kx_wrong_size.

(* NOT DONE
   - Part 2 (one library side against ANY peer) is proved for the library's SENDING turn only
     (sender_turn, for peers satisfying elem_ok).  Missing for the whole-session statement:
     (a) the RECEIVING turn: the same synchronisation step for inbound_loop / receive_accepted against
         next_cmd / read_block / send_transfers with master = the peer.  The plan: follow the grammar; a
         line it accepts as FF, FQ, a proposal (parse_prop = Some: first byte 'F', second 'C' or 'D',
         last byte a digit, so cleanString is the identity and parse_proposal takes the proposal
         branch) or the prompt is read identically by the library; everything else the grammar blames
         on the peer; lines the library skips (";PM", empty, comments after cleaning) are comments for
         the grammar or make it blame the peer; the library's FS line has one answer per proposal
         (answer_line_valid); for a transfer element accepted by valid_transfer, read_compressed, if it
         succeeds, stops at the same byte (blocks and read_frames parse the same frames:
         first_elem_cases gives the shape of the element).
     (b) the induction over turns (with sender_turn and (a): immediate, fuel = number of elements left).
     (c) the greetings: with the library as MASTER both readers stop in front of the first line that
         begins with 'F' (the library may stop earlier, after a line ending in '>': the lines in
         between must then be skipped by inbound_loop); with the library as SLAVE the two readers of
         the master's greeting do NOT agree in general (greeting_desync_cx): a hypothesis on the
         peer's greeting is needed (e.g.: only its last line ends with '>' after cleaning; or: the
         first line that ends with '>' is not a ";FW"/";PQ"/SID line and carries no outer blanks).
     (d) secure login (";PQ" challenge, ";PR" line and "|response" items written by a slave whose
         password callback is registered) is not examined; with hs_cb = None a challenge makes the
         library fail, so that case is vacuous.
   - pair_conforms asks for an empty MOTD and printable greeting fields (pair_text_ok); harmless MOTD
     lines are not covered (kx_motd shows a harmful one).
   - The conditions of side_conf are shown necessary one by one only in the sense of section 10. *)
