(* B2F/Md5.v — MD5 (RFC 1321) over byte lists, executable.  Model side: this is the
   function crypto/md5.Sum is compared with on every run (correspondence) and whose RFC
   test vectors are checked in Md5P.v. *)
From Verif Require Import Base.Bytes.
Open Scope N_scope.

Definition w32 (x : N) : N := x mod 4294967296.
Definition add32 (a b : N) : N := w32 (a + b).
Definition not32 (a : N) : N := 4294967295 - w32 a.
Definition rotl32 (x : N) (s : N) : N :=
  let x := w32 x in
  w32 (N.shiftl x s) + N.shiftr x (32 - s).

Definition md5_s : list N :=
  [7;12;17;22;7;12;17;22;7;12;17;22;7;12;17;22;
   5;9;14;20;5;9;14;20;5;9;14;20;5;9;14;20;
   4;11;16;23;4;11;16;23;4;11;16;23;4;11;16;23;
   6;10;15;21;6;10;15;21;6;10;15;21;6;10;15;21].

Definition md5_K : list N :=
  [3614090360;3905402710;606105819;3250441966;4118548399;1200080426;2821735955;4249261313;
   1770035416;2336552879;4294925233;2304563134;1804603682;4254626195;2792965006;1236535329;
   4129170786;3225465664;643717713;3921069994;3593408605;38016083;3634488961;3889429448;
   568446438;3275163606;4107603335;1163531501;2850285829;4243563512;1735328473;2368359562;
   4294588738;2272392833;1839030562;4259657740;2763975236;1272893353;4139469664;3200236656;
   681279174;3936430074;3572445317;76029189;3654602809;3873151461;530742520;3299628645;
   4096336452;1126891415;2878612391;4237533241;1700485571;2399980690;4293915773;2240044497;
   1873313359;4264355552;2734768916;1309151649;4149444226;3174756917;718787259;3951481745].

Fixpoint words_of_block (b : bytes) : list N :=
  match b with
  | b0 :: b1 :: b2 :: b3 :: r =>
      (b0 + 256 * b1 + 65536 * b2 + 16777216 * b3) :: words_of_block r
  | _ => []
  end.

Record md5st := { mA : N; mB : N; mC : N; mD : N }.

Definition md5_round (M : list N) (st : md5st) (i : nat) : md5st :=
  let a := mA st in let b := mB st in let c := mC st in let d := mD st in
  let iN := N.of_nat i in
  let '(f, g) :=
    if iN <? 16 then (N.lor (N.land b c) (N.land (not32 b) d), iN)
    else if iN <? 32 then (N.lor (N.land d b) (N.land (not32 d) c), (5 * iN + 1) mod 16)
    else if iN <? 48 then (N.lxor (N.lxor b c) d, (3 * iN + 5) mod 16)
    else (N.lxor c (N.lor b (not32 d)), (7 * iN) mod 16) in
  let f := add32 (add32 (add32 f a) (nth i md5_K 0)) (nth (N.to_nat g) M 0) in
  {| mA := d; mD := c; mC := b; mB := add32 b (rotl32 f (nth i md5_s 0)) |}.

Definition md5_block (st : md5st) (blk : bytes) : md5st :=
  let M := words_of_block blk in
  let st' := fold_left (md5_round M) (seq 0 64) st in
  {| mA := add32 (mA st) (mA st'); mB := add32 (mB st) (mB st');
     mC := add32 (mC st) (mC st'); mD := add32 (mD st) (mD st') |}.

Fixpoint chunks64 (fuel : nat) (l : bytes) : list bytes :=
  match fuel with
  | O => []
  | S f => match l with
           | [] => []
           | _ => firstn 64 l :: chunks64 f (skipn 64 l)
           end
  end.

Definition le64 (n : N) : bytes :=
  le32 (n mod 4294967296) ++ le32 (n / 4294967296).

Definition md5_pad (msg : bytes) : bytes :=
  let len := length msg in
  let r := Nat.modulo (len + 1) 64 in
  let z := if Nat.leb r 56 then (56 - r)%nat else (120 - r)%nat in
  msg ++ 128 :: repeatN 0 z ++ le64 (8 * N.of_nat len).

Definition md5_init : md5st :=
  {| mA := 1732584193; mB := 4023233417; mC := 2562383102; mD := 271733878 |}.

Definition md5 (msg : bytes) : bytes :=
  let p := md5_pad msg in
  let st := fold_left md5_block (chunks64 (S (length p / 64)) p) md5_init in
  le32 (mA st) ++ le32 (mB st) ++ le32 (mC st) ++ le32 (mD st).
