(* B2F/IterP.v -- CONVERGENCE OF THE ITERATION `pair_iter` (B2F/PairIter.v) FROM THE EMPTY INPUT.
   No axioms; everything called a lemma or theorem below is proved (Print Assumptions at the end:
   closed under the global context).

   For a ready pair a, b (the hypotheses of DeliverP.complete_exchange_delivers: opposite roles,
   compatible handshakes, side_ready both ways) the session is a DIALOGUE: a list D of byte strings
   ("chunks"), written alternately by the master (chunks 1, 3, ...) and by the slave (chunks 2, 4, ...),
   each chunk being everything its author writes before it has to wait for input (the greeting; the
   slave's greeting and first command; a proposal block; an answer line, followed by the answerer's own
   next command when nothing was accepted; the transfers of a block; FF; FQ).  `take b j D` is the
   concatenation of the chunks of one party (b = true: the first speaker) among the first j chunks.

   MAIN RESULTS
   1. dialogue (section 4): there is D with  length D <= 4 * (|outbox a| + |outbox b|) + 3  such that,
      for every j, the master fed the slave's chunks among the first j writes exactly its own chunks
      among the first j+1 and the slave likewise (ping-pong):
        x_wire (exchange m (take false j D)) = take true (S j) D
        x_wire (exchange s (take true j D))  = take false (S j) D.
      The runs on these truncated inputs are followed phase by phase (the forward lemmas of
      DeliverP.v plus "blocking" lemmas: a side whose input ends at a chunk boundary stops there with
      a lost connection and writes nothing more); CutP.exchange_cut and its corner (an input that
      ends right behind an EOT byte) are not used: the truncations that occur end behind a complete
      transfer, checksum byte included.
   2. iter_in_take: the k-th input of the iteration from [] is take _ (2k) D: two chunks per round.
   3. pair_iter_converges: for n >= 2 * (|outbox a| + |outbox b|) + 2,
        pair_iter n a b [] = (exchange a in_a, exchange b in_b)  for a closed pair (in_a, in_b).
   4. pair_iter_delivers_from_empty: for such n the result of pair_iter n a b [] is a closed pair, both
      results are nil and `delivered` holds in both directions, with delivered_once / sent_once of
      Properties/C01.v; C01_exchange_holds: the conclusion of PairIter.C01_exchange_statement for
      n >= 4 * (|outbox a| + |outbox b|) + 8 (the n of that statement) under the hypotheses that make it
      true (C01_exchange_statement itself is refuted in DeliverP.v: they are needed). *)
From Coq Require Import List NArith ZArith Bool Lia ZifyN ZifyNat ZifyBool Sorting.Permutation.
From Verif Require Import Base.Bytes Base.BytesP gen.Tables Lzhuf.Dec Msg.Message B2F.Secure B2F.Side B2F.SideP
  B2F.TermP B2F.CodecP B2F.CutP B2F.PairDefs B2F.PairLines B2F.PairXfer B2F.PairHs B2F.PairP B2F.PairIter B2F.DeliverP.
Import ListNotations.
Open Scope N_scope.

(* ================================================================================== *)
(* 0. Dialogues                                                                        *)
(* ================================================================================== *)
(* the chunks of one party among the first j chunks of D; b = true: the party that wrote the first chunk *)
Fixpoint take (b : bool) (j : nat) (D : list bytes) : bytes :=
  match j with
  | O => []
  | S k => match D with
           | [] => []
           | c :: D' => (if b then c else []) ++ take (negb b) k D'
           end
  end.

Lemma take_nil b j : take b j [] = [].
Proof. destruct j; reflexivity. Qed.
Lemma take_true_S k c D : take true (S k) (c :: D) = c ++ take false k D.
Proof. reflexivity. Qed.
Lemma take_false_S k c D : take false (S k) (c :: D) = take true k D.
Proof. reflexivity. Qed.

Lemma take_all : forall D b j, (length D <= j)%nat -> take b j D = take b (length D) D.
Proof.
  induction D as [|c D IH]; intros b j H; [apply take_nil|].
  destruct j as [|j]; [cbn [length] in H; lia|]. cbn [length take]. f_equal. apply IH. cbn [length] in H. lia.
Qed.

(* what the first speaker has written is empty or starts with the head of the first chunk *)
Lemma take_head r D1 k : take true k ((70 :: r) :: D1) = [] \/ exists r', take true k ((70 :: r) :: D1) = 70 :: r'.
Proof. destruct k as [|k]; [left; reflexivity|right]. cbn [take app]. eexists. reflexivity. Qed.

(* ================================================================================== *)
(* 1. A side whose input ends at a chunk boundary stops there                          *)
(* ================================================================================== *)
Lemma fin_lost s : fin_state (xerr EConnLost) s = s.
Proof. reflexivity. Qed.

Lemma read_reply_empty f s : s_in s = [] -> read_reply (S f) s = RFail EConnLost (set_in s []).
Proof. intros H. cbn [read_reply]. unfold next_line. rewrite H. reflexivity. Qed.

(* the listener with nothing to read *)
Lemma listen_empty sy : s_in sy = [] -> wire (final false sy) = wire sy.
Proof.
  intros H.
  assert (E : inbound_loop (S (length (s_in sy))) sy [] [] = RFail EConnLost (set_in sy [])).
  { cbn [inbound_loop]. unfold next_line. rewrite H. reflexivity. }
  rewrite (final_recv_fail _ _ _ E), fin_lost. reflexivity.
Qed.

(* the receiver of a block with nothing to read: it waits for the first accepted transfer *)
Lemma receive_empty B : forall A s, length A = length B -> s_in s = [] ->
  receive_accepted s (zip_props B A) = match xfers B A with [] => RcOk s | _ => RcErr EConnLost s end.
Proof.
  induction B as [|p ps IH]; intros A s Hl Hin; [destruct A; reflexivity|].
  destruct A as [|a r]; [discriminate|]. cbn [length] in Hl. injection Hl as Hl.
  rewrite zip_props_cons. cbn [receive_accepted xfers]. change (i_answer (iprop_of p a)) with a.
  destruct a; cbn [app]; [|apply IH; assumption..].
  unfold read_compressed. rewrite Hin. unfold xfer_bytes. cbv zeta. cbn [app]. reflexivity.
Qed.

(* the speaker with a block and nothing to read: the proposals, then it waits for the answer *)
Lemma speak_block_empty sx p ps :
  h_present (s_h sx) = true -> sort_props (pendh (s_h sx)) = p :: ps -> s_in sx = [] ->
  wire (final true sx) = wire sx ++ proposal_bytes (firstn (N.to_nat MaxBlockSize) (p :: ps)).
Proof.
  intros Hpr Hsort Hin.
  pose proof (outbound_present sx Hpr) as Eo. rewrite Hsort in Eo.
  destruct (send_start _ _ _ _ Eo) as (_&_&E2&W2&_&_&Hstep). cbv zeta in E2, W2, Hstep.
  rewrite read_reply_empty in Hstep by (rewrite E2; exact Hin).
  rewrite (final_send_fail _ _ _ Hstep), fin_lost. rewrite <- W2. reflexivity.
Qed.

(* the speaker with a block whose input ends with the answer line: the transfers, then it waits
   for the peer's next command *)
Lemma speak_block_answered sx p ps A :
  h_present (s_h sx) = true -> sort_props (pendh (s_h sx)) = p :: ps ->
  let B := firstn (N.to_nat MaxBlockSize) (p :: ps) in
  Forall prop_syn B -> length A = length B -> s_in sx = fs_line A ->
  wire (final true sx) = wire sx ++ proposal_bytes B ++ xfers B A.
Proof.
  intros Hpr Hsort B Hsyn Hl Hin.
  destruct (send_upto sx p ps A [] Hpr Hsort Hsyn Hl) as (s4&Hho&W4&I4&_).
  { rewrite app_nil_r. exact Hin. }
  fold B in Hho, W4.
  assert (Hpk : ho_peek (sent_of B A) s4 = RFail EConnLost (ev (mark_rej (sent_of B A) s4) EvBlockEnd)).
  { unfold ho_peek. cbv zeta. rewrite mark_rej_in, I4. reflexivity. }
  rewrite Hpk in Hho. rewrite (final_send_fail _ _ _ Hho), fin_lost, <- W4.
  apply wire_out. cbn [ev s_out]. apply (proj1 (mark_rej_out _ _)).
Qed.

(* ================================================================================== *)
(* 2. THE DIALOGUE from a turn boundary (after DeliverP.joint_run)                     *)
(* ================================================================================== *)
Lemma take_0 b D : take b 0 D = [].
Proof. reflexivity. Qed.
Lemma take_false_1 D : take false 1 D = [].
Proof. destruct D; reflexivity. Qed.
Lemma take_false_cons j c D : take false j (c :: D) = take true (pred j) D.
Proof. destruct j; reflexivity. Qed.
Lemma take_false_pred j D : take false (S (pred j)) D = take false j D.
Proof. destruct j; [apply take_false_1|reflexivity]. Qed.

Ltac tk := repeat (rewrite take_true_S || rewrite take_false_S || rewrite take_0 || rewrite take_false_1).
Ltac tkin H := repeat (rewrite take_true_S in H || rewrite take_false_S in H || rewrite take_0 in H || rewrite take_false_1 in H).

(* hx is the handler of the side whose turn it is (the speaker), qx its "the peer has nothing more"
   flag, hy the handler of the other side (the listener).  There is a dialogue D, starting with a
   chunk of the speaker that begins with 'F', such that for every j the speaker, fed the listener's
   chunks among the first j, writes its own chunks among the first j+1, and the listener, fed the
   speaker's chunks among the first j, writes its own among the first j+1. *)
Lemma joint_pp : forall n hx hy (qx : bool),
  (2 * (length (pendh hx) + length (pendh hy)) + (if qx then 0 else 1) < n)%nat ->
  okdir hx hy -> okdir hy hx -> (qx = true -> pendh hy = []) ->
  exists D, (exists r D1, D = (70 :: r) :: D1) /\
    (length D <= 4 * (length (pendh hx) + length (pendh hy)) + (if qx then 1 else 2))%nat /\
    (forall j sx, s_h sx = hx -> s_remote_nomsgs sx = qx -> s_in sx = take false j D ->
       wire (final true sx) = wire sx ++ take true (S j) D) /\
    (forall j sy, s_h sy = hy -> s_in sy = take true j D ->
       wire (final false sy) = wire sy ++ take false (S j) D).
Proof.
  induction n as [|n IH]; intros hx hy qx Hn Oxy Oyx Hq; [lia|].
  pose proof Oxy as (Px&Lx&Wx&Nx&Fx). pose proof Oyx as (Py&Ly&Wy&Ny&Fy).
  destruct (sort_props (pendh hx)) as [|p ps] eqn:Es.
  - (* nothing to propose *)
    apply sort_props_nil in Es. destruct qx.
    + (* FQ *)
      specialize (Hq eq_refl).
      exists [[70; 81; 13]]. split; [eexists _, _; reflexivity|]. split; [cbn [length]; lia|]. split.
      * intros j sx Hx Qx Ix.
        assert (Hho : handle_outbound sx = ROk (true, wr (ev sx EvGetOutbound) [70; 81; 13])).
        { rewrite send_none by (rewrite Hx; assumption). rewrite Qx. reflexivity. }
        rewrite (final_send_quit _ _ Hho), wire_wr, wire_ev. tk. rewrite take_nil, app_nil_r. reflexivity.
      * intros j sy Hy Iy. destruct j as [|j].
        -- rewrite (listen_empty sy Iy). tk. rewrite app_nil_r. reflexivity.
        -- tkin Iy. rewrite take_nil, app_nil_r in Iy.
           assert (Hil : inbound_loop (S (length (s_in sy))) sy [] [] = ROk (true, [], set_in sy [])).
           { apply inbound_fq; [rewrite Iy; reflexivity|lia]. }
           rewrite (final_recv_quit _ _ _ _ Hil eq_refl). tk. rewrite take_nil, app_nil_r. reflexivity.
    + (* FF, then the peer's turn *)
      destruct (IH hy hx true) as (D'&(r&D1&ED)&HL&HS&HLs); try assumption.
      { rewrite Es in *. cbn [length] in *. lia. }
      { intros _. exact Es. }
      exists ([70; 70; 13] :: D'). split; [eexists _, _; reflexivity|].
      split; [rewrite Es in *; cbn [length] in *; lia|]. split.
      * intros j sx Hx Qx Ix.
        assert (Hho : handle_outbound sx = ROk (false, wr (ev sx EvGetOutbound) [70; 70; 13])).
        { rewrite send_none by (rewrite Hx; assumption). rewrite Qx. reflexivity. }
        rewrite (final_send_ok _ _ Hho). rewrite take_false_cons in Ix.
        rewrite (HLs (pred j) (wr (ev sx EvGetOutbound) [70; 70; 13]) Hx Ix).
        rewrite wire_wr, wire_ev, take_false_pred, take_true_S, <- app_assoc. reflexivity.
      * intros j sy Hy Iy. destruct j as [|j].
        -- rewrite (listen_empty sy Iy). tk. rewrite app_nil_r. reflexivity.
        -- tkin Iy.
           assert (Hil : inbound_loop (S (length (s_in sy))) sy [] [] =
                         ROk (false, [], set_nomsgs (set_in sy (take false j D')) true)).
           { apply inbound_ff; [exact Iy|lia]. }
           rewrite (final_recv_ok _ _ _ _ Hil eq_refl).
           rewrite (HS j (set_nomsgs (set_in sy (take false j D')) true) Hy eq_refl eq_refl). tk. reflexivity.
  - (* a block of proposals *)
    destruct (block_facts hx p ps Lx Wx Nx Es) as (Bne&HpB&HB&NdB&LB&WB&[rB ErB]). cbv zeta in *.
    set (B := firstn (N.to_nat MaxBlockSize) (p :: ps)) in *.
    set (A := map (fun q => policy_of hy (o_mid q)) B).
    assert (Hl : length A = length B) by (unfold A; apply map_length).
    set (G := rev (sel AAccept B A) ++ rev (sel AReject B A) ++ rev (sel ADefer B A)).
    set (hx' := with_gone hx (G ++ h_gone hx)).
    assert (HG : forall m, In m (G ++ h_gone hx) <-> In m (map o_mid B) \/ In m (h_gone hx)).
    { intros m. unfold G. rewrite <- !app_assoc. apply gone_after, Hl. }
    assert (Hlt : (length (pendh hx') < length (pendh hx))%nat).
    { destruct (HB p HpB) as [Hp1 Hp2]. apply (pend_after hx G p); try assumption. apply HG. left. apply in_map, HpB. }
    destruct (IH hy hx' false) as (D'&(r&D1&ED)&HL&HS&HLs).
    { destruct qx; lia. }
    { eapply okdir_hsame; [apply hsame_refl|apply hsame_with_gone|exact Oyx]. }
    { eapply okdir_hsame; [apply hsame_with_gone|apply hsame_refl|exact Oxy]. }
    { discriminate. }
    assert (Hsyn : Forall prop_syn B) by (eapply Forall_impl; [|exact LB]; intros q [Hq' _]; exact Hq').
    (* the speaker *)
    assert (SP0 : forall sx, s_h sx = hx -> s_in sx = [] -> wire (final true sx) = wire sx ++ proposal_bytes B).
    { intros sx Hx Ix. apply (speak_block_empty sx p ps); [rewrite Hx; exact Px|rewrite Hx; exact Es|exact Ix]. }
    assert (SP2 : forall sx k, s_h sx = hx -> s_in sx = fs_line A ++ take true k D' ->
                  wire (final true sx) = wire sx ++ proposal_bytes B ++ xfers B A ++ take false (S k) D').
    { intros sx k Hx Ix. destruct k as [|k].
      - tkin Ix. rewrite app_nil_r in Ix. tk. rewrite app_nil_r.
        apply (speak_block_answered sx p ps A); [rewrite Hx; exact Px|rewrite Hx; exact Es|exact Hsyn|exact Hl|exact Ix].
      - destruct (send_fwd sx p ps A (r ++ take false k D1)) as (sx'&Ex&Hho&Wsx&Isx&_&_&_&Hsx&Qsx).
        { rewrite Hx. exact Px. } { rewrite Hx. exact Es. } { exact Hsyn. } { exact Hl. }
        { rewrite Ix, ED, take_true_S. reflexivity. }
        fold B in Hho, Wsx, Hsx.
        assert (Hsx' : s_h sx' = hx') by (rewrite Hsx, Hx; unfold hx', G; rewrite <- !app_assoc; reflexivity).
        rewrite (final_send_ok _ _ Hho).
        rewrite (HLs (S k) sx' Hsx'); [rewrite Wsx, <- !app_assoc; reflexivity|].
        rewrite Isx, ED, take_true_S. reflexivity. }
    (* the listener *)
    assert (LP2 : forall sy k, s_h sy = hy -> s_in sy = proposal_bytes B ++ xfers B A ++ take false k D' ->
                  wire (final false sy) = wire sy ++ fs_line A ++ take true (S k) D').
    { intros sy k Hy Iy.
      destruct (recv_fwd sy B (take false k D')) as (sy1&sy2&Ey&Hil&Hrc&Isy&Wsy&Hsy&Qsy&_); try assumption.
      { rewrite Hy. exact Py. }
      { intros q Hq'. rewrite Hy. apply Fx, HB, Hq'. }
      { rewrite Hy. fold A. exact Iy. }
      rewrite Hy in Hil, Hrc, Wsy. fold A in Hil, Hrc, Wsy.
      rewrite (final_recv_ok _ _ _ _ Hil Hrc).
      rewrite (HS k sy2); [rewrite Wsy, <- app_assoc; reflexivity|congruence|exact Qsy|exact Isy]. }
    assert (LP1 : xfers B A <> [] -> forall sy, s_h sy = hy -> s_in sy = proposal_bytes B ->
                  wire (final false sy) = wire sy ++ fs_line A).
    { intros Hx0 sy Hy Iy.
      destruct (recv_block_fwd sy B []) as (sy1&E1&Hil&I1&W1&_); try assumption.
      { rewrite Hy. exact Py. } { rewrite app_nil_r. exact Iy. }
      rewrite Hy in Hil, W1. fold A in Hil, W1.
      pose proof (receive_empty B A sy1 Hl I1) as Hrc.
      destruct (xfers B A) eqn:EX; [congruence|].
      rewrite (final_recv_err _ _ _ _ _ _ Hil Hrc), fin_lost. exact W1. }
    assert (HX : xfers B A = [] \/ xfers B A <> []) by (destruct (xfers B A); [left; reflexivity|right; discriminate]).
    destruct HX as [EX|NX].
    + (* nothing is accepted: the answer line and the answerer's next command are one chunk *)
      subst D'. rewrite EX in SP2, LP2. cbn [app] in SP2, LP2.
      exists (proposal_bytes B :: (fs_line A ++ 70 :: r) :: D1).
      split; [rewrite ErB; eexists _, _; reflexivity|].
      split; [cbn [length] in *; destruct qx; lia|]. split.
      * intros j sx Hx _ Ix. destruct j as [|[|k]].
        -- tkin Ix. rewrite (SP0 sx Hx Ix). tk. rewrite app_nil_r. reflexivity.
        -- tkin Ix. rewrite (SP0 sx Hx Ix). tk. rewrite app_nil_r. reflexivity.
        -- tkin Ix.
           assert (Ix' : s_in sx = fs_line A ++ take true (S k) ((70 :: r) :: D1)).
           { rewrite Ix, take_true_S, <- app_assoc. reflexivity. }
           rewrite (SP2 sx (S k) Hx Ix'). tk. reflexivity.
      * intros j sy Hy Iy. destruct j as [|[|k]].
        -- rewrite (listen_empty sy Iy). tk. rewrite app_nil_r. reflexivity.
        -- tkin Iy.
           assert (Iy' : s_in sy = proposal_bytes B ++ take false 0 ((70 :: r) :: D1)) by exact Iy.
           rewrite (LP2 sy 0%nat Hy Iy'). tk. rewrite <- app_assoc. reflexivity.
        -- tkin Iy.
           assert (Iy' : s_in sy = proposal_bytes B ++ take false (S k) ((70 :: r) :: D1)) by exact Iy.
           rewrite (LP2 sy (S k) Hy Iy'). tk. rewrite <- app_assoc. reflexivity.
    + (* the transfers are a chunk of their own *)
      specialize (LP1 NX).
      exists (proposal_bytes B :: fs_line A :: xfers B A :: D').
      split; [rewrite ErB; eexists _, _; reflexivity|].
      split; [cbn [length] in *; destruct qx; lia|]. split.
      * intros j sx Hx _ Ix. destruct j as [|[|[|k]]].
        -- tkin Ix. rewrite (SP0 sx Hx Ix). tk. rewrite app_nil_r. reflexivity.
        -- tkin Ix. rewrite (SP0 sx Hx Ix). tk. rewrite app_nil_r. reflexivity.
        -- tkin Ix.
           assert (Ix' : s_in sx = fs_line A ++ take true 0 D') by exact Ix.
           rewrite (SP2 sx 0%nat Hx Ix'). tk. reflexivity.
        -- tkin Ix. rewrite (SP2 sx k Hx Ix). tk. reflexivity.
      * intros j sy Hy Iy. destruct j as [|[|[|k]]].
        -- rewrite (listen_empty sy Iy). tk. rewrite app_nil_r. reflexivity.
        -- tkin Iy. rewrite app_nil_r in Iy. rewrite (LP1 sy Hy Iy). tk. rewrite app_nil_r. reflexivity.
        -- tkin Iy. rewrite app_nil_r in Iy. rewrite (LP1 sy Hy Iy). tk. rewrite app_nil_r. reflexivity.
        -- tkin Iy. rewrite (LP2 sy k Hy Iy). tk. reflexivity.
Qed.

(* ================================================================================== *)
(* 3. The handshake with nothing to read                                               *)
(* ================================================================================== *)
Lemma hs_empty s s' : s_in s = [] -> handshake s <> ROk s'.
Proof.
  intros Hin. unfold handshake, do_send_handshake. cbv zeta. destruct (s_master s).
  - set (s1 := fold_left (fun acc l => wr acc (l ++ [13])) (s_motd s) s).
    assert (I1 : s_in s1 = []) by (unfold s1; rewrite (fold_wr_in (fun l : bytes => l ++ [13])); exact Hin).
    destruct (send_handshake (s_cfg s1) []) as [b|]; [|discriminate].
    cbn [read_handshake wr s_in]. rewrite I1. discriminate.
  - cbn [read_handshake]. rewrite Hin. discriminate.
Qed.

Lemma pendh_le h : (length (pendh h) <= length (h_outbox h))%nat.
Proof.
  unfold pendh. induction (h_outbox h) as [|p l IH]; [cbn; lia|]. cbn [filter].
  destruct (negb _); cbn [length]; lia.
Qed.

(* ================================================================================== *)
(* 4. THE DIALOGUE of a ready pair                                                     *)
(* ================================================================================== *)
(* master m, slave s: the master wrote the first chunk *)
Lemma dialogue_ms (m s : side_cfg) :
  c_master m = true -> c_master s = false -> hs_compat m s -> side_ready m s -> side_ready s m ->
  exists D, (length D <= 4 * (length (h_outbox (c_handler m)) + length (h_outbox (c_handler s))) + 3)%nat /\
    (forall j, x_wire (exchange m (take false j D)) = take true (S j) D) /\
    (forall j, x_wire (exchange s (take true j D)) = take false (S j) D).
Proof.
  intros Mm Ms (Mg&Sg&sm&ss&Hm1&Hm2&Hm3&Hs1&Hs2&Hs3) (Em&Om&Gm) (Es&Os&Gs).
  pose proof Om as (Pm&_). pose proof Os as (Ps&_).
  destruct (joint_pp (S (2 * (length (pendh (c_handler s)) + length (pendh (c_handler m))) + 1))%nat
              (c_handler s) (c_handler m) false) as (D&(r&D1&ED)&HL&HS&HLs); try assumption; [lia|discriminate|].
  assert (Bm : h_present (c_handler m) && h_prepare_err (c_handler m) = false) by (rewrite Em; apply andb_false_r).
  assert (Bs : h_present (c_handler s) && h_prepare_err (c_handler s) = false) by (rewrite Es; apply andb_false_r).
  destruct (init_state_facts s Mg) as (_&_&Fs&_). destruct (init_state_facts m (Sg ++ [70])) as (_&_&Fm&Mm'&_).
  destruct (init_state_present s Mg Ps) as [_ Qs].
  (* the master with nothing to read writes its greeting *)
  assert (Hm0 : x_wire (exchange m []) = Mg).
  { pose proof (hs_back (Sg ++ [70]) (init_state m []) sm) as Hb. rewrite <- init_state_ext in Hb. cbn [app] in Hb.
    destruct (Hb Hm1) as [(s1&H1&_)|(s1&H1&_)].
    - exfalso. apply (hs_empty _ _ (proj1 (init_state_facts m [])) H1).
    - pose proof (handshake_master_out (init_state m (Sg ++ [70])) [] sm (eq_trans Mm' Mm) Hm1) as Ho.
      rewrite init_state_set_in, H1 in Ho.
      rewrite (proj1 (exchange_fail m [] _ _ Bm H1)), fin_lost, <- Hm3. apply wire_out. exact Ho. }
  (* the slave with nothing to read writes nothing *)
  assert (Hs0 : x_wire (exchange s []) = []).
  { pose proof (hs_back Mg (init_state s []) ss) as Hb. rewrite <- init_state_ext in Hb. cbn [app] in Hb.
    destruct (Hb Hs1) as [(s1&H1&_)|(s1&H1&_)].
    - exfalso. apply (hs_empty _ _ (proj1 (init_state_facts s [])) H1).
    - assert (Msl : s_master (init_state s []) = false).
      { rewrite (proj1 (proj2 (proj2 (proj2 (init_state_facts s []))))). exact Ms. }
      pose proof (handshake_slave_fail_out _ _ _ Msl H1) as Ho.
      rewrite (proj1 (exchange_fail s [] _ _ Bs H1)), fin_lost. unfold wire. rewrite Ho.
      rewrite (proj1 (proj2 (init_state_facts s []))). reflexivity. }
  exists (Mg :: (Sg ++ 70 :: r) :: D1). split.
  { pose proof (pendh_le (c_handler m)). pose proof (pendh_le (c_handler s)). rewrite ED in HL. cbn [length] in *. unfold bytes in *. lia. }
  split.
  - intros j. destruct j as [|[|k]].
    + tk. rewrite app_nil_r. exact Hm0.
    + tk. rewrite app_nil_r. exact Hm0.
    + tk.
      assert (Hhm : handshake (init_state m ((Sg ++ [70]) ++ (r ++ take false k D1))) = ROk (ext (r ++ take false k D1) sm)).
      { rewrite init_state_ext. apply hs_forward, Hm1. }
      replace ((Sg ++ 70 :: r) ++ take false k D1) with ((Sg ++ [70]) ++ (r ++ take false k D1))
        by (rewrite <- !app_assoc; reflexivity).
      rewrite (proj1 (exchange_ok m _ _ Bm Hhm)), Mm. cbn [negb].
      rewrite (HLs (S k) (ext (r ++ take false k D1) sm)).
      * rewrite ED. tk. change (wire (ext (r ++ take false k D1) sm)) with (wire sm). rewrite Hm3. reflexivity.
      * cbn [ext set_in s_h]. rewrite (handshake_h _ _ Hm1). exact Fm.
      * cbn [ext set_in s_in]. rewrite Hm2, ED, take_true_S. reflexivity.
  - intros j. destruct j as [|k].
    + tk. exact Hs0.
    + tk. rewrite take_false_cons.
      assert (Hhs : handshake (init_state s (Mg ++ take true (pred k) D1)) = ROk (ext (take true (pred k) D1) ss)).
      { rewrite init_state_ext. apply hs_forward, Hs1. }
      rewrite (proj1 (exchange_ok s _ _ Bs Hhs)), Ms. cbn [negb].
      rewrite (HS k (ext (take true (pred k) D1) ss)).
      * rewrite ED. tk. change (wire (ext (take true (pred k) D1) ss)) with (wire ss). rewrite Hs3, <- app_assoc. reflexivity.
      * cbn [ext set_in s_h]. rewrite (handshake_h _ _ Hs1). exact Fs.
      * cbn [ext set_in s_remote_nomsgs]. rewrite (handshake_nomsgs _ _ Hs1). exact Qs.
      * cbn [ext set_in s_in]. rewrite Hs2, ED, take_false_cons. reflexivity.
Qed.

(* either side may be the master; the master's chunks are the ones counted by `take true` *)
Theorem dialogue (a b : side_cfg) :
  c_master a = negb (c_master b) ->
  hs_compat (if c_master a then a else b) (if c_master a then b else a) ->
  side_ready a b -> side_ready b a ->
  exists D, (length D <= 4 * (length (h_outbox (c_handler a)) + length (h_outbox (c_handler b))) + 3)%nat /\
    (forall j, x_wire (exchange a (take (negb (c_master a)) j D)) = take (c_master a) (S j) D) /\
    (forall j, x_wire (exchange b (take (c_master a) j D)) = take (negb (c_master a)) (S j) D).
Proof.
  intros Hrole Hhs Ra Rb. destruct (c_master a) eqn:Ma.
  - assert (Mb : c_master b = false) by (destruct (c_master b); [discriminate|reflexivity]).
    exact (dialogue_ms a b Ma Mb Hhs Ra Rb).
  - assert (Mb : c_master b = true) by (destruct (c_master b); [reflexivity|discriminate]).
    destruct (dialogue_ms b a Mb Ma Hhs Rb Ra) as (D&HL&H1&H2). exists D. cbn [negb].
    split; [lia|]. split; assumption.
Qed.

(* ================================================================================== *)
(* 5. THE ITERATION FROM THE EMPTY INPUT                                               *)
(* ================================================================================== *)
(* two chunks per round *)
Lemma iter_in_take a b (ba : bool) D :
  (forall j, x_wire (exchange a (take (negb ba) j D)) = take ba (S j) D) ->
  (forall j, x_wire (exchange b (take ba j D)) = take (negb ba) (S j) D) ->
  forall k j, iter_in k a b (take (negb ba) j D) = take (negb ba) (j + 2 * k) D.
Proof.
  intros Ha Hb. induction k as [|k IH]; intros j; cbn [iter_in].
  - f_equal. lia.
  - rewrite Ha, Hb, IH. f_equal. lia.
Qed.

(* once all chunks are there, the pair of streams is closed *)
Lemma take_closed a b (ba : bool) D j :
  (forall j, x_wire (exchange a (take (negb ba) j D)) = take ba (S j) D) ->
  (forall j, x_wire (exchange b (take ba j D)) = take (negb ba) (S j) D) ->
  (length D <= j)%nat ->
  closed a b (take (negb ba) j D) (take ba (length D) D).
Proof.
  intros Ha Hb Hj. unfold closed. rewrite Ha.
  rewrite (take_all D ba (S j)) by lia. split; [reflexivity|].
  rewrite <- (take_all D ba (S j)) by lia. rewrite Hb.
  rewrite (take_all D (negb ba) (S (S j))) by lia. rewrite (take_all D (negb ba) j) by lia. reflexivity.
Qed.

Lemma iter_in_fix a b i : x_wire (exchange b (x_wire (exchange a i))) = i -> forall k, iter_in k a b i = i.
Proof. intros H. induction k as [|k IH]; cbn [iter_in]; [reflexivity|]. rewrite H. exact IH. Qed.

(* the iteration returns the first closed pair it meets *)
Lemma pair_iter_reach a b : forall k n i, (k <= n)%nat ->
  let j := iter_in k a b i in
  x_wire (exchange b (x_wire (exchange a j))) = j ->
  pair_iter n a b i = (exchange a j, exchange b (x_wire (exchange a j))).
Proof.
  induction k as [|k IH]; intros n i Hn; cbv zeta; cbn [iter_in].
  - intros H. apply pair_iter_closed. split; [reflexivity|exact H].
  - destruct n as [|n]; [lia|]. intros H. cbn [pair_iter].
    destruct (beq_bytes (x_wire (exchange b (x_wire (exchange a i)))) i) eqn:E.
    + apply beq_bytes_true in E. rewrite E, (iter_in_fix a b i E k). reflexivity.
    + apply (IH n _ (le_S_n _ _ Hn) H).
Qed.

(* ================================================================================== *)
(* 6. CONVERGENCE                                                                      *)
(* ================================================================================== *)
(* the number of rounds after which the iteration from [] has certainly reached the closed pair *)
Definition iter_bound (a b : side_cfg) : nat :=
  (2 * (length (h_outbox (c_handler a)) + length (h_outbox (c_handler b))) + 2)%nat.

Theorem pair_iter_converges (a b : side_cfg) :
  c_master a = negb (c_master b) ->
  hs_compat (if c_master a then a else b) (if c_master a then b else a) ->
  side_ready a b -> side_ready b a ->
  exists in_a in_b, closed a b in_a in_b /\
    iter_in (iter_bound a b) a b [] = in_a /\
    forall n, (iter_bound a b <= n)%nat -> pair_iter n a b [] = (exchange a in_a, exchange b in_b).
Proof.
  intros Hrole Hhs Ra Rb. destruct (dialogue a b Hrole Hhs Ra Rb) as (D&HL&Ha&Hb).
  set (ba := c_master a) in *. set (k0 := iter_bound a b).
  assert (Ek : iter_in k0 a b [] = take (negb ba) (2 * k0) D).
  { change (@nil N) with (take (negb ba) 0 D) at 1. rewrite (iter_in_take a b ba D Ha Hb k0 0%nat). reflexivity. }
  assert (Hc : closed a b (take (negb ba) (2 * k0) D) (take ba (length D) D)).
  { apply take_closed; [exact Ha|exact Hb|]. unfold k0, iter_bound. lia. }
  exists (take (negb ba) (2 * k0) D), (take ba (length D) D). split; [exact Hc|]. split; [exact Ek|].
  intros n Hn. pose proof (pair_iter_reach a b k0 n [] Hn) as Hr. cbv zeta in Hr. rewrite Ek in Hr.
  destruct Hc as [C1 C2]. rewrite C1 in Hr. apply Hr. exact C2.
Qed.

(* THE RESULT: the executable pair run from the empty input, after iter_bound rounds or more, is the
   complete exchange: a closed pair of streams, both results nil, everything delivered exactly once
   in both directions *)
Theorem pair_iter_delivers_from_empty (a b : side_cfg) (n : nat) :
  c_master a = negb (c_master b) ->
  hs_compat (if c_master a then a else b) (if c_master a then b else a) ->
  side_ready a b -> side_ready b a ->
  (iter_bound a b <= n)%nat ->
  let '(oa, ob) := pair_iter n a b [] in
  closed a b (x_wire ob) (x_wire oa) /\ oa = exchange a (x_wire ob) /\ ob = exchange b (x_wire oa) /\
  x_res oa = XNil /\ x_res ob = XNil /\
  delivered (c_handler a) (c_handler b) oa ob /\ delivered (c_handler b) (c_handler a) ob oa /\
  (forall p, In p (h_outbox (c_handler a)) -> policy_of (c_handler b) (o_mid p) = AAccept ->
     delivered_once ob (o_mid p) /\ sent_once oa (o_mid p)) /\
  (forall p, In p (h_outbox (c_handler b)) -> policy_of (c_handler a) (o_mid p) = AAccept ->
     delivered_once oa (o_mid p) /\ sent_once ob (o_mid p)).
Proof.
  intros Hrole Hhs Ra Rb Hn.
  destruct (pair_iter_converges a b Hrole Hhs Ra Rb) as (ia&ib&Hc&_&Hit). rewrite (Hit n Hn).
  destruct (closed_exchange a b Hrole Hhs Ra Rb ia ib Hc) as (R1&R2&D1&D2). destruct Hc as [C1 C2].
  rewrite C1, C2. split; [split; assumption|]. split; [reflexivity|]. split; [reflexivity|].
  split; [exact R1|]. split; [exact R2|]. split; [exact D1|]. split; [exact D2|].
  split; intros p Hp Hacc; eapply delivered_once_of; eassumption.
Qed.

(* the conclusion of PairIter.C01_exchange_statement, for the n of that statement, under the
   hypotheses that make it true (DeliverP.C01_exchange_statement_is_false: they cannot be dropped) *)
Theorem C01_exchange_holds (a b : side_cfg) (n : nat) :
  c_master a = negb (c_master b) ->
  hs_compat (if c_master a then a else b) (if c_master a then b else a) ->
  side_ready a b -> side_ready b a ->
  (n >= 4 * (length (h_outbox (c_handler a)) + length (h_outbox (c_handler b))) + 8)%nat ->
  let '(oa, ob) := pair_iter n a b [] in
  x_res oa = XNil /\ x_res ob = XNil /\
  forall p, In p (h_outbox (c_handler a)) -> policy_of (c_handler b) (o_mid p) = AAccept ->
            delivered_once ob (o_mid p) /\ sent_once oa (o_mid p).
Proof.
  intros Hrole Hhs Ra Rb Hn.
  assert (Hn' : (iter_bound a b <= n)%nat) by (unfold iter_bound; lia).
  pose proof (pair_iter_delivers_from_empty a b n Hrole Hhs Ra Rb Hn') as H.
  destruct (pair_iter n a b []) as [oa ob]. destruct H as (_&_&_&R1&R2&_&_&H1&_).
  split; [exact R1|]. split; [exact R2|exact H1].
Qed.

(* the same with the hypotheses decided by computation (PairP.hs_check, DeliverP.side_check) *)
Corollary C01_exchange_check (a b : side_cfg) (n : nat) :
  c_master a = negb (c_master b) ->
  hs_check (if c_master a then a else b) (if c_master a then b else a) = true ->
  side_check a b = true -> side_check b a = true ->
  (n >= 4 * (length (h_outbox (c_handler a)) + length (h_outbox (c_handler b))) + 8)%nat ->
  let '(oa, ob) := pair_iter n a b [] in
  x_res oa = XNil /\ x_res ob = XNil /\
  forall p, In p (h_outbox (c_handler a)) -> policy_of (c_handler b) (o_mid p) = AAccept ->
            delivered_once ob (o_mid p) /\ sent_once oa (o_mid p).
Proof.
  intros H1 H2 H3 H4. apply C01_exchange_holds; [exact H1|apply hs_check_sound, H2|apply side_check_sound, H3|apply side_check_sound, H4].
Qed.

(* iter_bound is attained: two sides with empty outboxes, a the slave; after one round the run of
   a is still cut, after two (= iter_bound) the pair is closed *)
Example iter_bound_attained :
  let a := cx_side false [] [] [] in let b := cx_side true [] [] [] in
  iter_bound a b = 2%nat /\ x_res (fst (pair_iter 1 a b [])) = XConnLost /\ x_res (fst (pair_iter 2 a b [])) = XNil.
Proof. vm_compute. repeat split. Qed.

Print Assumptions joint_pp.
Print Assumptions dialogue.
Print Assumptions pair_iter_converges.
Print Assumptions pair_iter_delivers_from_empty.
Print Assumptions C01_exchange_holds.
Print Assumptions C01_exchange_check.
Print Assumptions iter_bound_attained.

(* NOT DONE / REMARKS
   - iter_bound counts one block per outbox entry and four chunks per block (proposals, answer,
     transfers, the peer's FF); with blocks of up to five proposals the iteration is faster for
     larger outboxes (dx_iter: 8 messages, closed after 6 rounds; iter_bound = 18).  It is attained
     for empty outboxes (iter_bound_attained).
   - Uniqueness of the closed pair is not stated separately; pair_iter_converges gives THE pair the
     iteration reaches, and DeliverP.closed_exchange covers every closed pair.
   - Monotonicity of `exchange` in its input in general (CutP.exchange_cut without the EOT corner) is
     not needed and not proved: only the truncations at chunk boundaries are followed. *)
