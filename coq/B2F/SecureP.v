(* B2F/SecureP.v — proofs about B2F/Secure.v and B2F/Md5.v *)
From Coq Require Import Lia ZifyN ZifyNat ZifyBool.
From Verif Require Import Base.Bytes B2F.Md5 B2F.Secure gen.Tables.
Open Scope N_scope.
Ltac Zify.zify_post_hook ::= Z.div_mod_to_equations.

(* ---- RFC 1321 test suite (A.5) ---- *)
Definition hexdigest (l : bytes) : bytes :=
  flat_map (fun b => [ (if b / 16 <? 10 then 48 + b / 16 else 87 + b / 16);
                       (if b mod 16 <? 10 then 48 + b mod 16 else 87 + b mod 16) ]) l.

Example md5_empty : hexdigest (md5 []) =
  [100;52;49;100;56;99;100;57;56;102;48;48;98;50;48;52;101;57;56;48;48;57;57;56;101;99;102;56;52;50;55;101].
Proof. vm_compute. reflexivity. Qed.                      (* d41d8cd98f00b204e9800998ecf8427e *)
Example md5_a : hexdigest (md5 [97]) =
  [48;99;99;49;55;53;98;57;99;48;102;49;98;54;97;56;51;49;99;51;57;57;101;50;54;57;55;55;50;54;54;49].
Proof. vm_compute. reflexivity. Qed.                      (* 0cc175b9c0f1b6a831c399e269772661 *)
Example md5_abc : hexdigest (md5 [97;98;99]) =
  [57;48;48;49;53;48;57;56;51;99;100;50;52;102;98;48;100;54;57;54;51;102;55;100;50;56;101;49;55;102;55;50].
Proof. vm_compute. reflexivity. Qed.                      (* 900150983cd24fb0d6963f7d28e17f72 *)
(* "12345678901234567890123456789012345678901234567890123456789012345678901234567890": two blocks *)
Example md5_80digits :
  hexdigest (md5 (flat_map (fun _ => [49;50;51;52;53;54;55;56;57;48]) (seq 0 8))) =
  [53;55;101;100;102;52;97;50;50;98;101;51;99;57;53;53;97;99;52;57;100;97;50;101;50;49;48;55;98;54;55;97].
Proof. vm_compute. reflexivity. Qed.                      (* 57edf4a22be3c955ac49da2e2107b67a *)

(* ---- the digest is 16 bytes ---- *)
Lemma le32_wf n : Forall (fun b => b < 256) (le32 n) /\ length (le32 n) = 4%nat.
Proof.
  unfold le32; split; [|reflexivity].
  repeat constructor; apply N.mod_upper_bound; discriminate.
Qed.

Lemma md5_wf msg : length (md5 msg) = 16%nat /\ Forall (fun b => b < 256) (md5 msg).
Proof.
  unfold md5. set (st := fold_left _ _ _). split.
  - rewrite !app_length. repeat rewrite (proj2 (le32_wf _)). reflexivity.
  - repeat (apply Forall_app; split); apply le32_wf.
Qed.

(* ---- last 8 characters of the zero padded decimal rendering ---- *)
Lemma seq_split_rev a k : (a <= k)%nat -> rev (seq 0 k) = rev (seq a (k - a)) ++ rev (seq 0 a).
Proof.
  intros H. rewrite <- rev_app_distr. f_equal.
  replace k with (a + (k - a))%nat at 1 by lia. apply seq_app.
Qed.

Lemma lastn_app_exact {A} (l1 l2 : list A) n : length l2 = n -> lastn n (l1 ++ l2) = l2.
Proof.
  intros H. unfold lastn. rewrite app_length, H.
  replace (length l1 + n - n)%nat with (length l1) by lia.
  rewrite skipn_app, skipn_all, Nat.sub_diag. reflexivity.
Qed.

Lemma lastn_digitsk k a n : (a <= k)%nat -> lastn a (digitsk k n) = digitsk a n.
Proof.
  intros H. unfold digitsk. rewrite (seq_split_rev a k H), map_app.
  apply lastn_app_exact. rewrite map_length, rev_length, seq_length. reflexivity.
Qed.

Lemma digitsk8_spec v : digitsk 8 v = digits8 (v mod 10 ^ 8).
Proof.
  unfold digitsk, digits8. cbn [seq rev app map N.of_nat Pos.of_succ_nat Pos.succ].
  change (10 ^ 8) with 100000000. change (10 ^ 7) with 10000000.
  change (10 ^ 6) with 1000000. change (10 ^ 5) with 100000. change (10 ^ 4) with 10000.
  change (10 ^ 3) with 1000. change (10 ^ 2) with 100. change (10 ^ 1) with 10.
  change (10 ^ 0) with 1.
  unfold digit_char.
  repeat (apply f_equal2; [lia|]). reflexivity.
Qed.

Lemma last8_fmt (v : Z) : (0 <= v)%Z -> lastn 8 (fmt_0wd 8 v) = digits8 (Z.to_N v mod 10 ^ 8).
Proof.
  intros Hv. unfold fmt_0wd.
  destruct v as [|p|p]; try lia; rewrite lastn_digitsk by lia; apply digitsk8_spec.
Qed.

(* ---- int32 arithmetic never wraps ---- *)
Lemma wrap32_id z : (-2147483648 <= z < 2147483648)%Z -> wrap32 z = z.
Proof. unfold wrap32. lia. Qed.

Lemma lor_low8 a b : (0 <= a)%Z -> (0 <= b < 256)%Z -> Z.lor (Z.shiftl a 8) b = (a * 256 + b)%Z.
Proof.
  intros Ha Hb. rewrite Z.shiftl_mul_pow2 by lia. change (2 ^ 8)%Z with 256%Z.
  assert (H : Z.land (a * 256) b = 0%Z).
  { apply Z.bits_inj'. intros n Hn. rewrite Z.land_spec, Z.bits_0.
    destruct (Z.lt_ge_cases n 8).
    + replace (a * 256)%Z with (a * 2 ^ 8)%Z by reflexivity.
      rewrite Z.mul_pow2_bits_low by lia. reflexivity.
    + rewrite (Z.bits_above_log2 b n); [apply andb_false_r|lia|].
      destruct (Z.eq_dec b 0) as [->|]; [simpl; lia|].
      apply Z.log2_lt_pow2; [lia|]. apply Z.lt_le_trans with (2 ^ 8)%Z; [simpl; lia|].
      apply Z.pow_le_mono_r; lia. }
  rewrite <- (Z.lxor_lor _ _ H). symmetry. apply Z.add_nocarry_lxor. exact H.
Qed.

Lemma pr_step_val sum pr i :
  (0 <= pr < 4194304)%Z -> (nth i sum 0%N < 256)%N ->
  pr_step sum pr i = (pr * 256 + Z.of_N (nth i sum 0%N))%Z.
Proof.
  intros Hp Hb. unfold pr_step.
  assert (Hs : Z.shiftl pr 8 = (pr * 256)%Z) by (rewrite Z.shiftl_mul_pow2 by lia; reflexivity).
  rewrite (wrap32_id (Z.shiftl pr 8)) by (rewrite Hs; lia).
  rewrite lor_low8 by lia. apply wrap32_id. lia.
Qed.

Lemma land63 b : N.land b 63 = b mod 64.
Proof. change 63 with (N.ones 6). rewrite N.land_ones. reflexivity. Qed.

Theorem response_of_sum_spec sum :
  (4 <= length sum)%nat -> Forall (fun b => b < 256) sum ->
  response_of_sum sum = spec_of_sum sum.
Proof.
  intros Hlen Hwf.
  destruct sum as [|b0 [|b1 [|b2 [|b3 rest]]]]; simpl in Hlen; try lia.
  inversion Hwf as [|? ? H0 Hwf1]; subst. inversion Hwf1 as [|? ? H1 Hwf2]; subst.
  inversion Hwf2 as [|? ? H2 Hwf3]; subst. inversion Hwf3 as [|? ? H3 _]; subst.
  unfold response_of_sum, spec_of_sum.
  cbn [nth firstn le_to_N].
  rewrite land63.
  assert (Hb3 : (0 <= Z.of_N (b3 mod 64) < 64)%Z) by lia.
  rewrite (wrap32_id (Z.of_N (b3 mod 64))) by lia.
  rewrite (pr_step_val _ _ 2) by (cbn [nth]; lia). cbn [nth].
  rewrite (pr_step_val _ _ 1) by (cbn [nth]; lia). cbn [nth].
  rewrite (pr_step_val _ _ 0) by (cbn [nth]; lia). cbn [nth].
  rewrite last8_fmt by lia.
  f_equal. f_equal. change (2 ^ 30) with 1073741824. lia.
Qed.

Theorem secure_response_spec c p :
  secure_response c p = spec_response winlinkSecureSalt c p.
Proof.
  unfold secure_response, spec_response.
  destruct (md5_wf (c ++ p ++ winlinkSecureSalt)) as [Hl Hf].
  apply response_of_sum_spec; [lia|assumption].
Qed.

(* the salt the code uses is the published 64-byte Winlink salt (checked against the
   literal written here, independent of the source) *)
Definition published_salt : bytes :=
  [77;197;101;206;190;249;93;200;51;243;93;237;71;94;239;138;68;108;70;185;225;137;217;16;
   51;122;193;48;194;195;198;175;172;169;70;84;61;62;104;186;114;52;61;168;66;129;192;208;
   187;249;232;193;41;113;41;45;240;16;29;228;208;228;61;20].
Lemma salt_is_published : winlinkSecureSalt = published_salt.
Proof. reflexivity. Qed.

(* the response is always exactly 8 decimal digits *)
Lemma digits8_shape v : length (digits8 v) = 8%nat /\ Forall (fun b => 48 <= b <= 57) (digits8 v).
Proof.
  split; [reflexivity|]. unfold digits8, digit_char. cbn [map].
  repeat constructor; lia.
Qed.

(* ---- handshake lines ---- *)
Lemma send_handshake_no_callback cfg c :
  c <> [] -> hs_cb cfg = None -> send_handshake cfg c = None.
Proof.
  intros Hc Hcb. unfold send_handshake. rewrite Hcb. destruct c; [congruence|reflexivity].
Qed.

Lemma fw_items_spec c cb i fw :
  c <> [] ->
  fw_items c cb i fw =
  concat (map (fun '(k, a) =>
                 match k with
                 | O => 32 :: a
                 | S _ => expected_fw_item winlinkSecureSalt c a (fst (nth k cb ([], true)))
                 end)
              (combine (seq i (length fw)) fw)).
Proof.
  intros Hc. revert i. induction fw as [|a r IH]; intros i; [reflexivity|].
  cbn [fw_items length seq combine map concat]. rewrite IH. f_equal.
  destruct i as [|i']; [reflexivity|].
  destruct c as [|c0 c']; [congruence|].
  unfold expected_fw_item. destruct (nth (S i') cb ([], true)) as [pw e]. cbn [fst].
  destruct pw; [reflexivity|]. rewrite secure_response_spec. reflexivity.
Qed.

Theorem send_handshake_lines cfg c cb pw0 :
  c <> [] -> hs_cb cfg = Some cb -> nth 0 cb ([], true) = (pw0, false) ->
  send_handshake cfg c =
  Some (str_FW
        ++ concat (map (fun '(k, a) =>
                          match k with
                          | O => 32 :: a
                          | S _ => expected_fw_item winlinkSecureSalt c a (fst (nth k cb ([], true)))
                          end) (combine (seq 0 (length (hs_fw cfg))) (hs_fw cfg)))
        ++ [CR] ++ sid_line cfg
        ++ str_PR ++ spec_response winlinkSecureSalt c pw0 ++ [CR] ++ de_line cfg).
Proof.
  intros Hc Hcb H0. unfold send_handshake. rewrite Hcb.
  destruct c as [|c0 c']; [congruence|]. rewrite H0.
  rewrite fw_items_spec by congruence. rewrite secure_response_spec.
  repeat rewrite <- app_assoc. reflexivity.
Qed.

Theorem send_handshake_callback_error cfg c cb pw0 :
  c <> [] -> hs_cb cfg = Some cb -> nth 0 cb ([], true) = (pw0, true) ->
  send_handshake cfg c = None.
Proof.
  intros Hc Hcb H0. unfold send_handshake. rewrite Hcb.
  destruct c as [|c0 c']; [congruence|]. rewrite H0. reflexivity.
Qed.

(* Non-interference: the wire bytes depend on the passwords only through the responses. *)
Theorem send_handshake_noninterference cfg1 cfg2 c cb1 cb2 :
  hs_fw cfg1 = hs_fw cfg2 -> hs_name cfg1 = hs_name cfg2 -> hs_version cfg1 = hs_version cfg2 ->
  hs_target cfg1 = hs_target cfg2 -> hs_mycall cfg1 = hs_mycall cfg2 ->
  hs_locator cfg1 = hs_locator cfg2 -> hs_master cfg1 = hs_master cfg2 ->
  hs_gzip cfg1 = hs_gzip cfg2 ->
  hs_cb cfg1 = Some cb1 -> hs_cb cfg2 = Some cb2 ->
  (forall k, snd (nth k cb1 ([], true)) = snd (nth k cb2 ([], true))) ->
  (forall k, (fst (nth k cb1 ([], true)) = [] <-> fst (nth k cb2 ([], true)) = [])) ->
  (forall k, secure_response c (fst (nth k cb1 ([], true)))
           = secure_response c (fst (nth k cb2 ([], true)))) ->
  send_handshake cfg1 c = send_handshake cfg2 c.
Proof.
  intros Hfw Hn Hv Ht Hm Hl Hma Hg Hc1 Hc2 Herr Hemp Hresp.
  unfold send_handshake. rewrite Hc1, Hc2.
  assert (Hsid : sid_line cfg1 = sid_line cfg2) by (unfold sid_line; rewrite Hn, Hv, Hg; reflexivity).
  assert (Hde : de_line cfg1 = de_line cfg2) by (unfold de_line; rewrite Ht, Hm, Hl, Hma; reflexivity).
  assert (Hitems : forall i fw, fw_items c cb1 i fw = fw_items c cb2 i fw).
  { intros i fw; revert i. induction fw as [|a r IH]; intros i; [reflexivity|].
    cbn [fw_items]. rewrite IH. f_equal.
    destruct i as [|i']; [reflexivity|]. destruct c as [|c0 c']; [reflexivity|].
    specialize (Hemp (S i')). specialize (Hresp (S i')).
    destruct (nth (S i') cb1 ([], true)) as [p1 e1], (nth (S i') cb2 ([], true)) as [p2 e2].
    cbn [fst] in *. destruct p1 as [|x1 p1], p2 as [|x2 p2]; try reflexivity.
    - destruct Hemp as [Hx _]. specialize (Hx eq_refl). discriminate.
    - destruct Hemp as [_ Hx]. specialize (Hx eq_refl). discriminate.
    - rewrite Hresp. reflexivity. }
  rewrite Hfw, Hsid, Hde, Hitems.
  destruct c as [|c0 c']; [reflexivity|].
  specialize (Herr 0%nat). specialize (Hresp 0%nat).
  destruct (nth 0 cb1 ([], true)) as [p1 e1], (nth 0 cb2 ([], true)) as [p2 e2].
  cbn [fst snd] in *. subst e2. destruct e1; [reflexivity|]. rewrite Hresp. reflexivity.
Qed.
