(* B2F/ConformOneP.v -- ONE LIBRARY SIDE AGAINST AN ARBITRARY PEER (property C05 proper: "whatever a peer
   sends, the library side never emits a non-conforming byte: if the independent grammar finds fault
   with the session, it is with the peer's part").  Continues B2F/ConformP.v exactly where that file
   stops (its section "NOT DONE", items (a)-(c)).  No axioms, every statement is proved (Print Assumptions at
   the end: closed under the global context).

   MAIN RESULT (section 7)
     Theorem one_side_conforms : forall (cfg : side_cfg) (peer_stream : bytes),
       side_conf cfg -> cfg_scope cfg -> peer_ok cfg peer_stream ->
       let o := exchange cfg peer_stream in
       x_res o = XNil ->
       let '(m, s) := if c_master cfg then (x_wire o, peer_stream) else (peer_stream, x_wire o) in
       match validate m s with VOk => True | VBad who _ _ => who <> c_master cfg end.
   with
     side_conf cfg   (ConformP.v): what the grammar itself asks of the greeting fields and of every
                     prepared proposal; each condition is necessary (ConformP.v, examples kx_...);
     cfg_scope cfg   a master has no MOTD and ends its greeting with the prompt (hs_master; cx_motd,
                     cx_no_prompt: necessary); a slave has no password callback (hs_cb = None: the
                     secure login lines are OUTSIDE this proof; not shown necessary);
     peer_ok cfg p   (1) Forall elem_off (toks p): the offsets the peer asks for in "FS" lines are at
                     most 999999 (necessary: ConformP.offset_limit_cx, offset_limit_not_off);
                     (2) if the peer is the master: greet_agree (toks p): line by line, up to the end
                     of the greeting, the grammar (raw line ends with '>') and the library (cleaned line
                     ends with '>' and is no SID / ";FW" / ";PQ" line) agree on whether the line ends the
                     greeting (necessary: ConformP.greeting_desync_cx in one direction,
                     greeting_blank_cx in the other; both streams satisfy (1)).
                     Nothing is asked of the greeting of a peer that is the slave.
                     ConformP.elem_ok's condition on comment lines is NOT needed (section 0:
                     comment_clean_cases; reply_sync2 / sender_turn2 are ConformP's lemmas without it).
                     Remark peer_simple_ok: greeting lines without outer blanks/NUL whose first line
                     ending in '>' is no ";FW"/";PQ" line satisfy greet_agree.
   STEPS
     section 0  comment lines: cleanString turns a comment into a comment or into the empty line;
                the sending turn (ConformP.sender_turn) again without the comment hypothesis;
     sections 1-3  cmd_sync (next_cmd of the grammar against the proposal loop), block_sync (read_block
                against inbound_loop: a line accepted by parse_prop is read identically by
                parse_proposal, the prompt likewise), blocks_frames / read_compressed_rest (Grammar.blocks
                and Side.read_frames stop at the same byte), xfer_sync (send_transfers against
                receive_accepted);
     section 4  receiver_turn: the RECEIVING turn (plan (a) of ConformP.v), same shape as sender_turn;
     section 5  turns_conform: the induction over turns (plan (b));
     section 6  the greetings (plan (c)): slave_greet (library slave: read_handshake against
                master_handshake under greet_agree), master_greet_A / master_greet_B (library master:
                read_handshake against slave_handshake; where the library stops earlier, after a line
                ending in '>', its proposal loop skips what the grammar still reads as greeting);
     section 7  one_side_conforms;  section 8  counterexamples and remarks. *)
From Coq Require Import List NArith ZArith Bool Lia ZifyN ZifyNat ZifyBool.
From Verif Require Import Base.Bytes Base.BytesP Base.Utf8 gen.Tables Lzhuf.Dec Lzhuf.Canon Msg.Message B2F.Secure B2F.Side B2F.SideP
  B2F.TermP B2F.CodecP B2F.CutP B2F.PairDefs B2F.PairLines B2F.PairXfer B2F.PairHs B2F.PairP B2F.PairIter B2F.DeliverP
  B2F.Grammar B2F.GrammarP B2F.ConformP.
Import ListNotations.
Open Scope N_scope.

(* ================================================================================== *)
(* 0. Comment lines need no hypothesis                                                 *)
(* ================================================================================== *)
(* ConformP.elem_ok asks that a line which is a comment for the grammar (first byte ';') is a comment
   for the library after cleanString.  That is not always so (clean_comment_cx: ";<NUL>" is cleaned to
   the empty line), but the only other possibility is the EMPTY line, which the library skips in its
   proposal loop and refuses while it waits for an answer: the hypothesis is not needed. *)
Lemma skipn_add {A} : forall (b a : nat) (l : list A), skipn a (skipn b l) = skipn (b + a) l.
Proof.
  induction b as [|b IH]; intros a l; [reflexivity|]. destruct l as [|x l]; [cbn; destruct a; reflexivity|]. cbn [skipn Nat.add]. apply IH.
Qed.

Lemma trim_right_skipn : forall fuel rs, exists j, trim_right_space_rev fuel rs = skipn j rs.
Proof.
  induction fuel as [|f IH]; intros rs; [exists 0%nat; reflexivity|]. cbn [trim_right_space_rev].
  destruct rs as [|b rs']; [exists 0%nat; reflexivity|].
  destruct (decode_last_rune (b :: rs')) as [r n]. destruct (is_space_rune r); [|exists 0%nat; reflexivity].
  destruct (IH (skipn n (b :: rs'))) as [j Hj]. exists (n + j)%nat. rewrite Hj. apply skipn_add.
Qed.

Lemma trim_space_comment m : trim_space (59 :: m) = [] \/ exists m', trim_space (59 :: m) = 59 :: m'.
Proof.
  unfold trim_space, trim_space_go.
  assert (L : trim_left_space (length (59 :: m)) (59 :: m) = 59 :: m) by reflexivity.
  rewrite L. rewrite (rev'_rev (59 :: m)). cbn [rev].
  destruct (trim_right_skipn (length (59 :: m)) (rev m ++ [59])) as [j Hj]. rewrite Hj, rev'_rev.
  destruct (Nat.le_gt_cases j (length (rev m))) as [Hle|Hgt].
  - right. rewrite skipn_app. replace (j - length (rev m))%nat with 0%nat by lia. cbn [skipn].
    rewrite rev_app_distr. cbn [rev app]. eexists. reflexivity.
  - left. rewrite skipn_all2; [reflexivity|]. rewrite app_length. cbn [length]. lia.
Qed.

Lemma comment_clean_cases l : is_comment l = true -> clean_string l = [] \/ prefixb [59] (clean_string l) = true.
Proof.
  intros Hc. destruct l as [|x m]; [discriminate|].
  assert (x = 59) as ->.
  { destruct x as [|p]; [discriminate|]. do 6 (destruct p as [p|p|]; try discriminate). reflexivity. }
  unfold clean_string. destruct (trim_space_comment m) as [E|[m' E]]; rewrite E; [left; reflexivity|].
  change (59 =? 0) with false. cbv iota.
  destruct (rev' (59 :: m')) as [|z back] eqn:Er; [right; reflexivity|].
  destruct z as [|pz]; [|right; reflexivity].
  destruct back as [|y back']; [left; reflexivity|].
  rewrite rev'_rev in *. apply (f_equal (@rev N)) in Er. rewrite rev_involutive in Er. cbn [rev] in Er.
  destruct (rev back') as [|u t]; [left; reflexivity|]. cbn [app] in Er. injection Er as <- _. right. reflexivity.
Qed.

(* what is asked of a line of the peer: the offsets it asks for in an answer line respect the protocol
   limit (ConformP.offset_limit_cx) *)
Definition elem_off (e : elem) : Prop :=
  match e with Line l => forall G, fs_answers l = Some G -> Forall off_small G | _ => True end.

Lemma elem_ok_off e : elem_ok e -> elem_off e.
Proof. destruct e; try (intros; exact I). intros [_ H]. exact H. Qed.

(* ConformP.reply_sync and ConformP.sender_turn again, without the hypothesis on comment lines (the
   proofs are those of ConformP.v with comment_clean_cases in the one place where it matters) *)
Lemma reply_sync2 r mine : forall f s reply s3, read_reply f s = ROk (reply, s3) -> Forall elem_off (toks (s_in s)) ->
  forall F a b, (length (toks (s_in s)) < F)%nat ->
  match next_cmd F (mkst r mine (toks (s_in s)) a b) (negb r) with
  | inr v => notblame r v
  | inl None => True
  | inl (Some (l, st3)) =>
      match fs_answers l with
      | Some (g :: G) => l = reply /\ Forall off_small (g :: G) /\ Forall elem_off (toks (s_in s3)) /\
                         (length (toks (s_in s3)) < length (toks (s_in s)))%nat /\
                         exists b', st3 = mkst r mine (toks (s_in s3)) a b'
      | _ => True
      end
  end.
Proof.
  induction f as [|f IH]; intros s reply s3 H Hok F a b HF; [discriminate|]. cbn [read_reply] in H.
  destruct (next_line true s) as [[line s1]|e s1|] eqn:En; try discriminate.
  destruct (next_line_ok_inv _ _ _ _ En) as (l&rr&Hs&Hn&->&->).
  destruct F as [|F]; [lia|].
  destruct (line_elem s l rr Hs Hn) as [Ht|(e&rest&Ht&Hne)].
  2:{ rewrite Ht. destruct (next_cmd_theirs_bad r mine e rest a b F Hne) as [k ->]. apply negb_neq. }
  rewrite Ht in *. inversion Hok as [|? ? Ho Hok']; subst. cbn [elem_off] in Ho. cbn [length] in HF.
  cbn [next_cmd]. rewrite pop_theirs. destruct (is_comment l) eqn:Ec.
  - destruct (comment_clean_cases l Ec) as [E0|Hc]; [rewrite E0 in H; cbn in H; discriminate H|].
    assert (E1 : prefixb [70; 83; 32] (clean_string l) = false).
    { destruct (clean_string l) as [|x m]; [discriminate|]. cbn [prefixb] in Hc. apply andb_true_iff in Hc. destruct Hc as [Hx _].
      apply N.eqb_eq in Hx. subst x. reflexivity. }
    rewrite E1, Hc in H.
    specialize (IH (set_in s rr) reply s3 H Hok' F a (S b) ltac:(cbn [set_in s_in]; lia)).
    cbn [set_in s_in] in IH.
    destruct (next_cmd F (mkst r mine (toks rr) a (S b)) (negb r)) as [[[l' st3]|]|v]; try exact IH.
    destruct (fs_answers l') as [[|g G]|]; try exact I.
    destruct IH as (I1&I2&I3&I4&I5). repeat split; try assumption. cbn [length]. lia.
  - destruct (fs_answers l) as [[|g G]|] eqn:Ef; try exact I.
    destruct (fs_line_clean l g G Ef) as [Hcl Hp]. rewrite Hcl, Hp in H. injection H as <- <-.
    split; [reflexivity|]. split; [apply Ho; reflexivity|]. cbn [set_in s_in]. split; [exact Hok'|]. split; [cbn [length]; lia|].
    eexists. reflexivity.
Qed.

(* ================================================================================== *)
(* 9. ONE SIDE AGAINST ANY PEER: the library's sending turn                            *)
(* ================================================================================== *)
(* r is the role of the library (true = master).  The validator's state is synchronised with
   the library's state s at the start of a turn of the library: the elements of the library
   still to be examined are those of what the library will write from now on (tailw true s),
   the elements of the peer those of the library's unread input.  Whatever the peer sends,
   if the library's turn succeeds then either the validator does not blame the library, or the
   validator reaches the peer's turn in a state synchronised with the library's. *)
Theorem sender_turn2 r s q s1 f a b :
  handle_outbound s = ROk (q, s1) -> Forall blk_conf (hob s) -> Forall elem_off (toks (s_in s)) ->
  (length (toks (tailw true s)) + length (toks (s_in s)) < S f)%nat ->
  notblame r (Grammar.turns (S f) (mkst r (toks (tailw true s)) (toks (s_in s)) a b) r) \/
  (q = false /\ exists a' b',
     Grammar.turns (S f) (mkst r (toks (tailw true s)) (toks (s_in s)) a b) r =
     Grammar.turns f (mkst r (toks (tailw false s1)) (toks (s_in s1)) a' b') (negb r) /\
     Forall elem_off (toks (s_in s1)) /\ Forall blk_conf (hob s1) /\
     (length (toks (tailw false s1)) + length (toks (s_in s1)) < f)%nat).
Proof.
  intros Hho Hc Hok Hf. pose proof (handle_outbound_hob _ _ _ Hho) as Hhob.
  destruct (outbound s) as [props s0] eqn:Eo. destruct props as [|p ps].
  - (* nothing to propose: FF or FQ *)
    pose proof Hho as Hho'. rewrite handle_outbound_eq, Eo in Hho'. cbv zeta in Hho'.
    destruct (outbound_block _ _ _ Eo) as (_&I0&O0&_&_).
    assert (Eq : q = s_remote_nomsgs s0) by congruence.
    assert (Es1 : s1 = wr s0 (if q then [70; 81; 13] else [70; 70; 13])) by (rewrite Eq; congruence).
    destruct q.
    + left. assert (Ht : tailw true s = [70; 81; 13]).
      { apply tailw_intro. rewrite (final_send_quit _ _ Hho), Es1, wire_wr, (wire_out _ _ O0). reflexivity. }
      rewrite Ht. change (toks [70; 81; 13]) with [Line [70; 81]]. cbn [Grammar.turns].
      rewrite next_cmd_mine by reflexivity.
      change (beq_bytes [70; 81] [70; 70]) with false. change (beq_bytes [70; 81] [70; 81]) with true. cbv iota.
      destruct r; cbn [mkst gm gs nm ns]; destruct (toks (s_in s)); cbn [notblame]; try exact I; discriminate.
    + right. split; [reflexivity|].
      assert (Ht : tailw true s = [70; 70] ++ 13 :: tailw false s1).
      { apply tailw_intro. rewrite (final_send_ok _ _ Hho), tailw_eq, Es1, wire_wr, (wire_out _ _ O0), <- app_assoc. reflexivity. }
      assert (Hi : s_in s1 = s_in s) by (rewrite Es1; exact I0).
      rewrite Ht in *. rewrite toks_line in * by (split; [cbn [In]; intuition discriminate|intros x; discriminate]).
      exists (S a), b. cbn [Grammar.turns]. rewrite next_cmd_mine by reflexivity.
      change (beq_bytes [70; 70] [70; 70]) with true. cbv iota. rewrite Hi, Hhob.
      split; [reflexivity|]. split; [exact Hok|]. split; [exact Hc|]. cbn [length] in Hf. lia.
  - (* a block *)
    destruct (send_start _ _ _ _ Eo) as (Bne&HB&I2&W2&_&_&Hstep). cbv zeta in *.
    set (B := firstn (N.to_nat MaxBlockSize) (p :: ps)) in *.
    set (s2 := ho_propose B s0) in *. rewrite Hho in Hstep.
    assert (HcB : Forall blk_conf B) by (apply Forall_forall; intros x Hx; apply (proj1 (Forall_forall _ _) Hc), HB, Hx).
    assert (Hl5 : (length B <= 5)%nat) by (unfold B; change (N.to_nat MaxBlockSize) with 5%nat; apply firstn_le_length).
    pose proof (read_reply_eqo (S (length (s_in s2))) s2) as Hq.
    destruct (read_reply (S (length (s_in s2))) s2) as [[reply s3]|e s3|] eqn:Er; try discriminate.
    cbn [res_eqo] in Hq. pose proof (wire_eqo _ _ Hq) as W3.
    symmetry in Hstep. unfold ho_transfer in Hstep.
    destruct (slice_from 3 reply) as [astr|] eqn:Esl; [|discriminate].
    destruct (parse_answers (S (length astr)) astr (length B) []) as [ans|] eqn:Epa; [|discriminate].
    destruct (send_accepted s3 B ans []) as [[s4 sent_rev]|e s4|] eqn:Esa; try discriminate.
    destruct (peek_cases (rev' sent_rev) s4) as [[_ Hp]|[(b0&r0&I4&_&Hp)|(b0&r0&e&s'&_&_&_&Hp)]]; rewrite Hp in Hstep; try discriminate.
    assert (Eq : q = false) by congruence.
    assert (Es1 : s1 = ev (mark_sent (rev' sent_rev) (mark_rej (rev' sent_rev) s4)) EvBlockEnd) by congruence.
    assert (W1 : wire s1 = wire s4).
    { rewrite Es1. apply wire_out. cbn [ev s_out]. rewrite (proj1 (mark_sent_out _ _)), (proj1 (mark_rej_out _ _)). reflexivity. }
    assert (I1 : s_in s1 = s_in s4) by (rewrite Es1; cbn [ev s_in]; rewrite mark_sent_in, mark_rej_in; reflexivity).
    subst q.
    (* what the library writes in this turn begins with the block *)
    destruct (grows_wire _ _ (send_grows _ _ _ _ Eo)) as [T2 HT2]. cbv zeta in HT2. fold B in HT2. fold s2 in HT2.
    assert (Ht : tailw true s = proposal_bytes B ++ T2).
    { apply tailw_intro. rewrite HT2, W2, <- app_assoc. reflexivity. }
    rewrite Ht in *. rewrite toks_proposal_bytes in * by exact HcB.
    destruct B as [|p0 ps0] eqn:EB; [congruence|]. rewrite <- EB in *.
    set (lines := map proposal_line B) in *.
    assert (El : map Line lines = Line (proposal_line p0) :: map Line (map proposal_line ps0)) by (unfold lines; rewrite EB; reflexivity).
    rewrite El in *. cbn [Grammar.turns app].
    destruct (proposal_line_cmd p0) as (P1&P2&P3&P4).
    rewrite next_cmd_mine by exact P1. rewrite P3, P4.
    assert (Hv : valid_prompt (ck_line (block_checksum lines)) ([] ++ map proposal_line (p0 :: ps0)) = true).
    { cbn [app]. rewrite <- EB. fold lines. unfold ck_line. apply prompt_valid.
      apply Forall_forall. intros l Hin. apply in_map_iff in Hin. destruct Hin as (x&<-&Hx).
      apply proposal_line_ascii. apply (proj1 (Forall_forall _ _) HcB x Hx). }
    assert (Hl5a : (length (@nil prop) + length (p0 :: ps0) <= 5)%nat) by (rewrite <- EB; cbn [length]; lia).
    assert (Hl5b : (length ps0 < 6)%nat) by (rewrite EB in Hl5; cbn [length] in Hl5; lia).
    assert (HcB' : Forall blk_conf (p0 :: ps0)) by (rewrite <- EB; exact HcB).
    rewrite (read_block_lines r _ (ck_line (block_checksum lines)) _ ps0 p0 [] [] (S a) b 6 HcB' Hl5a Hl5b eq_refl Hv).
    cbn [app].
    (* the peer's answer line *)
    assert (Hok2 : Forall elem_off (toks (s_in s2))) by (rewrite I2; exact Hok).
    pose proof (reply_sync2 r (toks T2) _ _ _ _ Er Hok2
                  (S (length (gm (mkst r (toks T2) (toks (s_in s)) (S a + S (length ps0)) b)) +
                      length (gs (mkst r (toks T2) (toks (s_in s)) (S a + S (length ps0)) b))))
                  (S a + S (length ps0))%nat b) as Hrs.
    rewrite I2 in Hrs. specialize (Hrs ltac:(rewrite mkst_len; lia)).
    destruct (next_cmd _ (mkst r (toks T2) (toks (s_in s)) (S a + S (length ps0)) b) (negb r)) as [[[l st3]|]|v];
      [|left; cbn [notblame]; apply negb_neq|left; exact Hrs].
    destruct (fs_answers l) as [G|] eqn:Ef; [|left; cbn [notblame]; apply negb_neq].
    destruct (negb (length G =? length (map gprop_of (p0 :: ps0)))%nat) eqn:Elen; [left; cbn [notblame]; apply negb_neq|].
    apply negb_false_iff, Nat.eqb_eq in Elen. rewrite map_length, <- EB in Elen.
    destruct G as [|g G]; [rewrite EB in Elen; discriminate|].
    destruct Hrs as (->&Hsmall&Hok3&Hlen3&b'&->).
    (* both parsers read the same answers *)
    assert (Eastr : exists rr, reply = 70 :: 83 :: 32 :: rr /\ astr = rr /\ parse_fs (S (length rr)) rr = Some (g :: G)).
    { destruct (fs_line_clean _ _ _ Ef) as [_ Hpf]. destruct reply as [|x1 [|x2 [|x3 rr]]]; try discriminate.
      cbn [prefixb] in Hpf. repeat (apply andb_true_iff in Hpf; destruct Hpf as [? Hpf]).
      repeat match goal with H : (_ =? _) = true |- _ => apply N.eqb_eq in H end. subst x1 x2 x3.
      exists rr. split; [reflexivity|]. split; [cbn in Esl; congruence|exact Ef]. }
    destruct Eastr as (rr&->&->&Epf).
    pose proof (fs_agree _ _ _ Epf Hsmall _ _ _ _ Epa) as Eans. cbn [rev app] in Eans. subst ans.
    destruct (send_accepted_conv B (g :: G) s3 [] s4 sent_rev Elen Esa) as (W4&I43&HF2).
    destruct (send_transfers_off r (toks (s_in s3)) (toks (tailw false s1)) B (g :: G) (S a + S (length ps0)) b' HcB HF2) as (E&a'&HE&Hst).
    assert (ET2 : T2 = xbytes_all B (g :: G) ++ tailw false s1).
    { pose proof (tailw_eq false s1) as Hw. rewrite <- (final_send_ok _ _ Hho), HT2, W1, W4, <- W3 in Hw.
      rewrite <- app_assoc in Hw. apply app_inv_head in Hw. exact Hw. }
    rewrite ET2, HE in *. rewrite <- EB. rewrite Hst.
    right. split; [reflexivity|]. exists a', b'. rewrite I1, I43, Hhob.
    split; [reflexivity|]. split; [exact Hok3|]. split; [exact Hc|].
    cbn [app length] in Hf. rewrite ?app_length in Hf. cbn [app length] in Hf. rewrite ?app_length in Hf. lia.
Qed.

(* ================================================================================== *)
(* 1. Auxiliary facts                                                                  *)
(* ================================================================================== *)
(* ---------- the fuel of the proposal loop is ample ---------- *)
Lemma inbound_loop_fuel : forall f1 f2 s props lines, (inlen s < f1)%nat -> (inlen s < f2)%nat ->
  inbound_loop f1 s props lines = inbound_loop f2 s props lines.
Proof.
  induction f1 as [|f1 IH]; intros f2 s props lines H1 H2; [lia|]. destruct f2 as [|f2]; [lia|].
  rewrite !inbound_loop_eq.
  destruct (next_line true s) as [[line s1]|e s1|] eqn:En; try reflexivity.
  apply TermP.next_line_ok in En.
  destruct (il_line s1 props lines line) as [p l|r0]; [|reflexivity].
  apply IH; lia.
Qed.

(* ---------- fields of a line ---------- *)
Lemma split_on_cons2 c : forall s a b t, split_on c s = a :: b :: t ->
  exists s', s = a ++ c :: s' /\ split_on c s' = b :: t /\ ~ In c a.
Proof.
  induction s as [|x r IH]; intros a b t H; [discriminate|].
  cbn [split_on] in H. destruct (split_on c r) as [|h t'] eqn:E; [exfalso; exact (split_on_nonnil c r E)|].
  destruct (x =? c) eqn:Ex.
  - apply N.eqb_eq in Ex. subst x. injection H as <- <- <-. exists r. split; [reflexivity|]. split; [exact E|intros []].
  - injection H as <- ->. destruct (IH h b t eq_refl) as (s'&->&Hs&Hn). exists s'. split; [reflexivity|]. split; [exact Hs|].
    intros [K|K]; [subst x; rewrite N.eqb_refl in Ex; discriminate|exact (Hn K)].
Qed.

Lemma split_on_single c : forall s a, split_on c s = [a] -> s = a.
Proof.
  induction s as [|x r IH]; intros a H; [cbn in H; congruence|].
  cbn [split_on] in H. destruct (split_on c r) as [|h t'] eqn:E; [exfalso; exact (split_on_nonnil c r E)|].
  destruct (x =? c); [discriminate|]. injection H as <- ->. rewrite (IH h eq_refl). reflexivity.
Qed.

Lemma digit_okb y : is_digit y = true -> okb y = true.
Proof. unfold is_digit, okb, is_space_rune. lia. Qed.

(* the shape of a line that the grammar accepts as a proposal *)
Lemma parse_prop_shape l p : parse_prop l = Some p ->
  exists c rest ty mid us cs zero y,
    l = 70 :: c :: 32 :: rest /\ (c = 67 \/ c = 68) /\ split_on 32 rest = [ty; mid; us; cs; zero] /\
    type_ok ty = true /\ ends_with y l /\ is_digit y = true.
Proof.
  unfold parse_prop.
  destruct (split_on 32 l) as [|cmd [|ty [|mid [|us [|cs [|zero [|x xs]]]]]]] eqn:E; try discriminate.
  match goal with |- (if ?c then _ else _) = _ -> _ => destruct c eqn:C end; [|discriminate]. intros _.
  repeat (apply andb_true_iff in C; destruct C as [C ?]).
  destruct (split_on_cons2 _ _ _ _ _ E) as (s1&El&E1&_).
  pose proof E1 as E1'.
  destruct (split_on_cons2 _ _ _ _ _ E1') as (s2&El2&E2&_).
  destruct (split_on_cons2 _ _ _ _ _ E2) as (s3&El3&E3&_).
  destruct (split_on_cons2 _ _ _ _ _ E3) as (s4&El4&E4&_).
  destruct (split_on_cons2 _ _ _ _ _ E4) as (s5&El5&E5&_).
  apply split_on_single in E5. subst s5.
  assert (Hz : exists z' y, zero = z' ++ [y] /\ is_digit y = true).
  { unfold all_digits in *. destruct zero as [|z0 zs]; [discriminate|].
    destruct (exists_last (l := z0 :: zs)) as (z'&y&Ez); [discriminate|]. exists z', y. split; [exact Ez|].
    match goal with H : forallb is_digit (z0 :: zs) = true |- _ => rewrite Ez, forallb_app in H; apply andb_true_iff in H; destruct H as [_ H];
      cbn [forallb] in H; rewrite andb_true_r in H; exact H end. }
  destruct Hz as (z'&y&Ez&Hy).
  assert (Hty : type_ok ty = true).
  { match goal with H : beq_bytes ty [69; 77] || beq_bytes ty [67; 77] = true |- _ =>
      apply orb_true_iff in H; destruct H as [H|H]; apply beq_bytes_true in H; subst ty; reflexivity end. }
  assert (Hcmd : cmd = [70; 67] \/ cmd = [70; 68]).
  { apply orb_true_iff in C. destruct C as [C|C]; apply beq_bytes_true in C; auto. }
  assert (He : ends_with y l).
  { rewrite El, El2, El3, El4, El5, Ez. apply ends_with_app, ends_with_cons, ends_with_app, ends_with_cons, ends_with_app, ends_with_cons,
      ends_with_app, ends_with_cons, ends_with_app, ends_with_cons, ends_with_app, ends_with_one. }
  destruct Hcmd as [-> | ->]; cbn [app] in El.
  - exists 67, s1, ty, mid, us, cs, zero, y. repeat split; auto.
  - exists 68, s1, ty, mid, us, cs, zero, y. repeat split; auto.
Qed.

Lemma parse_prop_clean l p : parse_prop l = Some p -> clean_string l = l.
Proof.
  intros H. destruct (parse_prop_shape l p H) as (c&rest&ty&mid&us&cs&zero&y&->&_&_&_&He&Hy).
  apply (clean_string_id 70 _ y); [reflexivity|apply digit_okb, Hy|exact He].
Qed.

(* ---------- one line of the peer's turn, as the library takes it ---------- *)
Lemma il_line_comment s1 props lines c : prefixb [59] c = true -> il_line s1 props lines c = IlCont props lines.
Proof.
  intros H. unfold il_line. destruct (prefixb str_PM c); [reflexivity|].
  destruct c as [|x m]; [reflexivity|]. cbn [prefixb] in H. rewrite andb_true_r in H.
  apply N.eqb_eq in H. subst x. reflexivity.
Qed.

Lemma il_line_ff s1 props lines : il_line s1 props lines [70; 70] = IlDone (ROk (false, [], set_nomsgs s1 true)).
Proof. reflexivity. Qed.
Lemma il_line_fq s1 props lines : il_line s1 props lines [70; 81] = IlDone (ROk (true, [], s1)).
Proof. reflexivity. Qed.

Lemma il_line_prop s1 props lines l p : parse_prop l = Some p ->
  exists ip, il_line s1 props lines l = IlCont (ip :: props) (l :: lines).
Proof.
  intros H. destruct (parse_prop_shape l p H) as (c&rest&ty&mid&us&cs&zero&y&->&Hc&Hs&Hty&_&_).
  assert (Hr : exists x rest', rest = x :: rest').
  { destruct rest as [|x rest']; [cbn in Hs; discriminate|eauto]. }
  destruct Hr as (x&rest'&->).
  assert (Hp : exists ip, parse_proposal s1 (70 :: c :: 32 :: x :: rest') = ROk ip).
  { unfold parse_proposal. change (negb (70 =? 70)) with false. cbv iota.
    assert (E1 : (c =? BasicProposal) || (c =? AsciiProposal) = false) by (destruct Hc as [-> | ->]; reflexivity).
    assert (E2 : (c =? Wl2kProposal) || (c =? GzipProposal) = true) by (destruct Hc as [-> | ->]; reflexivity).
    rewrite E1, E2.
    assert (E3 : Nat.ltb (length (70 :: c :: 32 :: x :: rest')) 4 = false) by (apply Nat.ltb_ge; cbn [length]; lia).
    rewrite E3. change (slice_from 3 (70 :: c :: 32 :: x :: rest')) with (Some (x :: rest')). cbv iota.
    rewrite Hs, Hty. eexists. reflexivity. }
  destruct Hp as [ip Hp]. exists ip. unfold il_line. rewrite Hp.
  change (prefixb str_PM (70 :: c :: 32 :: x :: rest')) with false. cbv iota.
  change (70 =? 59) with false. cbv iota.
  rewrite length2_ltb. change (false || negb (70 =? 70)) with false. cbv iota.
  assert (E : in_list c [65; 66; 67; 68] = true) by (destruct Hc as [-> | ->]; reflexivity).
  rewrite E. reflexivity.
Qed.

(* the prompt *)
Lemma hex_okb h : hex_digit h <> None -> okb h = true.
Proof.
  unfold hex_digit. destruct (is_digit h) eqn:E1; [intros _; apply digit_okb, E1|].
  destruct ((65 <=? h) && (h <=? 70)) eqn:E2; [intros _; unfold okb, is_space_rune; lia|].
  destruct ((97 <=? h) && (h <=? 102)) eqn:E3; [intros _; unfold okb, is_space_rune; lia|congruence].
Qed.

Lemma valid_prompt_shape l acc : valid_prompt l acc = true ->
  exists h1 h2, l = [70; 62; 32; h1; h2] /\ okb h2 = true.
Proof.
  unfold valid_prompt.
  destruct l as [|a l]; [discriminate|].
  destruct a as [|pa]; [discriminate|]. do 7 (destruct pa as [pa|pa|]; try discriminate).
  destruct l as [|b l]; [discriminate|].
  destruct b as [|pb]; [discriminate|]. do 6 (destruct pb as [pb|pb|]; try discriminate).
  destruct l as [|c l]; [discriminate|].
  destruct c as [|pc]; [discriminate|]. do 6 (destruct pc as [pc|pc|]; try discriminate).
  destruct l as [|h1 l]; [discriminate|]. destruct l as [|h2 l]; [discriminate|]. destruct l as [|x xs]; [|discriminate].
  destruct (hex_digit h1) eqn:E1; [|discriminate]. destruct (hex_digit h2) eqn:E2; [|discriminate].
  intros _. exists h1, h2. split; [reflexivity|]. apply hex_okb. congruence.
Qed.

Lemma il_line_prompt s1 p0 pr lines m res :
  il_line s1 (p0 :: pr) lines (70 :: 62 :: m) = IlDone (ROk res) ->
  res = (false, snd (answer_props (set_nomsgs s1 false) (rev' (p0 :: pr)) [] []),
         wr (fst (answer_props (set_nomsgs s1 false) (rev' (p0 :: pr)) [] []))
            ([70; 83; 32] ++ map (fun p => answer_byte (i_answer p)) (snd (answer_props (set_nomsgs s1 false) (rev' (p0 :: pr)) [] [])) ++ [13])).
Proof.
  unfold il_line.
  change (prefixb str_PM (70 :: 62 :: m)) with false. cbv iota.
  change (70 =? 59) with false. cbv iota.
  rewrite length2_ltb. change (false || negb (70 =? 70)) with false. cbv iota.
  change (in_list 62 [65; 66; 67; 68]) with false. cbv iota.
  change (62 =? 70) with false. change (62 =? 81) with false. change (62 =? 62) with true. cbv iota.
  change (slice_from 2 (70 :: 62 :: m)) with (Some m). cbv iota zeta beta.
  destruct (negb _); [discriminate|].
  destruct (answer_props (set_nomsgs s1 false) (rev' (p0 :: pr)) [] []) as [s2 answered]. cbn [fst snd].
  intros H. congruence.
Qed.

Lemma answer_props_length : forall props s seen acc,
  length (snd (answer_props s props seen acc)) = (length props + length acc)%nat.
Proof.
  induction props as [|p r IH]; intros s seen acc; cbn [answer_props].
  - cbn [snd]. rewrite rev'_rev, rev_length. reflexivity.
  - destruct (mem_bytes (i_mid p) seen || negb ((i_code p =? Wl2kProposal) || (i_code p =? GzipProposal)) || negb (h_present (s_h s)));
      rewrite IH; cbn [length]; lia.
Qed.

(* ================================================================================== *)
(* 2. The peer's lines in the library's receiving turn                                 *)
(* ================================================================================== *)
(* what inbound_loop does with a line it has read *)
Definition il_next (f : nat) (s1 : sess) (props : list iprop) (lines : list bytes) (line : bytes) : ires :=
  match il_line s1 props lines line with IlCont p l => inbound_loop f s1 p l | IlDone r0 => r0 end.

(* the library is in its proposal loop, the grammar looks for the peer's next command: either the
   grammar finds fault with the peer, or both have read the same line (the library: cleaned) and
   stand behind it *)
Lemma cmd_sync r mine props lines res : forall f s, inbound_loop f s props lines = ROk res ->
  Forall elem_off (toks (s_in s)) ->
  forall F a b, (length (toks (s_in s)) < F)%nat ->
  match next_cmd F (mkst r mine (toks (s_in s)) a b) (negb r) with
  | inr v => notblame r v
  | inl None => True
  | inl (Some (l, st')) =>
      exists f' s1 b', il_next f' s1 props lines (clean_string l) = ROk res /\ eqo s s1 /\
        st' = mkst r mine (toks (s_in s1)) a b' /\ Forall elem_off (toks (s_in s1)) /\
        (length (toks (s_in s1)) < length (toks (s_in s)))%nat /\ is_comment l = false
  end.
Proof.
  induction f as [|f IH]; intros s H Hok F a b HF; [discriminate|]. rewrite inbound_loop_eq in H.
  destruct (next_line true s) as [[line s1]|e s1|] eqn:En; try discriminate.
  destruct (next_line_ok_inv _ _ _ _ En) as (l&rr&Hs&Hn&->&->).
  destruct F as [|F]; [lia|].
  destruct (line_elem s l rr Hs Hn) as [Ht|(e&rest&Ht&Hne)].
  2:{ rewrite Ht. destruct (next_cmd_theirs_bad r mine e rest a b F Hne) as [k ->]. apply negb_neq. }
  rewrite Ht in *. inversion Hok as [|? ? _ Hok']; subst. cbn [length] in HF.
  cbn [next_cmd]. rewrite pop_theirs. destruct (is_comment l) eqn:Ec.
  - assert (Eil : il_line (set_in s rr) props lines (clean_string l) = IlCont props lines)
      by (destruct (comment_clean_cases l Ec) as [E0|Hc]; [rewrite E0; reflexivity|apply il_line_comment, Hc]).
    rewrite Eil in H.
    specialize (IH (set_in s rr) H Hok' F a (S b) ltac:(cbn [set_in s_in]; lia)).
    cbn [set_in s_in] in IH.
    destruct (next_cmd F (mkst r mine (toks rr) a (S b)) (negb r)) as [[[l' st3]|]|v]; try exact IH.
    destruct IH as (f'&s1&b'&I1&I2&I3&I4&I5&I6). exists f', s1, b'.
    split; [exact I1|]. split; [eapply eqo_trans; [apply eqo_set_in|exact I2]|]. split; [exact I3|]. split; [exact I4|].
    split; [cbn [length]; lia|exact I6].
  - exists f, (set_in s rr), (S b). split; [exact H|]. split; [apply eqo_set_in|]. split; [reflexivity|].
    split; [exact Hok'|]. split; [cbn [set_in s_in length]; lia|exact Ec].
Qed.

Lemma il_next_prompt f s1 p0 pr lines m res :
  il_next f s1 (p0 :: pr) lines (70 :: 62 :: m) = ROk res ->
  res = (false, snd (answer_props (set_nomsgs s1 false) (rev' (p0 :: pr)) [] []),
         wr (fst (answer_props (set_nomsgs s1 false) (rev' (p0 :: pr)) [] []))
            ([70; 83; 32] ++ map (fun p => answer_byte (i_answer p)) (snd (answer_props (set_nomsgs s1 false) (rev' (p0 :: pr)) [] [])) ++ [13])).
Proof.
  unfold il_next, il_line.
  change (prefixb str_PM (70 :: 62 :: m)) with false. cbv iota.
  change (70 =? 59) with false. cbv iota.
  rewrite length2_ltb. change (false || negb (70 =? 70)) with false. cbv iota.
  change (in_list 62 [65; 66; 67; 68]) with false. cbv iota.
  change (62 =? 70) with false. change (62 =? 81) with false. change (62 =? 62) with true. cbv iota.
  change (slice_from 2 (70 :: 62 :: m)) with (Some m). cbv iota zeta beta.
  destruct (negb _); [discriminate|].
  destruct (answer_props (set_nomsgs s1 false) (rev' (p0 :: pr)) [] []) as [s2 answered]. cbn [fst snd].
  intros H. congruence.
Qed.

(* the block of proposals: read_block of the grammar against the proposal loop of the library *)
Lemma block_sync r mine res : forall fb f s1 props lines first gacc gprops a b,
  il_next f s1 props lines (clean_string first) = ROk res ->
  Forall elem_off (toks (s_in s1)) -> length props = length gprops ->
  match read_block fb (mkst r mine (toks (s_in s1)) a b) (negb r) first gacc gprops with
  | inr v => notblame r v
  | inl (gp, st') =>
      exists s2 answered b', res = (false, answered, s2) /\ length answered = length gp /\
        wire s2 = wire s1 ++ fs_line (map i_answer answered) /\ hob s2 = hob s1 /\
        st' = mkst r mine (toks (s_in s2)) a b' /\ Forall elem_off (toks (s_in s2)) /\
        (length (toks (s_in s2)) < length (toks (s_in s1)))%nat
  end.
Proof.
  induction fb as [|fb IH]; intros f s1 props lines first gacc gprops a b H Hok Hl; [apply negb_neq|].
  rewrite read_block_S. destruct (parse_prop first) as [p|] eqn:Ep; [|apply negb_neq].
  rewrite (parse_prop_clean _ _ Ep) in H.
  destruct (il_line_prop s1 props lines first p Ep) as [ip Eil]. unfold il_next in H. rewrite Eil in H.
  destruct (5 <? length (gprops ++ [p]))%nat; [apply negb_neq|].
  pose proof (cmd_sync r mine _ _ _ _ _ H Hok
                (S (length (gm (mkst r mine (toks (s_in s1)) a b)) + length (gs (mkst r mine (toks (s_in s1)) a b)))) a b
                ltac:(rewrite mkst_len; lia)) as Hc.
  destruct (next_cmd _ (mkst r mine (toks (s_in s1)) a b) (negb r)) as [[[l st']|]|v]; [|apply negb_neq|exact Hc].
  destruct Hc as (f'&s1'&b'&Hn&Hq&->&Hok'&Hlen&Hcm).
  destruct (prefixb [70; 62] l) eqn:Epf.
  - destruct (valid_prompt l (gacc ++ [first])) eqn:Ev; [|apply negb_neq].
    destruct (valid_prompt_shape _ _ Ev) as (h1&h2&->&Hh2).
    rewrite (clean_string_id 70 [62; 32; h1; h2] h2 eq_refl Hh2) in Hn by (exists [70; 62; 32; h1]; reflexivity).
    apply il_next_prompt in Hn.
    pose proof (answer_props_out (rev' (ip :: props)) (set_nomsgs s1' false) [] []) as [Ho Hh].
    pose proof (answer_props_facts (rev' (ip :: props)) (set_nomsgs s1' false) [] []) as [Hin _].
    pose proof (answer_props_length (rev' (ip :: props)) (set_nomsgs s1' false) [] []) as Hal.
    destruct (answer_props (set_nomsgs s1' false) (rev' (ip :: props)) [] []) as [sB answered]. cbn [fst snd] in *.
    eexists. exists answered, b'. split; [exact Hn|].
    split; [rewrite Hal, rev'_rev, rev_length, app_length; cbn [length]; lia|].
    split; [rewrite wire_wr, (wire_out _ _ Ho); change (wire (set_nomsgs s1' false)) with (wire s1');
            rewrite <- (wire_eqo _ _ Hq); unfold fs_line; rewrite map_map; reflexivity|].
    split; [unfold hob; cbn [wr s_h]; rewrite Hh; cbn [set_nomsgs s_h]; rewrite (eqo_h _ _ Hq); reflexivity|].
    cbn [wr s_in]. rewrite Hin. cbn [set_nomsgs s_in]. split; [reflexivity|]. split; [exact Hok'|exact Hlen].
  - specialize (IH f' s1' (ip :: props) (first :: lines) l (gacc ++ [first]) (gprops ++ [p]) a b' Hn Hok'
                   ltac:(rewrite app_length; cbn [length]; lia)).
    destruct (read_block fb (mkst r mine (toks (s_in s1')) a b') (negb r) l (gacc ++ [first]) (gprops ++ [p])) as [[gp st']|v]; [|exact IH].
    destruct IH as (s2&answered&b''&I1&I2&I3&I4&I5&I6&I7). exists s2, answered, b''.
    split; [exact I1|]. split; [exact I2|]. split; [rewrite I3, (wire_eqo _ _ Hq); reflexivity|].
    split; [rewrite I4; unfold hob; rewrite (eqo_h _ _ Hq); reflexivity|]. split; [exact I5|]. split; [exact I6|lia].
Qed.

(* ================================================================================== *)
(* 3. The peer's transfers                                                             *)
(* ================================================================================== *)
Lemma take_k_take_n : forall n r acc d r' buf sum b r2 s2,
  take_k n r acc = Some (d, r') -> take_n n r buf sum = Some (b, r2, s2) -> r2 = r'.
Proof.
  induction n as [|n IH]; intros r acc d r' buf sum b r2 s2 H1 H2; cbn [take_k take_n] in *; [congruence|].
  destruct r as [|x r]; [discriminate|]. eapply IH; eassumption.
Qed.

(* the tokeniser of the grammar and read_frames of the library parse the same frames: whenever both
   succeed they stop at the same byte *)
Lemma blocks_frames : forall f s acc sum d bok cok r3, blocks f s acc sum = Some (d, bok, cok, r3) ->
  forall f' buf sum' cs data r4, read_frames f' s buf sum' cs = FOk data r4 -> r4 = r3.
Proof.
  induction f as [|f IH]; intros s acc sum d bok cok r3 H f' buf sum' cs data r4 H'; [discriminate|].
  cbn [blocks] in H.
  destruct s as [|x s]; [discriminate|].
  destruct x as [|[p|[p|[p|p|]|]|]]; try discriminate; destruct s as [|l s]; try discriminate;
    (destruct f' as [|f']; [discriminate|]); cbn [read_frames] in H'.
  - injection H as _ _ _ <-.
    change (4 =? CHRSTX) with false in H'. change (4 =? CHREOT) with true in H'. cbv iota beta zeta in H'.
    destruct (negb _) in H'; [discriminate|]. destruct (negb _) in H'; [discriminate|]. congruence.
  - change (2 =? CHRSTX) with true in H'. cbv iota beta zeta in H'.
    destruct (take_k (if l =? 0 then 256%nat else N.to_nat l) s []) as [[dd r']|] eqn:E; [|discriminate].
    destruct (take_n (if l =? 0 then 256%nat else N.to_nat l) s buf sum') as [[[b' r2] s2]|] eqn:E'; [|discriminate].
    rewrite (take_k_take_n _ _ _ _ _ _ _ _ _ _ E E') in H'. eapply IH; eassumption.
Qed.

Lemma read_compressed_rest s ip hl title offs r2 d bok cok r3 cd s' :
  s_in s = 1 :: hl :: title ++ 0 :: offs ++ 0 :: r2 -> ~ In 0 title -> ~ In 0 offs ->
  blocks (S (length r2)) r2 [] 0 = Some (d, bok, cok, r3) ->
  read_compressed s ip = ROk (cd, s') -> s' = set_in s r3.
Proof.
  intros Hs Ht Ho Hb. unfold read_compressed. rewrite Hs.
  change (1 =? CHRSOH) with true. cbv iota. change CHRNUL with 0.
  rewrite (PairXfer.read_until_notin 0 title _ Ht). cbv iota beta.
  rewrite (PairXfer.read_until_notin 0 offs _ Ho). cbv iota beta.
  destruct (negb _); [discriminate|].
  match goal with |- (match ?D with [] => _ | _ :: _ => _ end) = _ -> _ => destruct D as [|x xs] end; [discriminate|].
  destruct (num_of_digits (x :: xs) 0) as [v|]; [|discriminate].
  destruct (9223372036854775807 <? v); [discriminate|]. destruct (negb (v =? 0)); [discriminate|].
  destruct (read_frames (S (length r2)) r2 [] 0 (i_csize ip)) as [data r4|e r4] eqn:F; [|discriminate].
  intros H. injection H as _ <-. rewrite (blocks_frames _ _ _ _ _ _ _ _ Hb _ _ _ _ _ _ F). reflexivity.
Qed.

Lemma receive_accepted_hob : forall props s s', receive_accepted s props = RcOk s' -> hob s' = hob s.
Proof.
  induction props as [|p r IH]; intros s s' H; cbn [receive_accepted] in H; [congruence|].
  destruct (i_answer p); try (apply IH; exact H).
  pose proof (read_compressed_eqo s p) as Hq.
  destruct (read_compressed s p) as [[cd s1]|e s1|]; try discriminate. cbn [res_eqo] in Hq.
  destruct (proposal_message cd) as [mid data|e|]; try discriminate.
  destruct (mem_bytes mid (h_fail (s_h s1))); [discriminate|].
  rewrite (IH _ _ H). unfold hob. cbn [add_recv ev s_h]. rewrite (eqo_h _ _ Hq). reflexivity.
Qed.

(* send_transfers of the grammar (the peer is the proposer) against receive_accepted *)
Lemma xfer_sync r mine : forall answered gp s1 s2 a b, length answered = length gp ->
  receive_accepted s1 answered = RcOk s2 -> Forall elem_off (toks (s_in s1)) ->
  match send_transfers (mkst r mine (toks (s_in s1)) a b) (negb r) gp (map to_gans (map i_answer answered)) with
  | inr v => notblame r v
  | inl st4 => exists b', st4 = mkst r mine (toks (s_in s2)) a b' /\ Forall elem_off (toks (s_in s2)) /\
       (length (toks (s_in s2)) <= length (toks (s_in s1)))%nat
  end.
Proof.
  induction answered as [|ip rest IH]; intros [|g gp] s1 s2 a b Hl Hr Hok; try discriminate.
  - cbn in Hr. injection Hr as <-. cbn [map send_transfers]. exists b. split; [reflexivity|]. split; [exact Hok|lia].
  - cbn [length] in Hl. injection Hl as Hl. cbn [map send_transfers]. cbn [receive_accepted] in Hr.
    destruct (i_answer ip) eqn:Ea; cbn [to_gans]; try (apply IH; assumption).
    destruct (first_elem_cases (s_in s1)) as [E Ht|l0 r0 E Hn0 Ht|hl t o r2 d bok cok r3 E Hnt Hno Hb Ht|gb Ht]; rewrite Ht in *.
    + assert (Ep : pop (mkst r mine [] a b) (negb r) = None) by (destruct r; reflexivity). rewrite Ep. apply negb_neq.
    + rewrite pop_theirs. cbn [valid_transfer]. apply negb_neq.
    + rewrite pop_theirs. destruct (valid_transfer _ g 0); [|apply negb_neq].
      destruct (read_compressed s1 ip) as [[cd s1']|e s1'|] eqn:Erc; try discriminate.
      pose proof (read_compressed_rest _ _ _ _ _ _ _ _ _ _ _ _ E Hnt Hno Hb Erc) as ->.
      destruct (proposal_message cd) as [mid data|e|]; try discriminate.
      destruct (mem_bytes mid (h_fail (s_h (set_in s1 r3)))); [discriminate|].
      inversion Hok as [|? ? _ Hok']; subst.
      specialize (IH gp _ s2 a (S b) Hl Hr). cbn [add_recv ev set_in s_in] in IH. specialize (IH Hok').
      destruct (send_transfers (mkst r mine (toks r3) a (S b)) (negb r) gp (map to_gans (map i_answer rest))) as [st4|v]; [|exact IH].
      destruct IH as (b'&I1&I2&I3). exists b'. split; [exact I1|]. split; [exact I2|]. cbn [length]. lia.
    + rewrite pop_theirs. cbn [valid_transfer]. apply negb_neq.
Qed.

(* ================================================================================== *)
(* 4. ONE SIDE AGAINST ANY PEER: the library's receiving turn                          *)
(* ================================================================================== *)
Lemma clean_ff : clean_string [70; 70] = [70; 70]. Proof. vm_compute. reflexivity. Qed.
Lemma clean_fq : clean_string [70; 81] = [70; 81]. Proof. vm_compute. reflexivity. Qed.

(* r is the role of the library (true = master).  The validator's state is synchronised with the
   library's state s at the start of a turn of the PEER: the elements of the library still to be
   examined are those of what the library will write from now on (tailw false s), the elements of
   the peer those of the library's unread input.  Whatever the peer sends (elem_off), if the
   library's receiving turn succeeds then either the validator does not blame the library, or it
   reaches the library's turn in a state synchronised with the library's, with less fuel. *)
Theorem receiver_turn r s q props s1 s2 f a b :
  inbound_loop (S (length (s_in s))) s [] [] = ROk (q, props, s1) -> receive_accepted s1 props = RcOk s2 ->
  Forall elem_off (toks (s_in s)) ->
  (length (toks (tailw false s)) + length (toks (s_in s)) < S f)%nat ->
  notblame r (Grammar.turns (S f) (mkst r (toks (tailw false s)) (toks (s_in s)) a b) (negb r)) \/
  (q = false /\ exists a' b',
     Grammar.turns (S f) (mkst r (toks (tailw false s)) (toks (s_in s)) a b) (negb r) =
     Grammar.turns f (mkst r (toks (tailw true s2)) (toks (s_in s2)) a' b') r /\
     Forall elem_off (toks (s_in s2)) /\ hob s2 = hob s /\
     (length (toks (tailw true s2)) + length (toks (s_in s2)) < f)%nat).
Proof.
  intros Hil Hrc Hok Hf. cbn [Grammar.turns]. rewrite !negb_involutive.
  pose proof (cmd_sync r (toks (tailw false s)) _ _ _ _ _ Hil Hok
                (S (length (gm (mkst r (toks (tailw false s)) (toks (s_in s)) a b)) +
                    length (gs (mkst r (toks (tailw false s)) (toks (s_in s)) a b)))) a b
                ltac:(rewrite mkst_len; lia)) as Hc.
  destruct (next_cmd _ (mkst r (toks (tailw false s)) (toks (s_in s)) a b) (negb r)) as [[[l st1]|]|v];
    [|left; apply negb_neq|left; exact Hc].
  destruct Hc as (f'&s1'&b'&Hn&Hq&->&Hok'&Hlen&Hcm).
  pose proof (receive_accepted_silent props s1) as Hsil. rewrite Hrc in Hsil. destruct Hsil as [Hout _].
  pose proof (receive_accepted_hob _ _ _ Hrc) as Hhob.
  destruct (beq_bytes l [70; 70]) eqn:E1.
  { (* FF *)
    apply beq_bytes_true in E1. subst l. rewrite clean_ff in Hn. unfold il_next in Hn. rewrite il_line_ff in Hn.
    assert (q = false /\ props = [] /\ s1 = set_nomsgs s1' true) as (->&->&->) by (repeat split; congruence).
    cbn in Hrc. injection Hrc as <-.
    assert (Ht : tailw false s = tailw true (set_nomsgs s1' true)).
    { apply tailw_intro. rewrite (final_recv_ok _ _ _ _ Hil eq_refl), tailw_eq.
      change (wire (set_nomsgs s1' true)) with (wire s1'). rewrite (wire_eqo _ _ Hq). reflexivity. }
    right. split; [reflexivity|]. exists a, b'. rewrite <- Ht. cbn [set_nomsgs s_in].
    split; [reflexivity|]. split; [exact Hok'|].
    split; [unfold hob; cbn [set_nomsgs s_h]; rewrite (eqo_h _ _ Hq); reflexivity|lia]. }
  destruct (beq_bytes l [70; 81]) eqn:E2.
  { (* FQ *)
    apply beq_bytes_true in E2. subst l. rewrite clean_fq in Hn. unfold il_next in Hn. rewrite il_line_fq in Hn.
    assert (q = true /\ props = [] /\ s1 = s1') as (->&->&->) by (repeat split; congruence).
    cbn in Hrc. injection Hrc as <-.
    assert (Ht : tailw false s = []).
    { apply tailw_intro. rewrite (final_recv_quit _ _ _ _ Hil eq_refl), app_nil_r. symmetry. apply wire_eqo, Hq. }
    left. rewrite Ht, toks_nil.
    destruct r; cbn [mkst gm gs nm ns]; destruct (toks (s_in s1')); cbn [notblame]; try exact I; discriminate. }
  (* a block of proposals *)
  pose proof (block_sync r (toks (tailw false s)) _ 6 f' s1' [] [] l [] [] a b' Hn Hok' eq_refl) as Hb.
  destruct (read_block 6 (mkst r (toks (tailw false s)) (toks (s_in s1')) a b') (negb r) l [] []) as [[gp st2]|v]; [|left; exact Hb].
  destruct Hb as (sB&answered&b2&Eres&Hla&Hw&Hh&->&Hok2&Hlen2).
  assert (q = false /\ props = answered /\ s1 = sB) as (->&->&->) by (repeat split; congruence).
  set (A := map i_answer answered) in *.
  assert (Ht : tailw false s = ([70; 83; 32] ++ map answer_byte A) ++ 13 :: tailw true s2).
  { apply tailw_intro. rewrite (final_recv_ok _ _ _ _ Hil Hrc), tailw_eq, (wire_out _ _ Hout), Hw, <- (wire_eqo _ _ Hq).
    unfold fs_line. rewrite <- ?app_assoc. cbn [app]. rewrite <- ?app_assoc. reflexivity. }
  rewrite Ht in *. rewrite (toks_line _ _ (fs_line_ok A)) in *.
  rewrite next_cmd_mine by reflexivity.
  rewrite answer_line_valid.
  assert (HlA : length (map to_gans A) = length gp) by (unfold A; rewrite !map_length; exact Hla).
  rewrite HlA, Nat.eqb_refl. cbn [negb].
  pose proof (xfer_sync r (toks (tailw true s2)) answered gp sB s2 (S a) b2 Hla Hrc Hok2) as Hx. fold A in Hx.
  destruct (send_transfers (mkst r (toks (tailw true s2)) (toks (s_in sB)) (S a) b2) (negb r) gp (map to_gans A)) as [st4|v]; [|left; exact Hx].
  destruct Hx as (b3&->&Hok3&Hlen3).
  right. split; [reflexivity|]. exists (S a), b3. split; [reflexivity|]. split; [exact Hok3|].
  split; [rewrite Hhob, Hh; unfold hob; rewrite (eqo_h _ _ Hq); reflexivity|].
  cbn [length] in Hf. lia.
Qed.

(* ================================================================================== *)
(* 5. The induction over turns                                                         *)
(* ================================================================================== *)
(* from a synchronised state at a turn boundary, a run of the library that ends with nil is not
   blamed by the validator (my = true: it is the library's turn) *)
Theorem turns_conform r : forall F (my : bool) s a b,
  fst (run my s) = XNil ->
  Forall blk_conf (hob s) -> Forall elem_off (toks (s_in s)) ->
  (length (toks (tailw my s)) + length (toks (s_in s)) < F)%nat ->
  notblame r (Grammar.turns F (mkst r (toks (tailw my s)) (toks (s_in s)) a b) (if my then r else negb r)).
Proof.
  induction F as [|F IH]; intros my s a b Hx Hc Hok Hf; [lia|]. destruct my.
  - rewrite run_send in Hx.
    destruct (handle_outbound s) as [[q s1]|e s1|] eqn:Hho; [|destruct e; discriminate|discriminate].
    destruct (sender_turn2 r s q s1 F a b Hho Hc Hok Hf) as [H|(->&a'&b'&E&Hok1&Hc1&Hl)]; [exact H|].
    rewrite E. apply (IH false); assumption.
  - rewrite run_recv in Hx.
    destruct (inbound_loop (S (length (s_in s))) s [] []) as [[[q props] s1]|e s1|] eqn:Hil; [|destruct e; discriminate|discriminate].
    destruct (receive_accepted s1 props) as [s2|e s2| |] eqn:Hrc; [|destruct e; discriminate|discriminate|discriminate].
    destruct (receiver_turn r s q props s1 s2 F a b Hil Hrc Hok Hf) as [H|(->&a'&b'&E&Hok2&Hh&Hl)]; [exact H|].
    rewrite E. apply (IH true); try assumption. rewrite Hh. exact Hc.
Qed.

(* ================================================================================== *)
(* 6. The greetings                                                                    *)
(* ================================================================================== *)
(* ---------- an exchange that ends with nil ---------- *)
Lemma exchange_nil cfg input : x_res (exchange cfg input) = XNil ->
  h_present (c_handler cfg) && h_prepare_err (c_handler cfg) = false /\
  exists s2, handshake (init_state cfg input) = ROk s2.
Proof.
  unfold exchange. cbv zeta. fold (init_state cfg input).
  destruct (h_present (c_handler cfg) && h_prepare_err (c_handler cfg)); [rewrite finish_res; discriminate|].
  destruct (handshake (init_state cfg input)) as [s2|e s2|];
    [intros _; split; [reflexivity|eauto]|rewrite finish_res; destruct e; discriminate|rewrite finish_res; discriminate].
Qed.

Lemma init_state_cfg cfg i : s_cfg (init_state cfg i) = c_hs cfg /\ s_motd (init_state cfg i) = c_motd cfg.
Proof. unfold init_state. destruct (h_present (c_handler cfg)); split; reflexivity. Qed.

Lemma handshake_master_inv s s2 : s_master s = true -> s_motd s = [] -> handshake s = ROk s2 ->
  exists d, read_handshake (S (length (s_in s))) (wr s (hello (s_cfg s))) d0 = ROk (d, s2).
Proof.
  intros Hm Hmo. unfold handshake, do_send_handshake. cbv zeta. rewrite Hm, Hmo. cbn [fold_left].
  rewrite send_hello.
  match goal with |- context [read_handshake ?f ?s0 ?d] => destruct (read_handshake f s0 d) as [[d1 s3]|e s3|] eqn:E end; try discriminate.
  destruct (hd_have_sid d1 && negb (beq_bytes (hd_sid d1) [])); [|discriminate].
  intros H. injection H as <-. exists d1. exact E.
Qed.

Lemma handshake_slave_inv s s2 : s_master s = false -> hs_cb (s_cfg s) = None -> handshake s = ROk s2 ->
  exists d s1, read_handshake (S (length (s_in s))) s d0 = ROk (d, s1) /\ s2 = wr s1 (hello (s_cfg s)).
Proof.
  intros Hm Hcb. unfold handshake, do_send_handshake. cbv zeta. rewrite Hm.
  match goal with |- context [read_handshake ?f ?s0 ?d] =>
    pose proof (read_handshake_eqo f s0 d) as Hr; destruct (read_handshake f s0 d) as [[d1 s1]|e s1|] eqn:E end; try discriminate.
  cbn [res_eqo] in Hr. destruct (hd_have_sid d1 && negb (beq_bytes (hd_sid d1) [])); [|discriminate].
  assert (Ec : s_cfg s1 = s_cfg s) by (apply (f_equal s_cfg) in Hr; symmetry; exact Hr).
  rewrite Ec. destruct (hd_challenge d1) as [|c ch].
  - rewrite send_hello. intros H. injection H as <-. exists d1, s1. split; [exact E|reflexivity].
  - unfold send_handshake. rewrite Hcb. discriminate.
Qed.

(* ---------- one line of the greeting, as the library reads it ---------- *)
(* the (cleaned) line ends the greeting for the library *)
Definition stops (c : bytes) : bool :=
  negb (prefixb [91] c && suffixb [93] c) && negb (prefixb str_FWp c) && negb (prefixb str_PQ c) && suffixb [62] c.
Definition stops_lib (l : bytes) : bool := stops (clean_string l).

Lemma rh_inv f s d d' s' : read_handshake (S f) s d = ROk (d', s') ->
  (exists r0, s_in s = 70 :: r0 /\ s_master s = true /\ d' = d /\ s' = s) \/
  (exists c s1, (s_master s = true -> forall r0, s_in s <> 70 :: r0) /\ next_line false s = ROk (c, s1) /\
     ((stops c = true /\ d' = d /\ s' = s1) \/ (stops c = false /\ exists d'', read_handshake f s1 d'' = ROk (d', s')))).
Proof.
  cbn [read_handshake]. destruct (s_in s) as [|b0 r0] eqn:Ei; [discriminate|].
  destruct ((b0 =? 70) && s_master s) eqn:Eb.
  { apply andb_true_iff in Eb. destruct Eb as [E1 E2]. apply N.eqb_eq in E1. subst b0.
    intros H. assert (d' = d /\ s' = s) as [-> ->] by (split; congruence). left. exists r0. repeat split; assumption. }
  destruct (next_line false s) as [[c s1]|e s1|]; try discriminate.
  assert (Hnf : s_master s = true -> forall r1, b0 :: r0 <> 70 :: r1).
  { intros Hm r1 E. injection E as -> _. rewrite Hm in Eb. discriminate. }
  intros H. right. exists c, s1. split; [exact Hnf|]. split; [reflexivity|]. unfold stops.
  destruct (prefixb [91] c && suffixb [93] c) eqn:X1; rewrite ?X1 in H; cbn [negb andb].
  { right. split; [reflexivity|]. revert H. destruct (parse_sid c) as [sid|]; [|discriminate].
    destruct (containsb sFBComp2 sid); [intros H; eexists; exact H|discriminate]. }
  destruct (prefixb str_FWp c) eqn:X2; rewrite ?X2 in H; cbn [negb andb].
  { right. split; [reflexivity|]. revert H. destruct (prefixb str_FWfull c); [intros H; eexists; exact H|discriminate]. }
  destruct (prefixb str_PQ c) eqn:X3; rewrite ?X3 in H; cbn [negb andb].
  { right. split; [reflexivity|]. revert H. destruct (length c <? 5)%nat; [discriminate|].
    destruct (slice_from 5 c); [intros H; eexists; exact H|discriminate]. }
  destruct (suffixb [62] c) eqn:X4; rewrite ?X4 in H.
  - left. assert (d' = d /\ s' = s1) as [-> ->] by (split; congruence). repeat split.
  - right. split; [reflexivity|]. eexists; exact H.
Qed.

(* ---------- the library is the SLAVE: the master's greeting ---------- *)
(* THE HYPOTHESIS ON THE PEER'S GREETING: line by line, up to the first line that ends the greeting,
   the grammar (the raw line ends with '>') and the library (the cleaned line ends with '>' and is
   neither a SID nor a ";FW" nor a ";PQ" line) agree on whether the line ends the greeting *)
Fixpoint greet_agree (es : list elem) : Prop :=
  match es with
  | Line l :: r => suffixb [62] l = stops_lib l /\ (suffixb [62] l = false -> greet_agree r)
  | _ => True
  end.

Lemma master_hs_S F l r gsv a b sids :
  master_handshake (S F) {| gm := Line l :: r; gs := gsv; nm := a; ns := b |} sids =
  let sids' := if prefixb [91] l && suffixb [93] l then S sids else sids in
  if prefixb [91] l && suffixb [93] l && negb (valid_sid l) then inr (VBad true 21 a)
  else if prefixb [59; 70; 87] l && negb (valid_fw l) then inr (VBad true 22 a)
  else if suffixb [62] l then
    (if (sids' =? 1)%nat then inl {| gm := r; gs := gsv; nm := S a; ns := b |} else inr (VBad true 23 a))
  else master_handshake F {| gm := r; gs := gsv; nm := S a; ns := b |} sids'.
Proof. reflexivity. Qed.

Lemma master_hs_bad F e r gsv a b sids : (forall l, e <> Line l) ->
  master_handshake (S F) {| gm := e :: r; gs := gsv; nm := a; ns := b |} sids = inr (VBad true 24 a).
Proof. intros H. destruct e; [exfalso; eapply H; reflexivity|reflexivity..]. Qed.

Lemma slave_greet gsv : forall f s d d' s', s_master s = false -> read_handshake f s d = ROk (d', s') ->
  greet_agree (toks (s_in s)) -> Forall elem_off (toks (s_in s)) ->
  forall F a sids, (length (toks (s_in s)) < F)%nat ->
  match master_handshake F {| gm := toks (s_in s); gs := gsv; nm := a; ns := 0 |} sids with
  | inr v => notblame false v
  | inl st' => exists a', st' = {| gm := toks (s_in s'); gs := gsv; nm := a'; ns := 0 |} /\ eqo s s' /\
                 Forall elem_off (toks (s_in s')) /\ (length (toks (s_in s')) <= length (toks (s_in s)))%nat
  end.
Proof.
  induction f as [|f IH]; intros s d d' s' Hm H Hg Hok F a sids HF; [discriminate|].
  destruct (rh_inv _ _ _ _ _ H) as [(r0&_&Hm'&_)|(c&s1&_&Hnl&Hcase)]; [congruence|].
  destruct (next_line_ok_inv _ _ _ _ Hnl) as (l&rr&Hs&Hn&->&->).
  destruct F as [|F]; [lia|].
  destruct (line_elem s l rr Hs Hn) as [Ht|(e&rest&Ht&Hne)].
  2:{ rewrite Ht, master_hs_bad by exact Hne. cbn [notblame]. discriminate. }
  rewrite Ht in *. rewrite master_hs_S. cbv zeta.
  destruct (prefixb [91] l && suffixb [93] l && negb (valid_sid l)); [cbn [notblame]; discriminate|].
  destruct (prefixb [59; 70; 87] l && negb (valid_fw l)); [cbn [notblame]; discriminate|].
  cbn [greet_agree] in Hg. destruct Hg as [Hg1 Hg2]. inversion Hok as [|? ? _ Hok']; subst. cbn [length] in HF.
  unfold stops_lib in Hg1. destruct (suffixb [62] l) eqn:E62.
  - destruct Hcase as [(Hst&->&->)|(Hst&_)]; [|congruence].
    destruct (_ =? 1)%nat; [|cbn [notblame]; discriminate].
    exists (S a). split; [reflexivity|]. split; [apply eqo_set_in|]. split; [exact Hok'|]. cbn [set_in s_in length]. lia.
  - destruct Hcase as [(Hst&_)|(Hst&d''&Hrh)]; [congruence|].
    specialize (IH (set_in s rr) d'' d' s' Hm Hrh (Hg2 eq_refl) Hok' F (S a)
                   (if prefixb [91] l && suffixb [93] l then S sids else sids) ltac:(cbn [set_in s_in]; lia)).
    cbn [set_in s_in] in IH.
    destruct (master_handshake F _ _) as [st'|v]; [|exact IH].
    destruct IH as (a'&I1&I2&I3&I4). exists a'. split; [exact I1|]. split; [eapply eqo_trans; [apply eqo_set_in|exact I2]|].
    split; [exact I3|]. cbn [length]. lia.
Qed.

(* ---------- the library is the MASTER: the slave's greeting ---------- *)
Lemma prefix59_comment p l : prefixb (59 :: p) l = true -> is_comment l = true.
Proof.
  destruct l as [|x m]; [discriminate|]. cbn [prefixb]. intros H. apply andb_true_iff in H. destruct H as [H _].
  apply N.eqb_eq in H. subst x. reflexivity.
Qed.

Lemma slave_hs_line F gv l r a b sids : prefixb [70] l = false ->
  (exists k1 k2, slave_handshake (S F) {| gm := gv; gs := Line l :: r; nm := a; ns := b |} sids = inr (VBad false k1 k2)) \/
  ((is_comment l = true \/ (prefixb [91] l = true /\ suffixb [93] l = true)) /\ exists sids',
     slave_handshake (S F) {| gm := gv; gs := Line l :: r; nm := a; ns := b |} sids =
     slave_handshake F {| gm := gv; gs := r; nm := a; ns := S b |} sids').
Proof.
  intros H. rewrite slave_hs_S, H. cbv zeta.
  destruct (prefixb [91] l && suffixb [93] l) eqn:E1.
  { apply andb_true_iff in E1. destruct (valid_sid l); [right; split; [right; exact E1|eauto]|left; eauto]. }
  destruct (prefixb [59; 70; 87] l) eqn:E2.
  { destruct (valid_fw l); [right; split; [left; eapply prefix59_comment; exact E2|eauto]|left; eauto]. }
  destruct (prefixb [59; 80; 82] l) eqn:E3.
  { destruct (valid_pr l); [right; split; [left; eapply prefix59_comment; exact E3|eauto]|left; eauto]. }
  destruct (is_comment l) eqn:E4; [right; split; [left; reflexivity|eauto]|left; eauto].
Qed.

Lemma slave_hs_bad F gv e r a b sids : (forall l, e <> Line l) ->
  slave_handshake (S F) {| gm := gv; gs := e :: r; nm := a; ns := b |} sids = inr (VBad false 37 b).
Proof. intros H. destruct e; [exfalso; eapply H; reflexivity|reflexivity..]. Qed.

Lemma not70_prefix s l rr : s_in s = l ++ 13 :: rr -> (forall r0, s_in s <> 70 :: r0) -> prefixb [70] l = false.
Proof.
  intros Hs Hn. destruct l as [|x m]; [reflexivity|]. cbn [prefixb]. rewrite andb_true_r.
  apply N.eqb_neq. intros <-. apply (Hn (m ++ 13 :: rr)). exact Hs.
Qed.

(* phase A: while the library reads the slave's greeting (read_handshake), the grammar reads the
   same lines (slave_handshake) or blames the peer *)
Lemma master_greet_A gmv a : forall f s d d' s', s_master s = true -> read_handshake f s d = ROk (d', s') ->
  Forall elem_off (toks (s_in s)) ->
  forall F b sids, (length (toks (s_in s)) < F)%nat ->
  (exists k1 k2, slave_handshake F {| gm := gmv; gs := toks (s_in s); nm := a; ns := b |} sids = inr (VBad false k1 k2)) \/
  (exists F' b' sids', slave_handshake F {| gm := gmv; gs := toks (s_in s); nm := a; ns := b |} sids =
                        slave_handshake F' {| gm := gmv; gs := toks (s_in s'); nm := a; ns := b' |} sids' /\
     (length (toks (s_in s')) < F')%nat /\ eqo s s' /\ Forall elem_off (toks (s_in s')) /\
     (length (toks (s_in s')) <= length (toks (s_in s)))%nat).
Proof.
  induction f as [|f IH]; intros s d d' s' Hm H Hok F b sids HF; [discriminate|].
  destruct (rh_inv _ _ _ _ _ H) as [(r0&_&_&_&->)|(c&s1&Hnf&Hnl&Hcase)].
  { right. exists F, b, sids. split; [reflexivity|]. split; [exact HF|]. split; [apply eqo_refl|]. split; [exact Hok|lia]. }
  destruct (next_line_ok_inv _ _ _ _ Hnl) as (l&rr&Hs&Hn&->&->).
  destruct F as [|F]; [lia|].
  destruct (line_elem s l rr Hs Hn) as [Ht|(e&rest&Ht&Hne)].
  2:{ left. rewrite Ht, slave_hs_bad by exact Hne. eauto. }
  rewrite Ht in *. inversion Hok as [|? ? _ Hok']; subst. cbn [length] in HF.
  destruct (slave_hs_line F gmv l (toks rr) a b sids (not70_prefix _ _ _ Hs (Hnf Hm))) as [Hbad|(_&sids'&Eq)]; [left; exact Hbad|].
  rewrite Eq. destruct Hcase as [(_&_&->)|(_&d''&Hrh)].
  - right. exists F, (S b), sids'. cbn [set_in s_in]. split; [reflexivity|]. split; [lia|]. split; [apply eqo_set_in|].
    split; [exact Hok'|cbn [length]; lia].
  - destruct (IH (set_in s rr) d'' d' s' Hm Hrh Hok' F (S b) sids' ltac:(cbn [set_in s_in]; lia)) as [Hbad|(F'&b'&sids''&I1&I2&I3&I4&I5)];
      cbn [set_in s_in] in *; [left; exact Hbad|].
    right. exists F', b', sids''. split; [exact I1|]. split; [exact I2|]. split; [eapply eqo_trans; [apply eqo_set_in|exact I3]|].
    split; [exact I4|cbn [length]; lia].
Qed.

(* phase B: the library may have stopped reading the greeting earlier than the grammar (after a line
   that ends with '>'): its proposal loop then skips the comment lines that the grammar still takes
   for greeting lines *)
Lemma run_skip s l r0 : s_in s = l ++ 13 :: r0 -> ~ In 13 l -> is_comment l = true ->
  run false s = run false (set_in s r0).
Proof.
  intros Hs Hn Hcm. rewrite !run_recv. rewrite (inbound_loop_eq (length (s_in s)) s).
  rewrite (next_line_raw true s l r0 Hs Hn).
  assert (He : err_line (clean_string l) = false /\ il_line (set_in s r0) [] [] (clean_string l) = IlCont [] []).
  { destruct (comment_clean_cases l Hcm) as [E0|Hc]; [rewrite E0; split; reflexivity|]. split; [|apply il_line_comment, Hc].
    destruct (clean_string l) as [|x m]; [reflexivity|]. cbn [prefixb] in Hc. apply andb_true_iff in Hc. destruct Hc as [Hx _].
    apply N.eqb_eq in Hx. subst x. reflexivity. }
  destruct He as [He Eil]. rewrite He, andb_false_r, Eil.
  rewrite (inbound_loop_fuel (length (s_in s)) (S (length (s_in (set_in s r0))))).
  - pose proof (inbound_loop_nopanic (S (length (s_in (set_in s r0)))) (set_in s r0) [] []) as Np.
    destruct (inbound_loop (S (length (s_in (set_in s r0)))) (set_in s r0) [] []) as [[[q props] s1]|e s1|]; [reflexivity|reflexivity|congruence].
  - unfold inlen. cbn [set_in s_in]. rewrite Hs, app_length. cbn [length]. lia.
  - unfold inlen. lia.
Qed.

Lemma suffixb_one_inv y l : suffixb [y] l = true -> ends_with y l.
Proof.
  unfold suffixb. cbn [rev app]. destruct (rev l) as [|x t] eqn:E; [discriminate|]. cbn [prefixb]. rewrite andb_true_r.
  intros H. apply N.eqb_eq in H. subst x. exists (rev t). rewrite <- (rev_involutive l), E. reflexivity.
Qed.

Lemma run_sid s l r0 : s_in s = l ++ 13 :: r0 -> ~ In 13 l -> prefixb [91] l = true -> suffixb [93] l = true ->
  fst (run false s) <> XNil.
Proof.
  intros Hs Hn H1 H2. rewrite run_recv, (inbound_loop_eq (length (s_in s)) s), (next_line_raw true s l r0 Hs Hn).
  destruct l as [|x m]; [discriminate|]. cbn [prefixb] in H1. rewrite andb_true_r in H1. apply N.eqb_eq in H1. subst x.
  rewrite (clean_string_id 91 m 93 eq_refl eq_refl (suffixb_one_inv _ _ H2)).
  change (err_line (91 :: m)) with false. rewrite andb_false_r.
  unfold il_line. change (prefixb str_PM (91 :: m)) with false. cbv iota.
  change (91 =? 59) with false. cbv iota. change (negb (91 =? 70)) with true. rewrite orb_true_r. discriminate.
Qed.

Lemma master_greet_B gmv a : forall F s b sids, fst (run false s) = XNil ->
  Forall elem_off (toks (s_in s)) -> (length (toks (s_in s)) < F)%nat ->
  match slave_handshake F {| gm := gmv; gs := toks (s_in s); nm := a; ns := b |} sids with
  | inr v => notblame true v
  | inl st' => exists s' b' l rest, st' = {| gm := gmv; gs := toks (s_in s'); nm := a; ns := b' |} /\
       toks (s_in s') = Line (70 :: l) :: rest /\ run false s' = run false s /\ eqo s s' /\
       Forall elem_off (toks (s_in s')) /\ (length (toks (s_in s')) <= length (toks (s_in s)))%nat
  end.
Proof.
  induction F as [|F IH]; intros s b sids Hx Hok HF; [lia|].
  destruct (first_elem_cases (s_in s)) as [E Ht|l r0 E Hn Ht|hl t o r2 dd bok cok r3 E _ _ _ Ht|g Ht].
  - rewrite Ht. cbn [notblame slave_handshake gs]. discriminate.
  - destruct (prefixb [70] l) eqn:E70.
    + rewrite Ht, slave_hs_S, E70. destruct (sids =? 1)%nat; [|cbn [notblame]; discriminate].
      destruct l as [|x m]; [discriminate|]. cbn [prefixb] in E70. rewrite andb_true_r in E70. apply N.eqb_eq in E70. subst x.
      exists s, b, m, (toks r0). rewrite Ht. split; [reflexivity|]. split; [reflexivity|]. split; [reflexivity|].
      split; [apply eqo_refl|]. split; [rewrite <- Ht; exact Hok|lia].
    + rewrite Ht in Hok, HF. inversion Hok as [|? ? _ Hok']; subst. cbn [length] in HF.
      rewrite Ht.
      destruct (slave_hs_line F gmv l (toks r0) a b sids E70) as [(k1&k2&Hbad)|([Hcm|[Hs1 Hs2]]&sids'&Eq)].
      * rewrite Hbad. cbn [notblame]. discriminate.
      * rewrite Eq. pose proof (run_skip s l r0 E Hn Hcm) as Hrun.
        specialize (IH (set_in s r0) (S b) sids' ltac:(rewrite <- Hrun; exact Hx) Hok' ltac:(cbn [set_in s_in]; lia)).
        cbn [set_in s_in] in IH.
        destruct (slave_handshake F _ sids') as [st'|v]; [|exact IH].
        destruct IH as (s'&b'&l'&rest&I1&I2&I3&I4&I5&I6). exists s', b', l', rest.
        split; [exact I1|]. split; [exact I2|]. split; [rewrite I3; symmetry; exact Hrun|].
        split; [eapply eqo_trans; [apply eqo_set_in|exact I4]|]. split; [exact I5|cbn [length]; lia].
      * exfalso. exact (run_sid s l r0 E Hn Hs1 Hs2 Hx).
  - rewrite Ht. cbn [notblame slave_handshake gs]. discriminate.
  - rewrite Ht. cbn [notblame slave_handshake gs]. discriminate.
Qed.

(* ================================================================================== *)
(* 7. ONE LIBRARY SIDE AGAINST ANY PEER: the whole session                             *)
(* ================================================================================== *)
(* whatever the library writes in its own turn begins with a command line *)
Lemma send_head s q s1 : handle_outbound s = ROk (q, s1) -> Forall blk_conf (hob s) ->
  exists l rest, toks (tailw true s) = Line (70 :: l) :: rest.
Proof.
  intros Hho Hc. destruct (outbound s) as [props s0] eqn:Eo. destruct props as [|p ps].
  - pose proof Hho as Hho'. rewrite handle_outbound_eq, Eo in Hho'. cbv zeta in Hho'.
    destruct (outbound_block _ _ _ Eo) as (_&I0&O0&_&_).
    assert (Eq : q = s_remote_nomsgs s0) by congruence.
    assert (Es1 : s1 = wr s0 (if q then [70; 81; 13] else [70; 70; 13])) by (rewrite Eq; congruence).
    destruct q.
    + assert (Ht : tailw true s = [70; 81; 13]).
      { apply tailw_intro. rewrite (final_send_quit _ _ Hho), Es1, wire_wr, (wire_out _ _ O0). reflexivity. }
      rewrite Ht. exists [81], []. reflexivity.
    + assert (Ht : tailw true s = [70; 70] ++ 13 :: tailw false s1).
      { apply tailw_intro. rewrite (final_send_ok _ _ Hho), tailw_eq, Es1, wire_wr, (wire_out _ _ O0), <- app_assoc. reflexivity. }
      rewrite Ht, toks_line by (split; [cbn [In]; intuition discriminate|intros x; discriminate]).
      eexists. eexists. reflexivity.
  - destruct (send_start _ _ _ _ Eo) as (Bne&HB&_&W2&_&_&_). cbv zeta in *.
    set (B := firstn (N.to_nat MaxBlockSize) (p :: ps)) in *.
    assert (HcB : Forall blk_conf B) by (apply Forall_forall; intros x Hx; apply (proj1 (Forall_forall _ _) Hc), HB, Hx).
    destruct (grows_wire _ _ (send_grows _ _ _ _ Eo)) as [T2 HT2]. cbv zeta in HT2. fold B in HT2.
    assert (Ht : tailw true s = proposal_bytes B ++ T2).
    { apply tailw_intro. rewrite HT2, W2, <- app_assoc. reflexivity. }
    rewrite Ht, toks_proposal_bytes by exact HcB.
    destruct B as [|p0 ps0]; [congruence|]. cbn [map app]. rewrite proposal_line_eq. eexists. eexists. reflexivity.
Qed.

(* what is asked of the configuration of the library side beyond side_conf (the grammar's own
   conditions): a master greets without MOTD and ends its greeting with the prompt (kx_motd and
   cx_no_prompt below); a slave has no password callback (secure login is outside this proof) *)
Definition cfg_scope (cfg : side_cfg) : Prop :=
  (c_master cfg = true -> c_motd cfg = [] /\ hs_master (c_hs cfg) = true) /\
  (c_master cfg = false -> hs_cb (c_hs cfg) = None).

(* what is asked of the peer: elem_off on the lines of its stream (the offsets it asks for respect the
   protocol limit: ConformP.offset_limit_cx) and, when it is the master, greet_agree (section 6:
   ConformP.greeting_desync_cx and greeting_blank_cx below) *)
Definition peer_ok (cfg : side_cfg) (peer : bytes) : Prop :=
  Forall elem_off (toks peer) /\ (c_master cfg = false -> greet_agree (toks peer)).

Lemma wire_init cfg i : wire (init_state cfg i) = [].
Proof. unfold wire. rewrite (proj1 (proj2 (PairP.init_state_facts cfg i))). reflexivity. Qed.

Theorem one_side_conforms : forall (cfg : side_cfg) (peer_stream : bytes),
  side_conf cfg -> cfg_scope cfg -> peer_ok cfg peer_stream ->
  let o := exchange cfg peer_stream in
  x_res o = XNil ->
  let '(m, s) := if c_master cfg then (x_wire o, peer_stream) else (peer_stream, x_wire o) in
  match validate m s with VOk => True | VBad who _ _ => who <> c_master cfg end.
Proof.
  intros cfg peer (Hhs&Hob) (Hsc1&Hsc2) (Hel&Hga). cbv zeta. intros Hx.
  destruct (exchange_nil _ _ Hx) as (Bp&s2&Hhsk).
  destruct (exchange_ok3 cfg peer s2 Bp Hhsk) as (Rx&Wx&_). rewrite Hx in Rx. symmetry in Rx.
  destruct (PairP.init_state_facts cfg peer) as (Iin&Iout&Ih&Im&_).
  destruct (init_state_cfg cfg peer) as (Icfg&Imotd).
  pose proof Hhs as (Hok&_&_).
  assert (Hob2 : Forall blk_conf (hob s2)) by (unfold hob; rewrite (handshake_h _ _ Hhsk), Ih; exact Hob).
  rewrite tailw_eq in Wx.
  destruct (c_master cfg) eqn:Mc; cbn [negb] in *.
  - (* the library is the master *)
    destruct (Hsc1 eq_refl) as [Hmotd Hhm].
    destruct (handshake_master_inv _ _ Im ltac:(rewrite Imotd; exact Hmotd) Hhsk) as (d&Hrh).
    rewrite Icfg, Iin in Hrh. set (s0 := wr (init_state cfg peer) (hello (c_hs cfg))) in *.
    pose proof (read_handshake_eqo (S (length peer)) s0 d0) as Hq0. rewrite Hrh in Hq0. cbn [res_eqo] in Hq0.
    assert (W2 : wire s2 = hello (c_hs cfg)).
    { rewrite <- (wire_eqo _ _ Hq0). unfold s0. rewrite wire_wr, wire_init. reflexivity. }
    rewrite W2 in Wx. rewrite Wx. set (T := tailw false s2) in *.
    change (notblame true (validate (hello (c_hs cfg) ++ T) peer)).
    unfold validate. cbv zeta.
    change (tokens (S (length (hello (c_hs cfg) ++ T))) (hello (c_hs cfg) ++ T)) with (toks (hello (c_hs cfg) ++ T)).
    change (tokens (S (length peer)) peer) with (toks peer).
    rewrite hello_toks by exact Hok. cbn [length].
    rewrite master_hs_ok by (first [exact Hhs|exact Hhm]).
    assert (Hel0 : Forall elem_off (toks (s_in s0))) by (unfold s0; cbn [wr s_in]; rewrite Iin; exact Hel).
    destruct (master_greet_A (toks T) 3%nat _ s0 d0 d s2 Im Hrh Hel0 (S (length (toks peer))) 0%nat 0%nat
                ltac:(unfold s0; cbn [wr s_in]; rewrite Iin; lia)) as [(k1&k2&E)|(F'&b'&sids'&E&HF'&Hq&Hok'&Hle)];
      unfold s0 in E; cbn [wr s_in] in E; rewrite Iin in E; rewrite E; [cbn [notblame]; discriminate|].
    pose proof (master_greet_B (toks T) 3%nat F' s2 b' sids' Rx Hok' HF') as HB.
    destruct (slave_handshake F' _ sids') as [st'|v]; [|exact HB].
    destruct HB as (s'&b''&l&rest&->&Hhead&Hrun&Hq'&Hok''&Hle').
    assert (ET : T = tailw false s').
    { unfold T, tailw, final. rewrite Hrun, (wire_eqo _ _ Hq'). reflexivity. }
    change {| gm := toks T; gs := toks (s_in s'); nm := 3; ns := b'' |} with (mkst true (toks T) (toks (s_in s')) 3 b'').
    rewrite ET.
    apply (turns_conform true _ false s' 3%nat b'').
    + rewrite Hrun. exact Rx.
    + unfold hob. rewrite <- (eqo_h _ _ Hq'). exact Hob2.
    + exact Hok''.
    + unfold s0 in Hle. cbn [wr s_in] in Hle. rewrite Iin in Hle. rewrite <- ET. lia.
  - (* the library is the slave *)
    specialize (Hga eq_refl). specialize (Hsc2 eq_refl).
    destruct (handshake_slave_inv _ _ Im ltac:(rewrite Icfg; exact Hsc2) Hhsk) as (d&s1&Hrh&->).
    rewrite Icfg, Iin in *.
    pose proof (read_handshake_eqo (S (length peer)) (init_state cfg peer) d0) as Hq0. rewrite Hrh in Hq0. cbn [res_eqo] in Hq0.
    rewrite wire_wr, <- (wire_eqo _ _ Hq0), wire_init in Wx. cbn [app] in Wx.
    rewrite Wx. set (s2 := wr s1 (hello (c_hs cfg))) in *. set (T := tailw true s2) in *.
    change (notblame false (validate peer (hello (c_hs cfg) ++ T))).
    unfold validate. cbv zeta.
    change (tokens (S (length (hello (c_hs cfg) ++ T))) (hello (c_hs cfg) ++ T)) with (toks (hello (c_hs cfg) ++ T)).
    change (tokens (S (length peer)) peer) with (toks peer).
    rewrite hello_toks by exact Hok.
    rewrite run_send in Rx.
    destruct (handle_outbound s2) as [[q s3]|e s3|] eqn:Hho; [|destruct e; discriminate|discriminate].
    destruct (send_head _ _ _ Hho Hob2) as (l&rest&Hhead). fold T in Hhead.
    set (ES := Line (line1 (c_hs cfg)) :: Line (line2 (c_hs cfg)) :: Line (line3 (c_hs cfg)) :: toks T).
    pose proof (slave_greet ES _ (init_state cfg peer) d0 d s1 Im Hrh) as HG. rewrite Iin in HG.
    specialize (HG Hga Hel (S (length (toks peer))) 0%nat 0%nat ltac:(lia)).
    destruct (master_handshake (S (length (toks peer))) _ 0) as [st'|v]; [|exact HG].
    destruct HG as (a'&->&Hq&Hok'&Hle).
    unfold ES. rewrite Hhead. cbn [length].
    rewrite slave_hs_ok by exact Hhs. rewrite <- Hhead.
    change {| gm := toks (s_in s1); gs := toks T; nm := a'; ns := 3 |} with (mkst false (toks T) (toks (s_in s2)) 3 a').
    apply (turns_conform false _ true s2 3%nat a').
    + rewrite run_send, Hho. exact Rx.
    + exact Hob2.
    + exact Hok'.
    + fold T. change (s_in s2) with (s_in s1). rewrite Hhead in *. cbn [length]. lia.
Qed.

(* ================================================================================== *)
(* 8. The hypotheses: counterexamples (closed, by computation) and remarks             *)
(* ================================================================================== *)
Ltac toks_compute_in H s := let t := eval vm_compute in (toks s) in change (toks s) with t in H.
Ltac toks_compute s := let t := eval vm_compute in (toks s) in change (toks s) with t.
Ltac elem_off_lines :=
  repeat (apply Forall_cons;
          [cbn [elem_off]; intros G HG; vm_compute in HG; discriminate HG|]);
  apply Forall_nil.

(* ---------- greet_agree (the library is the slave) ---------- *)
(* (1) ConformP.greeting_desync_cx: the master's line ";FW: X>" ends the greeting for the grammar and not
   for the library; the library is blamed.  The stream satisfies elem_off, it violates greet_agree only. *)
Example greeting_desync_elem_off : Forall elem_off (toks kx_peer_greeting).
Proof. toks_compute kx_peer_greeting. elem_off_lines. Qed.
Example greeting_desync_not_agree : ~ greet_agree (toks kx_peer_greeting).
Proof.
  intros H. toks_compute_in H kx_peer_greeting. cbn [greet_agree] in H. destruct H as [_ H].
  destruct (H ltac:(vm_compute; reflexivity)) as [H1 _]. vm_compute in H1. discriminate H1.
Qed.

(* (2) the other direction: the master's line "X> " (a blank after the prompt) ends the greeting for the
   library (cleanString) and not for the grammar, which goes on to "F>" (for the library: the empty
   block of proposals, answered by FQ); the peer's "FQ" then follows the library's FQ: the LIBRARY is
   blamed (something follows the quit) *)
Definition cx_peer_blank : bytes :=
  [91;82;45;49;45;66;50;70;36;93;13] ++ [88;62;32;13] ++ [70;62;13] ++ [70;81;13].
Example greeting_blank_cx : kx_verdict (kx_good false []) cx_peer_blank = (XNil, VBad false 14 4).
Proof. vm_compute. reflexivity. Qed.
Example greeting_blank_elem_off : Forall elem_off (toks cx_peer_blank).
Proof. toks_compute cx_peer_blank. elem_off_lines. Qed.
Example greeting_blank_not_agree : ~ greet_agree (toks cx_peer_blank).
Proof.
  intros H. toks_compute_in H cx_peer_blank. cbn [greet_agree] in H. destruct H as [_ H].
  destruct (H ltac:(vm_compute; reflexivity)) as [H1 _]. vm_compute in H1. discriminate H1.
Qed.

(* ---------- the offsets (elem_off) ---------- *)
(* ConformP.offset_limit_cx: the peer answers "FS !1000000", the library restarts at 0 and is blamed; the
   stream satisfies greet_agree, it violates elem_off only *)
Example offset_limit_agree : greet_agree (toks kx_peer_offset).
Proof. toks_compute kx_peer_offset. cbn [greet_agree]. split; [vm_compute; reflexivity|]. intros _. split; [vm_compute; reflexivity|discriminate]. Qed.
Example offset_limit_not_off : ~ Forall elem_off (toks kx_peer_offset).
Proof.
  intros H. rewrite Forall_forall in H.
  specialize (H (Line [70;83;32;33;49;48;48;48;48;48;48]) ltac:(toks_compute kx_peer_offset; cbn [In]; auto)).
  cbn [elem_off] in H. specialize (H [GAccept 1000000] ltac:(vm_compute; reflexivity)).
  inversion H as [|? ? H1 _]; subst. cbn [off_small] in H1. lia.
Qed.

(* ---------- cfg_scope ---------- *)
Definition cx_slave_stream : bytes :=
  [59;70;87;58;32;88;13] ++ [91;82;45;49;45;66;50;70;36;93;13] ++ [59;32;120;13] ++ [70;70;13].
(* the reference: a conforming master against this slave is accepted *)
Example cx_slave_stream_ok : kx_verdict (kx_good true []) cx_slave_stream = (XNil, VOk).
Proof. vm_compute. reflexivity. Qed.
Example cx_slave_stream_peer_ok : peer_ok (kx_good true []) cx_slave_stream.
Proof. split; [toks_compute cx_slave_stream; elem_off_lines|discriminate]. Qed.
(* a MOTD line ";FW: a|b" of the library master is refused by the grammar (as ConformP.kx_motd) *)
Example cx_motd : kx_verdict (kx_side true [119] [[76;65;49;66]] [[59;70;87;58;32;97;124;98]] []) cx_slave_stream = (XNil, VBad true 22 0).
Proof. vm_compute. reflexivity. Qed.
(* a master whose greeting does not end with the prompt (hs_master = false): the grammar never sees the
   end of the master's greeting *)
Definition cx_noprompt_side : side_cfg :=
  {| c_master := true; c_motd := [];
     c_hs := {| hs_fw := [[76;65;49;66]]; hs_name := [119]; hs_version := [49]; hs_target := [88];
                hs_mycall := [76;65;49;66]; hs_locator := []; hs_master := false; hs_gzip := false; hs_cb := None |};
     c_handler := {| h_present := true; h_prepare_err := false; h_outbox := []; h_gone := []; h_policy := []; h_fail := [] |} |}.
Example cx_no_prompt : kx_verdict cx_noprompt_side cx_slave_stream = (XNil, VBad true 24 4).
Proof. vm_compute. reflexivity. Qed.

(* ---------- REMARK: a syntactic sufficient condition for peer_ok ---------- *)
(* a line without outer blanks or NUL: empty, or its first and last bytes are printable non-blank ASCII *)
Definition tidy (l : bytes) : Prop :=
  l = [] \/ exists x m y, l = x :: m /\ okb x = true /\ okb y = true /\ ends_with y l.

Lemma tidy_clean l : tidy l -> clean_string l = l.
Proof. intros [->|(x&m&y&->&Hx&Hy&He)]; [vm_compute; reflexivity|apply (clean_string_id x m y Hx Hy He)]. Qed.

(* the greeting of a master: tidy lines, and the first line that ends with '>' is neither a ";FW" nor a
   ";PQ" line *)
Fixpoint greet_simple (es : list elem) : Prop :=
  match es with
  | Line l :: r => tidy l /\ (if suffixb [62] l then prefixb str_FWp l = false /\ prefixb str_PQ l = false else greet_simple r)
  | _ => True
  end.

Lemma greet_simple_agree es : greet_simple es -> greet_agree es.
Proof.
  induction es as [|e es IH]; intros H; [exact I|]. destruct e as [l| |]; try exact I.
  cbn [greet_simple greet_agree] in *. destruct H as [Ht H]. unfold stops_lib, stops. rewrite (tidy_clean _ Ht).
  destruct (suffixb [62] l) eqn:E.
  - destruct H as [H1 H2]. rewrite H1, H2, (suffixb_one 93 62 l (suffixb_one_inv _ _ E)).
    split; [rewrite andb_false_r; reflexivity|discriminate].
  - split; [rewrite andb_false_r; reflexivity|]. intros _. apply IH, H.
Qed.

Lemma peer_simple_ok cfg peer :
  Forall elem_off (toks peer) -> (c_master cfg = false -> greet_simple (toks peer)) -> peer_ok cfg peer.
Proof. intros H1 H2. split; [exact H1|]. intros Hm. apply greet_simple_agree, H2, Hm. Qed.

Print Assumptions comment_clean_cases.
Print Assumptions sender_turn2.
Print Assumptions receiver_turn.
Print Assumptions turns_conform.
Print Assumptions slave_greet.
Print Assumptions master_greet_A.
Print Assumptions master_greet_B.
Print Assumptions one_side_conforms.
Print Assumptions greeting_blank_cx.
Print Assumptions cx_motd.
Print Assumptions cx_no_prompt.
Print Assumptions peer_simple_ok.

(* NOT DONE / LIMITS
   - Secure login: a library SLAVE with a password callback (hs_cb <> None) answers a ";PQ" challenge
     with "|response" items and a ";PR" line; cfg_scope excludes it (with hs_cb = None a non-empty
     challenge makes the handshake fail, so nothing is lost there).  Not shown necessary.
   - cfg_scope asks a library master for an EMPTY MOTD; harmless MOTD lines are not covered (cx_motd
     shows a harmful one).
   - elem_off is asked of every line of the peer's stream that parses as an "FS" answer line, not only of
     those the session uses as answers.
   - greet_agree is exactly the agreement of the two readers on the end of the master's greeting; it is
     shown necessary by the two counterexamples, not characterised further (a disagreement need not
     always end with the library blamed). *)
