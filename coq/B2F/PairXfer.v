(* B2F/PairXfer.v -- inverse lemmas for the framed message transfers of the two-party development:
   what write_compressed / send_accepted of one side writes, read_compressed / receive_accepted
   of the other side reads back. *)
From Coq Require Import List NArith ZArith Bool Lia ZifyN ZifyNat ZifyBool.
From Verif Require Import Base.Bytes Base.BytesP Base.Utf8 gen.Tables Lzhuf.Dec Msg.Message B2F.Secure B2F.Side B2F.SideP
  B2F.TermP B2F.CodecP B2F.CutP B2F.PairDefs.
Import ListNotations.
Open Scope N_scope.

(* ---------- the wire ---------- *)
Lemma wire_wr s b : wire (wr s b) = wire s ++ b.
Proof.
  unfold wire. cbn [wr s_out rev]. rewrite concat_app. cbn [concat]. rewrite app_nil_r. reflexivity.
Qed.

Lemma wire_ev s e : wire (ev s e) = wire s.
Proof. reflexivity. Qed.
Lemma wire_mark_gone s m : wire (mark_gone s m) = wire s.
Proof. reflexivity. Qed.

(* the transfer with the parts of the header and the frames separated *)
Lemma xfer_bytes_eq p rest :
  xfer_bytes p ++ rest =
  CHRSOH :: N.of_nat (length (firstn 80 (o_title p)) + 3) :: firstn 80 (o_title p) ++
  CHRNUL :: 48 :: CHRNUL ::
  (data_chunks (S (length (o_cdata p))) (o_cdata p) ++ [CHREOT; (256 - sumN (o_cdata p) mod 256) mod 256] ++ rest).
Proof.
  unfold xfer_bytes. cbv zeta. cbn [app]. rewrite <- !app_assoc. cbn [app]. rewrite <- !app_assoc. reflexivity.
Qed.

Lemma write_compressed_zero s p :
  (6 <= length (o_cdata p))%nat ->
  exists s', write_compressed s p 0 = ROk s' /\ wire s' = wire s ++ xfer_bytes p /\
     s_in s' = s_in s /\ s_ev s' = s_ev s /\ s_h s' = s_h s.
Proof.
  intros H. unfold write_compressed.
  change (0 <? 0)%Z with false. cbn [orb].
  destruct (Z.of_nat (length (o_cdata p)) <? 0)%Z eqn:E1; [lia|].
  cbv zeta.
  destruct (Z.of_nat (length (o_cdata p)) <? 6)%Z eqn:E2; [lia|].
  eexists. split; [reflexivity|]. split; [|repeat split; reflexivity].
  rewrite !wire_wr. rewrite <- app_assoc. f_equal.
  change (Z.to_nat 0) with 0%nat. change (dec_of_Z 0) with [48]. cbn [skipn length].
  pose proof (firstn_le_length 80 (o_title p)) as Hl.
  assert (Hm : N.of_nat (length (firstn 80 (o_title p)) + 1 + 2) mod 256 = N.of_nat (length (firstn 80 (o_title p)) + 3)).
  { rewrite N.mod_small by lia. f_equal. lia. }
  rewrite Hm. unfold xfer_bytes. cbv zeta. cbn [app]. rewrite <- !app_assoc. cbn [app]. reflexivity.
Qed.

(* ---------- reading the header fields ---------- *)
Lemma split_at_notin c : forall a r, ~ In c a -> split_at c (a ++ c :: r) = (a, Some r).
Proof.
  induction a as [|x a IH]; intros r H; cbn [app split_at].
  - rewrite N.eqb_refl. reflexivity.
  - destruct (x =? c) eqn:E.
    + apply N.eqb_eq in E. exfalso. apply H. left. exact E.
    + rewrite IH; [reflexivity|]. intros Hc. apply H. right. exact Hc.
Qed.

Lemma read_until_notin c a r : ~ In c a -> read_until c (a ++ c :: r) = Some (a, r).
Proof. intros H. unfold read_until. rewrite split_at_notin by exact H. reflexivity. Qed.

Lemma read_compressed_xfer s p ip rest :
  ~ In 0 (firstn 80 (o_title p)) -> i_csize ip = Z.of_nat (length (o_cdata p)) ->
  s_in s = xfer_bytes p ++ rest ->
  read_compressed s ip = ROk (o_cdata p, set_in s rest).
Proof.
  intros Ht Hc Hi. unfold read_compressed. rewrite Hi, xfer_bytes_eq.
  change (CHRSOH =? CHRSOH) with true. cbv iota.
  rewrite (read_until_notin CHRNUL _ _ Ht).
  set (W := data_chunks (S (length (o_cdata p))) (o_cdata p) ++ [CHREOT; (256 - sumN (o_cdata p) mod 256) mod 256] ++ rest).
  change (read_until CHRNUL (48 :: CHRNUL :: W)) with (Some ([48], W)). cbv iota beta.
  cbn [length].
  assert (Hn : (N.to_nat (N.of_nat (length (firstn 80 (o_title p)) + 3)) =? length (firstn 80 (o_title p)) + 1 + 2)%nat = true).
  { apply Nat.eqb_eq. lia. }
  rewrite Hn. cbn [negb]. cbv iota.
  change (num_of_digits [48] 0) with (Some 0).
  cbv iota. change (9223372036854775807 <? 0) with false. cbv iota.
  change (negb (0 =? 0)) with false. cbv iota.
  rewrite Hc. unfold W. rewrite (frames_roundtrip (o_cdata p) rest). reflexivity.
Qed.

(* ---------- the same transfer read from a shorter and from a longer input ---------- *)
Lemma read_frames_agree i2 : forall f1 f2 i1 buf sum cs d r d' r',
  (length i1 < f1)%nat -> (length i1 + length i2 < f2)%nat ->
  read_frames f1 i1 buf sum cs = FOk d r -> read_frames f2 (i1 ++ i2) buf sum cs = FOk d' r' ->
  d = d' /\ exists j', r' = r ++ j'.
Proof.
  induction f1 as [|f1 IH]; intros f2 i1 buf sum cs d r0 d' r0' H1 H2; [lia|]. destruct f2 as [|f2]; [lia|].
  cbn [read_frames]. destruct i1 as [|c r]; [discriminate|]. cbn [app].
  destruct (c =? CHRSTX).
  - destruct r as [|l r1].
    { destruct (take_n 256 [] buf sum) as [[[b' r2] s']|] eqn:E; [discriminate E|discriminate]. }
    cbn [app]. set (len := if l =? 0 then 256%nat else N.to_nat l).
    destruct (take_n len r1 buf sum) as [[[b' r2] s']|] eqn:E; [|discriminate].
    destruct (take_n_app i2 _ _ _ _ _ _ _ E) as [E' Hs]. rewrite E'.
    pose proof (sfx_length _ _ Hs) as Hl. cbn [length] in *.
    apply IH; lia.
  - destruct (c =? CHREOT) eqn:Ec; [|discriminate].
    destruct r as [|k r1].
    + cbn [app]. destruct i2 as [|k r1'].
      * destruct (negb ((sum + 0) mod 256 =? 0)); [discriminate|].
        destruct (negb (cs =? Z.of_nat (length buf))%Z); [discriminate|].
        intros E E'; inversion E; inversion E'; subst. split; [reflexivity|]. exists []. reflexivity.
      * destruct (negb ((sum + 0) mod 256 =? 0)); [discriminate|].
        destruct (negb (cs =? Z.of_nat (length buf))%Z); [discriminate|].
        destruct (negb ((sum + k) mod 256 =? 0)); [discriminate|].
        intros E E'; inversion E; inversion E'; subst. split; [reflexivity|]. eexists; reflexivity.
    + cbn [app]. destruct (negb ((sum + k) mod 256 =? 0)); [discriminate|].
      destruct (negb (cs =? Z.of_nat (length buf))%Z); [discriminate|].
      intros E E'; inversion E; inversion E'; subst. split; [reflexivity|]. exists i2. reflexivity.
Qed.

Lemma set_in_ext j s r j' : set_in (ext j s) (r ++ j') = ext j' (set_in s r).
Proof. reflexivity. Qed.

Lemma read_compressed_agree s ip j cd s1 cd' s2 :
  read_compressed s ip = ROk (cd, s1) -> read_compressed (ext j s) ip = ROk (cd', s2) ->
  cd = cd' /\ exists j', s2 = ext j' s1.
Proof.
  unfold read_compressed. change (s_in (ext j s)) with (s_in s ++ j).
  destruct (s_in s) as [|c r] eqn:Ein; [discriminate|]. cbn [app].
  destruct (c =? CHRSOH).
  - destruct r as [|hl r1]; [discriminate|]. cbn [app].
    destruct (read_until CHRNUL r1) as [[title r2]|] eqn:E1; [|discriminate].
    rewrite (read_until_app _ _ j _ _ E1).
    destruct (read_until CHRNUL r2) as [[offs r3]|] eqn:E2; [|discriminate].
    rewrite (read_until_app _ _ j _ _ E2).
    destruct (negb (N.to_nat hl =? length title + length offs + 2)%nat); [discriminate|].
    set (digits := match offs with 45 :: d => d | 43 :: d => d | _ => offs end).
    destruct digits as [|x xs]; [discriminate|].
    destruct (num_of_digits (x :: xs) 0) as [v|]; [|discriminate].
    destruct (9223372036854775807 <? v); [discriminate|]. destruct (negb (v =? 0)); [discriminate|].
    destruct (read_frames (S (length r3)) r3 [] 0 (i_csize ip)) as [d r4|e r4] eqn:F1; [|discriminate].
    destruct (read_frames (S (length (r3 ++ j))) (r3 ++ j) [] 0 (i_csize ip)) as [d' r4'|e r4'] eqn:F2; [|discriminate].
    intros H1 H2. inversion H1; inversion H2; subst.
    assert (L1 : (length r3 < S (length r3))%nat) by lia.
    assert (L2 : (length r3 + length j < S (length (r3 ++ j)))%nat) by (rewrite app_length; lia).
    destruct (read_frames_agree j _ _ _ _ _ _ _ _ _ _ L1 L2 F1 F2) as [Hd [j' Hr]].
    split; [exact Hd|]. exists j'. rewrite Hr. reflexivity.
  - destruct (c =? 42); [|discriminate].
    destruct (next_line true (set_in s r)) as [[l s']|e s'|]; discriminate.
Qed.

(* ---------- the sender's transfers of a block ---------- *)
Lemma send_accepted_zero block : forall answers s sent, length answers = length block -> Forall prop_syn block ->
  exists s4, send_accepted s block (map (fun a => PAns a 0%Z) answers) sent = ROk (s4, rev (sent_of block answers) ++ sent) /\
    wire s4 = wire s ++ xfers block answers /\ s_in s4 = s_in s /\ h_outbox (s_h s4) = h_outbox (s_h s).
Proof.
  induction block as [|p ps IH]; intros answers s sent Hl Hf.
  { destruct answers; [|discriminate]. exists s. cbn. rewrite app_nil_r. repeat split; reflexivity. }
  destruct answers as [|a r]; [discriminate|]. cbn [length] in Hl. injection Hl as Hl.
  inversion Hf as [|? ? Hp Hf']; subst.
  cbn [map send_accepted sent_of xfers]. destruct a.
  - destruct Hp as (_ & H6 & _).
    destruct (write_compressed_zero s p H6) as (s1 & Hw & W1 & I1 & _ & Hh1). rewrite Hw.
    destruct (IH r s1 ((o_mid p, false) :: sent) Hl Hf') as (s4 & Hs & W4 & I4 & Hh4).
    exists s4. rewrite Hs. split.
    + cbn [app rev]. rewrite <- app_assoc. reflexivity.
    + rewrite W4, W1, I4, I1, Hh4, Hh1, app_assoc. repeat split; reflexivity.
  - destruct (IH r s ((o_mid p, true) :: sent) Hl Hf') as (s4 & Hs & W4 & I4 & Hh4).
    exists s4. rewrite Hs. split.
    + cbn [app rev]. rewrite <- app_assoc. reflexivity.
    + cbn [app]. repeat split; assumption.
  - destruct (IH r (ev (mark_gone s (o_mid p)) (EvSetDeferred (o_mid p))) sent Hl Hf') as (s4 & Hs & W4 & I4 & Hh4).
    exists s4. rewrite Hs. split; [reflexivity|]. cbn [app]. repeat split; assumption.
Qed.

(* a title with a NUL among the 80 bytes sent: the receiver finds the two NUL terminated fields
   too early and the header length does not match; whatever initial part of the transfer it is
   given, it does not accept it *)
Lemma in_split_first (c : N) : forall l, In c l -> exists a b, l = a ++ c :: b /\ ~ In c a.
Proof.
  induction l as [|x l IH]; intros H; [destruct H|].
  destruct (N.eq_dec x c) as [->|Hn]; [exists [], l; split; [reflexivity|intros []]|].
  destruct H as [H|H]; [congruence|]. destruct (IH H) as (a&b&->&Ha).
  exists (x :: a), b. split; [reflexivity|]. intros [E|E]; [congruence|exact (Ha E)].
Qed.

Lemma split_at_len c : forall l a r, split_at c l = (a, Some r) -> (length a <= length l)%nat.
Proof.
  induction l as [|x l IH]; intros a r H; cbn [split_at] in H; [discriminate|].
  destruct (x =? c); [inversion H; subst; cbn; lia|].
  destruct (split_at c l) as [a' [r'|]] eqn:E; inversion H; subst. specialize (IH _ _ eq_refl). cbn [length]. lia.
Qed.

Lemma read_until_prefix_len c a b o r : read_until c (a ++ c :: b) = Some (o, r) -> (length o <= length a)%nat.
Proof.
  destruct (in_dec N.eq_dec c a) as [Hi|Hn].
  - destruct (in_split_first c a Hi) as (a1&a2&->&Hn). rewrite <- app_assoc. cbn [app].
    rewrite read_until_notin by exact Hn. intros H; inversion H; subst. rewrite app_length. lia.
  - rewrite read_until_notin by exact Hn. intros H; inversion H; subst. lia.
Qed.

Lemma read_compressed_nul_title s p ip R cd s1 :
  In 0 (firstn 80 (o_title p)) -> prefix (s_in s) (xfer_bytes p ++ R) ->
  read_compressed s ip = ROk (cd, s1) -> False.
Proof.
  intros Hnul [x Hx]. rewrite xfer_bytes_eq in Hx.
  assert (Hl : (length (firstn 80 (o_title p)) <= 80)%nat) by (rewrite firstn_length; lia).
  destruct (in_split_first 0 _ Hnul) as (t1&t2&Et&Hn1). rewrite Et in Hx, Hl. rewrite app_length in Hl, Hx. cbn [length] in Hl, Hx.
  unfold read_compressed. destruct (s_in s) as [|c r]; [discriminate|]. cbn [app] in Hx. injection Hx as <- Hx.
  change (CHRSOH =? CHRSOH) with true. cbv iota.
  destruct r as [|hl r1]; [discriminate|]. cbn [app] in Hx. injection Hx as <- Hx.
  rewrite <- app_assoc in Hx. cbn [app] in Hx.
  destruct (read_until CHRNUL r1) as [[title r2]|] eqn:E1; [|discriminate].
  pose proof (read_until_app _ _ x _ _ E1) as E1'. rewrite <- Hx in E1'.
  change CHRNUL with 0 in E1'. rewrite read_until_notin in E1' by exact Hn1. injection E1' as <- Hr2.
  destruct (read_until CHRNUL r2) as [[offs r3]|] eqn:E2; [|discriminate].
  pose proof (read_until_app _ _ x _ _ E2) as E2'. rewrite <- Hr2 in E2'.
  change CHRNUL with 0 in E2'. apply read_until_prefix_len in E2'.
  assert (Hne : (N.to_nat (N.of_nat (length t1 + S (length t2) + 3)) =? length t1 + length offs + 2)%nat = false)
    by (apply Nat.eqb_neq; lia).
  rewrite Hne. discriminate.
Qed.

(* ---------- the receiver, fed the genuine transfers ---------- *)
Lemma receive_genuine block : forall answers s Y s',
  length answers = length block -> Forall prop_syn block ->
  prefix (s_in s) (xfers block answers ++ Y) ->
  receive_accepted s (zip_props block answers) = RcOk s' ->
  prefix (s_in s') Y /\
  (forall p a mid data, In (p, a) (combine block answers) -> a = AAccept ->
     proposal_message (o_cdata p) = MOk mid data -> In (EvProcess mid data true) (s_ev s')).
Proof.
  induction block as [|p0 ps IH]; intros answers s Y s' Hl Hf Hp Hr.
  { destruct answers; [|discriminate]. cbn in Hr. inversion Hr; subst. cbn in Hp.
    split; [exact Hp|]. intros p a mid data []. }
  destruct answers as [|a0 r]; [discriminate|]. cbn [length] in Hl. injection Hl as Hl.
  inversion Hf as [|? ? Hsyn Hf']; subst.
  change (zip_props (p0 :: ps) (a0 :: r)) with (iprop_of p0 a0 :: zip_props ps r) in Hr.
  cbn [receive_accepted] in Hr. change (i_answer (iprop_of p0 a0)) with a0 in Hr.
  cbn [xfers] in Hp. cbn [combine].
  assert (Hrest : forall s0 : sess, a0 <> AAccept -> receive_accepted s0 (zip_props ps r) = RcOk s' ->
            prefix (s_in s0) (xfers ps r ++ Y) ->
            prefix (s_in s') Y /\
            (forall p a mid data, In (p, a) ((p0, a0) :: combine ps r) -> a = AAccept ->
               proposal_message (o_cdata p) = MOk mid data -> In (EvProcess mid data true) (s_ev s'))).
  { intros s0 Ha Hr0 Hp0. destruct (IH r s0 Y s' Hl Hf' Hp0 Hr0) as [I1 I2]. split; [exact I1|].
    intros p a mid data [E|Hin] Hacc Hm; [inversion E; subst; contradiction|]. eapply I2; eassumption. }
  destruct a0; [|apply (Hrest s); [discriminate|exact Hr|exact Hp]..].
  clear Hrest.
  rewrite <- app_assoc in Hp.
  set (R := xfers ps r ++ Y) in *.
  set (ip := iprop_of p0 AAccept) in *.
  destruct (read_compressed s ip) as [[cd s1]|e s1|] eqn:Hshort; [|discriminate..].
  destruct (in_dec N.eq_dec 0 (firstn 80 (o_title p0))) as [Hnul|Htitle].
  { exfalso. eapply read_compressed_nul_title; [exact Hnul|exact Hp|exact Hshort]. }
  destruct Hp as [x Hx].
  assert (Hin : s_in (ext x s) = xfer_bytes p0 ++ R) by (symmetry; exact Hx).
  pose proof (read_compressed_xfer (ext x s) p0 ip R Htitle eq_refl Hin) as Hlong.
  destruct (read_compressed_agree _ _ _ _ _ _ _ Hshort Hlong) as [Hcd [j' Hj]]. subst cd.
  assert (HR : R = s_in s1 ++ j').
  { apply (f_equal s_in) in Hj. exact Hj. }
  destruct (proposal_message (o_cdata p0)) as [mid0 data0|e|] eqn:Hm0; [|discriminate..].
  destruct (mem_bytes mid0 (h_fail (s_h s1))); [discriminate|].
  set (s2 := add_recv (ev s1 (EvProcess mid0 data0 (negb false))) (i_mid ip)) in *.
  assert (Hp2 : prefix (s_in s2) (xfers ps r ++ Y)).
  { exists j'. exact HR. }
  destruct (IH r s2 Y s' Hl Hf' Hp2 Hr) as [I1 I2]. split; [exact I1|].
  intros p a mid data [E|Hi] Hacc Hm.
  - inversion E; subst. rewrite Hm0 in Hm. inversion Hm; subst.
    pose proof (receive_accepted_grows (zip_props ps r) s2) as Hg. rewrite Hr in Hg.
    destruct Hg as (_ & [y Hy] & _). rewrite Hy. apply in_or_app. right. left. reflexivity.
  - eapply I2; eassumption.
Qed.

(* ---------- extras ---------- *)
Lemma mark_sent_events sent : forall s m, In (EvSetSent m false) (s_ev (mark_sent sent s)) -> In (m, false) sent \/ In (EvSetSent m false) (s_ev s).
Proof.
  unfold mark_sent. induction sent as [|[m0 b] l IH]; intros s m H; cbn [fold_left] in H; [right; exact H|].
  cbn [snd fst] in H. destruct b.
  - destruct (IH _ _ H) as [H1|H1]; [left; right; exact H1|right; exact H1].
  - destruct (IH _ _ H) as [H1|H1]; [left; right; exact H1|].
    cbn [add_sent ev s_ev] in H1. destruct H1 as [E|H1].
    + inversion E; subst. left. left. reflexivity.
    + right. exact H1.
Qed.

Lemma sent_of_accepted block : forall answers m, In (m, false) (sent_of block answers) -> exists p, In (p, AAccept) (combine block answers) /\ o_mid p = m.
Proof.
  induction block as [|p ps IH]; intros answers m H; [destruct H|].
  destruct answers as [|a r]; [destruct H|]. cbn [sent_of combine] in *.
  apply in_app_or in H. destruct H as [H|H].
  - destruct a; cbn in H.
    + destruct H as [E|[]]. inversion E; subst. exists p. split; [left; reflexivity|reflexivity].
    + destruct H as [E|[]]. discriminate E.
    + destruct H.
  - destruct (IH r m H) as (q & Hq & Em). exists q. split; [right; exact Hq|exact Em].
Qed.

Print Assumptions write_compressed_zero.
Print Assumptions read_compressed_xfer.
Print Assumptions read_compressed_agree.
Print Assumptions send_accepted_zero.
Print Assumptions receive_genuine.
Print Assumptions wire_wr.
Print Assumptions mark_sent_events.
Print Assumptions sent_of_accepted.
