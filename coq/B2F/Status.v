(* B2F/Status.v — model of the transfer progress reporting of fbb/b2f.go (writeCompressed's
   ticker goroutine, readCompressed's notify goroutine) as report sequences, and an independent
   judge of report sequences.  Definitions only.
   The shared state between the transfer and the reporter is ONE counter (remaining / received),
   which is what the code shares (an atomic) after the fix: commit; the events below are the
   atomic steps of the two goroutines in any interleaving. *)
From Coq Require Import List NArith ZArith Bool.
Import ListNotations.
Open Scope Z_scope.

Record report := { r_sending : bool; r_mid : N; r_transferred : Z; r_total : Z; r_done : bool }.

(* ---------- send side ---------- *)
Inductive sev := STick (txbuf : Z) | SBlock (n : Z) | SEnd.

(* state: remaining bytes in the buffer; the reporter stops at SEnd *)
Fixpoint send_reports (mid : N) (total remaining : Z) (evs : list sev) : list report :=
  match evs with
  | [] => []
  | STick tx :: r =>
      let t := total - remaining - tx in
      {| r_sending := true; r_mid := mid; r_transferred := (if t <? 0 then 0 else t); r_total := total; r_done := false |}
      :: send_reports mid total remaining r
  | SBlock n :: r => send_reports mid total (remaining - n) r
  | SEnd :: _ =>
      [{| r_sending := true; r_mid := mid; r_transferred := total - remaining; r_total := total; r_done := true |}]
  end.

(* the blocks the transfer loop takes: positive, never more than what remains *)
Fixpoint send_valid (remaining : Z) (evs : list sev) : bool :=
  match evs with
  | [] => false                                   (* the reporter always sees the end *)
  | STick tx :: r => (0 <=? tx) && send_valid remaining r
  | SBlock n :: r => (0 <? n) && (n <=? remaining) && send_valid (remaining - n) r
  | SEnd :: _ => true
  end.

(* ---------- receive side ---------- *)
Inductive rev_ := RNotify | RByte | REnd.

Fixpoint recv_reports (mid : N) (total received : Z) (evs : list rev_) : list report :=
  match evs with
  | [] => []
  | RNotify :: r =>
      {| r_sending := false; r_mid := mid; r_transferred := received; r_total := total; r_done := false |}
      :: recv_reports mid total received r
  | RByte :: r => recv_reports mid total (received + 1) r
  | REnd :: _ =>
      [{| r_sending := false; r_mid := mid; r_transferred := received; r_total := total; r_done := true |}]
  end.

(* a conforming sender never sends more than the proposed size *)
Fixpoint recv_valid (total received : Z) (evs : list rev_) : bool :=
  match evs with
  | [] => false
  | RNotify :: r => recv_valid total received r
  | RByte :: r => (received <? total) && recv_valid total (received + 1) r
  | REnd :: _ => true
  end.

(* ---------- the judge: what a user of StatusUpdater may rely on for one transferred message ---------- *)
Definition report_ok (sending : bool) (mid : N) (total : Z) (r : report) : bool :=
  Bool.eqb (r_sending r) sending && (r_mid r =? mid)%N && (0 <=? r_transferred r) && (r_transferred r <=? total)
  && (r_total r =? total).

Fixpoint reports_ok (sending : bool) (mid : N) (total : Z) (rs : list report) : bool :=
  match rs with
  | [] => false                                            (* no final report *)
  | [r] => report_ok sending mid total r && r_done r       (* exactly one Done report, and it is the last *)
  | r :: rest => report_ok sending mid total r && negb (r_done r) && reports_ok sending mid total rest
  end.

Fixpoint nondecreasing (rs : list report) : bool :=
  match rs with
  | a :: ((b :: _) as rest) => (r_transferred a <=? r_transferred b) && nondecreasing rest
  | _ => true
  end.

(* a whole session's reports for one direction: the concatenation of the per-message sequences,
   split at the Done reports *)
Fixpoint split_done (acc : list report) (rs : list report) : list (list report) :=
  match rs with
  | [] => match acc with [] => [] | _ => [rev acc] end
  | r :: rest => if r_done r then rev (r :: acc) :: split_done [] rest else split_done (r :: acc) rest
  end.

Definition session_ok (sending : bool) (msgs : list (N * Z)) (rs : list report) : bool :=
  let groups := split_done [] rs in
  (length groups =? length msgs)%nat &&
  forallb (fun gm => reports_ok sending (fst (snd gm)) (snd (snd gm)) (fst gm)) (combine groups msgs).
