(* B2F/ConformScopeP.v -- ONE LIBRARY SIDE AGAINST AN ARBITRARY PEER, WIDER SCOPE.  Continues
   B2F/ConformOneP.v where that file stops (its list "NOT DONE / LIMITS", first two items): the secure login
   of a library slave and the MOTD of a library master are brought inside the theorem.  No axioms, every
   statement is proved (Print Assumptions at the end: closed under the global context).

   MAIN RESULT (section C)
     Theorem one_side_conforms_wide : forall (cfg : side_cfg) (peer_stream : bytes),
       side_conf cfg -> cfg_scope' cfg -> peer_ok' cfg peer_stream ->
       let o := exchange cfg peer_stream in
       x_res o = XNil ->
       let '(m, s) := if c_master cfg then (x_wire o, peer_stream) else (peer_stream, x_wire o) in
       match validate m s with VOk => True | VBad who _ _ => who <> c_master cfg end.
   with
     side_conf cfg    as before (ConformP.v);
     cfg_scope' cfg   c_master cfg = true -> hs_master (c_hs cfg) = true /\ motd_ok (c_motd cfg).
                      NOTHING is asked of a slave any more (hs_cb arbitrary).  A master still ends its greeting
                      with the prompt (ConformOneP.cx_no_prompt) and its MOTD satisfies
                        motd_ok motd := forallb motd_lineb (flat_map (split_on 13) motd) = true
                      i.e. every PIECE between CRs of every MOTD line (these are the lines the grammar's
                      tokeniser sees) does not begin with SOH, is not bracketed "[...]", is a valid ";FW" line
                      if it begins with ";FW", and does not end with '>'.  Each clause is needed (section D:
                      motd_soh_cx, motd_sid_cx, motd_sid2_cx, motd_fw_cx / ConformOneP.cx_motd,
                      motd_prompt_cx; motd_cr_cx for the pieces).  motd_plain_ok: a plain sufficient condition.
                      motd_first_bad (general): the first piece that violates motd_lineb, unless it is a
                      well-formed SID, is where the grammar blames the master, whatever follows and whatever
                      the peer sends.
     peer_ok' cfg p   = ConformOneP.peer_ok cfg p, unchanged.  No condition on the challenge of a ";PQ" line
                      is needed: the response is eight decimal digits whatever the challenge and the
                      password (secure_response_shape, from SecureP.secure_response_spec), which is all the
                      grammar asks of a "|response" item (valid_fw) and of the ";PR: " line (valid_pr).
     cfg_scope_wide : cfg_scope cfg -> cfg_scope' cfg; one_side_conforms_again: the old theorem as a corollary.
   STEPS
     section A   the greeting of a slave that answers a challenge: hello_q (";FW:" line with the
                 "address|response" items, SID, ";PR: response", "; target DE mycall (locator)");
                 send_hello_q (Secure.send_handshake writes exactly this), line1q_valid / linePR_valid (the
                 grammar accepts the two new lines), hello_q_toks, slave_hs_ok_q (Grammar.slave_handshake
                 reads the four lines); handshake_slave_inv' (ConformOneP.handshake_slave_inv without
                 hs_cb = None: the slave writes hello or hello_q, or the handshake fails);
     section A'  slave_conforms (the slave half of the theorem; ConformOneP.slave_greet and turns_conform
                 are used unchanged);
     section B   the MOTD: the bytes written are those of the pieces (motd_bytes_lines), master_hs_motd
                 (Grammar.master_handshake reads the pieces and then the three lines),
                 handshake_master_inv' (ConformOneP.handshake_master_inv without s_motd = []);
     section B'  master_conforms (the master half; ConformOneP.master_greet_A / master_greet_B and
                 turns_conform are used unchanged, the master's element counter starts at length + 3);
     section C   one_side_conforms_wide;  section D  instances (wide_slave_run / wide_slave_instance:
                 a slave with a callback against a master stream with ";PQ: 23753528", result nil, verdict
                 VOk; wide_master_run / wide_master_instance: a master with two MOTD lines) and the
                 counterexamples. *)
From Coq Require Import List NArith ZArith Bool Lia ZifyN ZifyNat ZifyBool.
From Verif Require Import Base.Bytes Base.BytesP Base.Utf8 gen.Tables Lzhuf.Dec Lzhuf.Canon Msg.Message B2F.Md5 B2F.Secure B2F.SecureP B2F.Side B2F.SideP
  B2F.TermP B2F.CodecP B2F.CutP B2F.PairDefs B2F.PairLines B2F.PairXfer B2F.PairHs B2F.PairP B2F.PairIter B2F.DeliverP
  B2F.Grammar B2F.GrammarP B2F.ConformP B2F.ConformOneP.
Import ListNotations.
Open Scope N_scope.

(* ================================================================================== *)
(* A. SECURE LOGIN: the greeting of a slave that answers a challenge                  *)
(* ================================================================================== *)
(* ---------- the response: always eight decimal digits, whatever the challenge ---------- *)
Lemma secure_response_shape c p :
  length (secure_response c p) = 8%nat /\ forallb is_digit (secure_response c p) = true.
Proof.
  rewrite secure_response_spec. unfold spec_response, spec_of_sum.
  destruct (digits8_shape ((le_to_N (firstn 4 (md5 (c ++ p ++ winlinkSecureSalt))) mod 2 ^ 30) mod 10 ^ 8)) as [Hl Hd].
  split; [exact Hl|]. apply forallb_forall. intros x Hx. rewrite Forall_forall in Hd. specialize (Hd x Hx).
  unfold is_digit. lia.
Qed.

Lemma digits_pr r : forallb is_digit r = true -> Forall pr r.
Proof.
  intros H. apply Forall_forall. intros x Hx. rewrite forallb_forall in H. specialize (H x Hx).
  unfold is_digit in H. unfold pr. lia.
Qed.

Lemma digits_notin c r : forallb is_digit r = true -> is_digit c = false -> ~ In c r.
Proof. intros H Hc Hi. rewrite forallb_forall in H. rewrite (H c Hi) in Hc. discriminate. Qed.

(* ---------- the items of the ";FW:" line when a challenge is answered ---------- *)
Fixpoint fw_itemsL (c : bytes) (cb : list (bytes * bool)) (i : nat) (fw : list bytes) : list bytes :=
  match fw with
  | [] => []
  | a :: r =>
      (match i, c with
       | O, _ | _, [] => a
       | S _, _ :: _ =>
           match nth i cb ([], true) with
           | ([], _) => a
           | (pw, _) => a ++ [124] ++ secure_response c pw
           end
       end) :: fw_itemsL c cb (S i) r
  end.

Lemma fw_items_text c cb fw : forall i, fw_items c cb i fw = fw_text (fw_itemsL c cb i fw).
Proof.
  induction fw as [|a r IH]; intros i; [reflexivity|].
  cbn [fw_items fw_itemsL]. rewrite IH. unfold fw_text. cbn [map concat]. f_equal.
  destruct i as [|i]; [reflexivity|]. destruct c as [|c0 c']; [reflexivity|].
  destruct (nth (S i) cb ([], true)) as [[|p0 pw] e]; reflexivity.
Qed.

(* an item: a forwarding address, possibly followed by '|' and eight digits *)
Definition item_ok (x : bytes) : Prop :=
  exists a, a <> [] /\ text_ok a /\ ~ In 124 a /\ ~ In 62 a /\
    (x = a \/ exists r, x = a ++ 124 :: r /\ length r = 8%nat /\ forallb is_digit r = true).

Lemma fw_itemsL_ok c cb fw : Forall (fun a => a <> [] /\ text_ok a /\ ~ In 124 a /\ ~ In 62 a) fw ->
  forall i, Forall item_ok (fw_itemsL c cb i fw).
Proof.
  induction 1 as [|a r (A1&A2&A3&A4) _ IH]; intros i; [constructor|].
  cbn [fw_itemsL]. apply Forall_cons; [|apply IH].
  assert (H0 : item_ok a) by (exists a; repeat split; try assumption; left; reflexivity).
  destruct i as [|i]; [exact H0|]. destruct c as [|c0 c']; [exact H0|].
  destruct (nth (S i) cb ([], true)) as [[|p0 pw] e]; [exact H0|].
  destruct (secure_response_shape (c0 :: c') (p0 :: pw)) as [Hl Hd].
  exists a. repeat split; try assumption. right. eexists. split; [reflexivity|]. split; assumption.
Qed.

Lemma fw_itemsL_nonnil c cb fw i : fw <> [] -> fw_itemsL c cb i fw <> [].
Proof. destruct fw; [congruence|discriminate]. Qed.

Lemma item_ok_pr x : item_ok x -> Forall pr x /\ ~ In 32 x /\ x <> [].
Proof.
  intros (a&A1&A2&A3&A4&[->|(r&->&Hl&Hd)]).
  - split; [apply text_pr, A2|]. split; [apply text_notin; [exact A2|reflexivity]|exact A1].
  - split; [|split].
    + apply Forall_app. split; [apply text_pr, A2|]. apply Forall_cons; [unfold pr; lia|apply digits_pr, Hd].
    + intros Hi. apply in_app_or in Hi. destruct Hi as [Hi|[Hi|Hi]]; [|discriminate|].
      * revert Hi. apply text_notin; [exact A2|reflexivity].
      * revert Hi. apply digits_notin; [exact Hd|reflexivity].
    + destruct a; [congruence|discriminate].
Qed.

Lemma item_ok_valid x : item_ok x ->
  match split_on 124 x with
  | [a] => negb (beq_bytes a [])
  | [a; h] => negb (beq_bytes a []) && all_digits h && (length h =? 8)%nat
  | _ => false
  end = true.
Proof.
  intros (a&A1&A2&A3&A4&[->|(r&->&Hl&Hd)]).
  - rewrite (split_on_notin 124 a A3), (beq_bytes_neq _ _ A1). reflexivity.
  - rewrite (split_on_app 124 a r A3).
    rewrite (split_on_notin 124 r) by (apply digits_notin; [exact Hd|reflexivity]).
    rewrite (beq_bytes_neq _ _ A1), Hl. unfold all_digits. destruct r; [discriminate|]. rewrite Hd. reflexivity.
Qed.

Lemma items_pr L : Forall item_ok L -> Forall pr (fw_text L).
Proof.
  induction 1 as [|x r Hx _ IH]; [constructor|].
  unfold fw_text. cbn [map concat]. apply Forall_cons; [unfold pr; lia|].
  apply Forall_app. split; [apply (item_ok_pr _ Hx)|exact IH].
Qed.

(* ---------- the greeting with the ";PR:" line ---------- *)
Definition line1q (h : hs_cfg) (c : bytes) (cb : list (bytes * bool)) : bytes :=
  59 :: 70 :: 87 :: 58 :: fw_text (fw_itemsL c cb 0 (hs_fw h)).
Definition linePR (r : bytes) : bytes := 59 :: 80 :: 82 :: 58 :: 32 :: r.
Definition hello_q (h : hs_cfg) (c : bytes) (cb : list (bytes * bool)) (pw : bytes) : bytes :=
  line1q h c cb ++ 13 :: line2 h ++ 13 :: linePR (secure_response c pw) ++ 13 :: line3 h ++ [13].

Lemma send_hello_q h c cb pw : c <> [] -> hs_cb h = Some cb -> nth 0 cb ([], true) = (pw, false) ->
  send_handshake h c = Some (hello_q h c cb pw).
Proof.
  intros Hc Hcb H0. unfold send_handshake. rewrite Hcb. destruct c as [|c0 c']; [congruence|]. rewrite H0.
  rewrite fw_items_text. f_equal.
  unfold hello_q, line1q, linePR, line2, line3, sid_line, de_line, str_FW, str_PR, str_DE, CR, sid_of.
  generalize (secure_response (c0 :: c') pw) (fw_text (fw_itemsL (c0 :: c') cb 0 (hs_fw h))). intros R FT.
  destruct (hs_gzip h), (hs_master h);
    [change (firstn (length localSID - 1) localSID ++ sGzip ++ lastn 1 localSID) with [66; 50; 70; 72; 77; 71; 36]
    |change (firstn (length localSID - 1) localSID ++ sGzip ++ lastn 1 localSID) with [66; 50; 70; 72; 77; 71; 36]
    |change localSID with [66; 50; 70; 72; 77; 36]
    |change localSID with [66; 50; 70; 72; 77; 36]];
    repeat (rewrite <- app_assoc; cbn [app]); reflexivity.
Qed.

Lemma line1q_pr h c cb : fw_conf (hs_fw h) -> Forall pr (line1q h c cb).
Proof.
  intros [_ Hf]. unfold line1q. repeat (apply Forall_cons; [unfold pr; lia|]).
  apply items_pr, fw_itemsL_ok, Hf.
Qed.

Lemma line1q_valid h c cb : fw_conf (hs_fw h) -> valid_fw (line1q h c cb) = true.
Proof.
  intros [Hne Hf]. unfold line1q.
  pose proof (fw_itemsL_ok c cb (hs_fw h) Hf 0%nat) as HL.
  pose proof (fw_itemsL_nonnil c cb (hs_fw h) 0%nat Hne) as HLn.
  destruct (fw_itemsL c cb 0 (hs_fw h)) as [|x rest]; [congruence|].
  change (fw_text (x :: rest)) with (32 :: x ++ fw_text rest). unfold valid_fw.
  inversion HL as [|? ? Hx HL']; subst.
  rewrite split_fw_text.
  - apply forallb_forall. intros y Hy. apply item_ok_valid. apply (proj1 (Forall_forall _ _) HL y Hy).
  - apply (item_ok_pr _ Hx).
  - eapply Forall_impl; [|exact HL']. intros y Hy. apply (item_ok_pr _ Hy).
Qed.

Lemma linePR_pr r : forallb is_digit r = true -> Forall pr (linePR r).
Proof. intros H. unfold linePR. repeat (apply Forall_cons; [unfold pr; lia|]). apply digits_pr, H. Qed.

Lemma linePR_valid c pw : valid_pr (linePR (secure_response c pw)) = true.
Proof.
  destruct (secure_response_shape c pw) as [Hl Hd]. unfold linePR, valid_pr, all_digits.
  destruct (secure_response c pw) as [|x r]; [discriminate|]. rewrite Hd, Hl. reflexivity.
Qed.

Lemma hello_q_toks h c cb pw X : hs_cfg_ok h -> fw_conf (hs_fw h) ->
  toks (hello_q h c cb pw ++ X) =
  Line (line1q h c cb) :: Line (line2 h) :: Line (linePR (secure_response c pw)) :: Line (line3 h) :: toks X.
Proof.
  intros H Hfw. unfold hello_q. repeat (rewrite <- app_assoc; cbn [app]).
  rewrite toks_line by (eapply pr_line_ok; [reflexivity|discriminate|apply line1q_pr, Hfw]).
  rewrite toks_line by (eapply pr_line_ok; [reflexivity|discriminate|apply line2_pr, H]).
  rewrite toks_line by (eapply pr_line_ok; [reflexivity|discriminate|apply linePR_pr, secure_response_shape]).
  rewrite toks_line by (eapply pr_line_ok; [reflexivity|discriminate|apply line3_pr, H]).
  reflexivity.
Qed.

Lemma slave_hs_ok_q h c cb pw l rest gmv f a : hs_conf h ->
  slave_handshake (S (S (S (S (S f)))))
    {| gm := gmv; gs := Line (line1q h c cb) :: Line (line2 h) :: Line (linePR (secure_response c pw)) :: Line (line3 h) :: Line (70 :: l) :: rest;
       nm := a; ns := 0 |} 0 =
  inl {| gm := gmv; gs := Line (70 :: l) :: rest; nm := a; ns := 4 |}.
Proof.
  intros (Hok&Hfw&Hsid).
  assert (A0 : prefixb [70] (line1q h c cb) = false) by reflexivity.
  assert (A1 : prefixb [91] (line1q h c cb) = false) by reflexivity.
  assert (A2 : prefixb [59; 70; 87] (line1q h c cb) = true) by reflexivity.
  assert (B0 : prefixb [70] (line2 h) = false) by reflexivity.
  assert (B1 : prefixb [91] (line2 h) = true) by reflexivity.
  assert (B2 : suffixb [93] (line2 h) = true) by (rewrite (suffixb_one 93 93 _ (line2_ends h)); reflexivity).
  assert (C0 : prefixb [70] (line3 h) = false) by reflexivity.
  assert (C1 : prefixb [91] (line3 h) = false) by reflexivity.
  assert (C2 : prefixb [59; 70; 87] (line3 h) = false) by reflexivity.
  assert (C3 : prefixb [59; 80; 82] (line3 h) = false) by reflexivity.
  assert (C4 : is_comment (line3 h) = true) by reflexivity.
  set (R := secure_response c pw).
  assert (D0 : prefixb [70] (linePR R) = false) by reflexivity.
  assert (D1 : prefixb [91] (linePR R) = false) by reflexivity.
  assert (D2 : prefixb [59; 70; 87] (linePR R) = false) by reflexivity.
  assert (D3 : prefixb [59; 80; 82] (linePR R) = true) by reflexivity.
  rewrite slave_hs_S, A0, A1, A2, (line1q_valid h c cb Hfw). cbv zeta. cbn [andb].
  rewrite slave_hs_S, B0, B1, B2, (sid_line_valid h Hsid). cbv zeta. cbn [andb].
  rewrite slave_hs_S, D0, D1, D2, D3. unfold R. rewrite linePR_valid. cbv zeta. cbn [andb].
  rewrite slave_hs_S, C0, C1, C2, C3, C4. cbv zeta. cbn [andb].
  rewrite slave_hs_S. reflexivity.
Qed.

(* ---------- what a library slave writes as its greeting ---------- *)
(* either the plain greeting (no challenge was received) or the greeting with the responses (a challenge
   was received, a password callback is registered and gave the password of the first address without
   an error); in every other case the handshake fails *)
Definition slave_greeting (h : hs_cfg) (g : bytes) : Prop :=
  g = hello h \/
  exists c cb pw, c <> [] /\ hs_cb h = Some cb /\ nth 0 cb ([], true) = (pw, false) /\ g = hello_q h c cb pw.

Lemma handshake_slave_inv' s s2 : s_master s = false -> handshake s = ROk s2 ->
  exists d s1 g, read_handshake (S (length (s_in s))) s d0 = ROk (d, s1) /\ s2 = wr s1 g /\ slave_greeting (s_cfg s) g.
Proof.
  intros Hm. unfold handshake, do_send_handshake. cbv zeta. rewrite Hm.
  match goal with |- context [read_handshake ?f ?s0 ?d] =>
    pose proof (read_handshake_eqo f s0 d) as Hr; destruct (read_handshake f s0 d) as [[d1 s1]|e s1|] eqn:E end; try discriminate.
  cbn [res_eqo] in Hr. destruct (hd_have_sid d1 && negb (beq_bytes (hd_sid d1) [])); [|discriminate].
  assert (Ec : s_cfg s1 = s_cfg s) by (apply (f_equal s_cfg) in Hr; symmetry; exact Hr).
  rewrite Ec. destruct (hd_challenge d1) as [|c ch] eqn:Ech.
  - rewrite send_hello. intros H. injection H as <-. exists d1, s1, (hello (s_cfg s)).
    split; [exact E|]. split; [reflexivity|left; reflexivity].
  - destruct (hs_cb (s_cfg s)) as [cb|] eqn:Hcb.
    2:{ rewrite (send_handshake_no_callback _ (c :: ch)) by (first [discriminate|exact Hcb]). discriminate. }
    destruct (nth 0 cb ([], true)) as [pw [|]] eqn:H0.
    + rewrite (send_handshake_callback_error _ (c :: ch) cb pw) by (first [discriminate|assumption]). discriminate.
    + rewrite (send_hello_q _ (c :: ch) cb pw) by (first [discriminate|assumption]).
      intros H. injection H as <-. exists d1, s1, (hello_q (s_cfg s) (c :: ch) cb pw).
      split; [exact E|]. split; [reflexivity|]. right. exists (c :: ch), cb, pw. repeat split; try assumption. discriminate.
Qed.

(* the grammar reads the slave's greeting up to the first command of the slave *)
Lemma slave_greeting_ok h g : hs_conf h -> slave_greeting h g ->
  exists ES, (forall X, toks (g ++ X) = ES ++ toks X) /\
    (forall gmv a l rest f,
       slave_handshake (length ES + S f) {| gm := gmv; gs := ES ++ Line (70 :: l) :: rest; nm := a; ns := 0 |} 0 =
       inl {| gm := gmv; gs := Line (70 :: l) :: rest; nm := a; ns := length ES |}).
Proof.
  intros Hhs [->|(c&cb&pw&Hc&Hcb&H0&->)].
  - exists [Line (line1 h); Line (line2 h); Line (line3 h)]. split.
    + intros X. rewrite hello_toks by apply Hhs. reflexivity.
    + intros gmv a l rest f. cbn [length Nat.add app]. apply slave_hs_ok, Hhs.
  - exists [Line (line1q h c cb); Line (line2 h); Line (linePR (secure_response c pw)); Line (line3 h)]. split.
    + intros X. rewrite hello_q_toks by apply Hhs. reflexivity.
    + intros gmv a l rest f. cbn [length Nat.add app]. apply slave_hs_ok_q, Hhs.
Qed.

(* ================================================================================== *)
(* A'. The session of a library SLAVE, with or without a password callback            *)
(* ================================================================================== *)
Theorem slave_conforms : forall (cfg : side_cfg) (peer : bytes),
  side_conf cfg -> c_master cfg = false -> peer_ok cfg peer ->
  x_res (exchange cfg peer) = XNil ->
  notblame false (validate peer (x_wire (exchange cfg peer))).
Proof.
  intros cfg peer (Hhs&Hob) Mc (Hel&Hga) Hx.
  destruct (exchange_nil _ _ Hx) as (Bp&s2&Hhsk).
  destruct (exchange_ok3 cfg peer s2 Bp Hhsk) as (Rx&Wx&_). rewrite Hx in Rx. symmetry in Rx.
  destruct (PairP.init_state_facts cfg peer) as (Iin&Iout&Ih&Im&_).
  destruct (init_state_cfg cfg peer) as (Icfg&Imotd).
  assert (Hob2 : Forall blk_conf (hob s2)) by (unfold hob; rewrite (handshake_h _ _ Hhsk), Ih; exact Hob).
  rewrite tailw_eq in Wx. rewrite Mc in *. cbn [negb] in *.
  specialize (Hga eq_refl).
  destruct (handshake_slave_inv' _ _ Im Hhsk) as (d&s1&g&Hrh&->&Hg).
  rewrite Icfg, Iin in *.
  destruct (slave_greeting_ok _ _ Hhs Hg) as (ES&Htk&Hsh).
  pose proof (read_handshake_eqo (S (length peer)) (init_state cfg peer) d0) as Hq0. rewrite Hrh in Hq0. cbn [res_eqo] in Hq0.
  rewrite wire_wr, <- (wire_eqo _ _ Hq0), wire_init in Wx. cbn [app] in Wx.
  rewrite Wx. set (s2 := wr s1 g) in *. set (T := tailw true s2) in *.
  unfold validate. cbv zeta.
  change (tokens (S (length (g ++ T))) (g ++ T)) with (toks (g ++ T)).
  change (tokens (S (length peer)) peer) with (toks peer).
  rewrite Htk.
  rewrite run_send in Rx.
  destruct (handle_outbound s2) as [[q s3]|e s3|] eqn:Hho; [|destruct e; discriminate|discriminate].
  destruct (send_head _ _ _ Hho Hob2) as (l&rest&Hhead). fold T in Hhead.
  pose proof (slave_greet (ES ++ toks T) _ (init_state cfg peer) d0 d s1 Im Hrh) as HG. rewrite Iin in HG.
  specialize (HG Hga Hel (S (length (toks peer))) 0%nat 0%nat ltac:(lia)).
  destruct (master_handshake (S (length (toks peer))) _ 0) as [st'|v]; [|exact HG].
  destruct HG as (a'&->&Hq&Hok'&Hle).
  rewrite Hhead, app_length. cbn [length].
  replace (S (length ES + S (length rest))) with (length ES + S (S (length rest)))%nat by lia.
  rewrite Hsh. rewrite <- Hhead.
  change {| gm := toks (s_in s1); gs := toks T; nm := a'; ns := length ES |} with (mkst false (toks T) (toks (s_in s2)) (length ES) a').
  apply (turns_conform false _ true s2 (length ES) a').
  - rewrite run_send, Hho. exact Rx.
  - exact Hob2.
  - exact Hok'.
  - fold T. change (s_in s2) with (s_in s1). rewrite Hhead in *. cbn [length]. lia.
Qed.

(* ================================================================================== *)
(* B. MOTD: the greeting of a master that first writes its message of the day         *)
(* ================================================================================== *)
(* the master writes every MOTD line followed by CR; the grammar's tokeniser therefore sees the PIECES
   of the MOTD lines between CRs as the lines of the master's greeting *)
Definition motd_bytes (ls : list bytes) : bytes := concat (map (fun l => l ++ [13]) ls).
Definition motd_lines (motd : list bytes) : list bytes := flat_map (split_on 13) motd.

Lemma split_cr c : forall l, l ++ [c] = concat (map (fun p => p ++ [c]) (split_on c l)).
Proof.
  induction l as [|x r IH]; [reflexivity|].
  destruct (N.eq_dec x c) as [->|Hx].
  - rewrite split_on_sep. cbn [map concat app]. rewrite <- IH. reflexivity.
  - rewrite split_on_other by exact Hx. pose proof (split_on_nonnil c r) as Hn.
    destruct (split_on c r) as [|h t]; [congruence|]. cbn [map concat app] in *. rewrite IH. reflexivity.
Qed.

Lemma split_on_pieces c : forall l, Forall (fun p => ~ In c p) (split_on c l).
Proof.
  induction l as [|x r IH]; [repeat constructor; intros []|].
  destruct (N.eq_dec x c) as [->|Hx].
  - rewrite split_on_sep. apply Forall_cons; [intros []|exact IH].
  - rewrite split_on_other by exact Hx. pose proof (split_on_nonnil c r) as Hn.
    destruct (split_on c r) as [|h t]; [congruence|]. inversion IH as [|? ? Hh Ht]; subst.
    apply Forall_cons; [|exact Ht]. intros [E|Hi]; [congruence|exact (Hh Hi)].
Qed.

Lemma motd_bytes_app a b : motd_bytes (a ++ b) = motd_bytes a ++ motd_bytes b.
Proof. unfold motd_bytes. rewrite map_app, concat_app. reflexivity. Qed.

Lemma motd_bytes_lines motd : motd_bytes motd = motd_bytes (motd_lines motd).
Proof.
  induction motd as [|l r IH]; [reflexivity|].
  change (motd_lines (l :: r)) with (split_on 13 l ++ motd_lines r). rewrite motd_bytes_app, <- IH.
  unfold motd_bytes at 1. cbn [map concat]. rewrite (split_cr 13 l). reflexivity.
Qed.

Lemma motd_lines_no_cr motd : Forall (fun p => ~ In 13 p) (motd_lines motd).
Proof.
  induction motd as [|l r IH]; [constructor|].
  change (motd_lines (l :: r)) with (split_on 13 l ++ motd_lines r). apply Forall_app. split; [apply split_on_pieces|exact IH].
Qed.

(* THE CONDITION ON A LINE OF THE MOTD (as the grammar sees it): it does not begin with SOH (the tokeniser
   would take it for a transfer), it is not bracketed like a SID, if it begins with ";FW" it is a valid
   ";FW" line, and it does not end with '>' (the end of the greeting) *)
Definition motd_lineb (l : bytes) : bool :=
  negb (prefixb [1] l) && negb (prefixb [91] l && suffixb [93] l) &&
  (negb (prefixb [59; 70; 87] l) || valid_fw l) && negb (suffixb [62] l).
Definition motd_ok (motd : list bytes) : Prop := forallb motd_lineb (motd_lines motd) = true.

Lemma motd_lineb_inv l : motd_lineb l = true ->
  (forall r, l <> 1 :: r) /\ prefixb [91] l && suffixb [93] l = false /\
  prefixb [59; 70; 87] l && negb (valid_fw l) = false /\ suffixb [62] l = false.
Proof.
  unfold motd_lineb. intros H.
  apply andb_true_iff in H. destruct H as [H H4]. apply andb_true_iff in H. destruct H as [H H3].
  apply andb_true_iff in H. destruct H as [H1 H2].
  apply negb_true_iff in H1, H2, H4. split; [|split; [exact H2|split; [|exact H4]]].
  - intros r ->. discriminate H1.
  - destruct (prefixb [59; 70; 87] l); [|reflexivity]. cbn [negb orb] in H3. rewrite H3. reflexivity.
Qed.

(* ---------- what the library master does with its MOTD ---------- *)
Lemma motd_fold : forall motd s,
  s_in (fold_left (fun acc l => wr acc (l ++ [13])) motd s) = s_in s /\
  s_master (fold_left (fun acc l => wr acc (l ++ [13])) motd s) = s_master s /\
  s_cfg (fold_left (fun acc l => wr acc (l ++ [13])) motd s) = s_cfg s /\
  wire (fold_left (fun acc l => wr acc (l ++ [13])) motd s) = wire s ++ motd_bytes motd.
Proof.
  induction motd as [|l r IH]; intros s; cbn [fold_left].
  - repeat split; try reflexivity. unfold motd_bytes. cbn [map concat]. rewrite app_nil_r. reflexivity.
  - destruct (IH (wr s (l ++ [13]))) as (I1&I2&I3&I4). rewrite I1, I2, I3, I4, wire_wr.
    repeat split; try reflexivity. unfold motd_bytes. cbn [map concat]. rewrite <- app_assoc. reflexivity.
Qed.

Lemma handshake_master_inv' s s2 : s_master s = true -> handshake s = ROk s2 ->
  exists d, read_handshake (S (length (s_in s)))
              (wr (fold_left (fun acc l => wr acc (l ++ [13])) (s_motd s) s) (hello (s_cfg s))) d0 = ROk (d, s2).
Proof.
  intros Hm. unfold handshake, do_send_handshake. cbv zeta. rewrite Hm.
  destruct (motd_fold (s_motd s) s) as (_&_&F3&_). rewrite F3, send_hello.
  match goal with |- context [read_handshake ?f ?s0 ?d] => destruct (read_handshake f s0 d) as [[d1 s3]|e s3|] eqn:E end; try discriminate.
  destruct (hd_have_sid d1 && negb (beq_bytes (hd_sid d1) [])); [|discriminate].
  intros H. injection H as <-. exists d1. exact E.
Qed.

(* ---------- the grammar reads the master's greeting: MOTD lines, then the three lines ---------- *)
Lemma master_hs_ok_a h rest gsv f a : hs_conf h -> hs_master h = true ->
  master_handshake (S (S (S f))) {| gm := Line (line1 h) :: Line (line2 h) :: Line (line3 h) :: rest; gs := gsv; nm := a; ns := 0 |} 0 =
  inl {| gm := rest; gs := gsv; nm := S (S (S a)); ns := 0 |}.
Proof.
  intros (Hok&Hfw&Hsid) Hm.
  destruct (fw_last_conf _ Hfw) as (y&Hy&Ey).
  assert (A1 : prefixb [91] (line1 h) = false) by reflexivity.
  assert (A2 : prefixb [59; 70; 87] (line1 h) = true) by reflexivity.
  assert (A3 : suffixb [62] (line1 h) = false).
  { rewrite (suffixb_one 62 y); [apply N.eqb_neq; congruence|]. unfold line1. do 4 apply ends_with_cons. exact Ey. }
  assert (B1 : prefixb [91] (line2 h) = true) by reflexivity.
  assert (B2 : suffixb [93] (line2 h) = true) by (rewrite (suffixb_one 93 93 _ (line2_ends h)); reflexivity).
  assert (B3 : prefixb [59; 70; 87] (line2 h) = false) by reflexivity.
  assert (B4 : suffixb [62] (line2 h) = false) by (rewrite (suffixb_one 62 93 _ (line2_ends h)); reflexivity).
  assert (C1 : prefixb [91] (line3 h) = false) by reflexivity.
  assert (C2 : prefixb [59; 70; 87] (line3 h) = false) by reflexivity.
  assert (C3 : suffixb [62] (line3 h) = true).
  { pose proof (line3_ends h) as E. rewrite Hm in E. rewrite (suffixb_one 62 62 _ E). reflexivity. }
  rewrite master_hs_S. cbv zeta. rewrite A1, A2, A3, (fw_line_valid h Hfw). cbn [andb negb].
  rewrite master_hs_S. cbv zeta. rewrite B1, B2, B3, B4, (sid_line_valid h Hsid). cbn [andb negb].
  rewrite master_hs_S. cbv zeta. rewrite C1, C2, C3. cbn [andb negb Nat.eqb]. reflexivity.
Qed.

Lemma master_hs_motd h rest gsv f : hs_conf h -> hs_master h = true -> forall ML a, forallb motd_lineb ML = true ->
  master_handshake (length ML + S (S (S f)))
    {| gm := map Line ML ++ Line (line1 h) :: Line (line2 h) :: Line (line3 h) :: rest; gs := gsv; nm := a; ns := 0 |} 0 =
  inl {| gm := rest; gs := gsv; nm := (length ML + 3 + a)%nat; ns := 0 |}.
Proof.
  intros Hhs Hm. induction ML as [|l ML' IH]; intros a HML.
  - cbn [length Nat.add map app]. apply master_hs_ok_a; assumption.
  - cbn [forallb] in HML. apply andb_true_iff in HML. destruct HML as [Hl HML'].
    destruct (motd_lineb_inv l Hl) as (_&P2&P3&P4).
    change (length (l :: ML') + S (S (S f)))%nat with (S (length ML' + S (S (S f)))).
    cbn [map app]. rewrite master_hs_S. cbv zeta. rewrite P2, P3, P4. cbn [andb].
    rewrite IH by exact HML'.
    replace (length ML' + 3 + S a)%nat with (length (l :: ML') + 3 + a)%nat by (cbn [length]; lia). reflexivity.
Qed.

(* ================================================================================== *)
(* B'. The session of a library MASTER, with a MOTD                                    *)
(* ================================================================================== *)
Theorem master_conforms : forall (cfg : side_cfg) (peer : bytes),
  side_conf cfg -> c_master cfg = true -> hs_master (c_hs cfg) = true -> motd_ok (c_motd cfg) ->
  Forall elem_off (toks peer) ->
  x_res (exchange cfg peer) = XNil ->
  notblame true (validate (x_wire (exchange cfg peer)) peer).
Proof.
  intros cfg peer (Hhs&Hob) Mc Hhm Hmotd Hel Hx.
  destruct (exchange_nil _ _ Hx) as (Bp&s2&Hhsk).
  destruct (exchange_ok3 cfg peer s2 Bp Hhsk) as (Rx&Wx&_). rewrite Hx in Rx. symmetry in Rx.
  destruct (PairP.init_state_facts cfg peer) as (Iin&Iout&Ih&Im&_).
  destruct (init_state_cfg cfg peer) as (Icfg&Imotd).
  pose proof Hhs as (Hok&_&_).
  assert (Hob2 : Forall blk_conf (hob s2)) by (unfold hob; rewrite (handshake_h _ _ Hhsk), Ih; exact Hob).
  rewrite tailw_eq in Wx. rewrite Mc in *. cbn [negb] in *.
  destruct (handshake_master_inv' _ _ Im Hhsk) as (d&Hrh).
  rewrite Icfg, Imotd, Iin in Hrh.
  destruct (motd_fold (c_motd cfg) (init_state cfg peer)) as (F1&F2&F3&F4).
  set (s1 := fold_left (fun acc l => wr acc (l ++ [13])) (c_motd cfg) (init_state cfg peer)) in *.
  set (s0 := wr s1 (hello (c_hs cfg))) in *.
  assert (Im0 : s_master s0 = true) by (unfold s0; cbn [wr s_master]; rewrite F2; exact Im).
  assert (Iin0 : s_in s0 = peer) by (unfold s0; cbn [wr s_in]; rewrite F1; exact Iin).
  pose proof (read_handshake_eqo (S (length peer)) s0 d0) as Hq0. rewrite Hrh in Hq0. cbn [res_eqo] in Hq0.
  set (ML := motd_lines (c_motd cfg)) in *.
  assert (W2 : wire s2 = motd_bytes ML ++ hello (c_hs cfg)).
  { rewrite <- (wire_eqo _ _ Hq0). unfold s0, ML. rewrite wire_wr, F4, wire_init, <- motd_bytes_lines. reflexivity. }
  rewrite W2 in Wx. rewrite Wx. set (T := tailw false s2) in *.
  unfold validate. cbv zeta.
  change (tokens (S (length ((motd_bytes ML ++ hello (c_hs cfg)) ++ T))) ((motd_bytes ML ++ hello (c_hs cfg)) ++ T))
    with (toks ((motd_bytes ML ++ hello (c_hs cfg)) ++ T)).
  change (tokens (S (length peer)) peer) with (toks peer).
  assert (HLo : Forall line_ok ML).
  { apply Forall_forall. intros l Hl. split.
    - apply (proj1 (Forall_forall _ _) (motd_lines_no_cr (c_motd cfg)) l Hl).
    - apply (motd_lineb_inv l). apply (proj1 (forallb_forall _ _) Hmotd l Hl). }
  rewrite <- !app_assoc. unfold motd_bytes. rewrite toks_lines by exact HLo. rewrite hello_toks by exact Hok.
  rewrite app_length, map_length. cbn [length].
  replace (S (length ML + S (S (S (length (toks T))))))%nat with (length ML + S (S (S (S (length (toks T))))))%nat by lia.
  rewrite master_hs_motd by (first [exact Hhs|exact Hhm|exact Hmotd]).
  set (n := (length ML + 3 + 0)%nat).
  assert (Hel0 : Forall elem_off (toks (s_in s0))) by (rewrite Iin0; exact Hel).
  destruct (master_greet_A (toks T) n _ s0 d0 d s2 Im0 Hrh Hel0 (S (length (toks peer))) 0%nat 0%nat
              ltac:(rewrite Iin0; lia)) as [(k1&k2&E)|(F'&b'&sids'&E&HF'&Hq&Hok'&Hle)];
    rewrite Iin0 in E; rewrite E; [cbn [notblame]; discriminate|].
  pose proof (master_greet_B (toks T) n F' s2 b' sids' Rx Hok' HF') as HB.
  destruct (slave_handshake F' _ sids') as [st'|v]; [|exact HB].
  destruct HB as (s'&b''&l&rest&->&Hhead&Hrun&Hq'&Hok''&Hle').
  assert (ET : T = tailw false s').
  { unfold T, tailw, final. rewrite Hrun, (wire_eqo _ _ Hq'). reflexivity. }
  change {| gm := toks T; gs := toks (s_in s'); nm := n; ns := b'' |} with (mkst true (toks T) (toks (s_in s')) n b'').
  rewrite ET.
  apply (turns_conform true _ false s' n b'').
  - rewrite Hrun. exact Rx.
  - unfold hob. rewrite <- (eqo_h _ _ Hq'). exact Hob2.
  - exact Hok''.
  - rewrite Iin0 in Hle. rewrite <- ET. lia.
Qed.

(* ================================================================================== *)
(* C. THE WIDENED THEOREM                                                              *)
(* ================================================================================== *)
(* what is asked of the configuration of the library side beyond side_conf: a MASTER ends its greeting
   with the prompt (ConformOneP.cx_no_prompt) and the lines of its MOTD are acceptable to the grammar
   (motd_ok; section D: each clause is needed).  NOTHING is asked of a slave: with or without a password
   callback, whatever the callback returns. *)
Definition cfg_scope' (cfg : side_cfg) : Prop :=
  c_master cfg = true -> hs_master (c_hs cfg) = true /\ motd_ok (c_motd cfg).

(* what is asked of the peer is ConformOneP.peer_ok, unchanged: in particular nothing is asked of the
   challenge of a ";PQ" line (the response is eight digits whatever the challenge: secure_response_shape);
   a ";PQ" line of the peer is subject to greet_agree like every other line of its greeting (pq_prompt_cx) *)
Definition peer_ok' (cfg : side_cfg) (peer : bytes) : Prop := peer_ok cfg peer.

Theorem one_side_conforms_wide : forall (cfg : side_cfg) (peer_stream : bytes),
  side_conf cfg -> cfg_scope' cfg -> peer_ok' cfg peer_stream ->
  let o := exchange cfg peer_stream in
  x_res o = XNil ->
  let '(m, s) := if c_master cfg then (x_wire o, peer_stream) else (peer_stream, x_wire o) in
  match validate m s with VOk => True | VBad who _ _ => who <> c_master cfg end.
Proof.
  intros cfg peer Hsc Hscope Hpeer. cbv zeta. intros Hx.
  destruct (c_master cfg) eqn:Mc.
  - destruct (Hscope Mc) as [Hhm Hmotd].
    exact (master_conforms cfg peer Hsc Mc Hhm Hmotd (proj1 Hpeer) Hx).
  - exact (slave_conforms cfg peer Hsc Mc Hpeer Hx).
Qed.

(* the old scope is inside the new one: ConformOneP.one_side_conforms is a special case *)
Lemma cfg_scope_wide cfg : cfg_scope cfg -> cfg_scope' cfg.
Proof. intros [H _] Hm. destruct (H Hm) as [Hmotd Hhm]. split; [exact Hhm|]. unfold motd_ok. rewrite Hmotd. reflexivity. Qed.

Corollary one_side_conforms_again : forall (cfg : side_cfg) (peer_stream : bytes),
  side_conf cfg -> cfg_scope cfg -> peer_ok cfg peer_stream ->
  let o := exchange cfg peer_stream in
  x_res o = XNil ->
  let '(m, s) := if c_master cfg then (x_wire o, peer_stream) else (peer_stream, x_wire o) in
  match validate m s with VOk => True | VBad who _ _ => who <> c_master cfg end.
Proof. intros cfg peer H1 H2 H3. exact (one_side_conforms_wide cfg peer H1 (cfg_scope_wide cfg H2) H3). Qed.

(* a sufficient condition for motd_ok in plain terms: no CR in the line, it begins neither with SOH nor
   with '[' nor with ';', and does not end with '>' *)
Definition motd_plain (l : bytes) : Prop :=
  ~ In 13 l /\ prefixb [1] l = false /\ prefixb [91] l = false /\ prefixb [59] l = false /\ suffixb [62] l = false.

Lemma motd_plain_ok motd : Forall motd_plain motd -> motd_ok motd.
Proof.
  unfold motd_ok. induction 1 as [|l r (H1&H2&H3&H4&H5) _ IH]; [reflexivity|].
  change (motd_lines (l :: r)) with (split_on 13 l ++ motd_lines r). rewrite forallb_app, IH, andb_true_r.
  rewrite (split_on_notin 13 l H1). cbn [forallb]. rewrite andb_true_r. unfold motd_lineb. rewrite H2, H3, H5.
  assert (E : prefixb [59; 70; 87] l = false).
  { destruct l as [|x m]; [reflexivity|]. cbn [prefixb] in *. rewrite andb_true_r in H4. rewrite H4. reflexivity. }
  rewrite E. reflexivity.
Qed.

(* ================================================================================== *)
(* D. Instances and counterexamples (closed, by computation)                           *)
(* ================================================================================== *)
(* ---------- secure login ---------- *)
(* a slave with three forwarding addresses and a password callback *)
Definition wx_slave (cb : option (list (bytes * bool))) : side_cfg :=
  {| c_master := false; c_motd := [];
     c_hs := {| hs_fw := [[76;65;49;66]; [65]; [66]]; hs_name := [119]; hs_version := [49]; hs_target := [88];
                hs_mycall := [76;65;49;66]; hs_locator := []; hs_master := false; hs_gzip := false; hs_cb := cb |};
     c_handler := {| h_present := true; h_prepare_err := false; h_outbox := []; h_gone := []; h_policy := []; h_fail := [] |} |}.
Definition wx_cb : list (bytes * bool) := [([112;119], false); ([113], false); ([], false)].
Definition wx_sid : bytes := [91;82;45;49;45;66;50;70;36;93;13].                          (* "[R-1-B2F$]" *)
(* the master: SID, ";PQ: 23753528", "X>", then "FQ" in answer to the slave's "FF" *)
Definition wx_master_pq : bytes :=
  wx_sid ++ [59;80;81;58;32;50;51;55;53;51;53;50;56;13] ++ [88;62;13] ++ [70;81;13].

(* the session ends with nil and the grammar accepts it; the slave's stream has the ";FW:" line with one
   response, the SID, the ";PR: 66500972" line, the "; X DE LA1B ()" line and "FF" *)
Example wide_slave_run : kx_verdict (wx_slave (Some wx_cb)) wx_master_pq = (XNil, VOk).
Proof. vm_compute. reflexivity. Qed.
Example wide_slave_wire : x_wire (exchange (wx_slave (Some wx_cb)) wx_master_pq) =
  [59;70;87;58;32;76;65;49;66;32;65;124;50;51;50;54;56;56;57;54;32;66;13] ++ [91;119;45;49;45;66;50;70;72;77;36;93;13] ++
  [59;80;82;58;32;54;54;53;48;48;57;55;50;13] ++ [59;32;88;32;68;69;32;76;65;49;66;32;40;41;13] ++ [70;70;13].
Proof. vm_compute. reflexivity. Qed.

Lemma wx_slave_conf cb : side_conf (wx_slave cb).
Proof.
  assert (H : hs_conf (c_hs (wx_slave cb))).
  { unfold wx_slave, hs_conf, hs_cfg_ok, fw_conf, sid_conf, text_ok. cbn [c_hs hs_fw hs_name hs_version hs_target hs_mycall hs_locator].
    repeat split; try discriminate; repeat constructor; try discriminate; try lia; cbn [In]; intuition discriminate. }
  split; [exact H|constructor].
Qed.

Example wx_master_pq_ok : peer_ok' (wx_slave (Some wx_cb)) wx_master_pq.
Proof.
  split; [toks_compute wx_master_pq; elem_off_lines|]. intros _. toks_compute wx_master_pq. cbn [greet_agree].
  split; [vm_compute; reflexivity|]. intros _. split; [vm_compute; reflexivity|]. intros _.
  split; [vm_compute; reflexivity|discriminate].
Qed.

(* the theorem applies to this instance (its hypotheses are satisfiable with a callback and a challenge) *)
Example wide_slave_instance : notblame false (validate wx_master_pq (x_wire (exchange (wx_slave (Some wx_cb)) wx_master_pq))).
Proof.
  apply (one_side_conforms_wide (wx_slave (Some wx_cb)) wx_master_pq (wx_slave_conf _)).
  - discriminate.
  - exact wx_master_pq_ok.
  - vm_compute. reflexivity.
Qed.

(* nothing is asked of the CHALLENGE: blanks, '|', a byte above 127 and NUL inside it; ";PQ:x" (an empty
   challenge: the plain greeting is sent, with or without a callback) *)
Definition wx_master_odd : bytes :=
  wx_sid ++ [59;80;81;58;32;97;32;124;32;200;0;98;13] ++ [88;62;13] ++ [70;81;13].
Example odd_challenge_run : kx_verdict (wx_slave (Some wx_cb)) wx_master_odd = (XNil, VOk).
Proof. vm_compute. reflexivity. Qed.
Definition wx_master_empty : bytes := wx_sid ++ [59;80;81;58;120;13] ++ [88;62;13] ++ [70;81;13].
Example empty_challenge_run :
  kx_verdict (wx_slave (Some wx_cb)) wx_master_empty = (XNil, VOk) /\ kx_verdict (wx_slave None) wx_master_empty = (XNil, VOk).
Proof. split; vm_compute; reflexivity. Qed.

(* nothing is asked of the CALLBACK: when it is missing, or returns an error for the first address, the
   handshake fails and the session does not end with nil *)
Example no_callback_run : fst (kx_verdict (wx_slave None) wx_master_pq) = XOther.
Proof. vm_compute. reflexivity. Qed.
Example callback_error_run : fst (kx_verdict (wx_slave (Some [([112;119], true)])) wx_master_pq) = XOther.
Proof. vm_compute. reflexivity. Qed.

(* a ";PQ" line of the peer is a line of its greeting like any other: when it ends with '>' the grammar
   ends the greeting there and the library does not (greet_agree is violated); the library is blamed
   (as ConformP.greeting_desync_cx, with a callback) *)
Definition wx_master_pq_prompt : bytes :=
  wx_sid ++ [59;80;81;58;32;49;62;13] ++ [70;70;13] ++ [90;62;13] ++ [70;81;13].
Example pq_prompt_cx : kx_verdict (wx_slave (Some wx_cb)) wx_master_pq_prompt = (XNil, VBad false 2 5).
Proof. vm_compute. reflexivity. Qed.
Example pq_prompt_not_agree : ~ greet_agree (toks wx_master_pq_prompt).
Proof.
  intros H. toks_compute_in H wx_master_pq_prompt. cbn [greet_agree] in H. destruct H as [_ H].
  destruct (H ltac:(vm_compute; reflexivity)) as [H1 _]. vm_compute in H1. discriminate H1.
Qed.

(* ---------- the MOTD ---------- *)
Definition wx_master (motd : list bytes) : side_cfg := kx_side true [119] [[76;65;49;66]] motd [].
(* two MOTD lines, "Hi" and "; news", against the conforming slave stream of ConformOneP *)
Definition wx_motd2 : list bytes := [[72;105]; [59;32;110;101;119;115]].
Example wide_master_run : kx_verdict (wx_master wx_motd2) cx_slave_stream = (XNil, VOk).
Proof. vm_compute. reflexivity. Qed.
Example wide_master_wire : x_wire (exchange (wx_master wx_motd2) cx_slave_stream) =
  [72;105;13] ++ [59;32;110;101;119;115;13] ++ [59;70;87;58;32;76;65;49;66;13] ++ [91;119;45;49;45;66;50;70;72;77;36;93;13] ++
  [59;32;88;32;68;69;32;76;65;49;66;32;40;41;62;13] ++ [70;81;13].
Proof. vm_compute. reflexivity. Qed.

Lemma wx_master_conf motd : side_conf (wx_master motd).
Proof.
  assert (H : hs_conf (c_hs (wx_master motd))).
  { unfold wx_master, kx_side, hs_conf, hs_cfg_ok, fw_conf, sid_conf, text_ok. cbn [c_hs hs_fw hs_name hs_version hs_target hs_mycall hs_locator].
    repeat split; try discriminate; repeat constructor; try discriminate; try lia; cbn [In]; intuition discriminate. }
  split; [exact H|constructor].
Qed.

Example wide_master_instance : notblame true (validate (x_wire (exchange (wx_master wx_motd2) cx_slave_stream)) cx_slave_stream).
Proof.
  apply (one_side_conforms_wide (wx_master wx_motd2) cx_slave_stream (wx_master_conf _)).
  - intros _. split; reflexivity.
  - split; [toks_compute cx_slave_stream; elem_off_lines|discriminate].
  - vm_compute. reflexivity.
Qed.

(* harmless lines that satisfy motd_ok: a valid ";FW" line, the empty line, "[x" (not bracketed), a ";PQ"
   line; a line with a CR inside whose pieces are harmless *)
Definition wx_motd5 : list bytes := [[72;105]; [59;70;87;58;32;97]; []; [91;120]; [59;80;81;58;32;49]; [97;13;98]].
Example motd5_ok : motd_ok wx_motd5. Proof. reflexivity. Qed.
Example motd5_run : kx_verdict (wx_master wx_motd5) cx_slave_stream = (XNil, VOk).
Proof. vm_compute. reflexivity. Qed.

(* EACH CLAUSE OF motd_lineb IS NEEDED: the session ends with nil, the master is blamed *)
(* (1) a line that begins with SOH: the tokeniser does not see a line *)
Example motd_soh_cx : kx_verdict (wx_master [[1; 65]]) cx_slave_stream = (XNil, VBad true 24 0) /\ ~ motd_ok [[1; 65]].
Proof. split; [vm_compute; reflexivity|discriminate]. Qed.
(* (2) a bracketed line: "[x]" is no SID; "[a-b-B2$]" is a second SID *)
Example motd_sid_cx : kx_verdict (wx_master [[91;120;93]]) cx_slave_stream = (XNil, VBad true 21 0) /\ ~ motd_ok [[91;120;93]].
Proof. split; [vm_compute; reflexivity|discriminate]. Qed.
Example motd_sid2_cx : kx_verdict (wx_master [[91;97;45;98;45;66;50;36;93]]) cx_slave_stream = (XNil, VBad true 23 3) /\
  ~ motd_ok [[91;97;45;98;45;66;50;36;93]].
Proof. split; [vm_compute; reflexivity|discriminate]. Qed.
(* (3) a malformed ";FW" line: ConformOneP.cx_motd (";FW: a|b"), and the bare ";FW" *)
Example motd_fw_cx : kx_verdict (wx_master [[59;70;87]]) cx_slave_stream = (XNil, VBad true 22 0) /\ ~ motd_ok [[59;70;87]].
Proof. split; [vm_compute; reflexivity|discriminate]. Qed.
Example motd_fw2_cx : ~ motd_ok [[59;70;87;58;32;97;124;98]].
Proof. discriminate. Qed.
(* (4) a line that ends with '>': the greeting ends before the SID *)
Example motd_prompt_cx : kx_verdict (wx_master [[104;105;62]]) cx_slave_stream = (XNil, VBad true 23 0) /\ ~ motd_ok [[104;105;62]].
Proof. split; [vm_compute; reflexivity|discriminate]. Qed.
(* the condition is on the PIECES between CRs: "a<CR>hi>" is harmful, "a<CR>b" (in wx_motd5) is not *)
Example motd_cr_cx : kx_verdict (wx_master [[97;13;104;105;62]]) cx_slave_stream = (XNil, VBad true 23 1) /\ ~ motd_ok [[97;13;104;105;62]].
Proof. split; [vm_compute; reflexivity|discriminate]. Qed.
(* a second SID followed by a line ending with '>': the grammar's greeting ends correctly (one SID, a
   prompt) before the real greeting, whose SID line is then read as a malformed proposal *)
Example motd_sid_prompt_cx :
  kx_verdict (wx_master [[91;97;45;98;45;66;50;36;93]; [104;105;62]]) cx_slave_stream = (XNil, VBad true 5 4).
Proof. vm_compute. reflexivity. Qed.

(* ---------- a general converse ---------- *)
(* the FIRST piece of the MOTD that violates motd_lineb is where the grammar blames the master, whatever
   follows and whatever the peer sends -- except when that piece is a well-formed SID (then the master is
   blamed later: motd_sid2_cx, motd_sid_prompt_cx) *)
Lemma soh_head b Y : exists e rest, toks ((1 :: b) ++ 13 :: Y) = e :: rest /\ forall l, e <> Line l.
Proof.
  assert (E : exists hl r, b ++ 13 :: Y = hl :: r) by (destruct b as [|x b']; cbn [app]; eauto).
  destruct E as (hl&r&E). cbn [app]. rewrite E. unfold toks. cbn [length]. rewrite tokens_soh.
  destruct (take_until 0 r []) as [[title r1]|]; [|eexists; eexists; split; [reflexivity|discriminate]].
  destruct (take_until 0 r1 []) as [[offs r2]|]; [|eexists; eexists; split; [reflexivity|discriminate]].
  destruct (blocks (S (length r2)) r2 [] 0) as [[[[dd bok] cok] r3]|]; eexists; eexists; (split; [reflexivity|discriminate]).
Qed.

Lemma master_hs_skip gsv rest F : forall good a, forallb motd_lineb good = true ->
  master_handshake (length good + F) {| gm := map Line good ++ rest; gs := gsv; nm := a; ns := 0 |} 0 =
  master_handshake F {| gm := rest; gs := gsv; nm := (length good + a)%nat; ns := 0 |} 0.
Proof.
  induction good as [|l good' IH]; intros a Hg; [reflexivity|].
  cbn [forallb] in Hg. apply andb_true_iff in Hg. destruct Hg as [Hl Hg'].
  destruct (motd_lineb_inv l Hl) as (_&P2&P3&P4).
  change (length (l :: good') + F)%nat with (S (length good' + F)).
  cbn [map app]. rewrite master_hs_S. cbv zeta. rewrite P2, P3, P4. cbn [andb].
  rewrite IH by exact Hg'.
  replace (length good' + S a)%nat with (length (l :: good') + a)%nat by (cbn [length]; lia). reflexivity.
Qed.

Theorem motd_first_bad good bad Y peer :
  forallb motd_lineb good = true -> Forall (fun p => ~ In 13 p) good -> ~ In 13 bad ->
  motd_lineb bad = false -> prefixb [91] bad && suffixb [93] bad && valid_sid bad = false ->
  exists k, validate (motd_bytes good ++ bad ++ 13 :: Y) peer = VBad true k (length good).
Proof.
  intros Hg Hcr Hcrb Hbad Hsid. unfold validate. cbv zeta.
  change (tokens (S (length (motd_bytes good ++ bad ++ 13 :: Y))) (motd_bytes good ++ bad ++ 13 :: Y))
    with (toks (motd_bytes good ++ bad ++ 13 :: Y)).
  assert (HLo : Forall line_ok good).
  { apply Forall_forall. intros l Hl. split; [apply (proj1 (Forall_forall _ _) Hcr l Hl)|].
    apply (motd_lineb_inv l). apply (proj1 (forallb_forall _ _) Hg l Hl). }
  unfold motd_bytes. rewrite toks_lines by exact HLo.
  assert (Hstep : exists k e rest, toks (bad ++ 13 :: Y) = e :: rest /\
            forall F gsv a, master_handshake (S F) {| gm := e :: rest; gs := gsv; nm := a; ns := 0 |} 0 = inr (VBad true k a)).
  { destruct (prefixb [1] bad) eqn:E1.
    - destruct bad as [|x b]; [discriminate|]. cbn [prefixb] in E1. rewrite andb_true_r in E1. apply N.eqb_eq in E1. subst x.
      destruct (soh_head b Y) as (e&rest&Et&Hne). exists 24%N, e, rest. split; [exact Et|].
      intros F gsv a. apply master_hs_bad, Hne.
    - assert (Hlo : line_ok bad) by (split; [exact Hcrb|intros r ->; discriminate E1]).
      unfold motd_lineb in Hbad. rewrite E1 in Hbad. cbn [negb andb] in Hbad.
      destruct (prefixb [91] bad && suffixb [93] bad) eqn:P2.
      + cbn [andb] in Hsid. exists 21%N, (Line bad), (toks Y). split; [apply toks_line, Hlo|].
        intros F gsv a. rewrite master_hs_S. cbv zeta. rewrite P2, Hsid. reflexivity.
      + cbn [negb andb] in Hbad. destruct (prefixb [59; 70; 87] bad && negb (valid_fw bad)) eqn:P3.
        * exists 22%N, (Line bad), (toks Y). split; [apply toks_line, Hlo|].
          intros F gsv a. rewrite master_hs_S. cbv zeta. rewrite P2, P3. reflexivity.
        * assert (P4 : suffixb [62] bad = true).
          { destruct (prefixb [59; 70; 87] bad); destruct (valid_fw bad); destruct (suffixb [62] bad); try reflexivity; discriminate. }
          exists 23%N, (Line bad), (toks Y). split; [apply toks_line, Hlo|].
          intros F gsv a. rewrite master_hs_S. cbv zeta. rewrite P2, P3, P4. reflexivity. }
  destruct Hstep as (k&e&rest&Et&Hm). exists k. rewrite Et, app_length, map_length. cbn [length].
  replace (S (length good + S (length rest)))%nat with (length good + S (S (length rest)))%nat by lia.
  rewrite master_hs_skip by exact Hg. rewrite Hm, Nat.add_0_r. reflexivity.
Qed.

(* in terms of the MOTD of a master: the bytes it writes begin with motd_bytes (motd_lines motd) (motd_fold,
   motd_bytes_lines), so the theorem applies with good ++ bad :: more = motd_lines motd and
   Y = motd_bytes more ++ hello ++ the turns *)

Print Assumptions secure_response_shape.
Print Assumptions motd_first_bad.
Print Assumptions slave_conforms.
Print Assumptions master_conforms.
Print Assumptions one_side_conforms_wide.
Print Assumptions one_side_conforms_again.
Print Assumptions motd_plain_ok.
Print Assumptions wide_slave_instance.
Print Assumptions wide_master_instance.
Print Assumptions pq_prompt_cx.
Print Assumptions motd_cr_cx.

(* NOT DONE / LIMITS
   - motd_ok is shown necessary clause by clause by closed counterexamples and, in general, by
     motd_first_bad for the first violating piece unless that piece is a well-formed SID (a second valid
     SID in the MOTD is blamed only later, at the real prompt or, after a MOTD line ending with '>', at the
     real SID line: motd_sid2_cx, motd_sid_prompt_cx; no general statement for that case).
   - hs_master (c_hs cfg) = true is still asked of a master (ConformOneP.cx_no_prompt shows it necessary).
   - The remaining limits of ConformOneP.v are unchanged: elem_off is asked of every line of the peer that
     parses as an "FS" line; greet_agree is the agreement of the two readers on the end of the master's
     greeting (a ";PQ" line that ends with '>' violates it: pq_prompt_cx). *)
