(* B2F/StatusP.v — every interleaving of the transfer and the reporter yields a report sequence
   the judge accepts. *)
From Coq Require Import List NArith ZArith Bool Lia.
From Verif Require Import B2F.Status.
Import ListNotations.
Open Scope Z_scope.

Lemma reports_ok_cons2 sending mid total a b rs :
  reports_ok sending mid total (a :: b :: rs) =
  report_ok sending mid total a && negb (r_done a) && reports_ok sending mid total (b :: rs).
Proof. reflexivity. Qed.

Lemma send_reports_ok mid total : forall evs remaining,
  0 <= remaining <= total -> send_valid remaining evs = true ->
  reports_ok true mid total (send_reports mid total remaining evs) = true.
Proof.
  induction evs as [|e r IH]; intros remaining Hr Hv; cbn [send_valid] in Hv; [discriminate|].
  destruct e as [tx|n|].
  - apply andb_true_iff in Hv. destruct Hv as [Htx Hv]. apply Z.leb_le in Htx.
    cbn [send_reports]. specialize (IH remaining Hr Hv).
    destruct (send_reports mid total remaining r) as [|r0 rs] eqn:E; [cbn in IH; discriminate|].
    rewrite reports_ok_cons2, IH. unfold report_ok. cbn [r_sending r_mid r_transferred r_total r_done].
    rewrite N.eqb_refl, Z.eqb_refl. cbn [Bool.eqb negb andb].
    destruct (total - remaining - tx <? 0) eqn:Et.
    + assert (0 <=? total = true) by (apply Z.leb_le; lia). rewrite H. reflexivity.
    + apply Z.ltb_ge in Et. assert (H1 : (0 <=? total - remaining - tx) = true) by (apply Z.leb_le; lia).
      assert (H2 : (total - remaining - tx <=? total) = true) by (apply Z.leb_le; lia). rewrite H1, H2. reflexivity.
  - apply andb_true_iff in Hv. destruct Hv as [Hn Hv]. apply andb_true_iff in Hn. destruct Hn as [H0 H1].
    apply Z.ltb_lt in H0. apply Z.leb_le in H1. cbn [send_reports]. apply IH; [lia|exact Hv].
  - cbn [send_reports reports_ok]. unfold report_ok. cbn [r_sending r_mid r_transferred r_total r_done].
    rewrite N.eqb_refl, Z.eqb_refl. cbn [Bool.eqb andb].
    assert (H1 : (0 <=? total - remaining) = true) by (apply Z.leb_le; lia).
    assert (H2 : (total - remaining <=? total) = true) by (apply Z.leb_le; lia). rewrite H1, H2. reflexivity.
Qed.

Lemma recv_reports_ok mid total : forall evs received,
  0 <= received <= total -> recv_valid total received evs = true ->
  reports_ok false mid total (recv_reports mid total received evs) = true /\
  nondecreasing (recv_reports mid total received evs) = true /\
  (forall r, In r (recv_reports mid total received evs) -> received <= r_transferred r).
Proof.
  induction evs as [|e r IH]; intros received Hr Hv; cbn [recv_valid] in Hv; [discriminate|].
  destruct e.
  - cbn [recv_reports]. destruct (IH received Hr Hv) as [H1 [H2 H3]].
    destruct (recv_reports mid total received r) as [|r0 rs] eqn:E; [cbn in H1; discriminate|].
    repeat split.
    + rewrite reports_ok_cons2, H1. unfold report_ok. cbn [r_sending r_mid r_transferred r_total r_done].
      rewrite N.eqb_refl, Z.eqb_refl. cbn [Bool.eqb negb andb].
      assert (Ha : (0 <=? received) = true) by (apply Z.leb_le; lia).
      assert (Hb : (received <=? total) = true) by (apply Z.leb_le; lia). rewrite Ha, Hb. reflexivity.
    + change (nondecreasing ({| r_sending := false; r_mid := mid; r_transferred := received; r_total := total; r_done := false |} :: r0 :: rs))
        with ((received <=? r_transferred r0) && nondecreasing (r0 :: rs)). rewrite H2.
      assert (Hc : (received <=? r_transferred r0) = true) by (apply Z.leb_le; apply H3; left; reflexivity).
      rewrite Hc. reflexivity.
    + intros x [Hx|Hx]; [subst; cbn; lia|apply H3; exact Hx].
  - apply andb_true_iff in Hv. destruct Hv as [Hlt Hv]. apply Z.ltb_lt in Hlt. cbn [recv_reports].
    destruct (IH (received + 1) ltac:(lia) Hv) as [H1 [H2 H3]]. repeat split; try assumption.
    intros x Hx. specialize (H3 x Hx). lia.
  - cbn [recv_reports]. repeat split.
    + cbn [reports_ok]. unfold report_ok. cbn [r_sending r_mid r_transferred r_total r_done].
      rewrite N.eqb_refl, Z.eqb_refl. cbn [Bool.eqb andb].
      assert (Ha : (0 <=? received) = true) by (apply Z.leb_le; lia).
      assert (Hb : (received <=? total) = true) by (apply Z.leb_le; lia). rewrite Ha, Hb. reflexivity.
    + intros x [Hx|[]]. subst. cbn. lia.
Qed.

(* the judge's verdict, spelled out: every report in range and naming the message, the last one
   Done and no other *)
Lemma reports_ok_spec sending mid total : forall rs, reports_ok sending mid total rs = true ->
  rs <> [] /\
  (forall r, In r rs -> r_sending r = sending /\ r_mid r = mid /\ 0 <= r_transferred r <= total /\ r_total r = total) /\
  (exists init last, rs = init ++ [last] /\ r_done last = true /\ Forall (fun r => r_done r = false) init).
Proof.
  induction rs as [|r rest IH]; intros H; [cbn in H; discriminate|].
  assert (Hone : forall x, report_ok sending mid total x = true ->
            r_sending x = sending /\ r_mid x = mid /\ 0 <= r_transferred x <= total /\ r_total x = total).
  { intros x Hx. unfold report_ok in Hx.
    apply andb_true_iff in Hx. destruct Hx as [Hx E5]. apply andb_true_iff in Hx. destruct Hx as [Hx E4].
    apply andb_true_iff in Hx. destruct Hx as [Hx E3]. apply andb_true_iff in Hx. destruct Hx as [E1 E2].
    apply eqb_prop in E1. apply N.eqb_eq in E2. apply Z.leb_le in E3. apply Z.leb_le in E4. apply Z.eqb_eq in E5.
    repeat split; assumption. }
  destruct rest as [|r2 rest'].
  - cbn [reports_ok] in H. apply andb_true_iff in H. destruct H as [H1 H2].
    split; [discriminate|]. split.
    + intros x [Hx|[]]. subst. apply Hone. exact H1.
    + exists [], r. repeat split; [exact H2|constructor].
  - rewrite reports_ok_cons2 in H.
    apply andb_true_iff in H. destruct H as [H H3]. apply andb_true_iff in H. destruct H as [H1 H2].
    destruct (IH H3) as [_ [Hall [init [last [E [Hd Hf]]]]]].
    split; [discriminate|]. split.
    + intros x [Hx|Hx]; [subst; apply Hone; exact H1|apply Hall; exact Hx].
    + exists (r :: init), last. rewrite E. repeat split; [exact Hd|].
      constructor; [apply negb_true_iff in H2; exact H2|exact Hf].
Qed.
