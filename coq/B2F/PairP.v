(* B2F/PairP.v -- TWO-PARTY SAFETY of the B2F session model (B2F/Side.v, `exchange`): "a link
   failure never marks an undelivered message sent".  No axioms; everything called a lemma,
   theorem or example below is proved (B2F/PairDefs.v: definitions; B2F/PairLines.v, PairXfer.v:
   the inverse lemmas; B2F/PairHs.v: the handshake; this file: the simulation).

   MAIN RESULTS
   1. two_party_safety_intact (and, in the shape of CutP.two_party_safety_corrected,
      two_party_safety / two_party_safety_holds; with syntactic handshake hypotheses
      two_party_safety_text).  For all side configurations a, b, every byte string in_a, every
      cut k and every MID:
        IF  the roles are opposite (c_master a = negb (c_master b)),
            the handshakes are compatible (hs_compat master slave, PairDefs.v: each side's
              handshake accepts the other's greeting and consumes exactly it; decidable by
              computation, hs_check_sound; implied by "no MOTD, printable handshake fields",
              PairHs.hs_compat_text),
            every prepared proposal of BOTH outboxes respects the wire formats (prop_syn: MID
              without CR and space, compressed length at least 6 and at most MaxInt64),
            a's outbox is well formed (CutP.outbox_wf: the MID announced is the MID inside),
            a, run on in_a, reports mid sent (EvSetSent mid false),
            and b, fed the first k bytes of everything a wrote, produced at least in_a,
        THEN b has handed a message with that MID to its handler successfully
             (EvProcess mid data true) -- and (intact) it is the decompressed message of a
             proposal p of a's outbox with o_mid p = mid.
      There is NO restriction on the cut position (the corner of CutP.exchange_cut, a cut right
      behind an EOT byte, is covered: PairXfer.read_compressed_agree), on the number of blocks
      and turns, on who sends (both sides may have messages), on the answers (accept, reject,
      defer, duplicates), on failing stores (h_fail), missing handlers or a failing Prepare.
   2. CutP.two_party_safety_corrected AS STATED IS FALSE (section 10b, two closed examples by
      vm_compute): (1) a master whose MOTD reads "[x-1-B2F$]", "hi>", "FS +" makes the slave
      report its message sent from bytes the master writes before it has read anything (k = 0);
      (2) a proposal of the OTHER side whose MID is "X 1 2 0<CR>FF<CR>FS +<CR>F" makes its peer
      report a message sent that was never stored, without any link failure.  So hypotheses on the
      greeting and on the MIDs of b's outbox are NECESSARY; hs_compat and prop_syn are the ones
      used here.  (Not shown necessary: the conditions on a's own MIDs and on the lengths.  Nothing
      is asked of the titles: PairXfer.read_compressed_nul_title.)
   3. The inverse lemmas (what one side writes the other parses), PairLines.v / PairXfer.v:
      inbound_block, answer_props_zip, read_reply_fs, parse_answers_bytes, write_compressed_zero,
      read_compressed_xfer, read_compressed_agree, send_accepted_zero, receive_genuine; and here
      the phases of a turn against an INITIAL PART of the peer's future output: recv_block,
      send_reply, send_transfer, peek_cases, recv_tail.

   METHOD.  `final my s` is the state in which the rest of the session ends from a turn boundary
   (fuel eliminated: turns_fuel), `tailw my s` what will still be written.  JOINT INVARIANT at a
   turn boundary, one side about to send (sx), the other about to receive (sy):
        the unread input of each is an initial part of what the other will still write
        (prefix (s_in sx) (tailw false sy) /\ prefix (s_in sy) (tailw true sx)).
   turn_S: if the sender's turn succeeds, so does the receiver's, the invariant holds at the next
   boundary, and every message marked sent in the turn was stored by the receiver in that turn.
   turn_R: if the receiver's turn succeeds and leaves input, the sender's turn succeeds and the
   invariant holds at the next boundary.  Both use the causality lemmas of CutP BACKWARDS
   (relx_back): the run on the full future is known from the inverse lemmas, so the actual run
   on an initial part of it is the same or ends in a lost link.  pair_run: induction over the
   boundaries, driven by A's run (which must go on, since it marks later: CutP.turns_sent).
   The handshake establishes the invariant (section 10).

   NOT DONE: see the end of the file. *)
From Coq Require Import List NArith ZArith Bool Lia ZifyN ZifyNat ZifyBool.
From Verif Require Import Base.Bytes Base.BytesP gen.Tables Lzhuf.Dec Msg.Message B2F.Secure B2F.Side B2F.SideP
  B2F.TermP B2F.CodecP B2F.CutP B2F.PairDefs.
From Verif Require Import B2F.PairLines B2F.PairXfer B2F.PairHs.
Import ListNotations.
Open Scope N_scope.

(* ================================================================================== *)
(* 1. Initial parts of byte strings                                                   *)
(* ================================================================================== *)
Lemma prefix_refl {A} (a : list A) : prefix a a.
Proof. exists []. symmetry. apply app_nil_r. Qed.
Lemma prefix_nil {A} (a : list A) : prefix [] a.
Proof. exists a. reflexivity. Qed.
Lemma prefix_of_nil {A} (a : list A) : prefix a [] -> a = [].
Proof. intros [x H]. destruct a; [reflexivity|discriminate]. Qed.
Lemma prefix_trans {A} (a b c : list A) : prefix a b -> prefix b c -> prefix a c.
Proof. intros [x ->] [y ->]. exists (x ++ y). rewrite app_assoc. reflexivity. Qed.
Lemma prefix_app {A} (a b c : list A) : prefix b c -> prefix (a ++ b) (a ++ c).
Proof. intros [x ->]. exists x. rewrite app_assoc. reflexivity. Qed.
Lemma prefix_app_inv {A} (a b c : list A) : prefix (a ++ b) (a ++ c) -> prefix b c.
Proof. intros [x H]. rewrite <- app_assoc in H. apply app_inv_head in H. exists x. exact H. Qed.
Lemma prefix_app_l {A} (a b : list A) : prefix a (a ++ b).
Proof. exists b. reflexivity. Qed.
Lemma prefix_cons_inv {A} (c : A) x y : prefix (c :: x) y -> exists y', y = c :: y' /\ prefix x y'.
Proof. intros [z ->]. exists (x ++ z). split; [reflexivity|apply prefix_app_l]. Qed.
Lemma prefix_length {A} (a b : list A) : prefix a b -> (length a <= length b)%nat.
Proof. intros [x ->]. rewrite app_length. lia. Qed.

(* two initial parts of the same string are comparable *)
Lemma prefix_comparable {A} : forall (a b c : list A), prefix a c -> prefix b c -> prefix a b \/ prefix b a.
Proof.
  induction a as [|x a IH]; intros b c Ha Hb; [left; apply prefix_nil|].
  destruct b as [|y b]; [right; apply prefix_nil|].
  destruct Ha as [u ->]. destruct Hb as [v Hv]. cbn [app] in Hv. injection Hv as -> Hv.
  destruct (IH b (a ++ u)) as [H|H]; [apply prefix_app_l|exists v; exact Hv| |].
  - left. apply (prefix_app [y]). exact H.
  - right. apply (prefix_app [y]). exact H.
Qed.

(* a is what is left of b: b = p ++ a; then an extension of a extends b *)
Lemma sfx_prefix_ext (r i : bytes) : sfx r i -> exists p, i = p ++ r.
Proof. intros H; exact H. Qed.

(* ================================================================================== *)
(* 2. The wire                                                                         *)
(* ================================================================================== *)
Lemma wire_eqo a b : eqo a b -> wire a = wire b.
Proof. intros H. unfold wire. rewrite (eqo_out _ _ H). reflexivity. Qed.
Lemma wire_out a b : s_out a = s_out b -> wire a = wire b.
Proof. intros H. unfold wire. rewrite H. reflexivity. Qed.

Lemma pre_wire (a b : sess) : pre (s_out a) (s_out b) -> exists d, wire b = wire a ++ d.
Proof.
  intros [x H]. unfold wire. rewrite H, rev_app_distr, concat_app. eexists; reflexivity.
Qed.
Lemma grows_wire a b : grows a b -> exists d, wire b = wire a ++ d.
Proof. intros (H&_). apply pre_wire, H. Qed.

Lemma wire_fold_wr {B} (f : B -> bytes) l : forall s,
  wire (fold_left (fun acc x => wr acc (f x)) l s) = wire s ++ concat (map f l).
Proof.
  induction l as [|x l IH]; intros s; cbn [fold_left map concat]; [symmetry; apply app_nil_r|].
  rewrite IH, wire_wr, <- app_assoc. reflexivity.
Qed.


(* ================================================================================== *)
(* 3. The turn loop without fuel; what a side will still write                         *)
(* ================================================================================== *)
Lemma turns_fuel : forall f1 f2 (my : bool) s,
  (2 * inlen s + (if my then 2 else 1) <= f1)%nat -> (2 * inlen s + (if my then 2 else 1) <= f2)%nat ->
  turns f1 my s = turns f2 my s.
Proof.
  induction f1 as [|f1 IH]; intros f2 my s H1 H2; [destruct my; lia|].
  destruct f2 as [|f2]; [destruct my; lia|]. cbn [turns]. destruct my.
  - pose proof (handle_outbound_inlen s) as Hl.
    destruct (handle_outbound s) as [[q s1]|e s1|]; try reflexivity.
    destruct q; [reflexivity|]. specialize (Hl _ _ eq_refl). apply IH; lia.
  - pose proof (TermP.inbound_loop_ok (S (length (s_in s))) s [] []) as Hl.
    destruct (inbound_loop (S (length (s_in s))) s [] []) as [[[q props] s1]|e s1|]; try reflexivity.
    specialize (Hl _ _ _ eq_refl). pose proof (receive_accepted_inlen props s1) as Hl2.
    destruct (receive_accepted s1 props) as [s2|e s2| |]; try reflexivity.
    destruct q; [reflexivity|]. apply IH; lia.
Qed.

Definition run (my : bool) (s : sess) : xres * sess := turns (2 * inlen s + 2) my s.

Lemma turns_run f (my : bool) s : (2 * inlen s + (if my then 2 else 1) <= f)%nat -> turns f my s = run my s.
Proof. intros H. unfold run. apply turns_fuel; [exact H|destruct my; lia]. Qed.

Lemma run_send s :
  run true s = match handle_outbound s with
               | ROk (q, s1) => if q then (XNil, s1) else run false s1
               | RFail e s' => (xerr e, s')
               | RPanic => (XPanic, s)
               end.
Proof.
  unfold run at 1. replace (2 * inlen s + 2)%nat with (S (2 * inlen s + 1)) by lia. cbn [turns].
  pose proof (handle_outbound_inlen s) as Hl.
  destruct (handle_outbound s) as [[q s1]|e s1|]; try reflexivity.
  destruct q; [reflexivity|]. specialize (Hl _ _ eq_refl). apply turns_run. lia.
Qed.

Lemma run_recv s :
  run false s = match inbound_loop (S (length (s_in s))) s [] [] with
                | RFail e s' => (xerr e, s')
                | RPanic => (XPanic, s)
                | ROk (q, props, s1) =>
                    match receive_accepted s1 props with
                    | RcOk s2 => if q then (XNil, s2) else run true s2
                    | RcErr e s' => (xerr e, s')
                    | RcPanic => (XPanic, s1)
                    | RcUnknown => (XUnknown, s1)
                    end
                end.
Proof.
  unfold run at 1. replace (2 * inlen s + 2)%nat with (S (2 * inlen s + 1)) by lia. cbn [turns].
  pose proof (TermP.inbound_loop_ok (S (length (s_in s))) s [] []) as Hl.
  destruct (inbound_loop (S (length (s_in s))) s [] []) as [[[q props] s1]|e s1|]; try reflexivity.
  specialize (Hl _ _ _ eq_refl). pose proof (receive_accepted_inlen props s1) as Hl2.
  destruct (receive_accepted s1 props) as [s2|e s2| |]; try reflexivity.
  destruct q; [reflexivity|]. apply turns_run. lia.
Qed.

(* the state in which the session ends, the error report included *)
Definition final (my : bool) (s : sess) : sess := fin_state (fst (run my s)) (snd (run my s)).

Lemma fin_state_grows r s : grows s (fin_state r s).
Proof. destruct r; cbn [fin_state]; gr. Qed.

Lemma final_grows my s : grows s (final my s).
Proof. unfold final, run. eapply grows_trans; [apply turns_grows|apply fin_state_grows]. Qed.

Definition tailw (my : bool) (s : sess) : bytes := skipn (length (wire s)) (wire (final my s)).

Lemma tailw_eq my s : wire (final my s) = wire s ++ tailw my s.
Proof.
  unfold tailw. destruct (grows_wire _ _ (final_grows my s)) as [d H]. rewrite H.
  rewrite skipn_app, skipn_all, Nat.sub_diag. reflexivity.
Qed.

Lemma tailw_intro my s t : wire (final my s) = wire s ++ t -> tailw my s = t.
Proof. intros H. rewrite tailw_eq in H. apply app_inv_head in H. exact H. Qed.

Lemma final_ev my s : pre (s_ev s) (s_ev (final my s)).
Proof. apply (final_grows my s). Qed.

(* ---------- one step of `final` ---------- *)
Lemma final_send_ok s s1 : handle_outbound s = ROk (false, s1) -> final true s = final false s1.
Proof. intros H. unfold final. rewrite run_send, H. reflexivity. Qed.
Lemma final_send_quit s s1 : handle_outbound s = ROk (true, s1) -> final true s = s1.
Proof. intros H. unfold final. rewrite run_send, H. reflexivity. Qed.
Lemma final_send_fail s e s1 : handle_outbound s = RFail e s1 -> final true s = fin_state (xerr e) s1.
Proof. intros H. unfold final. rewrite run_send, H. reflexivity. Qed.

Lemma final_recv_fail s e s1 :
  inbound_loop (S (length (s_in s))) s [] [] = RFail e s1 -> final false s = fin_state (xerr e) s1.
Proof. intros H. unfold final. rewrite run_recv, H. reflexivity. Qed.
Lemma final_recv_ok s props s1 s2 :
  inbound_loop (S (length (s_in s))) s [] [] = ROk (false, props, s1) -> receive_accepted s1 props = RcOk s2 ->
  final false s = final true s2.
Proof. intros H1 H2. unfold final. rewrite run_recv, H1, H2. reflexivity. Qed.
Lemma final_recv_quit s props s1 s2 :
  inbound_loop (S (length (s_in s))) s [] [] = ROk (true, props, s1) -> receive_accepted s1 props = RcOk s2 ->
  final false s = s2.
Proof. intros H1 H2. unfold final. rewrite run_recv, H1, H2. reflexivity. Qed.
Lemma final_recv_err s q props s1 e s2 :
  inbound_loop (S (length (s_in s))) s [] [] = ROk (q, props, s1) -> receive_accepted s1 props = RcErr e s2 ->
  final false s = fin_state (xerr e) s2.
Proof. intros H1 H2. unfold final. rewrite run_recv, H1, H2. reflexivity. Qed.
Lemma final_recv_unknown s q props s1 :
  inbound_loop (S (length (s_in s))) s [] [] = ROk (q, props, s1) -> receive_accepted s1 props = RcUnknown ->
  final false s = s1.
Proof. intros H1 H2. unfold final. rewrite run_recv, H1, H2. reflexivity. Qed.

(* whatever my turn writes begins with 'F' *)
Lemma tailw_send_F s : exists r, tailw true s = 70 :: r.
Proof.
  pose proof (handle_outbound_speaks s) as Hs. pose proof (handle_outbound_nopanic s) as Np.
  assert (K : forall s', (exists w, s_out s' = w ++ s_out s /\ starts_with_F w) -> grows s' (final true s) ->
              exists r, tailw true s = 70 :: r).
  { intros s' (w&Hw&(w'&r&->)) ([x Hx]&_).
    eexists. apply tailw_intro. unfold wire. rewrite Hx, Hw, !rev_app_distr, !concat_app.
    cbn [rev app concat]. rewrite <- !app_assoc. cbn [app]. reflexivity. }
  destruct (handle_outbound s) as [[q s1]|e s1|] eqn:E; [| |congruence].
  - apply (K s1 Hs). destruct q.
    + rewrite (final_send_quit _ _ E). gr.
    + rewrite (final_send_ok _ _ E). apply final_grows.
  - apply (K s1 Hs). rewrite (final_send_fail _ _ _ E). apply fin_state_grows.
Qed.

(* ================================================================================== *)
(* 4. Small facts about the steps of a turn                                            *)
(* ================================================================================== *)
From Coq Require Import Sorting.Permutation.

Lemma relx_back {A} i2 s (r1 : res sess (A * sess)) a s2 :
  relx i2 s r1 (ROk (a, s2)) ->
  (exists s1, r1 = ROk (a, s1) /\ s2 = ext i2 s1) \/ (exists s1, r1 = RFail EConnLost s1).
Proof.
  unfold relx. destruct r1 as [[a1 s1]|[|] s1|].
  - intros [H _]. injection H as -> ->. left. eauto.
  - intros _. right. eauto.
  - intros (sx&H&_). discriminate.
  - discriminate.
Qed.

Lemma In_firstn {A} (x : A) n l : In x (firstn n l) -> In x l.
Proof. intros H. rewrite <- (firstn_skipn n l). apply in_or_app. left. exact H. Qed.

(* the outbox of the handler, which no step changes *)
Definition hob (s : sess) : list oprop := h_outbox (s_h s).
Definition side_ok (s : sess) : Prop := Forall prop_syn (hob s).

Lemma outbound_block s props s0 :
  outbound s = (props, s0) ->
  (forall p, In p props -> In p (hob s)) /\ s_in s0 = s_in s /\ s_out s0 = s_out s /\ s_h s0 = s_h s /\ nm s s0.
Proof.
  unfold outbound. destruct (h_present (s_h s)); intros H; injection H as <- <-.
  - split; [|repeat split; try reflexivity; apply nm_ev; [discriminate|apply nm_refl]].
    intros p Hp. apply (Permutation_in _ (Permutation_sym (sort_props_perm _))) in Hp.
    apply filter_In in Hp. apply Hp.
  - split; [intros p []|repeat split; apply nm_refl].
Qed.

Lemma mark_rej_out sent : forall s, s_out (mark_rej sent s) = s_out s /\ hob (mark_rej sent s) = hob s.
Proof.
  unfold mark_rej. induction sent as [|mr l IH]; intros s; cbn [fold_left]; [split; reflexivity|].
  destruct (snd mr); [|apply IH].
  destruct (IH (ev (mark_gone s (fst mr)) (EvSetSent (fst mr) true))) as [H1 H2]. split; [exact H1|exact H2].
Qed.
Lemma mark_sent_out sent : forall s, s_out (mark_sent sent s) = s_out s /\ hob (mark_sent sent s) = hob s.
Proof.
  unfold mark_sent. induction sent as [|mr l IH]; intros s; cbn [fold_left]; [split; reflexivity|].
  destruct (snd mr); [apply IH|].
  destruct (IH (add_sent (ev (mark_gone s (fst mr)) (EvSetSent (fst mr) false)) (fst mr))) as [H1 H2].
  split; [exact H1|exact H2].
Qed.



Lemma answer_props_out props : forall s seen acc,
  s_out (fst (answer_props s props seen acc)) = s_out s /\ s_h (fst (answer_props s props seen acc)) = s_h s.
Proof.
  induction props as [|p r IH]; intros s seen acc; cbn [answer_props]; [split; reflexivity|].
  destruct (mem_bytes (i_mid p) seen || negb ((i_code p =? Wl2kProposal) || (i_code p =? GzipProposal))
            || negb (h_present (s_h s))); [apply IH|].
  destruct (IH (ev s (EvAnswer (i_mid p) (policy_of (s_h s) (i_mid p)))) (i_mid p :: seen)
               (with_answer p (policy_of (s_h s) (i_mid p)) :: acc)) as [I1 I2].
  split; [exact I1|exact I2].
Qed.

Lemma zip_answers block : forall answers, length answers = length block ->
  map (fun p => answer_byte (i_answer p)) (zip_props block answers) = map answer_byte answers.
Proof.
  unfold zip_props. induction block as [|p ps IH]; intros [|a r] H; try discriminate; [reflexivity|].
  cbn [combine map]. cbn [iprop_of i_answer fst snd]. f_equal. apply IH. cbn in H. lia.
Qed.

Lemma zip_props_cons p ps a r : zip_props (p :: ps) (a :: r) = iprop_of p a :: zip_props ps r.
Proof. reflexivity. Qed.


(* ================================================================================== *)
(* 5. The phases of a turn, one side against an initial part of what the other writes  *)
(* ================================================================================== *)

(* the receiver of a proposal block: either the whole block was there (it answers), or the
   link is lost before anything is written *)
Lemma recv_block sy block R :
  block <> [] -> Forall prop_syn block -> prefix (s_in sy) (proposal_bytes block ++ R) ->
  (exists answers sy1, length answers = length block /\
     inbound_loop (S (length (s_in sy))) sy [] [] = ROk (false, zip_props block answers, sy1) /\
     prefix (s_in sy1) R /\ wire sy1 = wire sy ++ fs_line answers /\ s_h sy1 = s_h sy)
  \/ (exists s', inbound_loop (S (length (s_in sy))) sy [] [] = RFail EConnLost s' /\ eqo sy s').
Proof.
  intros Hne Hsyn [i2 Hi].
  pose proof (inbound_block block (ext i2 sy) R (S (length (s_in sy ++ i2))) Hne Hsyn) as Hfull.
  cbn [ext set_in s_in] in Hfull. specialize (Hfull (eq_sym Hi) ltac:(lia)).
  change (set_in sy (s_in sy ++ i2)) with (ext i2 sy) in Hfull.
  set (sR := set_nomsgs (set_in (ext i2 sy) R) false) in *.
  destruct (answer_props_zip block sR) as (answers&Hlen&Hz).
  pose proof (answer_props_out (map (fun p => iprop_of p ADefer) block) sR [] []) as [Ho Hh].
  pose proof (answer_props_facts (map (fun p => iprop_of p ADefer) block) sR [] []) as [Hin _].
  destruct (answer_props sR (map (fun p => iprop_of p ADefer) block) [] []) as [sB answered] eqn:Eap.
  cbn [fst snd] in *. subst answered.
  pose proof (inbound_loop_ext i2 (S (length (s_in sy))) (S (length (s_in sy ++ i2))) sy [] []) as Rx.
  unfold inlen in Rx. rewrite app_length in Rx. specialize (Rx ltac:(lia) ltac:(lia)).
  rewrite <- app_length in Rx.
  rewrite Hfull in Rx. apply relx_back in Rx. destruct Rx as [(s1&E1&E2)|(s1&E1)].
  - left. exists answers, s1. split; [exact Hlen|]. split; [exact E1|].
    rewrite (zip_answers _ _ Hlen) in E2.
    split; [|split].
    + exists i2. apply (f_equal s_in) in E2. cbn [wr ext set_in s_in] in E2. rewrite <- E2, Hin. reflexivity.
    + apply (f_equal s_out) in E2. cbn [wr ext set_in s_out] in E2. unfold wire. rewrite <- E2, Ho.
      cbn [rev]. rewrite concat_app. cbn [concat]. rewrite app_nil_r. reflexivity.
    + apply (f_equal s_h) in E2. cbn [wr ext set_in s_h] in E2. rewrite <- E2, Hh. reflexivity.
  - right. exists s1. split; [exact E1|]. eapply inbound_loop_lost_eqo; exact E1.
Qed.

(* the sender waiting for the answer line *)
Lemma send_reply s2 answers T :
  answers <> [] -> prefix (s_in s2) (fs_line answers ++ T) ->
  (exists s3, read_reply (S (length (s_in s2))) s2 = ROk ([70; 83; 32] ++ map answer_byte answers, s3) /\
     prefix (s_in s3) T /\ eqo s2 s3)
  \/ (exists s', read_reply (S (length (s_in s2))) s2 = RFail EConnLost s' /\ eqo s2 s').
Proof.
  intros Hne [j Hj].
  pose proof (read_reply_fs answers (ext j s2) T (S (length (s_in s2 ++ j))) Hne) as Hfull.
  cbn [ext set_in s_in] in Hfull. specialize (Hfull (eq_sym Hj) ltac:(lia)).
  change (set_in s2 (s_in s2 ++ j)) with (ext j s2) in Hfull.
  pose proof (read_reply_ext j (S (length (s_in s2))) (S (length (s_in s2 ++ j))) s2) as Rx.
  unfold inlen in Rx. rewrite app_length in Rx. specialize (Rx ltac:(lia) ltac:(lia)).
  rewrite <- app_length in Rx. rewrite Hfull in Rx.
  pose proof (read_reply_eqo (S (length (s_in s2))) s2) as Hq.
  apply relx_back in Rx. destruct Rx as [(s1&E1&E2)|(s1&E1)]; rewrite E1 in Hq; cbn [res_eqo] in Hq.
  - left. exists s1. split; [exact E1|]. split; [|exact Hq].
    exists j. apply (f_equal s_in) in E2. cbn [ext set_in s_in] in E2. exact E2.
  - right. exists s1. split; [exact E1|exact Hq].
Qed.

(* the transfers the sender writes for the answers it has read *)
Lemma send_transfer block answers s3 :
  length answers = length block -> Forall prop_syn block ->
  exists s4, ho_transfer block ([70; 83; 32] ++ map answer_byte answers) s3 = ho_peek (sent_of block answers) s4 /\
    wire s4 = wire s3 ++ xfers block answers /\ s_in s4 = s_in s3 /\ hob s4 = hob s3 /\ nm s3 s4.
Proof.
  intros Hlen Hsyn. unfold ho_transfer.
  assert (Hs : slice_from 3 ([70; 83; 32] ++ map answer_byte answers) = Some (map answer_byte answers)) by reflexivity.
  rewrite Hs.
  rewrite (parse_answers_bytes answers (S (length (map answer_byte answers))) (length block) [])
    by (rewrite ?map_length; lia).
  cbn [rev' rev_append app].
  destruct (send_accepted_zero block answers s3 [] Hlen Hsyn) as (s4&E&Hw&Hi&Hh).
  pose proof (send_accepted_nm block s3 (map (fun a => PAns a 0%Z) answers) []) as Hn.
  rewrite E in Hn |- *. exists s4. rewrite app_nil_r, rev'_rev, rev_involutive.
  repeat split; assumption.
Qed.

(* the peek *)
Lemma peek_cases sent s4 :
  (s_in s4 = [] /\ ho_peek sent s4 = RFail EConnLost (ev (mark_rej sent s4) EvBlockEnd))
  \/ (exists b r, s_in s4 = b :: r /\ (b = 70 \/ b = 59) /\
        ho_peek sent s4 = ROk (false, ev (mark_sent sent (mark_rej sent s4)) EvBlockEnd))
  \/ (exists b r e s', s_in s4 = b :: r /\ b <> 70 /\ b <> 59 /\ ho_peek sent s4 = RFail e s').
Proof.
  unfold ho_peek. cbv zeta. rewrite mark_rej_in.
  destruct (s_in s4) as [|b r] eqn:E; [left; split; reflexivity|right].
  destruct (negb ((b =? 70) || (b =? 59))) eqn:Eb.
  - right. apply negb_true_iff, orb_false_iff in Eb. destruct Eb as [E1 E2].
    apply N.eqb_neq in E1. apply N.eqb_neq in E2.
    pose proof (next_line_nopanic true (mark_rej sent s4)) as Np.
    destruct (next_line true (mark_rej sent s4)) as [[l s']|e s'|]; [| |congruence]; eauto 10.
  - left. exists b, r. split; [reflexivity|]. split; [|reflexivity].
    apply negb_false_iff, orb_true_iff in Eb. destruct Eb as [Eb|Eb]; apply N.eqb_eq in Eb; auto.
Qed.

(* what the receiver writes after its answer line *)
Lemma recv_tail s props s1 :
  inbound_loop (S (length (s_in s))) s [] [] = ROk (false, props, s1) ->
  exists T3, wire (final false s) = wire s1 ++ T3 /\
    ((exists s2, receive_accepted s1 props = RcOk s2 /\ T3 = tailw true s2 /\ final false s = final true s2)
     \/ T3 = [] \/ T3 = echo).
Proof.
  intros E. pose proof (receive_accepted_silent props s1) as Hs. pose proof (receive_accepted_nopanic props s1) as Np.
  destruct (receive_accepted s1 props) as [s2|e s2| |] eqn:Er; [| |congruence|].
  - destruct Hs as [Ho _]. exists (tailw true s2). split.
    + rewrite (final_recv_ok _ _ _ _ E Er), tailw_eq, (wire_out _ _ Ho). reflexivity.
    + left. exists s2. split; [reflexivity|]. split; [reflexivity|apply (final_recv_ok _ _ _ _ E Er)].
  - rewrite (final_recv_err _ _ _ _ _ _ E Er). destruct e; cbn [xerr fin_state].
    + exists []. split; [rewrite app_nil_r; apply wire_out, Hs|right; left; reflexivity].
    + exists echo. split; [rewrite wire_wr, (wire_out _ _ Hs); reflexivity|right; right; reflexivity].
  - rewrite (final_recv_unknown _ _ _ _ E Er). exists []. split; [rewrite app_nil_r; reflexivity|right; left; reflexivity].
Qed.

(* ================================================================================== *)
(* 6. One turn of the pair                                                             *)
(* ================================================================================== *)
Lemma echo_head : exists r, echo = 42 :: r. Proof. eexists; reflexivity. Qed.

(* the sender part of a turn with proposals, up to the wait for the answer *)
Lemma send_start sx p ps s0 :
  outbound sx = (p :: ps, s0) ->
  let block := firstn (N.to_nat MaxBlockSize) (p :: ps) in
  let s2 := ho_propose block s0 in
  block <> [] /\ (forall q, In q block -> In q (hob sx)) /\
  s_in s2 = s_in sx /\ wire s2 = wire sx ++ proposal_bytes block /\ hob s2 = hob sx /\ nm sx s2 /\
  handle_outbound sx = match read_reply (S (length (s_in s2))) s2 with
                       | RFail e s' => RFail e s'
                       | RPanic => RPanic
                       | ROk (reply, s3) => ho_transfer block reply s3
                       end.
Proof.
  intros Eo. cbv zeta. destruct (outbound_block _ _ _ Eo) as (Hin&E0&O0&H0&N0).
  destruct (ho_propose_facts (firstn (N.to_nat MaxBlockSize) (p :: ps)) s0) as [E2 _].
  split; [change (N.to_nat MaxBlockSize) with 5%nat; cbn [firstn]; discriminate|].
  split; [intros q Hq; apply Hin; eapply In_firstn; exact Hq|].
  split; [rewrite E2; exact E0|]. split; [rewrite proposal_bytes_wire, (wire_out _ _ O0); reflexivity|].
  split.
  { unfold hob, ho_propose. cbv zeta. cbn [wr s_h].
    assert (K : forall l s, s_h (fold_left (fun acc (x : bytes) => wr acc (x ++ [13])) l s) = s_h s).
    { induction l as [|x l IH]; intros s; cbn [fold_left]; [reflexivity|]. rewrite IH. reflexivity. }
    rewrite K, H0. reflexivity. }
  split; [eapply nm_trans; [exact N0|apply ho_propose_nm]|].
  rewrite handle_outbound_eq, Eo. reflexivity.
Qed.

(* TURN, the sender's turn is known to succeed.  sx sends, sy receives; each one's unread input
   is an initial part of what the other will still write.  Then the receiver's turn succeeds too,
   the same holds at the next boundary, and every message marked sent in this turn was stored by
   the receiver in this turn. *)
Lemma turn_S sx sy sx' :
  side_ok sx ->
  handle_outbound sx = ROk (false, sx') -> s_in sx' <> [] ->
  prefix (s_in sx) (tailw false sy) -> prefix (s_in sy) (tailw true sx) ->
  exists props sy1 sy2,
    inbound_loop (S (length (s_in sy))) sy [] [] = ROk (false, props, sy1) /\
    receive_accepted sy1 props = RcOk sy2 /\
    prefix (s_in sx') (tailw true sy2) /\ prefix (s_in sy2) (tailw false sx') /\
    (forall m, In (EvSetSent m false) (s_ev sx') ->
       In (EvSetSent m false) (s_ev sx) \/
       exists p, In p (hob sx) /\ o_mid p = m /\
         forall mid data, proposal_message (o_cdata p) = MOk mid data -> In (EvProcess mid data true) (s_ev sy2)).
Proof.
  intros Hok Hho Hne I1 I2.
  destruct (outbound sx) as [props s0] eqn:Eo. destruct props as [|p ps].
  - (* no proposals: FF *)
    destruct (outbound_block _ _ _ Eo) as (_&E0&O0&H0&N0).
    rewrite handle_outbound_eq, Eo in Hho. cbv zeta in Hho.
    destruct (s_remote_nomsgs s0) eqn:Eq; [discriminate|]. injection Hho as <-.
    assert (Ht : tailw true sx = [70; 70; 13] ++ tailw false (wr s0 [70; 70; 13])).
    { apply tailw_intro. rewrite (final_send_ok sx (wr s0 [70; 70; 13])).
      - rewrite tailw_eq, wire_wr, (wire_out _ _ O0), <- app_assoc. reflexivity.
      - rewrite handle_outbound_eq, Eo. cbv zeta. rewrite Eq. reflexivity. }
    rewrite Ht in I2. destruct I2 as [i2 Hi].
    pose proof (inbound_ff (ext i2 sy) (tailw false (wr s0 [70; 70; 13])) (S (length (s_in sy ++ i2)))) as Hfull.
    cbn [ext set_in s_in] in Hfull. specialize (Hfull (eq_sym Hi) ltac:(lia)).
    change (set_in sy (s_in sy ++ i2)) with (ext i2 sy) in Hfull.
    pose proof (inbound_loop_ext i2 (S (length (s_in sy))) (S (length (s_in sy ++ i2))) sy [] []) as Rx.
    unfold inlen in Rx. rewrite app_length in Rx. specialize (Rx ltac:(lia) ltac:(lia)).
    rewrite <- app_length in Rx. rewrite Hfull in Rx. apply relx_back in Rx.
    destruct Rx as [(s1&E1&E2)|(s1&E1)].
    + exists [], s1, s1. split; [exact E1|]. split; [reflexivity|].
      assert (Ho : s_out s1 = s_out sy) by (apply (f_equal s_out) in E2; cbn in E2; symmetry; exact E2).
      assert (Hty : tailw false sy = tailw true s1).
      { apply tailw_intro. rewrite (final_recv_ok sy [] s1 s1 E1 eq_refl), tailw_eq, (wire_out _ _ Ho). reflexivity. }
      split; [cbn [wr s_in]; rewrite E0, <- Hty; exact I1|].
      split; [exists i2; apply (f_equal s_in) in E2; cbn [ext set_in set_nomsgs s_in] in E2; exact E2|].
      intros m Hm. left. cbn [wr s_ev] in Hm. apply N0. exact Hm.
    + exfalso. apply Hne. cbn [wr s_in]. rewrite E0.
      assert (Hty : tailw false sy = []).
      { apply tailw_intro. rewrite (final_recv_fail _ _ _ E1). cbn [xerr fin_state].
        rewrite app_nil_r. symmetry. apply wire_eqo. eapply inbound_loop_lost_eqo; exact E1. }
      rewrite Hty in I1. apply prefix_of_nil in I1. exact I1.
  - (* a block of proposals *)
    destruct (send_start _ _ _ _ Eo) as (Hbne&Hbin&E2&W2&Hh2&N2&Hstep). cbv zeta in *.
    set (block := firstn (N.to_nat MaxBlockSize) (p :: ps)) in *. set (s2 := ho_propose block s0) in *.
    clearbody s2. clearbody block.
    assert (Hsyn : Forall prop_syn block).
    { apply Forall_forall. intros q Hq. apply (proj1 (Forall_forall _ _) Hok). apply Hbin, Hq. }
    rewrite Hstep in Hho.
    destruct (read_reply (S (length (s_in s2))) s2) as [[reply s3]|e s3|] eqn:Er; try discriminate.
    pose proof (read_reply_eqo (S (length (s_in s2))) s2) as Q3. rewrite Er in Q3. cbn [res_eqo] in Q3.
    pose proof (TermP.read_reply_ok _ _ _ _ Er) as L3. unfold inlen in L3.
    (* what the sender writes in this turn *)
    pose proof (ho_transfer_grows block reply s3) as G3. rewrite Hho in G3. cbn [res_grows] in G3.
    destruct (grows_wire _ _ G3) as [d Hd].
    assert (Ht : tailw true sx = proposal_bytes block ++ d ++ tailw false sx').
    { apply tailw_intro. rewrite (final_send_ok sx sx') by (rewrite Hstep; exact Hho).
      rewrite tailw_eq, Hd, <- (wire_eqo _ _ Q3), W2, <- !app_assoc. reflexivity. }
    rewrite Ht in I2.
    destruct (recv_block sy block (d ++ tailw false sx') Hbne Hsyn I2)
      as [(answers&sy1&Hlen&Ei&P1&W1&Hh1)|(s'&Ei&Qi)].
    2:{ exfalso.
        assert (Hty : tailw false sy = []).
        { apply tailw_intro. rewrite (final_recv_fail _ _ _ Ei). cbn [xerr fin_state].
          rewrite app_nil_r. symmetry. apply wire_eqo. exact Qi. }
        rewrite Hty in I1. apply prefix_of_nil in I1. rewrite E2, I1 in L3. cbn in L3. lia. }
    assert (Hane : answers <> []).
    { intros ->. destruct block; [congruence|discriminate]. }
    (* what the receiver writes from here on *)
    destruct (recv_tail _ _ _ Ei) as (T3&HT3&Hcase).
    assert (Hty : tailw false sy = fs_line answers ++ T3).
    { apply tailw_intro. rewrite HT3, W1, <- app_assoc. reflexivity. }
    rewrite Hty, <- E2 in I1.
    destruct (send_reply s2 answers T3 Hane I1) as [(s3'&Er'&P3&_)|(s'&Er'&_)]; rewrite Er in Er'; [|discriminate].
    injection Er' as -> <-.
    destruct (send_transfer block answers s3 Hlen Hsyn) as (s4&Etr&W4&I4&Hh4&N4).
    cbn [app] in Etr. rewrite Etr in Hho.
    destruct (peek_cases (sent_of block answers) s4) as [[_ Hp]|[(b&r&Eb&Hb&Hp)|(b&r&e&s'&_&_&_&Hp)]];
      rewrite Hp in Hho; try discriminate.
    injection Hho as <-.
    assert (Ein' : s_in (ev (mark_sent (sent_of block answers) (mark_rej (sent_of block answers) s4)) EvBlockEnd) = b :: r).
    { cbn [ev s_in]. rewrite mark_sent_in, mark_rej_in. exact Eb. }
    set (sx' := ev (mark_sent (sent_of block answers) (mark_rej (sent_of block answers) s4)) EvBlockEnd) in *.
    assert (Wx' : wire sx' = wire s4).
    { apply wire_out. unfold sx'. cbn [ev s_out].
      rewrite (proj1 (mark_sent_out _ _)), (proj1 (mark_rej_out _ _)). reflexivity. }
    assert (Hdx : d = xfers block answers).
    { rewrite Wx', W4 in Hd. apply app_inv_head in Hd. symmetry. exact Hd. }
    subst d.
    (* the receiver has gone on: it has received the block *)
    rewrite I4 in Eb. rewrite Eb in P3.
    destruct (prefix_cons_inv _ _ _ P3) as (T3'&HT3'&_).
    destruct Hcase as [(sy2&Erc&HT2&Hf2)|[HT|HT]].
    2:{ rewrite HT in HT3'. discriminate. }
    2:{ rewrite HT in HT3'. destruct echo_head as [re Hre]. rewrite Hre in HT3'. injection HT3' as <- _.
        destruct Hb; discriminate. }
    destruct (receive_genuine block answers sy1 (tailw false sx') sy2 Hlen Hsyn P1 Erc) as [P2 Hev].
    exists (zip_props block answers), sy1, sy2. split; [exact Ei|]. split; [exact Erc|].
    split; [rewrite Ein', <- HT2; exact P3|]. split; [exact P2|].
    intros m Hm. unfold sx' in Hm. cbn [ev s_ev] in Hm. destruct Hm as [Hm|Hm]; [discriminate|].
    apply mark_sent_events in Hm. destruct Hm as [Hm|Hm].
    + right. destruct (sent_of_accepted _ _ _ Hm) as (q&Hq&Hmq).
      exists q. split; [apply Hbin; eapply in_combine_l; exact Hq|]. split; [exact Hmq|].
      intros mid data Hpm. eapply Hev; [exact Hq|reflexivity|exact Hpm].
    + left. apply N2. rewrite (eqo_ev _ _ Q3). apply N4. apply (mark_rej_nm (sent_of block answers) s4). exact Hm.
Qed.

(* whatever happens to the sender after its proposal block, the session ends in a state that
   continues the one in which the block was written *)
Lemma send_grows sx p ps s0 :
  outbound sx = (p :: ps, s0) ->
  grows (ho_propose (firstn (N.to_nat MaxBlockSize) (p :: ps)) s0) (final true sx).
Proof.
  intros Eo. destruct (send_start _ _ _ _ Eo) as (_&_&_&_&_&_&Hstep). cbv zeta in Hstep.
  set (block := firstn (N.to_nat MaxBlockSize) (p :: ps)) in *. set (s2 := ho_propose block s0) in *.
  pose proof (read_reply_eqo (S (length (s_in s2))) s2) as Q3.
  pose proof (read_reply_nopanic (S (length (s_in s2))) s2) as Np.
  destruct (read_reply (S (length (s_in s2))) s2) as [[reply s3]|e s3|]; cbn [res_eqo] in Q3; [| |congruence].
  - pose proof (ho_transfer_grows block reply s3) as G3. pose proof (handle_outbound_nopanic sx) as Np2.
    destruct (ho_transfer block reply s3) as [[q s']|e s'|]; cbn [res_grows] in G3; [| |congruence].
    + eapply grows_trans; [apply grows_eqo, Q3|]. eapply grows_trans; [exact G3|].
      destruct q; [rewrite (final_send_quit _ _ Hstep); gr|rewrite (final_send_ok _ _ Hstep); apply final_grows].
    + rewrite (final_send_fail _ _ _ Hstep). eapply grows_trans; [apply grows_eqo, Q3|].
      eapply grows_trans; [exact G3|apply fin_state_grows].
  - rewrite (final_send_fail _ _ _ Hstep). eapply grows_trans; [apply grows_eqo, Q3|apply fin_state_grows].
Qed.

(* TURN, the receiver's turn is known to succeed and to leave input for its next turn.  Then the
   sender's turn succeeds too and the same holds at the next boundary. *)
Lemma turn_R sx sy props sy1 sy2 :
  side_ok sx ->
  inbound_loop (S (length (s_in sy))) sy [] [] = ROk (false, props, sy1) ->
  receive_accepted sy1 props = RcOk sy2 -> s_in sy2 <> [] ->
  prefix (s_in sx) (tailw false sy) -> prefix (s_in sy) (tailw true sx) ->
  exists sx', handle_outbound sx = ROk (false, sx') /\
    prefix (s_in sx') (tailw true sy2) /\ prefix (s_in sy2) (tailw false sx').
Proof.
  intros Hok Ei Erc Hne I1 I2.
  assert (Hty : tailw false sy = skipn (length (wire sy)) (wire sy1) ++ tailw true sy2).
  { apply tailw_intro. rewrite (final_recv_ok _ _ _ _ Ei Erc), tailw_eq.
    pose proof (receive_accepted_silent props sy1) as Hs. rewrite Erc in Hs. destruct Hs as [Ho _].
    rewrite (wire_out _ _ Ho).
    pose proof (inbound_loop_grows (S (length (s_in sy))) sy [] []) as G. rewrite Ei in G. cbn [res_grows] in G.
    destruct (grows_wire _ _ G) as [d Hd]. rewrite Hd, skipn_app, skipn_all, Nat.sub_diag. cbn [skipn app].
    rewrite <- app_assoc. reflexivity. }
  pose proof (inbound_loop_ext) as Hext.
  destruct (outbound sx) as [props_x s0] eqn:Eo. destruct props_x as [|p ps].
  - (* the sender has nothing: FF or FQ *)
    destruct (outbound_block _ _ _ Eo) as (_&E0&O0&H0&N0).
    assert (Hho : handle_outbound sx = ROk (s_remote_nomsgs s0, wr s0 (if s_remote_nomsgs s0 then [70; 81; 13] else [70; 70; 13])))
      by (rewrite handle_outbound_eq, Eo; reflexivity).
    destruct (s_remote_nomsgs s0) eqn:Eq.
    + exfalso.
      assert (Ht : tailw true sx = [70; 81; 13] ++ []).
      { apply tailw_intro. rewrite (final_send_quit _ _ Hho), wire_wr, (wire_out _ _ O0), app_nil_r. reflexivity. }
      rewrite Ht in I2. destruct I2 as [i2 Hi].
      pose proof (inbound_fq (ext i2 sy) [] (S (length (s_in sy ++ i2)))) as Hfull.
      cbn [ext set_in s_in] in Hfull. specialize (Hfull (eq_sym Hi) ltac:(lia)).
      change (set_in sy (s_in sy ++ i2)) with (ext i2 sy) in Hfull.
      specialize (Hext i2 (S (length (s_in sy))) (S (length (s_in sy ++ i2))) sy [] []).
      unfold inlen in Hext. rewrite app_length in Hext. specialize (Hext ltac:(lia) ltac:(lia)).
      rewrite <- app_length in Hext. rewrite Hfull, Ei in Hext. destruct Hext as [Hx _]. discriminate.
    + exists (wr s0 [70; 70; 13]). split; [exact Hho|].
      assert (Ht : tailw true sx = [70; 70; 13] ++ tailw false (wr s0 [70; 70; 13])).
      { apply tailw_intro. rewrite (final_send_ok _ _ Hho), tailw_eq, wire_wr, (wire_out _ _ O0), <- app_assoc. reflexivity. }
      rewrite Ht in I2. destruct I2 as [i2 Hi].
      pose proof (inbound_ff (ext i2 sy) (tailw false (wr s0 [70; 70; 13])) (S (length (s_in sy ++ i2)))) as Hfull.
      cbn [ext set_in s_in] in Hfull. specialize (Hfull (eq_sym Hi) ltac:(lia)).
      change (set_in sy (s_in sy ++ i2)) with (ext i2 sy) in Hfull.
      specialize (Hext i2 (S (length (s_in sy))) (S (length (s_in sy ++ i2))) sy [] []).
      unfold inlen in Hext. rewrite app_length in Hext. specialize (Hext ltac:(lia) ltac:(lia)).
      rewrite <- app_length in Hext. rewrite Hfull, Ei in Hext. destruct Hext as [Hx _].
      assert (Hp : props = []) by congruence.
      assert (Hs : ext i2 sy1 = set_nomsgs (set_in (ext i2 sy) (tailw false (wr s0 [70; 70; 13]))) true) by congruence.
      clear Hx. subst props. cbn [receive_accepted] in Erc. assert (sy2 = sy1) by congruence. subst sy2. clear Erc.
      assert (Ho : s_out sy1 = s_out sy) by (apply (f_equal s_out) in Hs; cbn in Hs; exact Hs).
      split.
      * cbn [wr s_in]. rewrite E0. rewrite Hty in I1. unfold wire in I1 at 2. rewrite Ho in I1. fold (wire sy) in I1.
        rewrite skipn_all in I1. exact I1.
      * exists i2. apply (f_equal s_in) in Hs. cbn [ext set_in set_nomsgs s_in] in Hs. symmetry. exact Hs.
  - (* the sender proposes a block *)
    destruct (send_start _ _ _ _ Eo) as (Hbne&Hbin&E2&W2&Hh2&N2&Hstep). pose proof (send_grows _ _ _ _ Eo) as G2.
    cbv zeta in *.
    set (block := firstn (N.to_nat MaxBlockSize) (p :: ps)) in *. set (s2 := ho_propose block s0) in *.
    clearbody s2. clearbody block.
    assert (Hsyn : Forall prop_syn block).
    { apply Forall_forall. intros q Hq. apply (proj1 (Forall_forall _ _) Hok). apply Hbin, Hq. }
    destruct (grows_wire _ _ G2) as [T2 HT2].
    assert (Ht : tailw true sx = proposal_bytes block ++ T2).
    { apply tailw_intro. rewrite HT2, W2, <- app_assoc. reflexivity. }
    rewrite Ht in I2.
    destruct (recv_block sy block T2 Hbne Hsyn I2) as [(answers&sy1'&Hlen&Ei'&P1&W1&Hh1)|(s'&Ei'&_)];
      rewrite Ei in Ei'; [|discriminate].
    injection Ei' as -> <-.
    assert (Hane : answers <> []) by (intros ->; destruct block; [congruence|discriminate]).
    rewrite W1, skipn_app, skipn_all, Nat.sub_diag in Hty. cbn [skipn app] in Hty.
    rewrite Hty, <- E2 in I1.
    destruct (send_reply s2 answers (tailw true sy2) Hane I1) as [(s3&Er&P3&Q3)|(s'&Er&Q3)]; rewrite Er in Hstep.
    2:{ exfalso. rewrite (final_send_fail _ _ _ Hstep) in HT2. cbn [xerr fin_state] in HT2.
        rewrite <- (wire_eqo _ _ Q3) in HT2. rewrite <- (app_nil_r (wire s2)) in HT2 at 1.
        apply app_inv_head in HT2. subst T2. apply prefix_of_nil in P1.
        pose proof (receive_accepted_sfx _ _ _ Erc) as [x Hx]. rewrite P1 in Hx.
        apply Hne. destruct x; [destruct (s_in sy2); [reflexivity|discriminate]|discriminate]. }
    destruct (send_transfer block answers s3 Hlen Hsyn) as (s4&Etr&W4&I4&Hh4&N4).
    cbn [app] in Etr, Hstep. rewrite Etr in Hstep.
    destruct (tailw_send_F sy2) as [rF HF]. rewrite HF in P3.
    destruct (peek_cases (sent_of block answers) s4) as [[E4 Hp]|[(b&r&Eb&Hb&Hp)|(b&r&e&s'&Eb&Hb1&Hb2&Hp)]];
      rewrite Hp in Hstep.
    + exfalso. rewrite (final_send_fail _ _ _ Hstep) in HT2. cbn [xerr fin_state] in HT2.
      assert (Wf : wire (ev (mark_rej (sent_of block answers) s4) EvBlockEnd) = wire s4).
      { apply wire_out. cbn [ev s_out]. apply (proj1 (mark_rej_out _ _)). }
      rewrite Wf, W4, <- (wire_eqo _ _ Q3) in HT2. apply app_inv_head in HT2. subst T2.
      rewrite <- (app_nil_r (xfers block answers)) in P1.
      destruct (receive_genuine block answers sy1 [] sy2 Hlen Hsyn P1 Erc) as [P2 _].
      apply Hne, prefix_of_nil, P2.
    + set (sx' := ev (mark_sent (sent_of block answers) (mark_rej (sent_of block answers) s4)) EvBlockEnd) in *.
      exists sx'. split; [exact Hstep|].
      assert (Wx' : wire sx' = wire s4).
      { apply wire_out. unfold sx'. cbn [ev s_out].
        rewrite (proj1 (mark_sent_out _ _)), (proj1 (mark_rej_out _ _)). reflexivity. }
      rewrite (final_send_ok _ _ Hstep), tailw_eq, Wx', W4, <- (wire_eqo _ _ Q3), <- app_assoc in HT2.
      apply app_inv_head in HT2. subst T2.
      destruct (receive_genuine block answers sy1 (tailw false sx') sy2 Hlen Hsyn P1 Erc) as [P2 _].
      split; [|exact P2].
      unfold sx'. cbn [ev s_in]. rewrite mark_sent_in, mark_rej_in, I4, HF. exact P3.
    + exfalso. rewrite I4 in Eb. rewrite Eb in P3. destruct (prefix_cons_inv _ _ _ P3) as (y&Hy&_).
      injection Hy as Hy _. congruence.
Qed.

(* ================================================================================== *)
(* 7. No step changes the outbox                                                       *)
(* ================================================================================== *)
Lemma eqo_h a b : eqo a b -> s_h a = s_h b.
Proof. intros H. apply (f_equal s_h) in H. exact H. Qed.

Lemma write_compressed_h s p off :
  match write_compressed s p off with ROk s' => s_h s' = s_h s | RFail _ s' => s_h s' = s_h s | RPanic => True end.
Proof.
  unfold write_compressed. destruct ((off <? 0)%Z || (Z.of_nat (length (o_cdata p)) <? off)%Z); [reflexivity|].
  cbv zeta. destruct (Z.of_nat (length (o_cdata p)) <? 6)%Z; reflexivity.
Qed.

Lemma send_accepted_hob props : forall s ans sent,
  match send_accepted s props ans sent with ROk (s', _) => hob s' = hob s | _ => True end.
Proof.
  induction props as [|p ps IH]; intros s ans sent; cbn [send_accepted]; [reflexivity|].
  destruct ans as [|a r]; cbn zeta iota beta; [apply IH|].
  destruct a as [|[| |] off]; try apply IH.
  - pose proof (write_compressed_h s p off) as Hw.
    destruct (write_compressed s p off) as [s1|e s1|]; try exact I.
    specialize (IH s1 r ((o_mid p, false) :: sent)).
    destruct (send_accepted s1 ps r _) as [[s' l]|e s'|]; try exact I. unfold hob in *. rewrite IH, Hw. reflexivity.
  - specialize (IH (ev (mark_gone s (o_mid p)) (EvSetDeferred (o_mid p))) r sent).
    destruct (send_accepted _ ps r sent) as [[s' l]|e s'|]; try exact I. rewrite IH. reflexivity.
Qed.

Lemma handle_outbound_hob s q s' : handle_outbound s = ROk (q, s') -> hob s' = hob s.
Proof.
  destruct (outbound s) as [props s0] eqn:Eo. destruct props as [|p ps].
  - destruct (outbound_block _ _ _ Eo) as (_&_&_&H0&_). rewrite handle_outbound_eq, Eo. cbv zeta.
    intros H. injection H as _ <-. unfold hob. cbn [wr s_h]. rewrite H0. reflexivity.
  - destruct (send_start _ _ _ _ Eo) as (_&_&_&_&Hh2&_&Hstep). cbv zeta in *. rewrite Hstep.
    set (block := firstn (N.to_nat MaxBlockSize) (p :: ps)) in *. set (s2 := ho_propose block s0) in *.
    pose proof (read_reply_eqo (S (length (s_in s2))) s2) as Q3.
    destruct (read_reply (S (length (s_in s2))) s2) as [[reply s3]|e s3|]; try discriminate. cbn [res_eqo] in Q3.
    unfold ho_transfer. destruct (slice_from 3 reply) as [astr|]; [|discriminate].
    destruct (parse_answers _ astr _ []) as [ans|]; [|discriminate].
    pose proof (send_accepted_hob block s3 ans []) as Hs.
    destruct (send_accepted s3 block ans []) as [[s4 sr]|e4 s4|]; try discriminate.
    unfold ho_peek. cbv zeta. destruct (s_in (mark_rej (rev' sr) s4)) as [|b r]; [discriminate|].
    destruct (negb ((b =? 70) || (b =? 59))).
    + destruct (next_line true _) as [[l sx]|e' sx|]; discriminate.
    + intros H. injection H as _ <-. change (hob (mark_sent (rev' sr) (mark_rej (rev' sr) s4)) = hob s).
      rewrite (proj2 (mark_sent_out _ _)), (proj2 (mark_rej_out _ _)), Hs, <- Hh2. unfold hob. rewrite (eqo_h _ _ Q3). reflexivity.
Qed.

Lemma il_line_h s1 props lines line :
  match il_line s1 props lines line with IlDone (ROk (_, s')) => s_h s' = s_h s1 | _ => True end.
Proof.
  unfold il_line. destruct (prefixb str_PM line); [exact I|].
  destruct line as [|c0 rest0]; [exact I|].
  destruct (c0 =? 59); [exact I|].
  destruct ((length (c0 :: rest0) <? 2)%nat || negb (c0 =? 70)); [exact I|].
  destruct rest0 as [|c1 r]; [exact I|].
  destruct (in_list c1 [65; 66; 67; 68]).
  { destruct (parse_proposal s1 (c0 :: c1 :: r)) as [p|e s'|]; exact I. }
  destruct (c1 =? 70); [reflexivity|]. destruct (c1 =? 81); [reflexivity|].
  destruct (c1 =? 62); [|exact I].
  destruct (slice_from 2 (c0 :: c1 :: r)) as [ck|]; [|exact I]. cbv zeta.
  destruct (negb _); [exact I|].
  destruct props as [|p0 pr]; [reflexivity|].
  pose proof (answer_props_out (rev' (p0 :: pr)) (set_nomsgs s1 false) [] []) as [_ Ha].
  destruct (answer_props (set_nomsgs s1 false) (rev' (p0 :: pr)) [] []) as [s2 answered]. cbn [fst] in Ha.
  cbn [wr s_h]. rewrite Ha. reflexivity.
Qed.

Lemma inbound_loop_h : forall f s props lines a s', inbound_loop f s props lines = ROk (a, s') -> s_h s' = s_h s.
Proof.
  induction f as [|f IH]; intros s props lines a s' H; [discriminate|]. rewrite inbound_loop_eq in H.
  pose proof (next_line_eqo true s) as Hn.
  destruct (next_line true s) as [[line s1]|e s1|]; cbn [res_eqo] in Hn; try discriminate.
  pose proof (il_line_h s1 props lines line) as Hl.
  destruct (il_line s1 props lines line) as [p l|[[a2 s2]|e s2|]]; try discriminate.
  - apply IH in H. rewrite H. symmetry. apply eqo_h, Hn.
  - injection H as _ <-. rewrite Hl. symmetry. apply eqo_h, Hn.
Qed.

Lemma receive_accepted_h : forall props s s', receive_accepted s props = RcOk s' -> s_h s' = s_h s.
Proof.
  induction props as [|p r IH]; intros s s' H; cbn [receive_accepted] in H; [injection H as <-; reflexivity|].
  destruct (i_answer p); try (apply IH; exact H).
  pose proof (read_compressed_eqo s p) as Hq.
  destruct (read_compressed s p) as [[cdata s1]|e s1|]; try discriminate. cbn [res_eqo] in Hq.
  destruct (proposal_message cdata) as [mid data|e|]; try discriminate.
  destruct (mem_bytes mid (h_fail (s_h s1))); [discriminate|].
  apply IH in H. cbn [add_recv ev s_h] in H. rewrite H. symmetry. apply eqo_h, Hq.
Qed.

(* ================================================================================== *)
(* 8. The run of the pair                                                              *)
(* ================================================================================== *)
Definition wf_side (s : sess) : Prop :=
  forall p, In p (hob s) -> exists data, proposal_message (o_cdata p) = MOk (o_mid p) data.

Lemma run_mark_nonempty mid my s :
  In (EvSetSent mid false) (s_ev (snd (run my s))) -> ~ In (EvSetSent mid false) (s_ev s) -> s_in s <> [].
Proof.
  intros H Hn. destruct (turns_sent mid _ _ _ H Hn) as (i0&c&i2&E&_). rewrite E.
  destruct i0; discriminate.
Qed.

Lemma pair_run mid : forall n (ma : bool) sa sb,
  (inlen sa + inlen sb < n)%nat ->
  side_ok sa -> side_ok sb -> wf_side sa ->
  prefix (s_in sa) (tailw (negb ma) sb) -> prefix (s_in sb) (tailw ma sa) ->
  In (EvSetSent mid false) (s_ev (snd (run ma sa))) -> ~ In (EvSetSent mid false) (s_ev sa) ->
  exists p data, In p (hob sa) /\ o_mid p = mid /\ proposal_message (o_cdata p) = MOk mid data /\
    In (EvProcess mid data true) (s_ev (final (negb ma) sb)).
Proof.
  induction n as [|n IH]; intros ma sa sb Hn Oa Ob Wa I1 I2 Hm Hnm; [lia|].
  destruct ma; cbn [negb] in *.
  - (* A sends *)
    rewrite run_send in Hm.
    destruct (handle_outbound sa) as [[q sa']|e sa'|] eqn:Eh; cbn [snd] in Hm.
    2:{ exfalso. apply Hnm. eapply handle_outbound_fail_nm; eassumption. }
    2:{ contradiction. }
    pose proof (handle_outbound_hob _ _ _ Eh) as Hh. pose proof (handle_outbound_inlen _ _ _ Eh) as Hl.
    assert (Hq : q = false).
    { destruct q; [|reflexivity]. exfalso. apply Hnm. eapply handle_outbound_quit_nm; eassumption. }
    subst q.
    destruct (in_dec event_eq_dec (EvSetSent mid false) (s_ev sa')) as [Hin|Hin].
    + (* marked in this turn *)
      destruct (handle_outbound_ok_cr _ _ _ _ Eh Hin Hnm) as (p0&c&k'&_&E'&_).
      destruct (turn_S sa sb sa' Oa Eh ltac:(rewrite E'; discriminate) I1 I2) as (props&sb1&sb2&Ei&Erc&_&_&Hmk).
      destruct (Hmk _ Hin) as [Hx|(p&Hp&Hmid&Hev)]; [contradiction|].
      destruct (Wa p Hp) as [data Hd]. rewrite Hmid in Hd. exists p, data.
      split; [exact Hp|]. split; [exact Hmid|]. split; [exact Hd|].
      rewrite (final_recv_ok _ _ _ _ Ei Erc). destruct (final_ev true sb2) as [x Hx]. rewrite Hx.
      apply in_or_app. right. apply Hev, Hd.
    + (* marked later *)
      pose proof (run_mark_nonempty _ _ _ Hm Hin) as Hne.
      destruct (turn_S sa sb sa' Oa Eh Hne I1 I2) as (props&sb1&sb2&Ei&Erc&J1&J2&_).
      pose proof (TermP.inbound_loop_ok _ _ _ _ _ _ _ Ei) as L1. pose proof (receive_accepted_inlen props sb1) as L2.
      rewrite Erc in L2.
      rewrite (final_recv_ok _ _ _ _ Ei Erc). rewrite <- Hh.
      apply (IH false sa' sb2); try assumption.
      * lia.
      * unfold side_ok. rewrite Hh. exact Oa.
      * unfold side_ok, hob. rewrite (receive_accepted_h _ _ _ Erc), (inbound_loop_h _ _ _ _ _ _ Ei). exact Ob.
      * unfold wf_side. rewrite Hh. exact Wa.
  - (* A receives *)
    rewrite run_recv in Hm.
    pose proof (inbound_loop_nm (S (length (s_in sa))) sa [] []) as NA.
    destruct (inbound_loop (S (length (s_in sa))) sa [] []) as [[[q props] sa1]|e sa1|] eqn:Ei; cbn [res_nm] in NA.
    2:{ exfalso. apply Hnm, NA, Hm. }
    2:{ contradiction. }
    pose proof (receive_accepted_nm props sa1) as NB.
    destruct (receive_accepted sa1 props) as [sa2|e sa2| |] eqn:Erc; cbn [snd] in Hm.
    2:{ exfalso. apply Hnm, NA, NB, Hm. }
    2:{ exfalso. apply Hnm, NA, Hm. }
    2:{ exfalso. apply Hnm, NA, Hm. }
    assert (Hnm2 : ~ In (EvSetSent mid false) (s_ev sa2)) by (intros X; apply Hnm, NA, NB, X).
    destruct q; [contradiction|].
    pose proof (run_mark_nonempty _ _ _ Hm Hnm2) as Hne.
    destruct (turn_R sb sa props sa1 sa2 Ob Ei Erc Hne I2 I1) as (sb'&Eh&J1&J2).
    pose proof (TermP.inbound_loop_ok _ _ _ _ _ _ _ Ei) as L1. pose proof (receive_accepted_inlen props sa1) as L2.
    rewrite Erc in L2. pose proof (handle_outbound_inlen _ _ _ Eh) as L3.
    rewrite (final_send_ok _ _ Eh).
    replace (hob sa) with (hob sa2)
      by (unfold hob; rewrite (receive_accepted_h _ _ _ Erc), (inbound_loop_h _ _ _ _ _ _ Ei); reflexivity).
    apply (IH true sa2 sb'); try assumption.
    + lia.
    + unfold side_ok, hob. rewrite (receive_accepted_h _ _ _ Erc), (inbound_loop_h _ _ _ _ _ _ Ei). exact Oa.
    + unfold side_ok. rewrite (handle_outbound_hob _ _ _ Eh). exact Ob.
    + unfold wf_side, hob. rewrite (receive_accepted_h _ _ _ Erc), (inbound_loop_h _ _ _ _ _ _ Ei). exact Wa.
Qed.

(* ================================================================================== *)
(* 9. Exchange in terms of `final`; the handshake                                      *)
(* ================================================================================== *)
Lemma init_state_ext cfg i j : init_state cfg (i ++ j) = ext j (init_state cfg i).
Proof. unfold init_state. destruct (h_present (c_handler cfg)); reflexivity. Qed.
Lemma init_state_facts cfg i :
  s_in (init_state cfg i) = i /\ s_out (init_state cfg i) = [] /\ s_h (init_state cfg i) = c_handler cfg /\
  s_master (init_state cfg i) = c_master cfg /\ (forall m, ~ In (EvSetSent m false) (s_ev (init_state cfg i))).
Proof.
  unfold init_state. destruct (h_present (c_handler cfg)); repeat split; try reflexivity;
    intros m H; cbn in H; intuition discriminate.
Qed.

Lemma finish_wire n r s : x_wire (finish n r s) = wire (fin_state r s).
Proof. unfold finish, wire. cbn [x_wire]. rewrite rev'_rev. destruct r; reflexivity. Qed.
Lemma finish_events' n r s : x_events (finish n r s) = rev (s_ev (fin_state r s)).
Proof. rewrite finish_events. destruct r; reflexivity. Qed.

Lemma exchange_ok cfg input s2 :
  h_present (c_handler cfg) && h_prepare_err (c_handler cfg) = false ->
  handshake (init_state cfg input) = ROk s2 ->
  x_wire (exchange cfg input) = wire (final (negb (c_master cfg)) s2) /\
  x_events (exchange cfg input) = rev (s_ev (final (negb (c_master cfg)) s2)).
Proof.
  intros Hp Hh. unfold exchange. cbv zeta. fold (init_state cfg input). rewrite Hp, Hh.
  pose proof (handshake_inlen (init_state cfg input)) as Hl. rewrite Hh in Hl.
  unfold inlen in Hl at 2. rewrite (proj1 (init_state_facts cfg input)) in Hl.
  rewrite (turns_run _ (negb (c_master cfg)) s2) by (destruct (negb (c_master cfg)); lia).
  unfold final. destruct (run (negb (c_master cfg)) s2) as [r s3]. cbn [fst snd].
  split; [apply finish_wire|apply finish_events'].
Qed.

Lemma exchange_fail cfg input e s2 :
  h_present (c_handler cfg) && h_prepare_err (c_handler cfg) = false ->
  handshake (init_state cfg input) = RFail e s2 ->
  x_wire (exchange cfg input) = wire (fin_state (xerr e) s2) /\
  x_events (exchange cfg input) = rev (s_ev (fin_state (xerr e) s2)).
Proof.
  intros Hp Hh. unfold exchange. cbv zeta. fold (init_state cfg input). rewrite Hp, Hh.
  split; [apply finish_wire|apply finish_events'].
Qed.

Lemma hs_forward i2 s s1 : handshake s = ROk s1 -> handshake (ext i2 s) = ROk (ext i2 s1).
Proof.
  intros H. pose proof (handshake_extx i2 s) as R. rewrite H in R. cbn [lift1 relx] in R. destruct R as [R _].
  destruct (handshake (ext i2 s)) as [s2|e s2|]; cbn [lift1] in R; try discriminate. injection R as ->. reflexivity.
Qed.

Lemma hs_back i2 s s2 : handshake (ext i2 s) = ROk s2 ->
  (exists s1, handshake s = ROk s1 /\ s2 = ext i2 s1) \/ (exists s1, handshake s = RFail EConnLost s1 /\ lost s1 s2).
Proof.
  intros H. pose proof (handshake_extx i2 s) as R. rewrite H in R. cbn [lift1] in R.
  destruct (handshake s) as [s1|[|] s1|]; cbn [lift1 relx] in R.
  - destruct R as [R _]. injection R as ->. left. eauto.
  - right. exists s1. split; [reflexivity|exact R].
  - destruct R as (sx&R&_). discriminate.
  - discriminate.
Qed.

Lemma handshake_h s s' : handshake s = ROk s' -> s_h s' = s_h s.
Proof.
  unfold handshake, do_send_handshake. cbv zeta. destruct (s_master s).
  - assert (K : forall l s0, s_h (fold_left (fun acc (x : bytes) => wr acc (x ++ [13])) l s0) = s_h s0).
    { induction l as [|x l IH]; intros s0; cbn [fold_left]; [reflexivity|]. rewrite IH. reflexivity. }
    set (s1 := fold_left (fun acc l => wr acc (l ++ [13])) (s_motd s) s).
    destruct (send_handshake (s_cfg s1) []) as [b|]; [|discriminate].
    match goal with |- context [read_handshake ?f ?s2 ?d] =>
      pose proof (read_handshake_eqo f s2 d) as Hr; destruct (read_handshake f s2 d) as [[d1 s3]|e s3|] end;
      cbn [res_eqo] in Hr; try discriminate.
    destruct (hd_have_sid d1 && negb (beq_bytes (hd_sid d1) [])); [|discriminate].
    intros H. injection H as <-. rewrite <- (eqo_h _ _ Hr). cbn [wr s_h]. apply K.
  - match goal with |- context [read_handshake ?f ?s2 ?d] =>
      pose proof (read_handshake_eqo f s2 d) as Hr; destruct (read_handshake f s2 d) as [[d1 s3]|e s3|] end;
      cbn [res_eqo] in Hr; try discriminate.
    destruct (hd_have_sid d1 && negb (beq_bytes (hd_sid d1) [])); [|discriminate].
    destruct (send_handshake (s_cfg s3) (hd_challenge d1)); [|discriminate].
    intros H. injection H as <-. cbn [wr s_h]. symmetry. apply eqo_h, Hr.
Qed.

(* what the master writes in its handshake does not depend on what it receives *)
Lemma handshake_master_out s i s1 :
  s_master s = true -> handshake s = ROk s1 ->
  match handshake (set_in s i) with
  | ROk s2 => s_out s2 = s_out s1 | RFail _ s2 => s_out s2 = s_out s1 | RPanic => True end.
Proof.
  intros Hm. unfold handshake, do_send_handshake. cbv zeta.
  change (s_master (set_in s i)) with (s_master s). change (s_motd (set_in s i)) with (s_motd s). rewrite Hm.
  set (g := fun (acc : sess) (l : list N) => wr acc (l ++ [13])).
  assert (K : forall l s0, fold_left g l (set_in s0 i) = set_in (fold_left g l s0) i).
  { induction l as [|x l IH]; intros s0; cbn [fold_left]; [reflexivity|]. apply (IH (g s0 x)). }
  rewrite K. set (s1' := fold_left g (s_motd s) s).
  change (s_cfg (set_in s1' i)) with (s_cfg s1').
  destruct (send_handshake (s_cfg s1') []) as [b|]; [|discriminate].
  pose proof (read_handshake_eqo (S (length (s_in s))) (wr s1' b) {| hd_sid := []; hd_have_sid := false; hd_challenge := [] |}) as Hr.
  destruct (read_handshake (S (length (s_in s))) (wr s1' b) _) as [[d1 s3]|e s3|]; cbn [res_eqo] in Hr; try discriminate.
  destruct (hd_have_sid d1 && negb (beq_bytes (hd_sid d1) [])); [|discriminate].
  intros H. injection H as <-.
  pose proof (read_handshake_eqo (S (length (s_in (set_in s i)))) (wr (set_in s1' i) b)
                {| hd_sid := []; hd_have_sid := false; hd_challenge := [] |}) as Hr2.
  assert (E : s_out s3 = b :: s_out s1') by (rewrite <- (eqo_out _ _ Hr); reflexivity).
  destruct (read_handshake _ (wr (set_in s1' i) b) _) as [[d2 s4]|e s4|]; cbn [res_eqo] in Hr2; [| |exact I].
  - destruct (hd_have_sid d2 && negb (beq_bytes (hd_sid d2) [])); rewrite <- (eqo_out _ _ Hr2), E; reflexivity.
  - rewrite <- (eqo_out _ _ Hr2), E. reflexivity.
Qed.

(* a slave whose handshake fails has written nothing *)
Lemma handshake_slave_fail_out s e s' : s_master s = false -> handshake s = RFail e s' -> s_out s' = s_out s.
Proof.
  intros Hm. unfold handshake, do_send_handshake. cbv zeta. rewrite Hm.
  match goal with |- context [read_handshake ?f ?s2 ?d] =>
    pose proof (read_handshake_eqo f s2 d) as Hr; destruct (read_handshake f s2 d) as [[d1 s3]|e3 s3|] end;
    cbn [res_eqo] in Hr; try discriminate.
  - destruct (hd_have_sid d1 && negb (beq_bytes (hd_sid d1) [])).
    + destruct (send_handshake (s_cfg s3) (hd_challenge d1)); [discriminate|].
      intros H. injection H as _ <-. symmetry. apply eqo_out, Hr.
    + intros H. injection H as _ <-. symmetry. apply eqo_out, Hr.
  - intros H. injection H as _ <-. symmetry. apply eqo_out, Hr.
Qed.

Lemma firstn_prefix {A} n (l : list A) : prefix (firstn n l) l.
Proof. exists (skipn n l). symmetry. apply firstn_skipn. Qed.

Lemma fin_state_ev r s : s_ev (fin_state r s) = s_ev s.
Proof. destruct r; reflexivity. Qed.

Lemma init_state_set_in cfg i j : set_in (init_state cfg i) j = init_state cfg j.
Proof. unfold init_state. destruct (h_present (c_handler cfg)); reflexivity. Qed.

(* a session that reports a message sent has completed its handshake, and the mark was made in
   the turn loop *)
Lemma exchange_marks cfg i mid :
  In (EvSetSent mid false) (x_events (exchange cfg i)) ->
  h_present (c_handler cfg) && h_prepare_err (c_handler cfg) = false /\
  exists s2, handshake (init_state cfg i) = ROk s2 /\
    In (EvSetSent mid false) (s_ev (snd (run (negb (c_master cfg)) s2))) /\ ~ In (EvSetSent mid false) (s_ev s2).
Proof.
  intros H. destruct (init_state_facts cfg i) as (_&_&_&_&Hn0).
  destruct (h_present (c_handler cfg) && h_prepare_err (c_handler cfg)) eqn:Hp.
  { exfalso. unfold exchange in H. cbv zeta in H. fold (init_state cfg i) in H. rewrite Hp in H.
    rewrite finish_events, <- in_rev in H. eapply Hn0, H. }
  split; [reflexivity|].
  pose proof (handshake_nm (init_state cfg i)) as Nh.
  destruct (handshake (init_state cfg i)) as [s2|e s2|] eqn:Eh; cbn [lift1 res_nm] in Nh.
  - exists s2. split; [reflexivity|]. destruct (exchange_ok _ _ _ Hp Eh) as [_ He]. rewrite He, <- in_rev in H.
    unfold final in H. rewrite fin_state_ev in H. split; [exact H|]. intros X. eapply Hn0, Nh, X.
  - exfalso. destruct (exchange_fail _ _ _ _ Hp Eh) as [_ He]. rewrite He, <- in_rev, fin_state_ev in H.
    eapply Hn0, Nh, H.
  - exfalso. unfold exchange in H. cbv zeta in H. fold (init_state cfg i) in H. rewrite Hp, Eh in H.
    rewrite finish_events, <- in_rev in H. eapply Hn0, H.
Qed.

Lemma hs_sfx s s' : handshake s = ROk s' -> sfx (s_in s') (s_in s).
Proof. intros H. pose proof (handshake_extx [] s) as R. rewrite H in R. apply R. Qed.

(* a side that receives (an initial part of) the error report instead of a greeting does not
   complete its handshake *)
Lemma prefix_echo_cases x : prefix x echo ->
  x = [] \/ x = [42] \/ x = [42;42] \/ x = [42;42;42] \/ x = [42;42;42;32] \/ x = [42;42;42;32;95] \/
  x = [42;42;42;32;95;13] \/ x = [42;42;42;32;95;13;10].
Proof.
  intros [y H]. unfold echo in H.
  repeat (destruct x as [|? x]; [tauto|]; cbn [app] in H; injection H as <- H).
  destruct x; [tauto|discriminate].
Qed.

Lemma rh_echo_line f s d d' s' rest :
  s_in s = [42;42;42;32;95] ++ 13 :: rest -> (rest = [] \/ rest = [10]) ->
  read_handshake f s d <> ROk (d', s').
Proof.
  intros E Hr. destruct f as [|f]; [discriminate|]. cbn [read_handshake]. rewrite E. cbn [app N.eqb Pos.eqb andb].
  unfold next_line. rewrite E, (read_until_notin 13 [42;42;42;32;95] rest) by (cbn; intuition discriminate).
  cbv zeta. replace (clean_string [42;42;42;32;95]) with [42;42;42;32;95] by (vm_compute; reflexivity).
  cbn [andb].
  replace (prefixb [91] [42;42;42;32;95] && suffixb [93] [42;42;42;32;95]) with false by reflexivity.
  replace (prefixb str_FWp [42;42;42;32;95]) with false by reflexivity.
  replace (prefixb str_PQ [42;42;42;32;95]) with false by reflexivity.
  replace (suffixb [62] [42;42;42;32;95]) with false by reflexivity.
  destruct f as [|f]; [discriminate|]. cbn [read_handshake set_in s_in].
  destruct Hr as [-> | ->]; [discriminate|]. cbn [N.eqb Pos.eqb andb]. unfold next_line. cbn [set_in s_in].
  replace (read_until 13 [10]) with (@None (bytes * bytes)) by reflexivity. discriminate.
Qed.

Lemma rh_echo x : prefix x echo -> forall f s d d' s', s_in s = x -> read_handshake f s d <> ROk (d', s').
Proof.
  intros Hp f s d d' s' E. apply prefix_echo_cases in Hp.
  destruct Hp as [->|Hp].
  { destruct f as [|f]; [discriminate|]. cbn [read_handshake]. rewrite E. discriminate. }
  assert (K : forall r, x = 42 :: r -> read_until 13 (42 :: r) = None -> read_handshake f s d <> ROk (d', s')).
  { intros r -> Hn. destruct f as [|f]; [discriminate|]. cbn [read_handshake]. rewrite E. cbn [N.eqb Pos.eqb andb].
    unfold next_line. rewrite E, Hn. discriminate. }
  destruct Hp as [Hp|[Hp|[Hp|[Hp|[Hp|[Hp|Hp]]]]]]; try (eapply K; [exact Hp|reflexivity]).
  - subst x. eapply rh_echo_line; [exact E|left; reflexivity].
  - subst x. eapply rh_echo_line; [exact E|right; reflexivity].
Qed.

Lemma handshake_echo s s' : prefix (s_in s) echo -> handshake s <> ROk s'.
Proof.
  intros Hp. unfold handshake, do_send_handshake. cbv zeta. destruct (s_master s).
  - pose proof (fold_wr_in (fun l => l ++ [13]) (s_motd s) s) as Ein. cbv beta in Ein.
    set (s1 := fold_left (fun acc l => wr acc (l ++ [13])) (s_motd s) s) in *.
    destruct (send_handshake (s_cfg s1) []) as [b|]; [|discriminate].
    pose proof (rh_echo _ Hp (S (length (s_in s))) (wr s1 b) {| hd_sid := []; hd_have_sid := false; hd_challenge := [] |}) as Hr.
    destruct (read_handshake _ (wr s1 b) _) as [[d1 s3]|e s3|]; try discriminate.
    exfalso. eapply Hr; [exact Ein|reflexivity].
  - pose proof (rh_echo _ Hp (S (length (s_in s))) s {| hd_sid := []; hd_have_sid := false; hd_challenge := [] |}) as Hr.
    destruct (read_handshake _ s _) as [[d1 s3]|e s3|]; try discriminate.
    exfalso. eapply Hr; reflexivity.
Qed.

(* ================================================================================== *)
(* 10. TWO-PARTY SAFETY                                                                *)
(* ================================================================================== *)
Theorem two_party_safety_intact (a b : side_cfg) (in_a : bytes) (k : nat) (mid : bytes) :
  c_master a = negb (c_master b) ->
  hs_compat (if c_master a then a else b) (if c_master a then b else a) ->
  Forall prop_syn (h_outbox (c_handler a)) -> Forall prop_syn (h_outbox (c_handler b)) ->
  outbox_wf (c_handler a) ->
  let oa := exchange a in_a in
  In (EvSetSent mid false) (x_events oa) ->
  in_a = firstn (length in_a) (x_wire (exchange b (firstn k (x_wire oa)))) ->
  exists p data, In p (h_outbox (c_handler a)) /\ o_mid p = mid /\ proposal_message (o_cdata p) = MOk mid data /\
    In (EvProcess mid data true) (x_events (exchange b (firstn k (x_wire oa)))).
Proof.
  intros Hrole Hhs Sa Sb Wf oa Hmark Hin.
  destruct (exchange_marks _ _ _ Hmark) as (Pa&sa0&Ha&Hm&Hnm).
  pose proof (run_mark_nonempty _ _ _ Hm Hnm) as Hne.
  destruct (exchange_ok _ _ _ Pa Ha) as [WA _]. fold oa in WA.
  set (P := firstn k (x_wire oa)) in *.
  assert (HP : prefix P (x_wire oa)) by apply firstn_prefix.
  assert (HI : prefix in_a (x_wire (exchange b P))) by (rewrite Hin at 1; apply firstn_prefix).
  clear Hin. rewrite WA in HP.
  destruct (h_present (c_handler b) && h_prepare_err (c_handler b)) eqn:Pb.
  { (* B's handler failed to prepare: B has sent the error report only *)
    exfalso. assert (W : x_wire (exchange b P) = echo).
    { unfold exchange. cbv zeta. rewrite Pb, finish_wire. cbn [fin_state]. rewrite wire_wr.
      destruct (h_present (c_handler b)); reflexivity. }
    rewrite W in HI. eapply handshake_echo; [|exact Ha]. rewrite (proj1 (init_state_facts a in_a)). exact HI. }
  destruct (init_state_facts a in_a) as (_&_&Hha&Hma&_).
  assert (Oa : side_ok sa0).
  { unfold side_ok, hob. rewrite (handshake_h _ _ Ha), Hha. exact Sa. }
  assert (Wa : wf_side sa0).
  { unfold wf_side, hob. rewrite (handshake_h _ _ Ha), Hha. exact Wf. }
  assert (Fin : forall sb0 (mb : bool), handshake (init_state b P) = ROk sb0 -> mb = negb (c_master b) ->
            side_ok sb0 /\ x_wire (exchange b P) = wire sb0 ++ tailw mb sb0 /\
            (forall data, In (EvProcess mid data true) (s_ev (final mb sb0)) ->
                          In (EvProcess mid data true) (x_events (exchange b P)))).
  { intros sb0 mb Hb ->. destruct (exchange_ok _ _ _ Pb Hb) as [W E]. split; [|split].
    - unfold side_ok, hob. rewrite (handshake_h _ _ Hb), (proj1 (proj2 (proj2 (init_state_facts b P)))). exact Sb.
    - rewrite W. apply tailw_eq.
    - intros data Hd. rewrite E, <- in_rev. exact Hd. }
  assert (Hob : hob sa0 = h_outbox (c_handler a)) by (unfold hob; rewrite (handshake_h _ _ Ha), Hha; reflexivity).
  assert (Fin2 : forall sb0 (mb : bool),
            (forall data, In (EvProcess mid data true) (s_ev (final mb sb0)) ->
                          In (EvProcess mid data true) (x_events (exchange b P))) ->
            (exists p data, In p (hob sa0) /\ o_mid p = mid /\ proposal_message (o_cdata p) = MOk mid data /\
                            In (EvProcess mid data true) (s_ev (final mb sb0))) ->
            exists p data, In p (h_outbox (c_handler a)) /\ o_mid p = mid /\
              proposal_message (o_cdata p) = MOk mid data /\ In (EvProcess mid data true) (x_events (exchange b P))).
  { intros sb0 mb Hf (p&data&H1&H2&H3&H4). exists p, data. rewrite <- Hob. auto. }
  destruct (c_master a) eqn:Ma; cbn [negb] in *.
  - (* A is the master *)
    assert (Mb : c_master b = false) by (destruct (c_master b); [discriminate|reflexivity]).
    destruct Hhs as (M&S&sm&ss&Hm1&Hm2&Hm3&Hs1&Hs2&Hs3).
    (* what A wrote in its handshake *)
    assert (Wsa : wire sa0 = M).
    { pose proof (handshake_master_out (init_state a (S ++ [70])) in_a sm
                    (eq_trans (proj1 (proj2 (proj2 (proj2 (init_state_facts a (S ++ [70])))))) Ma) Hm1) as Ho.
      rewrite init_state_set_in, Ha in Ho. rewrite <- Hm3. apply wire_out, Ho. }
    rewrite tailw_eq, Wsa in HP.
    (* B reads it *)
    assert (Hj : exists j, P = M ++ j).
    { destruct (prefix_comparable P M _ HP (prefix_app_l M _)) as [[j Hj]|Hj]; [|exact Hj].
      rewrite Hj, init_state_ext in Hs1. destruct (hs_back _ _ _ Hs1) as [(s1&_&E)|(s1&Hb&_)].
      - apply (f_equal s_in) in E. cbn [ext set_in s_in] in E. rewrite Hs2 in E. symmetry in E.
        apply app_eq_nil in E. destruct E as [_ ->]. exists []. rewrite Hj, !app_nil_r. reflexivity.
      - exfalso. destruct (exchange_fail _ _ _ _ Pb Hb) as [W _]. cbn [xerr fin_state] in W.
        pose proof (handshake_slave_fail_out _ _ _
                      (eq_trans (proj1 (proj2 (proj2 (proj2 (init_state_facts b P))))) Mb) Hb) as Ho.
        rewrite (proj1 (proj2 (init_state_facts b P))) in Ho. unfold wire in W. rewrite Ho in W. cbn in W.
        rewrite W in HI. apply prefix_of_nil in HI. subst in_a.
        destruct (hs_sfx _ _ Ha) as [x Hx]. rewrite (proj1 (init_state_facts a [])) in Hx.
        symmetry in Hx. apply app_eq_nil in Hx. apply Hne, Hx. }
    destruct Hj as [j Hj].
    assert (Hb : handshake (init_state b P) = ROk (ext j ss)) by (rewrite Hj, init_state_ext; apply hs_forward, Hs1).
    destruct (Fin _ true Hb ltac:(rewrite Mb; reflexivity)) as (Ob&WB&Hfin).
    change (wire (ext j ss)) with (wire ss) in WB. rewrite Hs3 in WB.
    destruct (tailw_send_F (ext j ss)) as [rF HF].
    (* A has read exactly S *)
    assert (Hcons : in_a = S ++ s_in sa0).
    { rewrite WB, HF in HI.
      destruct (prefix_comparable in_a (S ++ [70]) _ HI) as [[j' Hj']|[j' Hj']].
      { exists rF. rewrite <- app_assoc. reflexivity. }
      - rewrite Hj', init_state_ext in Hm1. destruct (hs_back _ _ _ Hm1) as [(s1&E1&E)|(s1&E1&_)]; rewrite Ha in E1; [|discriminate].
        injection E1 as <-. apply (f_equal s_in) in E. cbn [ext set_in s_in] in E. rewrite Hm2 in E.
        apply (app_inv_tail j'). rewrite <- Hj', <- app_assoc, <- E. reflexivity.
      - rewrite Hj', init_state_ext, (hs_forward _ _ _ Hm1) in Ha. injection Ha as <-.
        cbn [ext set_in s_in]. rewrite Hm2, Hj', <- app_assoc. reflexivity. }
    apply (Fin2 _ _ Hfin).
    apply (pair_run mid (Datatypes.S (inlen sa0 + inlen (ext j ss))%nat) false sa0 (ext j ss)); try assumption; cbn [negb].
    + lia.
    + rewrite WB, Hcons in HI. apply prefix_app_inv in HI. exact HI.
    + cbn [ext set_in s_in]. rewrite Hs2. cbn [app]. rewrite Hj in HP. apply prefix_app_inv in HP. exact HP.
  - (* A is the slave *)
    assert (Mb : c_master b = true) by (destruct (c_master b); [reflexivity|discriminate]).
    destruct Hhs as (M&S&sm&ss&Hm1&Hm2&Hm3&Hs1&Hs2&Hs3).
    (* whatever B does, it has written M first *)
    assert (HX : exists X, x_wire (exchange b P) = M ++ X).
    { pose proof (handshake_master_out (init_state b (S ++ [70])) P sm
                    (eq_trans (proj1 (proj2 (proj2 (proj2 (init_state_facts b (S ++ [70])))))) Mb) Hm1) as Ho.
      rewrite init_state_set_in in Ho. pose proof (handshake_nopanic (init_state b P)) as Np.
      destruct (handshake (init_state b P)) as [sb0|e sB|] eqn:Hb; [| |congruence].
      - destruct (Fin _ false eq_refl ltac:(rewrite Mb; reflexivity)) as (_&W&_). eexists. rewrite W, <- Hm3, (wire_out _ _ Ho). reflexivity.
      - destruct (exchange_fail _ _ _ _ Pb Hb) as [W _]. destruct (grows_wire _ _ (fin_state_grows (xerr e) sB)) as [d Hd].
        exists d. rewrite W, Hd, <- Hm3, (wire_out _ _ Ho). reflexivity. }
    destruct HX as [X HX].
    (* A reads it *)
    assert (Hj : exists j, in_a = M ++ j).
    { rewrite HX in HI. destruct (prefix_comparable in_a M _ HI (prefix_app_l M _)) as [[j Hj]|Hj]; [|exact Hj].
      rewrite Hj, init_state_ext in Hs1. destruct (hs_back _ _ _ Hs1) as [(s1&E1&E)|(s1&E1&_)]; rewrite Ha in E1; [|discriminate].
      apply (f_equal s_in) in E. cbn [ext set_in s_in] in E. rewrite Hs2 in E. symmetry in E.
      apply app_eq_nil in E. destruct E as [_ ->]. exists []. rewrite Hj, !app_nil_r. reflexivity. }
    destruct Hj as [j Hj].
    assert (Esa : sa0 = ext j ss).
    { rewrite Hj, init_state_ext, (hs_forward _ _ _ Hs1) in Ha. injection Ha as <-. reflexivity. }
    assert (Ej : s_in sa0 = j) by (rewrite Esa; cbn [ext set_in s_in]; rewrite Hs2; reflexivity).
    assert (Wsa : wire sa0 = S) by (rewrite Esa; exact Hs3).
    rewrite tailw_eq, Wsa in HP. destruct (tailw_send_F sa0) as [rF HF].
    (* B reads A's greeting *)
    assert (Hb : exists sb0, handshake (init_state b P) = ROk sb0 /\ P = S ++ s_in sb0 /\ wire sb0 = M).
    { rewrite HF in HP.
      destruct (prefix_comparable P (S ++ [70]) _ HP) as [[j2 Hj2]|[j2 Hj2]].
      { exists rF. rewrite <- app_assoc. reflexivity. }
      - rewrite Hj2, init_state_ext in Hm1. destruct (hs_back _ _ _ Hm1) as [(s1&E1&E)|(s1&E1&L)].
        + exists s1. split; [exact E1|]. split.
          * apply (f_equal s_in) in E. cbn [ext set_in s_in] in E. rewrite Hm2 in E.
            apply (app_inv_tail j2). rewrite <- Hj2, <- app_assoc, <- E. reflexivity.
          * rewrite <- Hm3, E. reflexivity.
        + exfalso. destruct (exchange_fail _ _ _ _ Pb E1) as [W _]. cbn [xerr fin_state] in W.
          destruct L as (L&_). destruct (pre_wire _ _ L) as [d Hd]. rewrite Hm3 in Hd.
          rewrite W, Hj, Hd in HI. apply prefix_length in HI. rewrite !app_length in HI.
          apply Hne. rewrite Ej. destruct j; [reflexivity|cbn [length] in HI; lia].
      - exists (ext j2 sm). split; [rewrite Hj2, init_state_ext; apply hs_forward, Hm1|].
        split; [cbn [ext set_in s_in]; rewrite Hm2, Hj2, <- app_assoc; reflexivity|exact Hm3]. }
    destruct Hb as (sb0&Hb&HPb&Wsb).
    destruct (Fin _ false Hb ltac:(rewrite Mb; reflexivity)) as (Ob&WB&Hfin).
    apply (Fin2 _ _ Hfin).
    apply (pair_run mid (Datatypes.S (inlen sa0 + inlen sb0)%nat) true sa0 sb0); try assumption; cbn [negb].
    + lia.
    + rewrite WB, Wsb, Hj in HI. apply prefix_app_inv in HI. rewrite Ej. exact HI.
    + rewrite HPb in HP. apply prefix_app_inv in HP. exact HP.
Qed.

(* in the shape of the property: the receiver has stored a message with that MID *)
Theorem two_party_safety (a b : side_cfg) (in_a : bytes) (k : nat) (mid : bytes) :
  c_master a = negb (c_master b) ->
  hs_compat (if c_master a then a else b) (if c_master a then b else a) ->
  Forall prop_syn (h_outbox (c_handler a)) -> Forall prop_syn (h_outbox (c_handler b)) ->
  outbox_wf (c_handler a) ->
  let oa := exchange a in_a in
  In (EvSetSent mid false) (x_events oa) ->
  in_a = firstn (length in_a) (x_wire (exchange b (firstn k (x_wire oa)))) ->
  exists data, In (EvProcess mid data true) (x_events (exchange b (firstn k (x_wire oa)))).
Proof.
  intros H1 H2 H3 H4 H5 oa H6 H7.
  destruct (two_party_safety_intact a b in_a k mid H1 H2 H3 H4 H5 H6 H7) as (p&data&_&_&_&H). exists data. exact H.
Qed.

(* ================================================================================== *)
(* 10b. CutP.two_party_safety_corrected AS STATED IS FALSE: two counterexamples        *)
(* ================================================================================== *)
(* (1) A forged greeting.  The master B has the MOTD lines "[x-1-B2F$]", "hi>", "FS +".  The
   slave A takes the first for the SID, the second for the prompt that ends the handshake,
   proposes its message ABC, reads the third MOTD line as B's answer "accept", transfers the
   message, peeks at the ';' of B's genuine ";FW:" line and reports ABC sent -- all of this from
   bytes B writes BEFORE it reads anything.  Cut the link in A's direction at 0 bytes (k = 0):
   B has received nothing.  Roles are opposite, A's outbox is well formed, B's is empty. *)
Definition cx_motd_side : side_cfg :=
  let c := cx_side true [] [] [] in
  {| c_master := true; c_motd := [[91;120;45;49;45;66;50;70;36;93]; [104;105;62]; [70;83;32;43]];
     c_hs := c_hs c; c_handler := c_handler c |}.

Example two_party_safety_corrected_is_false_motd : ~ two_party_safety_corrected.
Proof.
  intros H.
  pose (a := cx_side false [cx_prop] [] []). pose (b := cx_motd_side).
  specialize (H a b (x_wire (exchange b [])) 0%nat [65;66;67] eq_refl).
  assert (W : outbox_wf (c_handler a)) by (intros p [<-|[]]; eexists; vm_compute; reflexivity).
  specialize (H W). cbv zeta in H.
  match type of H with ?A -> ?B -> _ =>
    assert (H1 : A) by (vm_compute; do 2 right; left; reflexivity);
    assert (H2 : B) by (vm_compute; reflexivity) end.
  specialize (H H1 H2). clear H1 H2. destruct H as [data H].
  vm_compute in H. repeat (destruct H as [H|H]; [discriminate|]). exact H.
Qed.

(* (2) A forged MID in the OTHER side's outbox.  B (slave, it sends first) offers one proposal
   whose MID is "X 1 2 0<CR>FF<CR>FS +<CR>F".  On the wire its proposal line reads, for A,
   as the lines "FC EM X 1 2 0", "FF" (B has nothing more: A's turn), then -- while A waits for
   the answer to its own proposal of ABC -- "FS +" (accept) and, at the peek, an 'F'.  A
   transfers ABC and reports it sent; B, which is waiting for the answer to ITS proposal, reads
   A's proposal instead, fails, and has stored nothing.  No link failure is involved (k large). *)
Definition cx_bad_mid_prop : oprop :=
  {| o_mid := [88;32;49;32;50;32;48;13;70;70;13;70;83;32;43;13;70]; o_title := [116]; o_plain_title := [116];
     o_size := 50; o_cdata := cx_cdata |}.
Definition cx_mid_step (i : bytes) : bytes :=
  x_wire (exchange (cx_side false [cx_bad_mid_prop] [] []) (x_wire (exchange (cx_side true [cx_prop] [] []) i))).

Example two_party_safety_corrected_is_false_mid : ~ two_party_safety_corrected.
Proof.
  intros H.
  pose (a := cx_side true [cx_prop] [] []). pose (b := cx_side false [cx_bad_mid_prop] [] []).
  specialize (H a b (cx_mid_step (cx_mid_step (cx_mid_step []))) 1000%nat [65;66;67] eq_refl).
  assert (W : outbox_wf (c_handler a)) by (intros p [<-|[]]; eexists; vm_compute; reflexivity).
  specialize (H W). cbv zeta in H.
  match type of H with ?A -> ?B -> _ =>
    assert (H1 : A) by (vm_compute; do 2 right; left; reflexivity);
    assert (H2 : B) by (vm_compute; reflexivity) end.
  specialize (H H1 H2). clear H1 H2. destruct H as [data H].
  vm_compute in H. repeat (destruct H as [H|H]; [discriminate|]). exact H.
Qed.

(* ================================================================================== *)
(* 11. The statement of CutP (two_party_safety_corrected) with the further hypotheses  *)
(* ================================================================================== *)
(* the hypotheses on the pair that were added to CutP.two_party_safety_corrected:
   the two handshakes are compatible, and the fields of every prepared proposal of BOTH sides
   respect the limits of the wire formats (prop_syn) *)
Definition pair_ok (a b : side_cfg) : Prop :=
  (if c_master a then hs_compat a b else hs_compat b a) /\
  Forall prop_syn (h_outbox (c_handler a)) /\ Forall prop_syn (h_outbox (c_handler b)).

Definition two_party_safety_final : Prop :=
  forall (a b : side_cfg) (in_a : bytes) (k : nat) (mid : bytes),
    c_master a = negb (c_master b) -> outbox_wf (c_handler a) -> pair_ok a b ->
    let oa := exchange a in_a in
    In (EvSetSent mid false) (x_events oa) ->
    in_a = firstn (length in_a) (x_wire (exchange b (firstn k (x_wire oa)))) ->
    exists data, In (EvProcess mid data true) (x_events (exchange b (firstn k (x_wire oa)))).

Theorem two_party_safety_holds : two_party_safety_final.
Proof.
  intros a b in_a k mid Hrole Wf (Hhs&Sa&Sb). apply two_party_safety; try assumption.
  destruct (c_master a); exact Hhs.
Qed.

(* with the handshake hypothesis in syntactic form (PairHs.hs_compat_text): no MOTD, the master's
   greeting ends with the prompt, and every handshake field of both sides is printable text *)
Definition pair_text_ok (a b : side_cfg) : Prop :=
  let m := if c_master a then a else b in let s := if c_master a then b else a in
  c_motd m = [] /\ hs_master (c_hs m) = true /\ hs_cfg_ok (c_hs m) /\ hs_cfg_ok (c_hs s).

Theorem two_party_safety_text (a b : side_cfg) (in_a : bytes) (k : nat) (mid : bytes) :
  c_master a = negb (c_master b) -> pair_text_ok a b ->
  Forall prop_syn (h_outbox (c_handler a)) -> Forall prop_syn (h_outbox (c_handler b)) ->
  outbox_wf (c_handler a) ->
  let oa := exchange a in_a in
  In (EvSetSent mid false) (x_events oa) ->
  in_a = firstn (length in_a) (x_wire (exchange b (firstn k (x_wire oa)))) ->
  exists data, In (EvProcess mid data true) (x_events (exchange b (firstn k (x_wire oa)))).
Proof.
  intros Hrole (Hmo&Hhm&Hom&Hos) Sa Sb Wf. apply two_party_safety; try assumption.
  destruct (c_master a) eqn:Ma.
  - apply hs_compat_text_gen; try assumption. destruct (c_master b); [discriminate|reflexivity].
  - apply hs_compat_text_gen; try assumption. destruct (c_master b); [reflexivity|discriminate].
Qed.

(* ---------- compatible handshakes by computation ---------- *)
Definition hs_check (m s : side_cfg) : bool :=
  match handshake (init_state m []) with       (* fails for lack of input, but has written M *)
  | RFail _ sm0 =>
      let M := wire sm0 in
      match handshake (init_state s M) with
      | ROk ss =>
          match s_in ss with
          | [] => match handshake (init_state m (wire ss ++ [70])) with
                  | ROk sm => beq_bytes (s_in sm) [70] && beq_bytes (wire sm) M
                  | _ => false
                  end
          | _ => false
          end
      | _ => false
      end
  | _ => false
  end.

Lemma hs_check_sound m s : hs_check m s = true -> hs_compat m s.
Proof.
  unfold hs_check. destruct (handshake (init_state m [])) as [|e sm0|]; try discriminate.
  destruct (handshake (init_state s (wire sm0))) as [ss|e2 s2|] eqn:Hs; try discriminate.
  destruct (s_in ss) eqn:Es; try discriminate.
  destruct (handshake (init_state m (wire ss ++ [70]))) as [sm|e3 s3|] eqn:Hm; try discriminate.
  intros H. apply andb_true_iff in H. destruct H as [H1 H2].
  apply beq_bytes_true in H1. apply beq_bytes_true in H2.
  exists (wire sm0), (wire ss), sm, ss. repeat split; try assumption; try reflexivity.
Qed.

(* the sides of CutP's examples *)
Example hs_compat_cx ob1 p1 f1 ob2 p2 f2 : hs_compat (cx_side true ob1 p1 f1) (cx_side false ob2 p2 f2).
Proof. apply hs_check_sound. vm_compute. reflexivity. Qed.

Example cx_prop_syn : prop_syn cx_prop.
Proof.
  unfold prop_syn, mid_ok. cbn [cx_prop o_mid o_cdata].
  assert (L : length cx_cdata = 57%nat) by (vm_compute; reflexivity). rewrite L.
  repeat split; try lia; intros H; cbn in H; intuition discriminate.
Qed.

Example cx_outbox_wf : outbox_wf (c_handler (cx_side false [cx_prop] [] [])).
Proof.
  intros p [<-|[]]. eexists. vm_compute. reflexivity.
Qed.

(* an instance: the slave of CutP's examples (one message, Mid ABC) against the master with an
   empty outbox, for every received byte string, every cut and every MID *)
Example two_party_safety_cx (in_a : bytes) (k : nat) (mid : bytes) :
  let a := cx_side false [cx_prop] [] [] in let b := cx_side true [] [] [] in
  let oa := exchange a in_a in
  In (EvSetSent mid false) (x_events oa) ->
  in_a = firstn (length in_a) (x_wire (exchange b (firstn k (x_wire oa)))) ->
  exists data, In (EvProcess mid data true) (x_events (exchange b (firstn k (x_wire oa)))).
Proof.
  cbv zeta. apply two_party_safety_holds; [reflexivity|apply cx_outbox_wf|].
  split; [apply hs_compat_cx|]. split; [constructor; [apply cx_prop_syn|constructor]|constructor].
Qed.

(* the hypotheses are not vacuous: in the complete exchange of that pair the slave does report
   ABC sent, and its input is what the master wrote *)
Definition cx_step (i : bytes) : bytes :=
  x_wire (exchange (cx_side true [] [] []) (x_wire (exchange (cx_side false [cx_prop] [] []) i))).
Example two_party_safety_cx_nonvacuous :
  let a := cx_side false [cx_prop] [] [] in let b := cx_side true [] [] [] in
  exists in_a k, let oa := exchange a in_a in
    In (EvSetSent [65;66;67] false) (x_events oa) /\
    in_a = firstn (length in_a) (x_wire (exchange b (firstn k (x_wire oa)))).
Proof.
  cbv zeta. exists (cx_step (cx_step (cx_step (cx_step [])))), 1000%nat.
  split; [vm_compute; tauto|vm_compute; reflexivity].
Qed.

Print Assumptions two_party_safety_intact.
Print Assumptions two_party_safety.
Print Assumptions two_party_safety_holds.
Print Assumptions two_party_safety_text.
Print Assumptions two_party_safety_cx.
Print Assumptions two_party_safety_corrected_is_false_motd.
Print Assumptions two_party_safety_corrected_is_false_mid.

(* NOT DONE / POSSIBLE STRENGTHENINGS
   - prop_syn is sufficient, only "no CR in the MIDs of the peer's outbox" is shown necessary
     (section 10b (2)).  The condition "at least 6 bytes" could be dropped with more case analysis
     (a sender with fewer than 6 bytes fails its own turn; for a's outbox it follows from
     outbox_wf); "no space in the MID" and the MaxInt64 limit likewise only make the receiver fail.
   - hs_compat is a semantic hypothesis (checked by computation: hs_check); the syntactic
     sufficient condition PairHs.hs_compat_text needs an empty MOTD.  MOTD lines that are
     harmless (not of the form of a SID, ";FW", ";PQ", not ending in ">") would do as well.
   - Only safety (sent => stored) is proved, not the converse nor "exactly once" (Properties/C01
     delivered_once / sent_once). *)
